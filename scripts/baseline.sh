#!/bin/bash
# Runs the repository's pinned test suite (guard off: the machinery uses no hooks) and
# compares the result with /root/.vp/BASELINE.json stable_pass. Exit 0 iff every
# stable_pass test passes.
set -u
OUT=${1:-/tmp/mm-baseline.$$.json}
cd /repo || exit 2
export GOFLAGS=-mod=mod GOPROXY=off
go test -json -vet=off -count=1 -timeout 25m ./... > "$OUT" 2>/dev/null
python3 - "$OUT" <<'PY'
import json,sys
res={}
for line in open(sys.argv[1]):
    try: e=json.loads(line)
    except Exception: continue
    if e.get('Action') in('pass','fail','skip') and e.get('Test'):
        res[e['Package']+'::'+e['Test']]=e['Action']
b=json.load(open('/root/.vp/BASELINE.json'))
missing=[t for t in b['stable_pass'] if res.get(t)!='pass']
print('tests seen',len(res),'passed',sum(1 for v in res.values() if v=='pass'),'stable_pass',len(b['stable_pass']),'not passing',len(missing))
for t in missing[:40]: print('  NOT-PASS',t,res.get(t))
sys.exit(1 if missing else 0)
PY
rc=$?
[ -z "${1:-}" ] && rm -f "$OUT"
exit $rc
