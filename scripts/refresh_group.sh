#!/bin/bash
# refresh_group.sh gN : refresh a builder group's private copy of /verif (scratch, under /tmp/wk) from the main tree.
g=$1; mkdir -p /tmp/wk/$g
rsync -a --delete --exclude .git --exclude evidence /verif/ /tmp/wk/$g/verif/
[ -d /tmp/wk/$g/repo ] || git -C /repo worktree add --detach /tmp/wk/$g/repo HEAD >/dev/null 2>&1
git -C /tmp/wk/$g/repo checkout -q -- . ; git -C /tmp/wk/$g/repo clean -fdq
rm -rf /tmp/wk/$g/scratch /tmp/wk/$g/out6
echo "$g refreshed: $(git -C /tmp/wk/$g/repo rev-parse --short HEAD)"
