#!/bin/bash
# Runs every registered check (MANIFEST.json quick_cmd or thorough_cmd) against /repo, N at a time.
# Usage: scripts/run_all.sh [quick|thorough] [parallelism]
cd "$(dirname "$0")/.." || exit 2
TIER=${1:-quick}; N=${2:-4}
mkdir -p /tmp/mm-runall
python3 - "$TIER" > /tmp/mm-runall/cmds.txt <<'PY'
import json,sys
m=json.load(open('MANIFEST.json'))
for c in m['checks']:
    print(c['property_id']+'\t'+c[sys.argv[1]+'_cmd'])
PY
run_one() { id=$1; shift; out=$("$@" 2>&1); rc=$?; echo "$out" > /tmp/mm-runall/$id.log; echo "$id exit=$rc $(echo "$out" | tail -1)"; }
export -f run_one
cat /tmp/mm-runall/cmds.txt | while IFS=$'\t' read id cmd; do echo "$id $cmd"; done | xargs -P "$N" -L 1 bash -c 'run_one "$@"' _ | sort
grep -l "^VIOLATION\|CHECKER-ERROR\|UNDECIDED" /tmp/mm-runall/*.log 2>/dev/null | sed 's/^/ATTENTION: /'
