#!/bin/bash
# Confirms a candidate seeded change in a scratch worktree of /repo (outside /repo and /verif):
#   1. patch applies, `go build ./...` succeeds
#   2. the existing tests of the given packages pass with the change (tests that fail on the
#      unmodified tree as well are reported separately)
#   3. the demonstration fails with the change and passes without it
# Usage: confirm_seed.sh <dir with patch.diff + demo_test.go> <demo-dest-path-in-repo> <demo -run regex> <pkg> [pkg...]
# Prints a summary; the scratch worktree is removed afterwards.
set -u
D=$(readlink -f "$1"); DEST=$2; RUN=$3; shift 3; PKGS=("$@")
export GOFLAGS=-mod=mod GOPROXY=off
W=$(mktemp -d /tmp/seedchk.XXXXXX)
git -C /repo worktree add --detach "$W/repo" HEAD >/dev/null 2>&1 || { echo "worktree failed"; exit 2; }
cd "$W/repo"
cleanup() { cd /; git -C /repo worktree remove --force "$W/repo" >/dev/null 2>&1; rm -rf "$W"; }
trap cleanup EXIT
git apply --check "$D/patch.diff" || { echo "RESULT patch-does-not-apply"; exit 1; }
# baseline failures of the packages (unmodified)
base_fail=$(go test -count=1 "${PKGS[@]}" 2>&1 | grep -E '^\s*--- FAIL' | sed -E 's/ \([0-9.]+s\)//' | sort -u)
git apply "$D/patch.diff"
if ! go build ./... 2>&1 | tail -5; then echo "RESULT build-failed"; exit 1; fi
go vet ./... >/dev/null 2>&1 || true
mut_fail=$(go test -count=1 "${PKGS[@]}" 2>&1 | grep -E '^\s*--- FAIL' | sed -E 's/ \([0-9.]+s\)//' | sort -u)
new_fail=$(comm -13 <(echo "$base_fail") <(echo "$mut_fail"))
# flaky tests (fixed ports, timing under load): re-run each newly failing top-level test alone,
# twice, with the change applied; keep only those that fail again both times
if [ -n "$new_fail" ]; then
  still=""
  for t in $(echo "$new_fail" | sed -E 's/^\s*--- FAIL: ([A-Za-z0-9_]+).*/\1/' | sort -u); do
    ok=0
    for k in 1 2; do go test -count=1 -run "^${t}\$" "${PKGS[@]}" >/dev/null 2>&1 && ok=1; done
    [ $ok -eq 0 ] && still="$still --- FAIL: $t"
  done
  new_fail="$still"
fi
cp "$D/demo_test.go" "$DEST"
demo_pkg=./$(dirname "$DEST")
go test -count=1 -run "$RUN" "$demo_pkg" >"$W/demo_with.log" 2>&1; with_rc=$?
git apply -R "$D/patch.diff"
go test -count=1 -run "$RUN" "$demo_pkg" >"$W/demo_without.log" 2>&1; without_rc=$?
rm -f "$DEST"
echo "existing tests newly failing with the change: ${new_fail:-none}"
echo "demo with change: exit $with_rc ($(grep -m1 -E -- '--- FAIL|panic|FAIL' "$W/demo_with.log" | cut -c1-120))"
echo "demo without change: exit $without_rc"
if [ -z "$new_fail" ] && [ $with_rc -ne 0 ] && [ $without_rc -eq 0 ]; then echo "RESULT confirmed"; exit 0; fi
echo "RESULT not-confirmed"; exit 1
