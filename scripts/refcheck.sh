#!/bin/bash
# Runs EVERY check on behaviour-preserving refactorings stored under /verif/refactors/<id>/*.diff
# (produced by independent sub-agents given only a property's text). Each diff is applied to a
# scratch worktree of /repo's HEAD (removed afterwards); every check must stay silent (exit 0).
# Usage: scripts/refcheck.sh [id ...]      Output: id/variant SILENT | ALARM <lines>
cd "$(dirname "$0")/.." || exit 2
V=$(pwd)
W=$(mktemp -d /tmp/refrun.XXXXXX)
git -C /repo worktree add --detach "$W/repo" HEAD >/dev/null 2>&1 || { echo "worktree failed"; exit 2; }
trap 'git -C /repo worktree remove --force "$W/repo" >/dev/null 2>&1; rm -rf "$W"' EXIT
ids=("$@"); [ ${#ids[@]} -eq 0 ] && ids=($(ls refactors 2>/dev/null))
bad=0
for id in "${ids[@]}"; do
  for p in refactors/$id/*.diff; do
    [ -f "$p" ] || continue
    git -C "$W/repo" checkout -q -- . ; git -C "$W/repo" clean -fdq
    if ! git -C "$W/repo" apply "$V/$p" 2>/dev/null; then echo "$id/$(basename $p) PATCH-DOES-NOT-APPLY"; continue; fi
    out=$(VERIF_DIR=$V bin/mmverify checkall --repo "$W/repo" 2>&1); rc=$?
    if [ $rc -eq 0 ]; then echo "$id/$(basename $p) SILENT"
    else bad=$((bad+1)); echo "$id/$(basename $p) ALARM(exit=$rc)"; echo "$out" | grep -E '^(violation:|CHECKER-ERROR|UNDECIDED)' | cut -c1-260 | sed 's/^/    /'; fi
  done
done
exit $([ $bad -eq 0 ] && echo 0 || echo 1)
