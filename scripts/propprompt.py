#!/usr/bin/env python3
"""Prints the property-specific part of a sub-agent prompt: scripts/propprompt.py mut|ref C07
Only the property's public text (title, statement, quantifier, files) is printed - nothing
from the verification machinery."""
import json,sys
kind,pid=sys.argv[1],sys.argv[2]
for l in open('/verif/properties.jsonl'):
    p=json.loads(l)
    if p['id']==pid: break
else: sys.exit('no such property')
base={'mut':'/tmp/mut','ref':'/tmp/ref'}[kind]
print(f"Read {base}/PROMPT.md and follow it exactly. Your ID is {pid} (worktree {base}/{pid}/repo, output {base}/{pid}/out).\n")
print(f'The property (title: "{p["title"]}"):\n"{p["statement"]}"')
print(f'It must hold over: {p["quantifier"]["text"]}')
print('The code it concerns lives mainly in: '+', '.join(p['anchors']['files'])+' (and whatever uses it).')
