#!/bin/bash
# Runs the checks against every seeded property-breaking change under /verif/seeded/<id>/.
# Each patch.diff is applied to a scratch git worktree of /repo's HEAD (outside /repo and /verif,
# removed afterwards; /repo itself is never modified), the quick check of the property it breaks
# (meta.json "property") is run on that tree with --repo, and exit 1 + a VIOLATION line is expected.
# Usage: scripts/seeded.sh [id ...]     (default: all)      env SEEDED_ALL=1: run ALL checks per seed
# Output: id property DETECTED|MISSED first-violation
cd "$(dirname "$0")/.." || exit 2
V=$(pwd)
W=$(mktemp -d /tmp/seedrun.XXXXXX)
git -C /repo worktree add --detach "$W/repo" HEAD >/dev/null 2>&1 || { echo "worktree failed"; exit 2; }
trap 'git -C /repo worktree remove --force "$W/repo" >/dev/null 2>&1; rm -rf "$W"' EXIT
ids=("$@"); [ ${#ids[@]} -eq 0 ] && ids=($(ls seeded))
miss=0
for id in "${ids[@]}"; do
  d=seeded/$id
  [ -f $d/patch.diff ] || continue
  prop=$(python3 -c "import json;print(json.load(open('$d/meta.json'))['property'])")
  git -C "$W/repo" checkout -q -- . ; git -C "$W/repo" clean -fdq
  if ! git -C "$W/repo" apply "$V/$d/patch.diff" 2>/dev/null; then
    echo "$id $prop PATCH-DOES-NOT-APPLY"; miss=$((miss+1)); continue
  fi
  out=$(VERIF_DIR=$V bin/mmverify check --property $prop --tier quick --no-evidence --repo "$W/repo" 2>&1); rc=$?
  first=$(echo "$out" | grep -m1 '^violation:' | cut -c1-220)
  if [ $rc -eq 1 ] && echo "$out" | grep -q '^VIOLATION property='; then
    echo "$id $prop DETECTED $first"
  else
    echo "$id $prop MISSED(exit=$rc) $(echo "$out" | tail -1 | cut -c1-160)"; miss=$((miss+1))
    if [ -n "${SEEDED_ALL:-}" ]; then
      VERIF_DIR=$V bin/mmverify checkall --repo "$W/repo" 2>&1 | grep '^violation:' | cut -c1-200 | sed 's/^/    other-check: /'
    fi
  fi
done
exit $([ $miss -eq 0 ] && echo 0 || echo 1)
