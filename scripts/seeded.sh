#!/bin/bash
# Runs the checks against every seeded property-breaking change under /verif/seeded/<id>/:
# applies patch.diff to /repo, runs the quick check of the property it breaks (meta.json
# "property"), expects exit 1 + a VIOLATION line, and reverts /repo straight afterwards.
# Usage: scripts/seeded.sh [id ...]     (default: all)
# Nothing is ever committed to /repo. Output table: id property result(exit) first-violation
cd "$(dirname "$0")/.." || exit 2
V=$(pwd)
if ! git -C /repo diff --quiet || ! git -C /repo diff --cached --quiet; then
  echo "refusing: /repo has uncommitted changes" >&2; exit 2
fi
ids=("$@"); [ ${#ids[@]} -eq 0 ] && ids=($(ls seeded))
miss=0
for id in "${ids[@]}"; do
  d=seeded/$id
  [ -f $d/patch.diff ] || continue
  prop=$(python3 -c "import json;print(json.load(open('$d/meta.json'))['property'])")
  if ! git -C /repo apply --check $V/$d/patch.diff 2>/dev/null; then
    echo "$id $prop PATCH-DOES-NOT-APPLY"; miss=$((miss+1)); continue
  fi
  git -C /repo apply $V/$d/patch.diff
  out=$(VERIF_DIR=$V bin/mmverify check --property $prop --tier quick --no-evidence 2>&1); rc=$?
  git -C /repo checkout -- . ; git -C /repo clean -fdq -- internal cmd 2>/dev/null
  first=$(echo "$out" | grep -m1 '^violation:' | cut -c1-220)
  if [ $rc -eq 1 ] && echo "$out" | grep -q '^VIOLATION property='; then
    echo "$id $prop DETECTED $first"
  else
    echo "$id $prop MISSED(exit=$rc) $(echo "$out" | tail -1 | cut -c1-160)"; miss=$((miss+1))
  fi
done
exit $([ $miss -eq 0 ] && echo 0 || echo 1)
