#!/bin/bash
# Regenerates docs/SEEDED.md (which check/rule catches which seeded change) and docs/REFACTORS.md
# (all checks on every behaviour-preserving refactoring) from fresh runs against /repo's HEAD.
# Usage: scripts/gen_tables.sh [seeded|refactors|both] [shards]   (default: both, 6 shards; each shard uses its own
# scratch worktree, removed on exit)
cd "$(dirname "$0")/.." || exit 2
what=${1:-both}; N=${2:-6}
mkdir -p docs
T=$(mktemp -d /tmp/gentab.XXXXXX); trap 'rm -rf "$T"' EXIT
shard() { # shard <script> <outprefix> <ids...>
  local script=$1 pre=$2; shift 2; local ids=("$@") n=${#ids[@]} k i
  for ((k=0;k<N;k++)); do
    part=(); for ((i=k;i<n;i+=N)); do part+=("${ids[$i]}"); done
    [ ${#part[@]} -gt 0 ] && ( $script "${part[@]}" > "$T/$pre.$k" 2>&1 ) &
  done; wait
}
if [ "$what" != refactors ]; then
shard scripts/seeded.sh seeded $(ls seeded)
{
echo "# Seeded property-breaking changes and the rule that reports each"
echo
echo "Produced by \`scripts/seeded.sh\` on $(date -u +%F) at /repo $(git -C /repo rev-parse --short HEAD). Every seed was written by an"
echo "independent sub-agent that saw only the property text; each was confirmed (builds, existing tests pass, demo fails"
echo "with the change and passes without) by \`scripts/confirm_seed.sh\`. See seeded/<id>/README.md for what each needs to manifest."
echo "Suffixes a,b = first wave (seen by the rule authors in round 2); c,d = second wave (unseen until rounds 4-5)."
echo
echo "| seed | property | verdict | reporting obligation (first) |"
echo "|---|---|---|---|"
cat "$T"/seeded.* | grep -E '^C[0-9]{2}-[a-z] ' | sort | while read id prop verdict rest; do
  ob=$(echo "$rest" | sed -E 's/^violation: //' | cut -c1-150 | sed 's/|/\\|/g')
  echo "| $id | $prop | $verdict | $ob |"
done
} > docs/SEEDED.md
fi
if [ "$what" != seeded ]; then
shard scripts/refcheck.sh ref $(ls refactors)
{
echo "# Behaviour-preserving refactorings: all 39 checks on each"
echo
echo "Produced by \`scripts/refcheck.sh\` on $(date -u +%F). Each diff under refactors/<Cnn>/ was written by an independent"
echo "sub-agent given only the property text and asked for substantial behaviour-preserving restructurings of the code"
echo "behind that property (see the README.md next to the diffs). SILENT = every check exits 0."
echo
echo '```'
for f in $(ls "$T"/ref.* | sort); do cat $f; done | awk '/^C[0-9][0-9]\//{key=$1} {print key "\t" NR "\t" $0}' | sort -s -k1,1 | cut -f3- | cut -c1-200
echo '```'
} > docs/REFACTORS.md
fi
echo "seeds detected: $(grep -c DETECTED docs/SEEDED.md 2>/dev/null) missed: $(grep -c MISSED docs/SEEDED.md 2>/dev/null); refactorings silent: $(grep -c "diff SILENT" docs/REFACTORS.md 2>/dev/null) alarm: $(grep -c "diff ALARM" docs/REFACTORS.md 2>/dev/null)"
