#!/bin/bash
# Regenerates docs/SEEDED.md (which check/rule catches which seeded change) and docs/REFACTORS.md
# (all checks on every behaviour-preserving refactoring) from fresh runs against /repo's HEAD.
cd "$(dirname "$0")/.." || exit 2
mkdir -p docs
{
echo "# Seeded property-breaking changes and the rule that reports each"
echo
echo "Produced by \`scripts/seeded.sh\` on $(date -u +%F) at /repo $(git -C /repo rev-parse --short HEAD). Every seed was written by an"
echo "independent sub-agent that saw only the property text; each was confirmed (builds, existing tests pass, demo fails"
echo "with the change and passes without) by \`scripts/confirm_seed.sh\`. See seeded/<id>/README.md for what each needs to manifest."
echo
echo "| seed | property | verdict | reporting obligation (first) |"
echo "|---|---|---|---|"
scripts/seeded.sh 2>&1 | while read id prop verdict rest; do
  ob=$(echo "$rest" | sed -E 's/^violation: //' | cut -c1-150 | sed 's/|/\\|/g')
  echo "| $id | $prop | $verdict | $ob |"
done
} > docs/SEEDED.md
{
echo "# Behaviour-preserving refactorings: all 39 checks on each"
echo
echo "Produced by \`scripts/refcheck.sh\` on $(date -u +%F). Each diff under refactors/<Cnn>/ was written by an independent"
echo "sub-agent given only the property text and asked for substantial behaviour-preserving restructurings of the code"
echo "behind that property (see the README.md next to the diffs). SILENT = every check exits 0."
echo
echo '```'
scripts/refcheck.sh 2>&1 | cut -c1-200
echo '```'
} > docs/REFACTORS.md
grep -c DETECTED docs/SEEDED.md; grep -c SILENT docs/REFACTORS.md; grep -c ALARM docs/REFACTORS.md
