#!/usr/bin/env python3
"""ingest_mut.py Cnn [variant...] : confirm the mutant sub-agent's variants in a scratch worktree
(scripts/confirm_seed.sh) and, when confirmed, store them under /verif/seeded/Cnn-<v>/."""
import sys,os,re,json,subprocess,shutil
pid=sys.argv[1]; variants=sys.argv[2:] or ['a','b']
BASE=os.environ.get('MUT_BASE','/tmp/mut')
# wave 2 variants are stored as c,d so ids stay unique
REN={'a':'c','b':'d'} if BASE.endswith('mut2') else ({'a':'e','b':'f'} if BASE.endswith('mut3') else {})
for v in variants:
    src=f'{BASE}/{pid}/out/{v}'
    if not os.path.exists(src+'/patch.diff'):
        print(pid,v,'no patch'); continue
    demo=src+'/demo_test.go'
    if not os.path.exists(demo):
        cands=[f for f in os.listdir(src) if f.endswith('_test.go')]
        if not cands: print(pid,v,'no demo'); continue
        demo=src+'/'+cands[0]; shutil.copy(demo,src+'/demo_test.go'); demo=src+'/demo_test.go'
    first=open(demo).readline()
    m=re.search(r'(internal/[\w/]+/[\w.]+_test\.go|cmd/[\w/.-]+_test\.go)',first)
    body=open(demo).read()
    if not m:
        m=re.search(r'(internal/[\w/]+/[\w.]+_test\.go)',body[:600])
    if not m: print(pid,v,'cannot find demo destination in first line:',first.strip()[:150]); continue
    dest=m.group(1)
    tests=re.findall(r'^func (Test\w+)\(',body,re.M)
    run='^('+'|'.join(tests)+')$'
    pk=set(['./'+os.path.dirname(dest)+'/'])
    for l in open(src+'/patch.diff'):
        mm=re.match(r'\+\+\+ b/(.+)/[^/]+\.go',l)
        if mm: pk.add('./'+mm.group(1)+'/')
    cmd=['/verif/scripts/confirm_seed.sh',src,dest,run]+sorted(pk)
    out=subprocess.run(cmd,capture_output=True,text=True).stdout
    tail='\n'.join(out.strip().split('\n')[-4:])
    ok='RESULT confirmed' in out
    print(pid,v,'CONFIRMED' if ok else 'NOT-CONFIRMED'); 
    if not ok: print(tail); continue
    sv=REN.get(v,v); d=f'/verif/seeded/{pid}-{sv}'; os.makedirs(d,exist_ok=True)
    shutil.copy(src+'/patch.diff',d); shutil.copy(demo,d+'/demo_test.go')
    readme=''
    if os.path.exists(src+'/README.md'):
        shutil.copy(src+'/README.md',d); readme=open(src+'/README.md').read()
    head=subprocess.check_output(['git','-C','/repo','rev-parse','--short','HEAD'],text=True).strip()
    json.dump({"id":f"{pid}-{sv}","property":pid,
      "what_changed_and_what_it_needs":"see README.md (written by the authoring sub-agent): "+' '.join(readme.split())[:700],
      "demo":{"place_at":dest,"run":f"go test -count=1 -run '{run}' ./{os.path.dirname(dest)}/"},
      "confirmed":{"by":' '.join(cmd).replace(src,d),"at_repo_head":head,
        "result":"patch applies; go build ./... ok; existing tests of "+', '.join(sorted(pk))+" show no new failure with the change; demo fails with the change and passes without it",
        "full_suite":"run by the authoring sub-agent (see README.md)"},
      "origin":"independent sub-agent given only the property text and a scratch worktree"},open(d+'/meta.json','w'),indent=1)
