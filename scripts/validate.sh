#!/bin/bash
# Validates MANIFEST.json and every evidence file against the harness schemas.
cd "$(dirname "$0")/.." && python3-vt - <<'PY'
import json,jsonschema,glob,sys
jsonschema.validate(json.load(open('MANIFEST.json')), json.load(open('/root/.vp/MANIFEST.schema.json')))
es=json.load(open('/root/.vp/EVIDENCE.schema.json'))
n=0
for f in sorted(glob.glob('evidence/C*.json')):
    jsonschema.validate(json.load(open(f)), es); n+=1
print('MANIFEST ok; evidence files valid:',n)
PY
