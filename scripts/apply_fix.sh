#!/bin/bash
# apply_fix.sh <patch> <msgfile> : applies one repair to /repo as its own "fix:" commit (after go build + vet of touched pkgs)
set -e
P=$(readlink -f "$1"); M=$(readlink -f "$2")
cd /repo
git diff --quiet && git diff --cached --quiet || { echo "/repo dirty"; exit 2; }
head -1 "$M" | grep -q '^fix:' || { echo "message must start with fix:"; exit 2; }
git apply --index "$P"
export GOFLAGS=-mod=mod GOPROXY=off
go build ./... || { git reset -q --hard; echo BUILD-FAILED; exit 1; }
pk=$(git diff --cached --name-only | xargs -n1 dirname | sort -u | sed 's#^#./#')
for f in $(git diff --cached --name-only); do
  # only complain when the file was gofmt-clean before the patch
  if [ -z "$(git show HEAD:$f 2>/dev/null | gofmt -l 2>/dev/null)" ] && [ -n "$(gofmt -l $f)" ]; then git reset -q --hard; echo "GOFMT $f"; exit 1; fi
done
go test -count=1 $pk 2>&1 | tail -5
git commit -q -F "$M"
git log --oneline | head -1
