#!/bin/bash
# For every seed: run ALL checks on the seeded tree (scratch worktree) and list which properties alarm.
# Output: seed  own-property  alarming-properties...   (off-diagonal alarms need triage: genuine or false alarm)
cd "$(dirname "$0")/.." || exit 2
V=$(pwd)
W=$(mktemp -d /tmp/seedmx.XXXXXX)
git -C /repo worktree add --detach "$W/repo" HEAD >/dev/null 2>&1 || exit 2
trap 'git -C /repo worktree remove --force "$W/repo" >/dev/null 2>&1; rm -rf "$W"' EXIT
ids=("$@"); [ ${#ids[@]} -eq 0 ] && ids=($(ls seeded))
for id in "${ids[@]}"; do
  d=seeded/$id; [ -f $d/patch.diff ] || continue
  prop=$(python3 -c "import json;print(json.load(open('$d/meta.json'))['property'])")
  git -C "$W/repo" checkout -q -- . ; git -C "$W/repo" clean -fdq
  git -C "$W/repo" apply "$V/$d/patch.diff" 2>/dev/null || { echo "$id $prop PATCH-DOES-NOT-APPLY"; continue; }
  out=$(VERIF_DIR=$V bin/mmverify checkall --repo "$W/repo" 2>&1)
  al=$(echo "$out" | grep -E ' exit=[12]$' | awk '{print $1"(" $NF ")"}' | tr '\n' ' ')
  echo "$id $prop :: $al"
  echo "$out" | grep -E '^(violation:|CHECKER-ERROR)' | grep -v " $prop\." | cut -c1-230 | sed 's/^/      /'
done
