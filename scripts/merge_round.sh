#!/bin/bash
# merge_round.sh <group> <props...> : copy a builder group's round-2 files into /verif/checker, rebuild,
# run the group's checks on /repo HEAD and on the seeds of its properties.
set -e
g=$1; shift
cd /verif/checker
cp -r /tmp/wk/$g/${ROUND:-out2}/checker/* . 
mkdir -p /verif/docs/reports && cp /tmp/wk/$g/${ROUND:-out2}/REPORT${RN:-2}.md /verif/docs/reports/${g}_${ROUND:-out2}.md 2>/dev/null || true
export GOFLAGS=-mod=vendor GOPROXY=off
gofmt -l rules kit; go vet ./... && go build -o /verif/bin/mmverify . && echo built
cd /verif
for p in "$@"; do bin/mmverify check --property $p --no-evidence | tail -1; done
seeds=(); for p in "$@"; do for d in seeded/$p-*; do [ -d $d ] && seeds+=($(basename $d)); done; done
scripts/seeded.sh "${seeds[@]}" | cut -c1-160
