// mmverify — static verification of the Muti-Metroo properties.
//
//	mmverify check --property C01 [--tier quick|thorough] [--repo /repo] [--verif /verif]
//	mmverify replay <replay.json>
//	mmverify list
package main

import (
	"encoding/json"
	"flag"
	"fmt"
	"os"
	"path/filepath"
	"runtime/debug"
	"strings"

	"mmverify/kit"
	"mmverify/rules"
)

func main() {
	if len(os.Args) < 2 {
		usage()
	}
	switch os.Args[1] {
	case "check":
		os.Exit(cmdCheck(os.Args[2:]))
	case "replay":
		os.Exit(cmdReplay(os.Args[2:]))
	case "checkall":
		os.Exit(cmdCheckAll(os.Args[2:]))
	case "manifest":
		os.Exit(cmdManifest())
	case "list":
		for _, id := range rules.IDs() {
			fmt.Println(id)
		}
	default:
		usage()
	}
}

func usage() {
	fmt.Fprintln(os.Stderr, "usage: mmverify check --property Cnn [--tier quick|thorough] | replay <file> | list")
	os.Exit(2)
}

func verifDir(flagVal string) string {
	if flagVal != "" {
		return flagVal
	}
	if d := os.Getenv("VERIF_DIR"); d != "" {
		return d
	}
	if exe, err := os.Executable(); err == nil {
		d := filepath.Dir(filepath.Dir(exe))
		if _, err := os.Stat(filepath.Join(d, "properties.jsonl")); err == nil {
			return d
		}
	}
	return "/verif"
}

func cmdCheck(args []string) (code int) {
	fs := flag.NewFlagSet("check", flag.ExitOnError)
	prop := fs.String("property", "", "property id")
	tier := fs.String("tier", "", "quick|thorough")
	repo := fs.String("repo", "", "repository directory (default /repo)")
	vdir := fs.String("verif", "", "verif directory (default: parent of the binary's directory)")
	noEvidence := fs.Bool("no-evidence", false, "write evidence/replay under a temp dir (self-tests)")
	fs.Parse(args)
	if *tier == "" {
		*tier = os.Getenv("VERIF_TIER")
	}
	if *tier != "thorough" {
		*tier = "quick"
	}
	if *repo != "" {
		kit.RepoDir = *repo
	}
	vd := verifDir(*vdir)
	c := rules.Get(*prop)
	if c == nil {
		fmt.Fprintf(os.Stderr, "unknown property %q\n", *prop)
		return 2
	}
	outDir := vd
	if *noEvidence {
		d, _ := os.MkdirTemp("", "mmverify-out")
		defer os.RemoveAll(d)
		outDir = d
	}
	return runCheck(c, *tier, vd, outDir, nil)
}

// runCheck loads the repository and runs one property. filter, when non-nil, receives the report
// before it is finished (used by replay).
func runCheck(c *rules.Check, tier, vd, outDir string, after func(r *kit.Report)) (code int) {
	r := kit.NewReport(c.ID, tier)
	r.Explain = c.Explain
	known, err := kit.LoadKnown(filepath.Join(vd, "known_findings.json"))
	if err != nil {
		fmt.Printf("CHECKER-ERROR %v\n", err)
		return 2
	}
	defer func() {
		if e := recover(); e != nil {
			fmt.Printf("CHECKER-ERROR property=%s panic: %v\n%s\n", c.ID, e, debug.Stack())
			r.Floor("checker panic: %v", e)
			out := r.Finish(outDir, c.Level, known)
			code = out.ExitCode
			if code == 0 {
				code = 2
			}
		}
	}()
	p, err := kit.Load(kit.LoadConfig{Patterns: c.Patterns})
	if err != nil {
		fmt.Printf("CHECKER-ERROR property=%s %v\n", c.ID, err)
		r.Floor("load: %v", err)
		r.Finish(outDir, c.Level, known)
		return 2
	}
	r.Count("packages_loaded_repo", len(p.RepoPackages()))
	r.Count("functions_in_scope", len(p.RepoFuncs()))
	if len(p.RepoPackages()) == 0 {
		r.Floor("no repository packages loaded")
	}
	c.Run(p, r)
	if tier == "thorough" {
		if c.Thorough != nil {
			c.Thorough(p, r)
		}
		for _, goos := range c.OtherGOOS {
			p2, err := kit.Load(kit.LoadConfig{Patterns: c.Patterns, GOOS: goos})
			if err != nil {
				r.Floor("load GOOS=%s: %v", goos, err)
				continue
			}
			r.Count("packages_loaded_repo_"+goos, len(p2.RepoPackages()))
			if c.RunGOOS != nil {
				c.RunGOOS(p2, r, goos)
			}
		}
	}
	if tier == "thorough" && after == nil {
		runSelfTests(c, r)
	}
	if after != nil {
		after(r)
	}
	out := r.Finish(outDir, c.Level, known)
	return out.ExitCode
}

func cmdReplay(args []string) int {
	if len(args) < 1 {
		usage()
	}
	b, err := os.ReadFile(args[0])
	if err != nil {
		fmt.Fprintln(os.Stderr, err)
		return 2
	}
	var rp struct{ Property, Rule, Key, Pos, Detail string }
	if err := json.Unmarshal(b, &rp); err != nil {
		fmt.Fprintln(os.Stderr, err)
		return 2
	}
	c := rules.Get(rp.Property)
	if c == nil {
		fmt.Fprintf(os.Stderr, "unknown property %q\n", rp.Property)
		return 2
	}
	d, _ := os.MkdirTemp("", "mmverify-replay")
	defer os.RemoveAll(d)
	still := false
	code := runCheck(c, "quick", verifDir(""), d, func(r *kit.Report) {
		for _, o := range r.Obs {
			if o.Rule == rp.Rule && o.Key == rp.Key {
				fmt.Printf("replay: %s %s -> %s at %s: %s\n", o.Rule, o.Key, o.Status, o.Pos, o.Detail)
				if o.Status == kit.Violated {
					still = true
				}
			}
		}
	})
	if still {
		fmt.Printf("replay: obligation %s %s is still violated on the current tree\n", rp.Rule, rp.Key)
		return 1
	}
	fmt.Printf("replay: obligation %s %s is not violated on the current tree (check exit %d)\n", rp.Rule, rp.Key, code)
	return 0
}

func cmdManifest() int {
	vd := verifDir("")
	f, err := os.Open(filepath.Join(vd, "properties.jsonl"))
	if err != nil {
		fmt.Fprintln(os.Stderr, err)
		return 2
	}
	defer f.Close()
	dec := json.NewDecoder(f)
	var checks []any
	var na []any
	var served []string
	for dec.More() {
		var pr struct{ ID, Title string }
		if err := dec.Decode(&pr); err != nil {
			fmt.Fprintln(os.Stderr, err)
			return 2
		}
		c := rules.Get(pr.ID)
		if c == nil {
			reason := rules.NotApplicable[pr.ID]
			if reason == "" {
				reason = "no static rule set is registered for this property yet; nothing is claimed"
			}
			na = append(na, map[string]string{"property_id": pr.ID, "reason": reason})
			continue
		}
		served = append(served, pr.ID)
		tech := c.Technique
		if tech == "" {
			tech = "static analysis over go/ssa (dominance, provenance, lock regions)"
		}
		note := c.Note
		if note == "" {
			note = "Trusted: Go type checker, go/ssa lowering (x/tools v0.29.0), documented semantics of the std/x-crypto calls the rules name. Decides structural necessary conditions on every path of the current source; runtime-quantified residue is listed in DESIGN.md."
		}
		sec := c.Section
		if sec == "" {
			sec = "DESIGN.md §6 " + pr.ID
		}
		checks = append(checks, map[string]any{
			"property_id":         pr.ID,
			"quick_cmd":           "bin/mmverify check --property " + pr.ID + " --tier quick",
			"thorough_cmd":        "bin/mmverify check --property " + pr.ID + " --tier thorough",
			"evidence_file":       "evidence/" + pr.ID + ".json",
			"replay_cmd_template": "bin/mmverify replay {path}",
			"engine":              "mmverify",
			"level_claimed":       map[string]string{"category": c.Level, "text": c.Explain, "design_ref": sec},
			"level_note":          note,
			"technique":           tech,
		})
	}
	m := map[string]any{
		"version":   1,
		"setup_cmd": "cd checker && GOFLAGS=-mod=vendor GOPROXY=off GOWORK=off go build -o ../bin/mmverify .",
		"hooks": map[string]any{
			"guard":            "verif",
			"enable":           "none needed: the checker reads /repo's source; no hook or instrumentation is compiled into the repository (tag 'verif' reserved, unused)",
			"baseline_off_cmd": "scripts/baseline.sh",
			"source_commits":   []string{},
			"add_only":         true,
		},
		"engines": []any{map[string]any{"name": "mmverify", "path": "checker/", "serves_properties": served,
			"kind_free_text": "repository-specific static analyser (go/packages + go/ssa + VTA call graph): dominance/must-pass-through, lock regions, value provenance, field write-sets, finite truth tables, codec schema extraction"}},
		"checks":         checks,
		"not_applicable": na,
		"notes":          "Static analysis only. Exit 0 = every obligation discharged (or listed in known_findings.json, printed as KNOWN-FINDING); exit 1 = VIOLATION; exit 2 = checker cannot see its subject (unresolved anchor / load error).",
	}
	if na == nil {
		m["not_applicable"] = []any{}
	}
	b, _ := json.MarshalIndent(m, "", " ")
	if err := os.WriteFile(filepath.Join(vd, "MANIFEST.json"), append(b, '\n'), 0o644); err != nil {
		fmt.Fprintln(os.Stderr, err)
		return 2
	}
	fmt.Printf("MANIFEST.json: %d checks, %d not_applicable\n", len(checks), len(na))
	return 0
}

// runSelfTests applies each source variant through the overlay and checks that the rule set
// reacts as declared. A failing self-test is a checker error (exit 2), never a VIOLATION.
func runSelfTests(c *rules.Check, r *kit.Report) {
	applied, skipped, failed := 0, 0, 0
	for _, st := range c.SelfTests {
		overlay := map[string][]byte{}
		ok := true
		for _, e := range st.Edits {
			path := filepath.Join(kit.RepoDir, e.File)
			src, have := overlay[path]
			if !have {
				b, err := os.ReadFile(path)
				if err != nil {
					ok = false
					break
				}
				src = b
			}
			if strings.Count(string(src), e.Old) != 1 {
				ok = false
				break
			}
			overlay[path] = []byte(strings.Replace(string(src), e.Old, e.New, 1))
		}
		if !ok {
			skipped++
			r.Note("selftest %q skipped: substitution no longer applies to the current source", st.Name)
			continue
		}
		p2, err := kit.Load(kit.LoadConfig{Patterns: c.Patterns, Overlay: overlay})
		if err != nil {
			skipped++
			r.Note("selftest %q skipped: variant does not type-check: %v", st.Name, firstLine(err.Error()))
			continue
		}
		applied++
		r2 := kit.NewReport(c.ID, "selftest")
		func() {
			defer func() {
				if e := recover(); e != nil {
					r2.Floor("panic: %v", e)
				}
			}()
			c.Run(p2, r2)
		}()
		hit := false
		var viol []string
		for _, o := range r2.Obs {
			if o.Status == kit.Violated {
				viol = append(viol, o.Rule+" "+o.Key)
				if st.ExpectRule != "" && o.Rule == st.ExpectRule && strings.Contains(o.Key, st.ExpectKey) {
					hit = true
				}
			}
		}
		switch {
		case st.ExpectRule != "" && !hit:
			failed++
			r.Floor("selftest mutant %q not detected by %s (violations seen: %v)", st.Name, st.ExpectRule, viol)
		case st.ExpectRule == "" && (len(viol) > 0 || len(r2.Floors) > 0) && !sameViolations(viol, r):
			failed++
			r.Floor("selftest rewrite %q is behaviour-preserving but alarmed: %v %v", st.Name, viol, r2.Floors)
		}
	}
	r.Count("selftests_applied", applied)
	r.Count("selftests_skipped", skipped)
	r.Count("selftests_failed", failed)
}

// sameViolations: a rewrite may only show the violations the unmodified tree shows.
func sameViolations(viol []string, base *kit.Report) bool {
	have := map[string]bool{}
	for _, o := range base.Obs {
		if o.Status == kit.Violated {
			have[o.Rule+" "+o.Key] = true
		}
	}
	for _, v := range viol {
		if !have[v] {
			return false
		}
	}
	return true
}

func firstLine(s string) string {
	if i := strings.Index(s, "\n"); i > 0 {
		return s[:i]
	}
	return s
}

// cmdCheckAll loads the whole repository once and runs every registered check against that
// one program (developer convenience; the registered commands run one property per process).
// Evidence is written only with --evidence.
func cmdCheckAll(args []string) int {
	fs := flag.NewFlagSet("checkall", flag.ExitOnError)
	repo := fs.String("repo", "", "repository directory (default /repo)")
	vdir := fs.String("verif", "", "verif directory")
	evid := fs.Bool("evidence", false, "write evidence files")
	only := fs.String("only", "", "comma-separated property ids")
	fs.Parse(args)
	if *repo != "" {
		kit.RepoDir = *repo
	}
	vd := verifDir(*vdir)
	known, err := kit.LoadKnown(filepath.Join(vd, "known_findings.json"))
	if err != nil {
		fmt.Println(err)
		return 2
	}
	p, err := kit.Load(kit.LoadConfig{})
	if err != nil {
		fmt.Printf("CHECKER-ERROR %v\n", err)
		return 2
	}
	worst := 0
	for _, id := range rules.IDs() {
		if *only != "" && !strings.Contains(","+*only+",", ","+id+",") {
			continue
		}
		c := rules.Get(id)
		r := kit.NewReport(id, "quick")
		r.Explain = c.Explain
		func() {
			defer func() {
				if e := recover(); e != nil {
					r.Floor("checker panic: %v", e)
					fmt.Printf("%s\n", debug.Stack())
				}
			}()
			c.Run(p, r)
		}()
		outDir := vd
		if !*evid {
			d, _ := os.MkdirTemp("", "mmverify-all")
			outDir = d
			defer os.RemoveAll(d)
		}
		out := r.Finish(outDir, c.Level, known)
		if out.ExitCode > worst {
			worst = out.ExitCode
		}
	}
	return worst
}
