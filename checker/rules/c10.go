package rules

import (
	"fmt"
	"go/token"
	"go/types"
	"sort"
	"strings"

	"golang.org/x/tools/go/ssa"

	"mmverify/kit"
)

func init() {
	const tb = "internal/routing/table.go"
	const d = "internal/routing/domain.go"
	const fw = "internal/routing/forward.go"
	const ag = "internal/routing/agent.go"
	const mg = "internal/routing/manager.go"
	const aa = "internal/agent/agent.go"
	const upd = "\t\t\tif route.Sequence > r.Sequence ||\n\t\t\t\t(route.Sequence == r.Sequence && route.Metric < r.Metric) {\n"
	const loop = "\t// Check for routing loops (is our ID in the path?)\n\tfor _, id := range route.Path {\n\t\tif id == t.localID {\n\t\t\treturn false // Loop detected\n\t\t}\n\t}\n"
	register(&Check{
		ID: "C10", Level: "other", Patterns: []string{"./internal/routing", "./internal/agent"},
		Technique: "truth tables by abstract CFG walk over orderings of (sequence, metric), dominance, sibling cross-check over the four tables",
		Explain:   "Decides, for each of the four route tables, by walking one iteration of the existing-entry loop under all nine orderings of (sequence, metric) that a stored entry of the same origin is overwritten exactly when the sequence is newer or equal with a strictly lower metric and that a rejected update writes nothing; that every write introducing a route is dominated by the fall-through of the scan of route.Path against the table's own id; that the disconnect filter drops an entry iff NextHop equals the peer and writes the filtered bucket back for every bucket map; that cleanup keeps every entry whose OriginAgent is the table's own id and drops the others only when older than maxAge; and that the Agent's OnPeerDisconnect handler reaches the disconnect method of every table on every path with the disconnected peer's id. Interleavings between tables are not decided.",
		Run:       runC10,
		SelfTests: []SelfTest{
			{Name: ">= instead of > on the sequence (Table)", ExpectRule: "C10.R1", ExpectKey: "routing.Table)", Edits: []Edit{
				{File: tb, Old: upd, New: "\t\t\tif route.Sequence >= r.Sequence ||\n\t\t\t\t(route.Sequence == r.Sequence && route.Metric < r.Metric) {\n"},
			}},
			{Name: "<= in the metric clause (ForwardTable)", ExpectRule: "C10.R1", ExpectKey: "ForwardTable", Edits: []Edit{
				{File: fw, Old: upd, New: "\t\t\tif route.Sequence > r.Sequence ||\n\t\t\t\t(route.Sequence == r.Sequence && route.Metric <= r.Metric) {\n"},
			}},
			{Name: "better metric wins regardless of sequence (DomainTable)", ExpectRule: "C10.R1", ExpectKey: "DomainTable", Edits: []Edit{
				{File: d, Old: upd, New: "\t\t\tif route.Sequence > r.Sequence || route.Metric < r.Metric {\n"},
			}},
			{Name: "rejected update falls through to append (AgentTable)", ExpectRule: "C10.R1", ExpectKey: "AgentTable", Edits: []Edit{
				{File: ag, Old: "\t\t\t\treturn true\n\t\t\t}\n\t\t\treturn false // Older/worse route\n", New: "\t\t\t\treturn true\n\t\t\t}\n\t\t\tbreak\n"},
			}},
			{Name: "entry identity on NextHop only (Table)", ExpectRule: "C10.R1", ExpectKey: "routing.Table)", Edits: []Edit{
				{File: tb, Old: "\t\tif r.OriginAgent == route.OriginAgent {\n\t\t\t// Update if newer", New: "\t\tif r.NextHop == route.NextHop {\n\t\t\t// Update if newer"},
			}},
			{Name: "always overwrite (ForwardTable)", ExpectRule: "C10.R1", ExpectKey: "ForwardTable", Edits: []Edit{
				{File: fw, Old: upd, New: "\t\t\tif route.Sequence != 0 || r.Sequence == 0 {\n"},
			}},
			{Name: "loop check dropped (DomainTable)", ExpectRule: "C10.R2", ExpectKey: "DomainTable", Edits: []Edit{
				{File: d, Old: loop, New: ""},
			}},
			{Name: "loop check compares the origin instead of the local id (ForwardTable)", ExpectRule: "C10.R2", ExpectKey: "ForwardTable", Edits: []Edit{
				{File: fw, Old: "\t\tif id == t.localID {\n\t\t\treturn false // Loop detected\n", New: "\t\tif id == route.OriginAgent {\n\t\t\treturn false // Loop detected\n"},
			}},
			{Name: "loop check skips the first hop (AgentTable)", ExpectRule: "C10.R2", ExpectKey: "AgentTable", Edits: []Edit{
				{File: ag, Old: "\tfor _, id := range route.Path {\n", New: "\tfor _, id := range route.Path[1:] {\n"},
			}},
			{Name: "loop detected but only logged (Table)", ExpectRule: "C10.R2", ExpectKey: "routing.Table)", Edits: []Edit{
				{File: tb, Old: "\t\tif id == t.localID {\n\t\t\treturn false // Loop detected\n\t\t}\n", New: "\t\tif id == t.localID {\n\t\t\tbreak\n\t\t}\n"},
			}},
			{Name: "filter on OriginAgent instead of NextHop (ForwardTable)", ExpectRule: "C10.R3", ExpectKey: "ForwardTable", Edits: []Edit{
				{File: fw, Old: "\t\t\tif r.NextHop != peerID {\n", New: "\t\t\tif r.OriginAgent != peerID {\n"},
			}},
			{Name: "disconnect filter inverted (Table)", ExpectRule: "C10.R3", ExpectKey: "routing.Table)", Edits: []Edit{
				{File: tb, Old: "\t\t\tif r.NextHop != peerID {\n", New: "\t\t\tif r.NextHop == peerID {\n"},
			}},
			{Name: "filtered bucket not written back (AgentTable)", ExpectRule: "C10.R3", ExpectKey: "AgentTable", Edits: []Edit{
				{File: ag, Old: "\t\t\tdelete(t.routes, agentID)\n\t\t} else {\n\t\t\tt.routes[agentID] = filtered\n\t\t}\n\t}\n\treturn count\n", New: "\t\t\tdelete(t.routes, agentID)\n\t\t}\n\t}\n\treturn count\n"},
			}},
			{Name: "wildcard map skipped on disconnect (DomainTable)", ExpectRule: "C10.R3", ExpectKey: "DomainTable", Edits: []Edit{
				{File: d, Old: "\tcount := 0\n\tfor _, routeMap := range t.allRouteMaps() {\n\t\tcount += filterRoutesFromPeer(routeMap, peerID)\n\t}\n\treturn count\n", New: "\treturn filterRoutesFromPeer(t.exactRoutes, peerID)\n"},
			}},
			{Name: "cleanup exempts nothing (AgentTable)", ExpectRule: "C10.R4", ExpectKey: "AgentTable", Edits: []Edit{
				{File: ag, Old: "\t\t\tif r.OriginAgent == t.localID || now.Sub(r.LastUpdate) <= maxAge {\n", New: "\t\t\tif now.Sub(r.LastUpdate) <= maxAge {\n"},
			}},
			{Name: "cleanup exemption needs freshness too (DomainTable helper)", ExpectRule: "C10.R4", ExpectKey: "cleanupStaleRoutesInMap", Edits: []Edit{
				{File: d, Old: "\t\t\tif r.OriginAgent == localID || now.Sub(r.LastUpdate) <= maxAge {\n", New: "\t\t\tif r.OriginAgent == localID && now.Sub(r.LastUpdate) <= maxAge {\n"},
			}},
			{Name: "cleanup helper called with the wrong id (DomainTable)", ExpectRule: "C10.R4", ExpectKey: "cleanupStaleRoutesInMap", Edits: []Edit{
				{File: d, Old: "\t\tremoved += cleanupStaleRoutesInMap(routeMap, t.localID, now, maxAge)\n", New: "\t\tremoved += cleanupStaleRoutesInMap(routeMap, identity.AgentID{}, now, maxAge)\n"},
			}},
			{Name: "cleanup exempts by NextHop (Table)", ExpectRule: "C10.R4", ExpectKey: "routing.Table)", Edits: []Edit{
				{File: tb, Old: "\t\t\tif r.OriginAgent == t.localID {\n\t\t\t\tkept = append(kept, r)\n", New: "\t\t\tif r.NextHop == t.localID {\n\t\t\t\tkept = append(kept, r)\n"},
			}},
			{Name: "cleanup removes fresh routes, keeps stale (ForwardTable)", ExpectRule: "C10.R4", ExpectKey: "ForwardTable", Edits: []Edit{
				{File: fw, Old: "\t\t\tif r.OriginAgent == t.localID || now.Sub(r.LastUpdate) <= maxAge {\n", New: "\t\t\tif r.OriginAgent == t.localID || now.Sub(r.LastUpdate) > maxAge {\n"},
			}},
			{Name: "agent-table disconnect call dropped from the handler", ExpectRule: "C10.R5", ExpectKey: "AgentTable", Edits: []Edit{
				{File: aa, Old: "\ta.routeMgr.HandlePeerDisconnectAgent(peerID)\n}", New: "}"},
			}},
			{Name: "domain disconnect only on error", ExpectRule: "C10.R5", ExpectKey: "DomainTable", Edits: []Edit{
				{File: aa, Old: "\ta.routeMgr.HandlePeerDisconnectDomain(peerID)\n", New: "\tif err != nil {\n\t\ta.routeMgr.HandlePeerDisconnectDomain(peerID)\n\t}\n"},
			}},
			{Name: "manager wrapper cleans the wrong table", ExpectRule: "C10.R5", ExpectKey: "ForwardTable", Edits: []Edit{
				{File: mg, Old: "\treturn m.forwardTable.RemoveRoutesFromPeer(peerID)\n", New: "\treturn m.agentTable.RemoveRoutesFromPeer(peerID)\n"},
			}},
			{Name: "handler passes the local id", ExpectRule: "C10.R5", ExpectKey: "routing.Table", Edits: []Edit{
				{File: aa, Old: "\ta.routeMgr.HandlePeerDisconnect(peerID)\n", New: "\ta.routeMgr.HandlePeerDisconnect(a.id)\n"},
			}},
			{Name: "round2: lock released between the comparison and the overwrite (ForwardTable)", ExpectRule: "C10.R1", ExpectKey: "ForwardTable", Edits: []Edit{
				{File: fw, Old: "\t\t\t\tcloned := route.Clone()\n\t\t\t\tcloned.LastUpdate = time.Now()\n\t\t\t\tt.routes[key][i] = cloned\n", New: "\t\t\t\tt.mu.Unlock()\n\t\t\t\tcloned := route.Clone()\n\t\t\t\tcloned.LastUpdate = time.Now()\n\t\t\t\tt.mu.Lock()\n\t\t\t\tt.routes[key][i] = cloned\n"},
			}},
			{Name: "round2: decision under RLock in a first pass, overwrite in a second pass (AgentTable)", ExpectRule: "C10.R1", ExpectKey: "AgentTable", Edits: []Edit{
				{File: ag, Old: "\tt.mu.Lock()\n\tdefer t.mu.Unlock()\n\n\tkey := route.AgentID\n", New: "\tkey := route.AgentID\n\tt.mu.RLock()\n\tstale := false\n\tfor _, r := range t.routes[key] {\n\t\tif r.OriginAgent == route.OriginAgent && r.NextHop == route.NextHop {\n\t\t\tstale = !(route.Sequence > r.Sequence || (route.Sequence == r.Sequence && route.Metric < r.Metric))\n\t\t}\n\t}\n\tt.mu.RUnlock()\n\tif stale {\n\t\treturn false\n\t}\n\tt.mu.Lock()\n\tdefer t.mu.Unlock()\n"},
				{File: ag, Old: "\t\t\tif route.Sequence > r.Sequence ||\n\t\t\t\t(route.Sequence == r.Sequence && route.Metric < r.Metric) {\n\t\t\t\tcloned := route.Clone()", New: "\t\t\t{\n\t\t\t\tcloned := route.Clone()"},
				{File: ag, Old: "\t\t\t\treturn true\n\t\t\t}\n\t\t\treturn false // Older/worse route\n", New: "\t\t\t\treturn true\n\t\t\t}\n"},
			}},
			{Name: "round2: in-place refresh of sequence and metric only (AgentTable)", ExpectRule: "C10.R1", ExpectKey: "AgentTable", Edits: []Edit{
				{File: ag, Old: "\t\t\t\tcloned := route.Clone()\n\t\t\t\tcloned.LastUpdate = time.Now()\n\t\t\t\tt.routes[key][i] = cloned\n", New: "\t\t\t\tt.routes[key][i].Metric, r.Sequence, r.LastUpdate = route.Metric, route.Sequence, time.Now()\n"},
			}},
			{Name: "round2: loop check moved to the new-entry branch (DomainTable)", ExpectRule: "C10.R2", ExpectKey: "DomainTable).AddRoute bucket replace", Edits: []Edit{
				{File: d, Old: "\t// Check for routing loops (is our ID in the path?)\n\tfor _, id := range route.Path {\n\t\tif id == t.localID {\n\t\t\treturn false // Loop detected\n\t\t}\n\t}\n", New: ""},
				{File: d, Old: "\t// New route from this origin\n\tcloned := route.Clone()\n\tcloned.LastUpdate = time.Now()\n\ttargetMap[key] = append", New: "\tfor _, id := range route.Path {\n\t\tif id == t.localID {\n\t\t\treturn false\n\t\t}\n\t}\n\tcloned := route.Clone()\n\tcloned.LastUpdate = time.Now()\n\ttargetMap[key] = append"},
			}},
			{Name: "round2: cleanup exemption also requires a local next hop (ForwardTable)", ExpectRule: "C10.R4", ExpectKey: "ForwardTable", Edits: []Edit{
				{File: fw, Old: "\t\t\tif r.OriginAgent == t.localID || now.Sub(r.LastUpdate) <= maxAge {\n", New: "\t\t\tif (r.OriginAgent == t.localID && r.NextHop == t.localID) || now.Sub(r.LastUpdate) <= maxAge {\n"},
			}},
			{Name: "round2: disconnect also drops routes originated by the peer (AgentTable)", ExpectRule: "C10.R3", ExpectKey: "AgentTable", Edits: []Edit{
				{File: ag, Old: "\t\t\tif r.NextHop != peerID {\n", New: "\t\t\tif r.NextHop != peerID && r.OriginAgent != peerID {\n"},
			}},
			{Name: "round2: lock yielded between filtering and write-back (Table)", ExpectRule: "C10.R3", ExpectKey: "routing.Table)", Edits: []Edit{
				{File: tb, Old: "\t\tif len(filtered) == 0 {\n\t\t\tdelete(t.routes, key)\n\t\t} else {\n\t\t\tt.routes[key] = filtered\n\t\t}\n", New: "\t\tt.mu.Unlock() // let lookups in\n\t\tt.mu.Lock()\n\t\tif len(filtered) == 0 {\n\t\t\tdelete(t.routes, key)\n\t\t} else {\n\t\t\tt.routes[key] = filtered\n\t\t}\n"},
			}},
			{Name: "round2: handler skips the cleanup when the peer is already back", ExpectRule: "C10.R5", Edits: []Edit{
				{File: aa, Old: "\t// Clean up routes learned from this peer\n", New: "\tif a.peerMgr.GetPeer(peerID) != nil {\n\t\treturn\n\t}\n\t// Clean up routes learned from this peer\n"},
			}},
			{Name: "round2 rewrite: explicit unlocks instead of defer (ForwardTable.AddRoute)", Edits: []Edit{
				{File: fw, Old: "\tt.mu.Lock()\n\tdefer t.mu.Unlock()\n\n\tkey := route.Key\n", New: "\tt.mu.Lock()\n\n\tkey := route.Key\n"},
				{File: fw, Old: "\t\t\t\tt.sortRoutes(key)\n\t\t\t\treturn true\n\t\t\t}\n\t\t\treturn false // Older/worse route\n", New: "\t\t\t\tt.sortRoutes(key)\n\t\t\t\tt.mu.Unlock()\n\t\t\t\treturn true\n\t\t\t}\n\t\t\tt.mu.Unlock()\n\t\t\treturn false // Older/worse route\n"},
				{File: fw, Old: "\tt.sortRoutes(key)\n\treturn true\n}", New: "\tt.sortRoutes(key)\n\tt.mu.Unlock()\n\treturn true\n}"},
			}},
			{Name: "round3 rewrite: IndexFunc-found slot, early returns, switch-form scalar predicate, slices.Contains", Edits: []Edit{
				{File: tb, Old: "import (\n\t\"fmt\"\n", New: "import (\n\t\"slices\"\n\t\"fmt\"\n"},
				{File: tb, Old: "\t// Check for routing loops (is our ID in the path?)\n\tfor _, id := range route.Path {\n\t\tif id == t.localID {\n\t\t\treturn false // Loop detected\n\t\t}\n\t}\n", New: "\tif slices.Contains(route.Path, t.localID) {\n\t\treturn false\n\t}\n"},
				{File: tb, Old: "\t// Check if we already have a route from this origin\n\texisting := t.routes[key]\n\tfor i, r := range existing {\n\t\tif r.OriginAgent == route.OriginAgent {\n\t\t\t// Update if newer sequence or better metric\n\t\t\tif route.Sequence > r.Sequence ||\n\t\t\t\t(route.Sequence == r.Sequence && route.Metric < r.Metric) {\n\t\t\t\tcloned := route.Clone()\n\t\t\t\tcloned.LastUpdate = now\n\t\t\t\tt.routes[key][i] = cloned\n\t\t\t\tt.sortRoutes(key)\n\t\t\t\treturn true\n\t\t\t}\n\t\t\treturn false // Older/worse route\n\t\t}\n\t}\n\n\t// New route from this origin\n\tcloned := route.Clone()\n\tcloned.LastUpdate = now\n\tt.routes[key] = append(t.routes[key], cloned)\n\tt.sortRoutes(key)\n\treturn true\n}\n", New: "\tbucket := t.routes[key]\n\tslot := slices.IndexFunc(bucket, func(held *Route) bool {\n\t\treturn held.OriginAgent == route.OriginAgent\n\t})\n\n\tif slot >= 0 && !supersedes(route.Sequence, route.Metric, bucket[slot].Sequence, bucket[slot].Metric) {\n\t\treturn false\n\t}\n\n\tstored := route.Clone()\n\tstored.LastUpdate = now\n\tif slot < 0 {\n\t\tt.routes[key] = append(bucket, stored)\n\t} else {\n\t\tbucket[slot] = stored\n\t}\n\tt.sortRoutes(key)\n\treturn true\n}\n\nfunc supersedes(newSeq uint64, newMetric uint16, heldSeq uint64, heldMetric uint16) bool {\n\tswitch {\n\tcase newSeq > heldSeq:\n\t\treturn true\n\tcase newSeq < heldSeq:\n\t\treturn false\n\tdefault:\n\t\treturn heldMetric > newMetric\n\t}\n}\n"},
			}},
			{Name: "round3: IndexFunc form, predicate accepts an equal metric", ExpectRule: "C10.R1", ExpectKey: "routing.Table)", Edits: []Edit{
				{File: tb, Old: "import (\n\t\"fmt\"\n", New: "import (\n\t\"slices\"\n\t\"fmt\"\n"},
				{File: tb, Old: "\t// Check for routing loops (is our ID in the path?)\n\tfor _, id := range route.Path {\n\t\tif id == t.localID {\n\t\t\treturn false // Loop detected\n\t\t}\n\t}\n", New: "\tif slices.Contains(route.Path, t.localID) {\n\t\treturn false\n\t}\n"},
				{File: tb, Old: "\t// Check if we already have a route from this origin\n\texisting := t.routes[key]\n\tfor i, r := range existing {\n\t\tif r.OriginAgent == route.OriginAgent {\n\t\t\t// Update if newer sequence or better metric\n\t\t\tif route.Sequence > r.Sequence ||\n\t\t\t\t(route.Sequence == r.Sequence && route.Metric < r.Metric) {\n\t\t\t\tcloned := route.Clone()\n\t\t\t\tcloned.LastUpdate = now\n\t\t\t\tt.routes[key][i] = cloned\n\t\t\t\tt.sortRoutes(key)\n\t\t\t\treturn true\n\t\t\t}\n\t\t\treturn false // Older/worse route\n\t\t}\n\t}\n\n\t// New route from this origin\n\tcloned := route.Clone()\n\tcloned.LastUpdate = now\n\tt.routes[key] = append(t.routes[key], cloned)\n\tt.sortRoutes(key)\n\treturn true\n}\n", New: "\tbucket := t.routes[key]\n\tslot := slices.IndexFunc(bucket, func(held *Route) bool {\n\t\treturn held.OriginAgent == route.OriginAgent\n\t})\n\n\tif slot >= 0 && !supersedes(route.Sequence, route.Metric, bucket[slot].Sequence, bucket[slot].Metric) {\n\t\treturn false\n\t}\n\n\tstored := route.Clone()\n\tstored.LastUpdate = now\n\tif slot < 0 {\n\t\tt.routes[key] = append(bucket, stored)\n\t} else {\n\t\tbucket[slot] = stored\n\t}\n\tt.sortRoutes(key)\n\treturn true\n}\n\nfunc supersedes(newSeq uint64, newMetric uint16, heldSeq uint64, heldMetric uint16) bool {\n\tswitch {\n\tcase newSeq > heldSeq:\n\t\treturn true\n\tcase newSeq < heldSeq:\n\t\treturn false\n\tdefault:\n\t\treturn heldMetric >= newMetric\n\t}\n}\n"},
			}},
			{Name: "round3: IndexFunc form, slot searched by next hop", ExpectRule: "C10.R1", ExpectKey: "routing.Table)", Edits: []Edit{
				{File: tb, Old: "import (\n\t\"fmt\"\n", New: "import (\n\t\"slices\"\n\t\"fmt\"\n"},
				{File: tb, Old: "\t// Check for routing loops (is our ID in the path?)\n\tfor _, id := range route.Path {\n\t\tif id == t.localID {\n\t\t\treturn false // Loop detected\n\t\t}\n\t}\n", New: "\tif slices.Contains(route.Path, t.localID) {\n\t\treturn false\n\t}\n"},
				{File: tb, Old: "\t// Check if we already have a route from this origin\n\texisting := t.routes[key]\n\tfor i, r := range existing {\n\t\tif r.OriginAgent == route.OriginAgent {\n\t\t\t// Update if newer sequence or better metric\n\t\t\tif route.Sequence > r.Sequence ||\n\t\t\t\t(route.Sequence == r.Sequence && route.Metric < r.Metric) {\n\t\t\t\tcloned := route.Clone()\n\t\t\t\tcloned.LastUpdate = now\n\t\t\t\tt.routes[key][i] = cloned\n\t\t\t\tt.sortRoutes(key)\n\t\t\t\treturn true\n\t\t\t}\n\t\t\treturn false // Older/worse route\n\t\t}\n\t}\n\n\t// New route from this origin\n\tcloned := route.Clone()\n\tcloned.LastUpdate = now\n\tt.routes[key] = append(t.routes[key], cloned)\n\tt.sortRoutes(key)\n\treturn true\n}\n", New: "\tbucket := t.routes[key]\n\tslot := slices.IndexFunc(bucket, func(held *Route) bool {\n\t\treturn held.NextHop == route.NextHop\n\t})\n\n\tif slot >= 0 && !supersedes(route.Sequence, route.Metric, bucket[slot].Sequence, bucket[slot].Metric) {\n\t\treturn false\n\t}\n\n\tstored := route.Clone()\n\tstored.LastUpdate = now\n\tif slot < 0 {\n\t\tt.routes[key] = append(bucket, stored)\n\t} else {\n\t\tbucket[slot] = stored\n\t}\n\tt.sortRoutes(key)\n\treturn true\n}\n\nfunc supersedes(newSeq uint64, newMetric uint16, heldSeq uint64, heldMetric uint16) bool {\n\tswitch {\n\tcase newSeq > heldSeq:\n\t\treturn true\n\tcase newSeq < heldSeq:\n\t\treturn false\n\tdefault:\n\t\treturn heldMetric > newMetric\n\t}\n}\n"},
			}},
			{Name: "round3: IndexFunc form, loop check dropped", ExpectRule: "C10.R2", ExpectKey: "routing.Table)", Edits: []Edit{
				{File: tb, Old: "import (\n\t\"fmt\"\n", New: "import (\n\t\"slices\"\n\t\"fmt\"\n"},
				{File: tb, Old: "\t// Check for routing loops (is our ID in the path?)\n\tfor _, id := range route.Path {\n\t\tif id == t.localID {\n\t\t\treturn false // Loop detected\n\t\t}\n\t}\n", New: "\t_ = slices.Contains(route.Path, t.localID)\n"},
				{File: tb, Old: "\t// Check if we already have a route from this origin\n\texisting := t.routes[key]\n\tfor i, r := range existing {\n\t\tif r.OriginAgent == route.OriginAgent {\n\t\t\t// Update if newer sequence or better metric\n\t\t\tif route.Sequence > r.Sequence ||\n\t\t\t\t(route.Sequence == r.Sequence && route.Metric < r.Metric) {\n\t\t\t\tcloned := route.Clone()\n\t\t\t\tcloned.LastUpdate = now\n\t\t\t\tt.routes[key][i] = cloned\n\t\t\t\tt.sortRoutes(key)\n\t\t\t\treturn true\n\t\t\t}\n\t\t\treturn false // Older/worse route\n\t\t}\n\t}\n\n\t// New route from this origin\n\tcloned := route.Clone()\n\tcloned.LastUpdate = now\n\tt.routes[key] = append(t.routes[key], cloned)\n\tt.sortRoutes(key)\n\treturn true\n}\n", New: "\tbucket := t.routes[key]\n\tslot := slices.IndexFunc(bucket, func(held *Route) bool {\n\t\treturn held.OriginAgent == route.OriginAgent\n\t})\n\n\tif slot >= 0 && !supersedes(route.Sequence, route.Metric, bucket[slot].Sequence, bucket[slot].Metric) {\n\t\treturn false\n\t}\n\n\tstored := route.Clone()\n\tstored.LastUpdate = now\n\tif slot < 0 {\n\t\tt.routes[key] = append(bucket, stored)\n\t} else {\n\t\tbucket[slot] = stored\n\t}\n\tt.sortRoutes(key)\n\treturn true\n}\n\nfunc supersedes(newSeq uint64, newMetric uint16, heldSeq uint64, heldMetric uint16) bool {\n\tswitch {\n\tcase newSeq > heldSeq:\n\t\treturn true\n\tcase newSeq < heldSeq:\n\t\treturn false\n\tdefault:\n\t\treturn heldMetric > newMetric\n\t}\n}\n"},
			}},
			{Name: "round3 rewrite: loop check through a method of the route", Edits: []Edit{
				{File: fw, Old: "\t// Check for routing loops (is our ID in the path?)\n\tfor _, id := range route.Path {\n\t\tif id == t.localID {\n\t\t\treturn false // Loop detected\n\t\t}\n\t}\n", New: "\tif route.passesThrough(t.localID) {\n\t\treturn false\n\t}\n"},
				{File: fw, Old: "// sortRoutes sorts routes for a key by metric (lowest first).\n", New: "func (r *ForwardRoute) passesThrough(id identity.AgentID) bool {\n\tfor _, hop := range r.Path {\n\t\tif hop == id {\n\t\t\treturn true\n\t\t}\n\t}\n\treturn false\n}\n\n// sortRoutes sorts routes for a key by metric (lowest first).\n"},
			}},
			{Name: "round3: route-method loop check asked about the origin", ExpectRule: "C10.R2", ExpectKey: "ForwardTable", Edits: []Edit{
				{File: fw, Old: "\t// Check for routing loops (is our ID in the path?)\n\tfor _, id := range route.Path {\n\t\tif id == t.localID {\n\t\t\treturn false // Loop detected\n\t\t}\n\t}\n", New: "\tif route.passesThrough(route.OriginAgent) {\n\t\treturn false\n\t}\n"},
				{File: fw, Old: "// sortRoutes sorts routes for a key by metric (lowest first).\n", New: "func (r *ForwardRoute) passesThrough(id identity.AgentID) bool {\n\tfor _, hop := range r.Path {\n\t\tif hop == id {\n\t\t\treturn true\n\t\t}\n\t}\n\treturn false\n}\n\n// sortRoutes sorts routes for a key by metric (lowest first).\n"},
			}},
			{Name: "round3b rewrite: upsertLocked with slot search, negated reject rule, single store-and-sort tail; pruneLocked(drop) shared by disconnect and cleanup (C08/c shape)", Edits: []Edit{
				{File: tb, Old: "import (\n\t\"fmt\"\n", New: "import (\n\t\"slices\"\n\t\"fmt\"\n"},
				{File: tb, Old: "// AddRoute adds or updates a route in the table.\n// Returns true if the route was added/updated, false if rejected (e.g., loop detected).\nfunc (t *Table) AddRoute(route *Route) bool {\n\tif route == nil || route.Network == nil {\n\t\treturn false\n\t}\n\n\t// Check for routing loops (is our ID in the path?)\n\tfor _, id := range route.Path {\n\t\tif id == t.localID {\n\t\t\treturn false // Loop detected\n\t\t}\n\t}\n\n\tkey := route.Network.String()\n\tnow := time.Now()\n\n\tt.mu.Lock()\n\tdefer t.mu.Unlock()\n\n\t// Check if we already have a route from this origin\n\texisting := t.routes[key]\n\tfor i, r := range existing {\n\t\tif r.OriginAgent == route.OriginAgent {\n\t\t\t// Update if newer sequence or better metric\n\t\t\tif route.Sequence > r.Sequence ||\n\t\t\t\t(route.Sequence == r.Sequence && route.Metric < r.Metric) {\n\t\t\t\tcloned := route.Clone()\n\t\t\t\tcloned.LastUpdate = now\n\t\t\t\tt.routes[key][i] = cloned\n\t\t\t\tt.sortRoutes(key)\n\t\t\t\treturn true\n\t\t\t}\n\t\t\treturn false // Older/worse route\n\t\t}\n\t}\n\n\t// New route from this origin\n\tcloned := route.Clone()\n\tcloned.LastUpdate = now\n\tt.routes[key] = append(t.routes[key], cloned)\n\tt.sortRoutes(key)\n\treturn true\n}\n\n// sortRoutes sorts routes for a key by metric (lowest first).\nfunc (t *Table) sortRoutes(key string) {\n\troutes := t.routes[key]\n\tsort.Slice(routes, func(i, j int) bool {\n\t\treturn routes[i].Metric < routes[j].Metric\n\t})\n}\n\n// RemoveRoute removes a route from a specific origin.\nfunc (t *Table) RemoveRoute(network *net.IPNet, originAgent identity.AgentID) bool {\n\tif network == nil {\n\t\treturn false\n\t}\n\n\tkey := network.String()\n\n\tt.mu.Lock()\n\tdefer t.mu.Unlock()\n\n\troutes := t.routes[key]\n\tfor i, r := range routes {\n\t\tif r.OriginAgent == originAgent {\n\t\t\t// Remove this route\n\t\t\tt.routes[key] = append(routes[:i], routes[i+1:]...)\n\t\t\tif len(t.routes[key]) == 0 {\n\t\t\t\tdelete(t.routes, key)\n\t\t\t}\n\t\t\treturn true\n\t\t}\n\t}\n\treturn false\n}\n\n// RemoveRoutesFromPeer removes all routes learned from a specific peer.\nfunc (t *Table) RemoveRoutesFromPeer(peerID identity.AgentID) int {\n\tt.mu.Lock()\n\tdefer t.mu.Unlock()\n\n\tcount := 0\n\tfor key, routes := range t.routes {\n\t\tfiltered := routes[:0]\n\t\tfor _, r := range routes {\n\t\t\tif r.NextHop != peerID {\n\t\t\t\tfiltered = append(filtered, r)\n\t\t\t} else {\n\t\t\t\tcount++\n\t\t\t}\n\t\t}\n\t\tif len(filtered) == 0 {\n\t\t\tdelete(t.routes, key)\n\t\t} else {\n\t\t\tt.routes[key] = filtered\n\t\t}\n\t}\n\treturn count\n}\n", New: "// AddRoute adds or updates a route in the table.\n// Returns true if the route was added/updated, false if rejected (e.g., loop detected).\nfunc (t *Table) AddRoute(route *Route) bool {\n\tif route == nil || route.Network == nil {\n\t\treturn false\n\t}\n\n\t// Check for routing loops (is our ID in the path?)\n\tif slices.Index(route.Path, t.localID) != -1 {\n\t\treturn false // Loop detected\n\t}\n\n\tkey := route.Network.String()\n\tnow := time.Now()\n\n\tt.mu.Lock()\n\taccepted := t.upsertLocked(key, route, now)\n\tt.mu.Unlock()\n\n\treturn accepted\n}\n\n// upsertLocked stores a copy of route under key, either replacing the entry of\n// the same origin or appending a new one (caller must hold the write lock).\n// Returns false if the stored entry of that origin is newer or at least as good.\nfunc (t *Table) upsertLocked(key string, route *Route, now time.Time) bool {\n\tbucket := t.routes[key]\n\n\t// Find the slot of this origin; default is the append position\n\tslot := len(bucket)\n\tfor i := range bucket {\n\t\tif bucket[i].OriginAgent == route.OriginAgent {\n\t\t\tslot = i\n\t\t\tbreak\n\t\t}\n\t}\n\tisNewOrigin := slot == len(bucket)\n\n\tif !isNewOrigin {\n\t\t// Update only if newer sequence or better metric\n\t\theld := bucket[slot]\n\t\tif route.Sequence < held.Sequence {\n\t\t\treturn false // Older route\n\t\t}\n\t\tif route.Sequence == held.Sequence && held.Metric <= route.Metric {\n\t\t\treturn false // Same version, not better\n\t\t}\n\t}\n\n\tstored := route.Clone()\n\tstored.LastUpdate = now\n\tif isNewOrigin {\n\t\tbucket = append(bucket, stored)\n\t} else {\n\t\tbucket[slot] = stored\n\t}\n\tt.routes[key] = bucket\n\n\t// Keep the bucket sorted by metric (lowest first)\n\tsort.Slice(bucket, func(i, j int) bool {\n\t\treturn bucket[i].Metric < bucket[j].Metric\n\t})\n\treturn true\n}\n\n// RemoveRoute removes a route from a specific origin.\nfunc (t *Table) RemoveRoute(network *net.IPNet, originAgent identity.AgentID) bool {\n\tif network == nil {\n\t\treturn false\n\t}\n\n\tkey := network.String()\n\n\tt.mu.Lock()\n\tdefer t.mu.Unlock()\n\n\troutes := t.routes[key]\n\tfor i := range routes {\n\t\tif routes[i].OriginAgent != originAgent {\n\t\t\tcontinue\n\t\t}\n\t\t// Remove this route\n\t\tif routes = slices.Delete(routes, i, i+1); len(routes) == 0 {\n\t\t\tdelete(t.routes, key)\n\t\t} else {\n\t\t\tt.routes[key] = routes\n\t\t}\n\t\treturn true\n\t}\n\treturn false\n}\n\n// RemoveRoutesFromPeer removes all routes learned from a specific peer.\nfunc (t *Table) RemoveRoutesFromPeer(peerID identity.AgentID) int {\n\tt.mu.Lock()\n\tcount := t.pruneLocked(func(r *Route) bool {\n\t\treturn r.NextHop == peerID\n\t})\n\tt.mu.Unlock()\n\n\treturn count\n}\n\n// pruneLocked drops every route for which drop returns true, deletes prefixes\n// that end up without routes and returns the number of dropped routes (caller\n// must hold the write lock). The relative order of the remaining routes of a\n// prefix is preserved.\nfunc (t *Table) pruneLocked(drop func(*Route) bool) int {\n\tdropped := 0\n\tfor key, routes := range t.routes {\n\t\tkept := routes[:0]\n\t\tfor _, r := range routes {\n\t\t\tif drop(r) {\n\t\t\t\tdropped++\n\t\t\t\tcontinue\n\t\t\t}\n\t\t\tkept = append(kept, r)\n\t\t}\n\t\tif len(kept) > 0 {\n\t\t\tt.routes[key] = kept\n\t\t} else {\n\t\t\tdelete(t.routes, key)\n\t\t}\n\t}\n\treturn dropped\n}\n"},
				{File: tb, Old: "// CleanupStaleRoutes removes routes that haven't been updated within maxAge.\n// Local routes (where OriginAgent == localID) are never removed.\n// Returns the number of routes removed.\nfunc (t *Table) CleanupStaleRoutes(maxAge time.Duration) int {\n\tt.mu.Lock()\n\tdefer t.mu.Unlock()\n\n\tnow := time.Now()\n\tremoved := 0\n\n\tfor key, routes := range t.routes {\n\t\tvar kept []*Route\n\t\tfor _, r := range routes {\n\t\t\t// Never remove local routes\n\t\t\tif r.OriginAgent == t.localID {\n\t\t\t\tkept = append(kept, r)\n\t\t\t\tcontinue\n\t\t\t}\n\n\t\t\t// Keep routes that are still fresh\n\t\t\tif now.Sub(r.LastUpdate) <= maxAge {\n\t\t\t\tkept = append(kept, r)\n\t\t\t} else {\n\t\t\t\tremoved++\n\t\t\t}\n\t\t}\n\n\t\tif len(kept) > 0 {\n\t\t\tt.routes[key] = kept\n\t\t} else {\n\t\t\tdelete(t.routes, key)\n\t\t}\n\t}\n\n\treturn removed\n}\n", New: "// CleanupStaleRoutes removes routes that haven't been updated within maxAge.\n// Local routes (where OriginAgent == localID) are never removed.\n// Returns the number of routes removed.\nfunc (t *Table) CleanupStaleRoutes(maxAge time.Duration) int {\n\tt.mu.Lock()\n\n\tnow := time.Now()\n\tremoved := t.pruneLocked(func(r *Route) bool {\n\t\t// Never remove local routes; keep remote routes that are still fresh\n\t\treturn r.OriginAgent != t.localID && now.Sub(r.LastUpdate) > maxAge\n\t})\n\n\tt.mu.Unlock()\n\n\treturn removed\n}\n"},
			}},
			{Name: "round3b: negated reject rule lets an equal metric through", ExpectRule: "C10.R1", ExpectKey: "Table", Edits: []Edit{
				{File: tb, Old: "import (\n\t\"fmt\"\n", New: "import (\n\t\"slices\"\n\t\"fmt\"\n"},
				{File: tb, Old: "// AddRoute adds or updates a route in the table.\n// Returns true if the route was added/updated, false if rejected (e.g., loop detected).\nfunc (t *Table) AddRoute(route *Route) bool {\n\tif route == nil || route.Network == nil {\n\t\treturn false\n\t}\n\n\t// Check for routing loops (is our ID in the path?)\n\tfor _, id := range route.Path {\n\t\tif id == t.localID {\n\t\t\treturn false // Loop detected\n\t\t}\n\t}\n\n\tkey := route.Network.String()\n\tnow := time.Now()\n\n\tt.mu.Lock()\n\tdefer t.mu.Unlock()\n\n\t// Check if we already have a route from this origin\n\texisting := t.routes[key]\n\tfor i, r := range existing {\n\t\tif r.OriginAgent == route.OriginAgent {\n\t\t\t// Update if newer sequence or better metric\n\t\t\tif route.Sequence > r.Sequence ||\n\t\t\t\t(route.Sequence == r.Sequence && route.Metric < r.Metric) {\n\t\t\t\tcloned := route.Clone()\n\t\t\t\tcloned.LastUpdate = now\n\t\t\t\tt.routes[key][i] = cloned\n\t\t\t\tt.sortRoutes(key)\n\t\t\t\treturn true\n\t\t\t}\n\t\t\treturn false // Older/worse route\n\t\t}\n\t}\n\n\t// New route from this origin\n\tcloned := route.Clone()\n\tcloned.LastUpdate = now\n\tt.routes[key] = append(t.routes[key], cloned)\n\tt.sortRoutes(key)\n\treturn true\n}\n\n// sortRoutes sorts routes for a key by metric (lowest first).\nfunc (t *Table) sortRoutes(key string) {\n\troutes := t.routes[key]\n\tsort.Slice(routes, func(i, j int) bool {\n\t\treturn routes[i].Metric < routes[j].Metric\n\t})\n}\n\n// RemoveRoute removes a route from a specific origin.\nfunc (t *Table) RemoveRoute(network *net.IPNet, originAgent identity.AgentID) bool {\n\tif network == nil {\n\t\treturn false\n\t}\n\n\tkey := network.String()\n\n\tt.mu.Lock()\n\tdefer t.mu.Unlock()\n\n\troutes := t.routes[key]\n\tfor i, r := range routes {\n\t\tif r.OriginAgent == originAgent {\n\t\t\t// Remove this route\n\t\t\tt.routes[key] = append(routes[:i], routes[i+1:]...)\n\t\t\tif len(t.routes[key]) == 0 {\n\t\t\t\tdelete(t.routes, key)\n\t\t\t}\n\t\t\treturn true\n\t\t}\n\t}\n\treturn false\n}\n\n// RemoveRoutesFromPeer removes all routes learned from a specific peer.\nfunc (t *Table) RemoveRoutesFromPeer(peerID identity.AgentID) int {\n\tt.mu.Lock()\n\tdefer t.mu.Unlock()\n\n\tcount := 0\n\tfor key, routes := range t.routes {\n\t\tfiltered := routes[:0]\n\t\tfor _, r := range routes {\n\t\t\tif r.NextHop != peerID {\n\t\t\t\tfiltered = append(filtered, r)\n\t\t\t} else {\n\t\t\t\tcount++\n\t\t\t}\n\t\t}\n\t\tif len(filtered) == 0 {\n\t\t\tdelete(t.routes, key)\n\t\t} else {\n\t\t\tt.routes[key] = filtered\n\t\t}\n\t}\n\treturn count\n}\n", New: "// AddRoute adds or updates a route in the table.\n// Returns true if the route was added/updated, false if rejected (e.g., loop detected).\nfunc (t *Table) AddRoute(route *Route) bool {\n\tif route == nil || route.Network == nil {\n\t\treturn false\n\t}\n\n\t// Check for routing loops (is our ID in the path?)\n\tif slices.Index(route.Path, t.localID) != -1 {\n\t\treturn false // Loop detected\n\t}\n\n\tkey := route.Network.String()\n\tnow := time.Now()\n\n\tt.mu.Lock()\n\taccepted := t.upsertLocked(key, route, now)\n\tt.mu.Unlock()\n\n\treturn accepted\n}\n\n// upsertLocked stores a copy of route under key, either replacing the entry of\n// the same origin or appending a new one (caller must hold the write lock).\n// Returns false if the stored entry of that origin is newer or at least as good.\nfunc (t *Table) upsertLocked(key string, route *Route, now time.Time) bool {\n\tbucket := t.routes[key]\n\n\t// Find the slot of this origin; default is the append position\n\tslot := len(bucket)\n\tfor i := range bucket {\n\t\tif bucket[i].OriginAgent == route.OriginAgent {\n\t\t\tslot = i\n\t\t\tbreak\n\t\t}\n\t}\n\tisNewOrigin := slot == len(bucket)\n\n\tif !isNewOrigin {\n\t\t// Update only if newer sequence or better metric\n\t\theld := bucket[slot]\n\t\tif route.Sequence < held.Sequence {\n\t\t\treturn false // Older route\n\t\t}\n\t\tif route.Sequence == held.Sequence && held.Metric < route.Metric {\n\t\t\treturn false // Same version, not better\n\t\t}\n\t}\n\n\tstored := route.Clone()\n\tstored.LastUpdate = now\n\tif isNewOrigin {\n\t\tbucket = append(bucket, stored)\n\t} else {\n\t\tbucket[slot] = stored\n\t}\n\tt.routes[key] = bucket\n\n\t// Keep the bucket sorted by metric (lowest first)\n\tsort.Slice(bucket, func(i, j int) bool {\n\t\treturn bucket[i].Metric < bucket[j].Metric\n\t})\n\treturn true\n}\n\n// RemoveRoute removes a route from a specific origin.\nfunc (t *Table) RemoveRoute(network *net.IPNet, originAgent identity.AgentID) bool {\n\tif network == nil {\n\t\treturn false\n\t}\n\n\tkey := network.String()\n\n\tt.mu.Lock()\n\tdefer t.mu.Unlock()\n\n\troutes := t.routes[key]\n\tfor i := range routes {\n\t\tif routes[i].OriginAgent != originAgent {\n\t\t\tcontinue\n\t\t}\n\t\t// Remove this route\n\t\tif routes = slices.Delete(routes, i, i+1); len(routes) == 0 {\n\t\t\tdelete(t.routes, key)\n\t\t} else {\n\t\t\tt.routes[key] = routes\n\t\t}\n\t\treturn true\n\t}\n\treturn false\n}\n\n// RemoveRoutesFromPeer removes all routes learned from a specific peer.\nfunc (t *Table) RemoveRoutesFromPeer(peerID identity.AgentID) int {\n\tt.mu.Lock()\n\tcount := t.pruneLocked(func(r *Route) bool {\n\t\treturn r.NextHop == peerID\n\t})\n\tt.mu.Unlock()\n\n\treturn count\n}\n\n// pruneLocked drops every route for which drop returns true, deletes prefixes\n// that end up without routes and returns the number of dropped routes (caller\n// must hold the write lock). The relative order of the remaining routes of a\n// prefix is preserved.\nfunc (t *Table) pruneLocked(drop func(*Route) bool) int {\n\tdropped := 0\n\tfor key, routes := range t.routes {\n\t\tkept := routes[:0]\n\t\tfor _, r := range routes {\n\t\t\tif drop(r) {\n\t\t\t\tdropped++\n\t\t\t\tcontinue\n\t\t\t}\n\t\t\tkept = append(kept, r)\n\t\t}\n\t\tif len(kept) > 0 {\n\t\t\tt.routes[key] = kept\n\t\t} else {\n\t\t\tdelete(t.routes, key)\n\t\t}\n\t}\n\treturn dropped\n}\n"},
				{File: tb, Old: "// CleanupStaleRoutes removes routes that haven't been updated within maxAge.\n// Local routes (where OriginAgent == localID) are never removed.\n// Returns the number of routes removed.\nfunc (t *Table) CleanupStaleRoutes(maxAge time.Duration) int {\n\tt.mu.Lock()\n\tdefer t.mu.Unlock()\n\n\tnow := time.Now()\n\tremoved := 0\n\n\tfor key, routes := range t.routes {\n\t\tvar kept []*Route\n\t\tfor _, r := range routes {\n\t\t\t// Never remove local routes\n\t\t\tif r.OriginAgent == t.localID {\n\t\t\t\tkept = append(kept, r)\n\t\t\t\tcontinue\n\t\t\t}\n\n\t\t\t// Keep routes that are still fresh\n\t\t\tif now.Sub(r.LastUpdate) <= maxAge {\n\t\t\t\tkept = append(kept, r)\n\t\t\t} else {\n\t\t\t\tremoved++\n\t\t\t}\n\t\t}\n\n\t\tif len(kept) > 0 {\n\t\t\tt.routes[key] = kept\n\t\t} else {\n\t\t\tdelete(t.routes, key)\n\t\t}\n\t}\n\n\treturn removed\n}\n", New: "// CleanupStaleRoutes removes routes that haven't been updated within maxAge.\n// Local routes (where OriginAgent == localID) are never removed.\n// Returns the number of routes removed.\nfunc (t *Table) CleanupStaleRoutes(maxAge time.Duration) int {\n\tt.mu.Lock()\n\n\tnow := time.Now()\n\tremoved := t.pruneLocked(func(r *Route) bool {\n\t\t// Never remove local routes; keep remote routes that are still fresh\n\t\treturn r.OriginAgent != t.localID && now.Sub(r.LastUpdate) > maxAge\n\t})\n\n\tt.mu.Unlock()\n\n\treturn removed\n}\n"},
			}},
			{Name: "round3b: shared prune filter inverted", ExpectRule: "C10.R3", ExpectKey: "Table", Edits: []Edit{
				{File: tb, Old: "import (\n\t\"fmt\"\n", New: "import (\n\t\"slices\"\n\t\"fmt\"\n"},
				{File: tb, Old: "// AddRoute adds or updates a route in the table.\n// Returns true if the route was added/updated, false if rejected (e.g., loop detected).\nfunc (t *Table) AddRoute(route *Route) bool {\n\tif route == nil || route.Network == nil {\n\t\treturn false\n\t}\n\n\t// Check for routing loops (is our ID in the path?)\n\tfor _, id := range route.Path {\n\t\tif id == t.localID {\n\t\t\treturn false // Loop detected\n\t\t}\n\t}\n\n\tkey := route.Network.String()\n\tnow := time.Now()\n\n\tt.mu.Lock()\n\tdefer t.mu.Unlock()\n\n\t// Check if we already have a route from this origin\n\texisting := t.routes[key]\n\tfor i, r := range existing {\n\t\tif r.OriginAgent == route.OriginAgent {\n\t\t\t// Update if newer sequence or better metric\n\t\t\tif route.Sequence > r.Sequence ||\n\t\t\t\t(route.Sequence == r.Sequence && route.Metric < r.Metric) {\n\t\t\t\tcloned := route.Clone()\n\t\t\t\tcloned.LastUpdate = now\n\t\t\t\tt.routes[key][i] = cloned\n\t\t\t\tt.sortRoutes(key)\n\t\t\t\treturn true\n\t\t\t}\n\t\t\treturn false // Older/worse route\n\t\t}\n\t}\n\n\t// New route from this origin\n\tcloned := route.Clone()\n\tcloned.LastUpdate = now\n\tt.routes[key] = append(t.routes[key], cloned)\n\tt.sortRoutes(key)\n\treturn true\n}\n\n// sortRoutes sorts routes for a key by metric (lowest first).\nfunc (t *Table) sortRoutes(key string) {\n\troutes := t.routes[key]\n\tsort.Slice(routes, func(i, j int) bool {\n\t\treturn routes[i].Metric < routes[j].Metric\n\t})\n}\n\n// RemoveRoute removes a route from a specific origin.\nfunc (t *Table) RemoveRoute(network *net.IPNet, originAgent identity.AgentID) bool {\n\tif network == nil {\n\t\treturn false\n\t}\n\n\tkey := network.String()\n\n\tt.mu.Lock()\n\tdefer t.mu.Unlock()\n\n\troutes := t.routes[key]\n\tfor i, r := range routes {\n\t\tif r.OriginAgent == originAgent {\n\t\t\t// Remove this route\n\t\t\tt.routes[key] = append(routes[:i], routes[i+1:]...)\n\t\t\tif len(t.routes[key]) == 0 {\n\t\t\t\tdelete(t.routes, key)\n\t\t\t}\n\t\t\treturn true\n\t\t}\n\t}\n\treturn false\n}\n\n// RemoveRoutesFromPeer removes all routes learned from a specific peer.\nfunc (t *Table) RemoveRoutesFromPeer(peerID identity.AgentID) int {\n\tt.mu.Lock()\n\tdefer t.mu.Unlock()\n\n\tcount := 0\n\tfor key, routes := range t.routes {\n\t\tfiltered := routes[:0]\n\t\tfor _, r := range routes {\n\t\t\tif r.NextHop != peerID {\n\t\t\t\tfiltered = append(filtered, r)\n\t\t\t} else {\n\t\t\t\tcount++\n\t\t\t}\n\t\t}\n\t\tif len(filtered) == 0 {\n\t\t\tdelete(t.routes, key)\n\t\t} else {\n\t\t\tt.routes[key] = filtered\n\t\t}\n\t}\n\treturn count\n}\n", New: "// AddRoute adds or updates a route in the table.\n// Returns true if the route was added/updated, false if rejected (e.g., loop detected).\nfunc (t *Table) AddRoute(route *Route) bool {\n\tif route == nil || route.Network == nil {\n\t\treturn false\n\t}\n\n\t// Check for routing loops (is our ID in the path?)\n\tif slices.Index(route.Path, t.localID) != -1 {\n\t\treturn false // Loop detected\n\t}\n\n\tkey := route.Network.String()\n\tnow := time.Now()\n\n\tt.mu.Lock()\n\taccepted := t.upsertLocked(key, route, now)\n\tt.mu.Unlock()\n\n\treturn accepted\n}\n\n// upsertLocked stores a copy of route under key, either replacing the entry of\n// the same origin or appending a new one (caller must hold the write lock).\n// Returns false if the stored entry of that origin is newer or at least as good.\nfunc (t *Table) upsertLocked(key string, route *Route, now time.Time) bool {\n\tbucket := t.routes[key]\n\n\t// Find the slot of this origin; default is the append position\n\tslot := len(bucket)\n\tfor i := range bucket {\n\t\tif bucket[i].OriginAgent == route.OriginAgent {\n\t\t\tslot = i\n\t\t\tbreak\n\t\t}\n\t}\n\tisNewOrigin := slot == len(bucket)\n\n\tif !isNewOrigin {\n\t\t// Update only if newer sequence or better metric\n\t\theld := bucket[slot]\n\t\tif route.Sequence < held.Sequence {\n\t\t\treturn false // Older route\n\t\t}\n\t\tif route.Sequence == held.Sequence && held.Metric <= route.Metric {\n\t\t\treturn false // Same version, not better\n\t\t}\n\t}\n\n\tstored := route.Clone()\n\tstored.LastUpdate = now\n\tif isNewOrigin {\n\t\tbucket = append(bucket, stored)\n\t} else {\n\t\tbucket[slot] = stored\n\t}\n\tt.routes[key] = bucket\n\n\t// Keep the bucket sorted by metric (lowest first)\n\tsort.Slice(bucket, func(i, j int) bool {\n\t\treturn bucket[i].Metric < bucket[j].Metric\n\t})\n\treturn true\n}\n\n// RemoveRoute removes a route from a specific origin.\nfunc (t *Table) RemoveRoute(network *net.IPNet, originAgent identity.AgentID) bool {\n\tif network == nil {\n\t\treturn false\n\t}\n\n\tkey := network.String()\n\n\tt.mu.Lock()\n\tdefer t.mu.Unlock()\n\n\troutes := t.routes[key]\n\tfor i := range routes {\n\t\tif routes[i].OriginAgent != originAgent {\n\t\t\tcontinue\n\t\t}\n\t\t// Remove this route\n\t\tif routes = slices.Delete(routes, i, i+1); len(routes) == 0 {\n\t\t\tdelete(t.routes, key)\n\t\t} else {\n\t\t\tt.routes[key] = routes\n\t\t}\n\t\treturn true\n\t}\n\treturn false\n}\n\n// RemoveRoutesFromPeer removes all routes learned from a specific peer.\nfunc (t *Table) RemoveRoutesFromPeer(peerID identity.AgentID) int {\n\tt.mu.Lock()\n\tcount := t.pruneLocked(func(r *Route) bool {\n\t\treturn r.NextHop == peerID\n\t})\n\tt.mu.Unlock()\n\n\treturn count\n}\n\n// pruneLocked drops every route for which drop returns true, deletes prefixes\n// that end up without routes and returns the number of dropped routes (caller\n// must hold the write lock). The relative order of the remaining routes of a\n// prefix is preserved.\nfunc (t *Table) pruneLocked(drop func(*Route) bool) int {\n\tdropped := 0\n\tfor key, routes := range t.routes {\n\t\tkept := routes[:0]\n\t\tfor _, r := range routes {\n\t\t\tif !drop(r) {\n\t\t\t\tdropped++\n\t\t\t\tcontinue\n\t\t\t}\n\t\t\tkept = append(kept, r)\n\t\t}\n\t\tif len(kept) > 0 {\n\t\t\tt.routes[key] = kept\n\t\t} else {\n\t\t\tdelete(t.routes, key)\n\t\t}\n\t}\n\treturn dropped\n}\n"},
				{File: tb, Old: "// CleanupStaleRoutes removes routes that haven't been updated within maxAge.\n// Local routes (where OriginAgent == localID) are never removed.\n// Returns the number of routes removed.\nfunc (t *Table) CleanupStaleRoutes(maxAge time.Duration) int {\n\tt.mu.Lock()\n\tdefer t.mu.Unlock()\n\n\tnow := time.Now()\n\tremoved := 0\n\n\tfor key, routes := range t.routes {\n\t\tvar kept []*Route\n\t\tfor _, r := range routes {\n\t\t\t// Never remove local routes\n\t\t\tif r.OriginAgent == t.localID {\n\t\t\t\tkept = append(kept, r)\n\t\t\t\tcontinue\n\t\t\t}\n\n\t\t\t// Keep routes that are still fresh\n\t\t\tif now.Sub(r.LastUpdate) <= maxAge {\n\t\t\t\tkept = append(kept, r)\n\t\t\t} else {\n\t\t\t\tremoved++\n\t\t\t}\n\t\t}\n\n\t\tif len(kept) > 0 {\n\t\t\tt.routes[key] = kept\n\t\t} else {\n\t\t\tdelete(t.routes, key)\n\t\t}\n\t}\n\n\treturn removed\n}\n", New: "// CleanupStaleRoutes removes routes that haven't been updated within maxAge.\n// Local routes (where OriginAgent == localID) are never removed.\n// Returns the number of routes removed.\nfunc (t *Table) CleanupStaleRoutes(maxAge time.Duration) int {\n\tt.mu.Lock()\n\n\tnow := time.Now()\n\tremoved := t.pruneLocked(func(r *Route) bool {\n\t\t// Never remove local routes; keep remote routes that are still fresh\n\t\treturn r.OriginAgent != t.localID && now.Sub(r.LastUpdate) > maxAge\n\t})\n\n\tt.mu.Unlock()\n\n\treturn removed\n}\n"},
			}},
			{Name: "round3b: upsertLocked called without the loop check", ExpectRule: "C10.R2", ExpectKey: "Table", Edits: []Edit{
				{File: tb, Old: "import (\n\t\"fmt\"\n", New: "import (\n\t\"slices\"\n\t\"fmt\"\n"},
				{File: tb, Old: "// AddRoute adds or updates a route in the table.\n// Returns true if the route was added/updated, false if rejected (e.g., loop detected).\nfunc (t *Table) AddRoute(route *Route) bool {\n\tif route == nil || route.Network == nil {\n\t\treturn false\n\t}\n\n\t// Check for routing loops (is our ID in the path?)\n\tfor _, id := range route.Path {\n\t\tif id == t.localID {\n\t\t\treturn false // Loop detected\n\t\t}\n\t}\n\n\tkey := route.Network.String()\n\tnow := time.Now()\n\n\tt.mu.Lock()\n\tdefer t.mu.Unlock()\n\n\t// Check if we already have a route from this origin\n\texisting := t.routes[key]\n\tfor i, r := range existing {\n\t\tif r.OriginAgent == route.OriginAgent {\n\t\t\t// Update if newer sequence or better metric\n\t\t\tif route.Sequence > r.Sequence ||\n\t\t\t\t(route.Sequence == r.Sequence && route.Metric < r.Metric) {\n\t\t\t\tcloned := route.Clone()\n\t\t\t\tcloned.LastUpdate = now\n\t\t\t\tt.routes[key][i] = cloned\n\t\t\t\tt.sortRoutes(key)\n\t\t\t\treturn true\n\t\t\t}\n\t\t\treturn false // Older/worse route\n\t\t}\n\t}\n\n\t// New route from this origin\n\tcloned := route.Clone()\n\tcloned.LastUpdate = now\n\tt.routes[key] = append(t.routes[key], cloned)\n\tt.sortRoutes(key)\n\treturn true\n}\n\n// sortRoutes sorts routes for a key by metric (lowest first).\nfunc (t *Table) sortRoutes(key string) {\n\troutes := t.routes[key]\n\tsort.Slice(routes, func(i, j int) bool {\n\t\treturn routes[i].Metric < routes[j].Metric\n\t})\n}\n\n// RemoveRoute removes a route from a specific origin.\nfunc (t *Table) RemoveRoute(network *net.IPNet, originAgent identity.AgentID) bool {\n\tif network == nil {\n\t\treturn false\n\t}\n\n\tkey := network.String()\n\n\tt.mu.Lock()\n\tdefer t.mu.Unlock()\n\n\troutes := t.routes[key]\n\tfor i, r := range routes {\n\t\tif r.OriginAgent == originAgent {\n\t\t\t// Remove this route\n\t\t\tt.routes[key] = append(routes[:i], routes[i+1:]...)\n\t\t\tif len(t.routes[key]) == 0 {\n\t\t\t\tdelete(t.routes, key)\n\t\t\t}\n\t\t\treturn true\n\t\t}\n\t}\n\treturn false\n}\n\n// RemoveRoutesFromPeer removes all routes learned from a specific peer.\nfunc (t *Table) RemoveRoutesFromPeer(peerID identity.AgentID) int {\n\tt.mu.Lock()\n\tdefer t.mu.Unlock()\n\n\tcount := 0\n\tfor key, routes := range t.routes {\n\t\tfiltered := routes[:0]\n\t\tfor _, r := range routes {\n\t\t\tif r.NextHop != peerID {\n\t\t\t\tfiltered = append(filtered, r)\n\t\t\t} else {\n\t\t\t\tcount++\n\t\t\t}\n\t\t}\n\t\tif len(filtered) == 0 {\n\t\t\tdelete(t.routes, key)\n\t\t} else {\n\t\t\tt.routes[key] = filtered\n\t\t}\n\t}\n\treturn count\n}\n", New: "// AddRoute adds or updates a route in the table.\n// Returns true if the route was added/updated, false if rejected (e.g., loop detected).\nfunc (t *Table) AddRoute(route *Route) bool {\n\tif route == nil || route.Network == nil {\n\t\treturn false\n\t}\n\n\t// Check for routing loops (is our ID in the path?)\n\t_ = slices.Index(route.Path, t.localID)\n\n\tkey := route.Network.String()\n\tnow := time.Now()\n\n\tt.mu.Lock()\n\taccepted := t.upsertLocked(key, route, now)\n\tt.mu.Unlock()\n\n\treturn accepted\n}\n\n// upsertLocked stores a copy of route under key, either replacing the entry of\n// the same origin or appending a new one (caller must hold the write lock).\n// Returns false if the stored entry of that origin is newer or at least as good.\nfunc (t *Table) upsertLocked(key string, route *Route, now time.Time) bool {\n\tbucket := t.routes[key]\n\n\t// Find the slot of this origin; default is the append position\n\tslot := len(bucket)\n\tfor i := range bucket {\n\t\tif bucket[i].OriginAgent == route.OriginAgent {\n\t\t\tslot = i\n\t\t\tbreak\n\t\t}\n\t}\n\tisNewOrigin := slot == len(bucket)\n\n\tif !isNewOrigin {\n\t\t// Update only if newer sequence or better metric\n\t\theld := bucket[slot]\n\t\tif route.Sequence < held.Sequence {\n\t\t\treturn false // Older route\n\t\t}\n\t\tif route.Sequence == held.Sequence && held.Metric <= route.Metric {\n\t\t\treturn false // Same version, not better\n\t\t}\n\t}\n\n\tstored := route.Clone()\n\tstored.LastUpdate = now\n\tif isNewOrigin {\n\t\tbucket = append(bucket, stored)\n\t} else {\n\t\tbucket[slot] = stored\n\t}\n\tt.routes[key] = bucket\n\n\t// Keep the bucket sorted by metric (lowest first)\n\tsort.Slice(bucket, func(i, j int) bool {\n\t\treturn bucket[i].Metric < bucket[j].Metric\n\t})\n\treturn true\n}\n\n// RemoveRoute removes a route from a specific origin.\nfunc (t *Table) RemoveRoute(network *net.IPNet, originAgent identity.AgentID) bool {\n\tif network == nil {\n\t\treturn false\n\t}\n\n\tkey := network.String()\n\n\tt.mu.Lock()\n\tdefer t.mu.Unlock()\n\n\troutes := t.routes[key]\n\tfor i := range routes {\n\t\tif routes[i].OriginAgent != originAgent {\n\t\t\tcontinue\n\t\t}\n\t\t// Remove this route\n\t\tif routes = slices.Delete(routes, i, i+1); len(routes) == 0 {\n\t\t\tdelete(t.routes, key)\n\t\t} else {\n\t\t\tt.routes[key] = routes\n\t\t}\n\t\treturn true\n\t}\n\treturn false\n}\n\n// RemoveRoutesFromPeer removes all routes learned from a specific peer.\nfunc (t *Table) RemoveRoutesFromPeer(peerID identity.AgentID) int {\n\tt.mu.Lock()\n\tcount := t.pruneLocked(func(r *Route) bool {\n\t\treturn r.NextHop == peerID\n\t})\n\tt.mu.Unlock()\n\n\treturn count\n}\n\n// pruneLocked drops every route for which drop returns true, deletes prefixes\n// that end up without routes and returns the number of dropped routes (caller\n// must hold the write lock). The relative order of the remaining routes of a\n// prefix is preserved.\nfunc (t *Table) pruneLocked(drop func(*Route) bool) int {\n\tdropped := 0\n\tfor key, routes := range t.routes {\n\t\tkept := routes[:0]\n\t\tfor _, r := range routes {\n\t\t\tif drop(r) {\n\t\t\t\tdropped++\n\t\t\t\tcontinue\n\t\t\t}\n\t\t\tkept = append(kept, r)\n\t\t}\n\t\tif len(kept) > 0 {\n\t\t\tt.routes[key] = kept\n\t\t} else {\n\t\t\tdelete(t.routes, key)\n\t\t}\n\t}\n\treturn dropped\n}\n"},
				{File: tb, Old: "// CleanupStaleRoutes removes routes that haven't been updated within maxAge.\n// Local routes (where OriginAgent == localID) are never removed.\n// Returns the number of routes removed.\nfunc (t *Table) CleanupStaleRoutes(maxAge time.Duration) int {\n\tt.mu.Lock()\n\tdefer t.mu.Unlock()\n\n\tnow := time.Now()\n\tremoved := 0\n\n\tfor key, routes := range t.routes {\n\t\tvar kept []*Route\n\t\tfor _, r := range routes {\n\t\t\t// Never remove local routes\n\t\t\tif r.OriginAgent == t.localID {\n\t\t\t\tkept = append(kept, r)\n\t\t\t\tcontinue\n\t\t\t}\n\n\t\t\t// Keep routes that are still fresh\n\t\t\tif now.Sub(r.LastUpdate) <= maxAge {\n\t\t\t\tkept = append(kept, r)\n\t\t\t} else {\n\t\t\t\tremoved++\n\t\t\t}\n\t\t}\n\n\t\tif len(kept) > 0 {\n\t\t\tt.routes[key] = kept\n\t\t} else {\n\t\t\tdelete(t.routes, key)\n\t\t}\n\t}\n\n\treturn removed\n}\n", New: "// CleanupStaleRoutes removes routes that haven't been updated within maxAge.\n// Local routes (where OriginAgent == localID) are never removed.\n// Returns the number of routes removed.\nfunc (t *Table) CleanupStaleRoutes(maxAge time.Duration) int {\n\tt.mu.Lock()\n\n\tnow := time.Now()\n\tremoved := t.pruneLocked(func(r *Route) bool {\n\t\t// Never remove local routes; keep remote routes that are still fresh\n\t\treturn r.OriginAgent != t.localID && now.Sub(r.LastUpdate) > maxAge\n\t})\n\n\tt.mu.Unlock()\n\n\treturn removed\n}\n"},
			}},
			{Name: "round3b rewrite: originIndex / sortByMetric / pathHasLoop helpers, isNewer/isCheaper locals (C08/b shape)", Edits: []Edit{
				{File: tb, Old: "import (\n\t\"fmt\"\n", New: "import (\n\t\"slices\"\n\t\"fmt\"\n"},
				{File: tb, Old: "// AddRoute adds or updates a route in the table.\n// Returns true if the route was added/updated, false if rejected (e.g., loop detected).\nfunc (t *Table) AddRoute(route *Route) bool {\n\tif route == nil || route.Network == nil {\n\t\treturn false\n\t}\n\n\t// Check for routing loops (is our ID in the path?)\n\tfor _, id := range route.Path {\n\t\tif id == t.localID {\n\t\t\treturn false // Loop detected\n\t\t}\n\t}\n\n\tkey := route.Network.String()\n\tnow := time.Now()\n\n\tt.mu.Lock()\n\tdefer t.mu.Unlock()\n\n\t// Check if we already have a route from this origin\n\texisting := t.routes[key]\n\tfor i, r := range existing {\n\t\tif r.OriginAgent == route.OriginAgent {\n\t\t\t// Update if newer sequence or better metric\n\t\t\tif route.Sequence > r.Sequence ||\n\t\t\t\t(route.Sequence == r.Sequence && route.Metric < r.Metric) {\n\t\t\t\tcloned := route.Clone()\n\t\t\t\tcloned.LastUpdate = now\n\t\t\t\tt.routes[key][i] = cloned\n\t\t\t\tt.sortRoutes(key)\n\t\t\t\treturn true\n\t\t\t}\n\t\t\treturn false // Older/worse route\n\t\t}\n\t}\n\n\t// New route from this origin\n\tcloned := route.Clone()\n\tcloned.LastUpdate = now\n\tt.routes[key] = append(t.routes[key], cloned)\n\tt.sortRoutes(key)\n\treturn true\n}\n\n// sortRoutes sorts routes for a key by metric (lowest first).\nfunc (t *Table) sortRoutes(key string) {\n\troutes := t.routes[key]\n\tsort.Slice(routes, func(i, j int) bool {\n\t\treturn routes[i].Metric < routes[j].Metric\n\t})\n}\n\n// RemoveRoute removes a route from a specific origin.\nfunc (t *Table) RemoveRoute(network *net.IPNet, originAgent identity.AgentID) bool {\n\tif network == nil {\n\t\treturn false\n\t}\n\n\tkey := network.String()\n\n\tt.mu.Lock()\n\tdefer t.mu.Unlock()\n\n\troutes := t.routes[key]\n\tfor i, r := range routes {\n\t\tif r.OriginAgent == originAgent {\n\t\t\t// Remove this route\n\t\t\tt.routes[key] = append(routes[:i], routes[i+1:]...)\n\t\t\tif len(t.routes[key]) == 0 {\n\t\t\t\tdelete(t.routes, key)\n\t\t\t}\n\t\t\treturn true\n\t\t}\n\t}\n\treturn false\n}\n\n// RemoveRoutesFromPeer removes all routes learned from a specific peer.\nfunc (t *Table) RemoveRoutesFromPeer(peerID identity.AgentID) int {\n\tt.mu.Lock()\n\tdefer t.mu.Unlock()\n\n\tcount := 0\n\tfor key, routes := range t.routes {\n\t\tfiltered := routes[:0]\n\t\tfor _, r := range routes {\n\t\t\tif r.NextHop != peerID {\n\t\t\t\tfiltered = append(filtered, r)\n\t\t\t} else {\n\t\t\t\tcount++\n\t\t\t}\n\t\t}\n\t\tif len(filtered) == 0 {\n\t\t\tdelete(t.routes, key)\n\t\t} else {\n\t\t\tt.routes[key] = filtered\n\t\t}\n\t}\n\treturn count\n}\n", New: "// AddRoute adds or updates a route in the table.\n// Returns true if the route was added/updated, false if rejected (e.g., loop detected).\nfunc (t *Table) AddRoute(route *Route) bool {\n\tif route == nil || route.Network == nil {\n\t\treturn false\n\t}\n\n\tif t.pathHasLoop(route.Path) {\n\t\treturn false // Loop detected\n\t}\n\n\tnow := time.Now()\n\tkey := route.Network.String()\n\n\tt.mu.Lock()\n\tdefer t.mu.Unlock()\n\n\t// Check if we already have a route from this origin\n\tidx := originIndex(t.routes[key], route.OriginAgent)\n\tif idx < 0 {\n\t\t// New route from this origin\n\t\tcloned := route.Clone()\n\t\tcloned.LastUpdate = now\n\t\tt.routes[key] = append(t.routes[key], cloned)\n\t\tsortByMetric(t.routes[key])\n\t\treturn true\n\t}\n\n\t// Update if newer sequence or better metric\n\tprev := t.routes[key][idx]\n\tisNewer := route.Sequence > prev.Sequence\n\tisCheaper := route.Sequence == prev.Sequence && route.Metric < prev.Metric\n\tif !isNewer && !isCheaper {\n\t\treturn false // Older/worse route\n\t}\n\n\tcloned := route.Clone()\n\tcloned.LastUpdate = now\n\tt.routes[key][idx] = cloned\n\tsortByMetric(t.routes[key])\n\treturn true\n}\n\n// pathHasLoop reports whether our own ID already appears in an advertised path.\nfunc (t *Table) pathHasLoop(path []identity.AgentID) bool {\n\tfor _, hop := range path {\n\t\tif hop == t.localID {\n\t\t\treturn true\n\t\t}\n\t}\n\treturn false\n}\n\n// originIndex returns the position of the first route advertised by origin,\n// or -1 if origin has no route in the given slice.\nfunc originIndex(routes []*Route, origin identity.AgentID) int {\n\treturn slices.IndexFunc(routes, func(r *Route) bool {\n\t\treturn r.OriginAgent == origin\n\t})\n}\n\n// sortByMetric sorts routes of one prefix by metric (lowest first).\nfunc sortByMetric(routes []*Route) {\n\tsort.Slice(routes, func(i, j int) bool {\n\t\treturn routes[i].Metric < routes[j].Metric\n\t})\n}\n\n// RemoveRoute removes a route from a specific origin.\nfunc (t *Table) RemoveRoute(network *net.IPNet, originAgent identity.AgentID) bool {\n\tif network == nil {\n\t\treturn false\n\t}\n\n\tkey := network.String()\n\n\tt.mu.Lock()\n\tdefer t.mu.Unlock()\n\n\troutes := t.routes[key]\n\tidx := originIndex(routes, originAgent)\n\tif idx < 0 {\n\t\treturn false\n\t}\n\n\t// Remove this route\n\tt.routes[key] = append(routes[:idx], routes[idx+1:]...)\n\tif len(t.routes[key]) == 0 {\n\t\tdelete(t.routes, key)\n\t}\n\treturn true\n}\n\n// RemoveRoutesFromPeer removes all routes learned from a specific peer.\nfunc (t *Table) RemoveRoutesFromPeer(peerID identity.AgentID) int {\n\tt.mu.Lock()\n\tdefer t.mu.Unlock()\n\n\tcount := 0\n\tfor key, routes := range t.routes {\n\t\tfiltered := routes[:0]\n\t\tfor _, r := range routes {\n\t\t\tif r.NextHop != peerID {\n\t\t\t\tfiltered = append(filtered, r)\n\t\t\t} else {\n\t\t\t\tcount++\n\t\t\t}\n\t\t}\n\t\tif len(filtered) == 0 {\n\t\t\tdelete(t.routes, key)\n\t\t} else {\n\t\t\tt.routes[key] = filtered\n\t\t}\n\t}\n\treturn count\n}\n"},
			}},
			{Name: "round3b rewrite: generic retain helpers, IndexFunc + slices.Delete, supersedes and pathHasLoop helpers (C10/a shape)", Edits: []Edit{
				{File: ag, Old: "import (\n\t\"fmt\"\n", New: "import (\n\t\"slices\"\n\t\"fmt\"\n"},
				{File: ag, Old: "// AddRoute adds or updates an agent presence route in the table.\n// Returns true if the route was added/updated, false if rejected (e.g., loop detected).\nfunc (t *AgentTable) AddRoute(route *AgentRoute) bool {\n\tif route == nil {\n\t\treturn false\n\t}\n\n\t// Check for routing loops (is our ID in the path?)\n\tfor _, id := range route.Path {\n\t\tif id == t.localID {\n\t\t\treturn false // Loop detected\n\t\t}\n\t}\n\n\tt.mu.Lock()\n\tdefer t.mu.Unlock()\n\n\tkey := route.AgentID\n\n\t// Check if we already have a route from this origin via this next hop\n\tfor i, r := range t.routes[key] {\n\t\tif r.OriginAgent == route.OriginAgent && r.NextHop == route.NextHop {\n\t\t\t// Update if newer sequence or better metric\n\t\t\tif route.Sequence > r.Sequence ||\n\t\t\t\t(route.Sequence == r.Sequence && route.Metric < r.Metric) {\n\t\t\t\tcloned := route.Clone()\n\t\t\t\tcloned.LastUpdate = time.Now()\n\t\t\t\tt.routes[key][i] = cloned\n\t\t\t\tt.sortRoutes(key)\n\t\t\t\treturn true\n\t\t\t}\n\t\t\treturn false // Older/worse route\n\t\t}\n\t}\n\n\t// New route from this origin/nexthop\n\tcloned := route.Clone()\n\tcloned.LastUpdate = time.Now()\n\tt.routes[key] = append(t.routes[key], cloned)\n\tt.sortRoutes(key)\n\treturn true\n}\n\n// sortRoutes sorts routes for an agent by metric (lowest first).\nfunc (t *AgentTable) sortRoutes(key identity.AgentID) {\n\troutes := t.routes[key]\n\tsort.Slice(routes, func(i, j int) bool {\n\t\treturn routes[i].Metric < routes[j].Metric\n\t})\n}\n\n// RemoveRoute removes an agent presence route from a specific origin.\nfunc (t *AgentTable) RemoveRoute(agentID, originAgent identity.AgentID) bool {\n\tt.mu.Lock()\n\tdefer t.mu.Unlock()\n\n\troutes := t.routes[agentID]\n\tfor i, r := range routes {\n\t\tif r.OriginAgent == originAgent {\n\t\t\tt.routes[agentID] = append(routes[:i], routes[i+1:]...)\n\t\t\tif len(t.routes[agentID]) == 0 {\n\t\t\t\tdelete(t.routes, agentID)\n\t\t\t}\n\t\t\treturn true\n\t\t}\n\t}\n\treturn false\n}\n\n// RemoveRoutesFromPeer removes all agent routes learned from a specific peer.\nfunc (t *AgentTable) RemoveRoutesFromPeer(peerID identity.AgentID) int {\n\tt.mu.Lock()\n\tdefer t.mu.Unlock()\n\n\tcount := 0\n\tfor agentID, routes := range t.routes {\n\t\tfiltered := routes[:0]\n\t\tfor _, r := range routes {\n\t\t\tif r.NextHop != peerID {\n\t\t\t\tfiltered = append(filtered, r)\n\t\t\t} else {\n\t\t\t\tcount++\n\t\t\t}\n\t\t}\n\t\tif len(filtered) == 0 {\n\t\t\tdelete(t.routes, agentID)\n\t\t} else {\n\t\t\tt.routes[agentID] = filtered\n\t\t}\n\t}\n\treturn count\n}\n", New: "// AddRoute adds or updates an agent presence route in the table.\n// Returns true if the route was added/updated, false if rejected (e.g., loop detected).\nfunc (t *AgentTable) AddRoute(route *AgentRoute) bool {\n\tif route == nil {\n\t\treturn false\n\t}\n\n\t// Check for routing loops (is our ID in the path?)\n\tif pathHasLoop(route.Path, t.localID) {\n\t\treturn false\n\t}\n\n\tt.mu.Lock()\n\tdefer t.mu.Unlock()\n\n\tkey := route.AgentID\n\n\t// Check if we already have a route from this origin via this next hop\n\tbucket := t.routes[key]\n\tidx := slices.IndexFunc(bucket, func(r *AgentRoute) bool {\n\t\treturn r.OriginAgent == route.OriginAgent && r.NextHop == route.NextHop\n\t})\n\tif idx >= 0 {\n\t\t// Update only if newer sequence or better metric\n\t\tstored := bucket[idx]\n\t\tif !supersedes(route.Sequence, route.Metric, stored.Sequence, stored.Metric) {\n\t\t\treturn false // Older/worse route\n\t\t}\n\t}\n\n\tcloned := route.Clone()\n\tcloned.LastUpdate = time.Now()\n\tif idx >= 0 {\n\t\tbucket[idx] = cloned\n\t} else {\n\t\t// New route from this origin/nexthop\n\t\tt.routes[key] = append(bucket, cloned)\n\t}\n\tt.sortRoutes(key)\n\treturn true\n}\n\n// sortRoutes sorts routes for an agent by metric (lowest first).\nfunc (t *AgentTable) sortRoutes(key identity.AgentID) {\n\troutes := t.routes[key]\n\tsort.Slice(routes, func(i, j int) bool {\n\t\treturn routes[i].Metric < routes[j].Metric\n\t})\n}\n\n// RemoveRoute removes an agent presence route from a specific origin.\nfunc (t *AgentTable) RemoveRoute(agentID, originAgent identity.AgentID) bool {\n\tt.mu.Lock()\n\tdefer t.mu.Unlock()\n\n\tbucket := t.routes[agentID]\n\tidx := slices.IndexFunc(bucket, func(r *AgentRoute) bool {\n\t\treturn r.OriginAgent == originAgent\n\t})\n\tif idx < 0 {\n\t\treturn false\n\t}\n\n\tbucket = slices.Delete(bucket, idx, idx+1)\n\tif len(bucket) == 0 {\n\t\tdelete(t.routes, agentID)\n\t} else {\n\t\tt.routes[agentID] = bucket\n\t}\n\treturn true\n}\n\n// RemoveRoutesFromPeer removes all agent routes learned from a specific peer.\nfunc (t *AgentTable) RemoveRoutesFromPeer(peerID identity.AgentID) int {\n\tt.mu.Lock()\n\tdefer t.mu.Unlock()\n\n\tnotViaPeer := func(r *AgentRoute) bool { return r.NextHop != peerID }\n\n\tcount := 0\n\tfor agentID, routes := range t.routes {\n\t\tremaining, dropped := retainInPlace(routes, notViaPeer)\n\t\tcount += dropped\n\t\tif len(remaining) == 0 {\n\t\t\tdelete(t.routes, agentID)\n\t\t} else {\n\t\t\tt.routes[agentID] = remaining\n\t\t}\n\t}\n\treturn count\n}\n\n// pathHasLoop reports whether the local agent already appears in an\n// advertised path, i.e. accepting the route would create a routing loop.\nfunc pathHasLoop(path []identity.AgentID, localID identity.AgentID) bool {\n\treturn slices.Contains(path, localID)\n}\n\n// supersedes reports whether an advertisement carrying (newSeq, newMetric)\n// replaces a stored entry carrying (oldSeq, oldMetric): a newer sequence always\n// wins, the same sequence wins only with a strictly better metric.\nfunc supersedes(newSeq uint64, newMetric uint16, oldSeq uint64, oldMetric uint16) bool {\n\tif newSeq != oldSeq {\n\t\treturn newSeq > oldSeq\n\t}\n\treturn newMetric < oldMetric\n}\n\n// retainInPlace keeps the entries for which keep returns true, reusing the\n// backing array of routes. It returns the kept entries and how many were dropped.\nfunc retainInPlace[R any](routes []R, keep func(R) bool) ([]R, int) {\n\tkept := routes[:0]\n\tdropped := 0\n\tfor _, r := range routes {\n\t\tif keep(r) {\n\t\t\tkept = append(kept, r)\n\t\t} else {\n\t\t\tdropped++\n\t\t}\n\t}\n\treturn kept, dropped\n}\n\n// retainCopy keeps the entries for which keep returns true in a freshly\n// allocated slice (nil when nothing is kept), leaving routes untouched.\n// It returns the kept entries and how many were dropped.\nfunc retainCopy[R any](routes []R, keep func(R) bool) ([]R, int) {\n\tvar kept []R\n\tdropped := 0\n\tfor _, r := range routes {\n\t\tif keep(r) {\n\t\t\tkept = append(kept, r)\n\t\t} else {\n\t\t\tdropped++\n\t\t}\n\t}\n\treturn kept, dropped\n}\n"},
				{File: ag, Old: "// CleanupStaleRoutes removes agent routes that haven't been updated within maxAge.\n// Local routes (where OriginAgent == localID) are never removed.\n// Returns the number of routes removed.\nfunc (t *AgentTable) CleanupStaleRoutes(maxAge time.Duration) int {\n\tt.mu.Lock()\n\tdefer t.mu.Unlock()\n\n\tnow := time.Now()\n\tremoved := 0\n\n\tfor agentID, routes := range t.routes {\n\t\tvar kept []*AgentRoute\n\t\tfor _, r := range routes {\n\t\t\tif r.OriginAgent == t.localID || now.Sub(r.LastUpdate) <= maxAge {\n\t\t\t\tkept = append(kept, r)\n\t\t\t} else {\n\t\t\t\tremoved++\n\t\t\t}\n\t\t}\n\t\tif len(kept) > 0 {\n\t\t\tt.routes[agentID] = kept\n\t\t} else {\n\t\t\tdelete(t.routes, agentID)\n\t\t}\n\t}\n\treturn removed\n}\n", New: "// CleanupStaleRoutes removes agent routes that haven't been updated within maxAge.\n// Local routes (where OriginAgent == localID) are never removed.\n// Returns the number of routes removed.\nfunc (t *AgentTable) CleanupStaleRoutes(maxAge time.Duration) int {\n\tt.mu.Lock()\n\tdefer t.mu.Unlock()\n\n\tnow := time.Now()\n\tlocalOrFresh := func(r *AgentRoute) bool {\n\t\treturn r.OriginAgent == t.localID || now.Sub(r.LastUpdate) <= maxAge\n\t}\n\n\tremoved := 0\n\tfor agentID, routes := range t.routes {\n\t\tkept, dropped := retainCopy(routes, localOrFresh)\n\t\tremoved += dropped\n\t\tif len(kept) > 0 {\n\t\t\tt.routes[agentID] = kept\n\t\t} else {\n\t\t\tdelete(t.routes, agentID)\n\t\t}\n\t}\n\treturn removed\n}\n"},
			}},
			{Name: "round3b: generic retain helper keeps what it should drop", ExpectRule: "C10.R3", ExpectKey: "AgentTable", Edits: []Edit{
				{File: ag, Old: "import (\n\t\"fmt\"\n", New: "import (\n\t\"slices\"\n\t\"fmt\"\n"},
				{File: ag, Old: "// AddRoute adds or updates an agent presence route in the table.\n// Returns true if the route was added/updated, false if rejected (e.g., loop detected).\nfunc (t *AgentTable) AddRoute(route *AgentRoute) bool {\n\tif route == nil {\n\t\treturn false\n\t}\n\n\t// Check for routing loops (is our ID in the path?)\n\tfor _, id := range route.Path {\n\t\tif id == t.localID {\n\t\t\treturn false // Loop detected\n\t\t}\n\t}\n\n\tt.mu.Lock()\n\tdefer t.mu.Unlock()\n\n\tkey := route.AgentID\n\n\t// Check if we already have a route from this origin via this next hop\n\tfor i, r := range t.routes[key] {\n\t\tif r.OriginAgent == route.OriginAgent && r.NextHop == route.NextHop {\n\t\t\t// Update if newer sequence or better metric\n\t\t\tif route.Sequence > r.Sequence ||\n\t\t\t\t(route.Sequence == r.Sequence && route.Metric < r.Metric) {\n\t\t\t\tcloned := route.Clone()\n\t\t\t\tcloned.LastUpdate = time.Now()\n\t\t\t\tt.routes[key][i] = cloned\n\t\t\t\tt.sortRoutes(key)\n\t\t\t\treturn true\n\t\t\t}\n\t\t\treturn false // Older/worse route\n\t\t}\n\t}\n\n\t// New route from this origin/nexthop\n\tcloned := route.Clone()\n\tcloned.LastUpdate = time.Now()\n\tt.routes[key] = append(t.routes[key], cloned)\n\tt.sortRoutes(key)\n\treturn true\n}\n\n// sortRoutes sorts routes for an agent by metric (lowest first).\nfunc (t *AgentTable) sortRoutes(key identity.AgentID) {\n\troutes := t.routes[key]\n\tsort.Slice(routes, func(i, j int) bool {\n\t\treturn routes[i].Metric < routes[j].Metric\n\t})\n}\n\n// RemoveRoute removes an agent presence route from a specific origin.\nfunc (t *AgentTable) RemoveRoute(agentID, originAgent identity.AgentID) bool {\n\tt.mu.Lock()\n\tdefer t.mu.Unlock()\n\n\troutes := t.routes[agentID]\n\tfor i, r := range routes {\n\t\tif r.OriginAgent == originAgent {\n\t\t\tt.routes[agentID] = append(routes[:i], routes[i+1:]...)\n\t\t\tif len(t.routes[agentID]) == 0 {\n\t\t\t\tdelete(t.routes, agentID)\n\t\t\t}\n\t\t\treturn true\n\t\t}\n\t}\n\treturn false\n}\n\n// RemoveRoutesFromPeer removes all agent routes learned from a specific peer.\nfunc (t *AgentTable) RemoveRoutesFromPeer(peerID identity.AgentID) int {\n\tt.mu.Lock()\n\tdefer t.mu.Unlock()\n\n\tcount := 0\n\tfor agentID, routes := range t.routes {\n\t\tfiltered := routes[:0]\n\t\tfor _, r := range routes {\n\t\t\tif r.NextHop != peerID {\n\t\t\t\tfiltered = append(filtered, r)\n\t\t\t} else {\n\t\t\t\tcount++\n\t\t\t}\n\t\t}\n\t\tif len(filtered) == 0 {\n\t\t\tdelete(t.routes, agentID)\n\t\t} else {\n\t\t\tt.routes[agentID] = filtered\n\t\t}\n\t}\n\treturn count\n}\n", New: "// AddRoute adds or updates an agent presence route in the table.\n// Returns true if the route was added/updated, false if rejected (e.g., loop detected).\nfunc (t *AgentTable) AddRoute(route *AgentRoute) bool {\n\tif route == nil {\n\t\treturn false\n\t}\n\n\t// Check for routing loops (is our ID in the path?)\n\tif pathHasLoop(route.Path, t.localID) {\n\t\treturn false\n\t}\n\n\tt.mu.Lock()\n\tdefer t.mu.Unlock()\n\n\tkey := route.AgentID\n\n\t// Check if we already have a route from this origin via this next hop\n\tbucket := t.routes[key]\n\tidx := slices.IndexFunc(bucket, func(r *AgentRoute) bool {\n\t\treturn r.OriginAgent == route.OriginAgent && r.NextHop == route.NextHop\n\t})\n\tif idx >= 0 {\n\t\t// Update only if newer sequence or better metric\n\t\tstored := bucket[idx]\n\t\tif !supersedes(route.Sequence, route.Metric, stored.Sequence, stored.Metric) {\n\t\t\treturn false // Older/worse route\n\t\t}\n\t}\n\n\tcloned := route.Clone()\n\tcloned.LastUpdate = time.Now()\n\tif idx >= 0 {\n\t\tbucket[idx] = cloned\n\t} else {\n\t\t// New route from this origin/nexthop\n\t\tt.routes[key] = append(bucket, cloned)\n\t}\n\tt.sortRoutes(key)\n\treturn true\n}\n\n// sortRoutes sorts routes for an agent by metric (lowest first).\nfunc (t *AgentTable) sortRoutes(key identity.AgentID) {\n\troutes := t.routes[key]\n\tsort.Slice(routes, func(i, j int) bool {\n\t\treturn routes[i].Metric < routes[j].Metric\n\t})\n}\n\n// RemoveRoute removes an agent presence route from a specific origin.\nfunc (t *AgentTable) RemoveRoute(agentID, originAgent identity.AgentID) bool {\n\tt.mu.Lock()\n\tdefer t.mu.Unlock()\n\n\tbucket := t.routes[agentID]\n\tidx := slices.IndexFunc(bucket, func(r *AgentRoute) bool {\n\t\treturn r.OriginAgent == originAgent\n\t})\n\tif idx < 0 {\n\t\treturn false\n\t}\n\n\tbucket = slices.Delete(bucket, idx, idx+1)\n\tif len(bucket) == 0 {\n\t\tdelete(t.routes, agentID)\n\t} else {\n\t\tt.routes[agentID] = bucket\n\t}\n\treturn true\n}\n\n// RemoveRoutesFromPeer removes all agent routes learned from a specific peer.\nfunc (t *AgentTable) RemoveRoutesFromPeer(peerID identity.AgentID) int {\n\tt.mu.Lock()\n\tdefer t.mu.Unlock()\n\n\tnotViaPeer := func(r *AgentRoute) bool { return r.NextHop != peerID }\n\n\tcount := 0\n\tfor agentID, routes := range t.routes {\n\t\tremaining, dropped := retainInPlace(routes, notViaPeer)\n\t\tcount += dropped\n\t\tif len(remaining) == 0 {\n\t\t\tdelete(t.routes, agentID)\n\t\t} else {\n\t\t\tt.routes[agentID] = remaining\n\t\t}\n\t}\n\treturn count\n}\n\n// pathHasLoop reports whether the local agent already appears in an\n// advertised path, i.e. accepting the route would create a routing loop.\nfunc pathHasLoop(path []identity.AgentID, localID identity.AgentID) bool {\n\treturn slices.Contains(path, localID)\n}\n\n// supersedes reports whether an advertisement carrying (newSeq, newMetric)\n// replaces a stored entry carrying (oldSeq, oldMetric): a newer sequence always\n// wins, the same sequence wins only with a strictly better metric.\nfunc supersedes(newSeq uint64, newMetric uint16, oldSeq uint64, oldMetric uint16) bool {\n\tif newSeq != oldSeq {\n\t\treturn newSeq > oldSeq\n\t}\n\treturn newMetric < oldMetric\n}\n\n// retainInPlace keeps the entries for which keep returns true, reusing the\n// backing array of routes. It returns the kept entries and how many were dropped.\nfunc retainInPlace[R any](routes []R, keep func(R) bool) ([]R, int) {\n\tkept := routes[:0]\n\tdropped := 0\n\tfor _, r := range routes {\n\t\tif !keep(r) {\n\t\t\tkept = append(kept, r)\n\t\t} else {\n\t\t\tdropped++\n\t\t}\n\t}\n\treturn kept, dropped\n}\n\n// retainCopy keeps the entries for which keep returns true in a freshly\n// allocated slice (nil when nothing is kept), leaving routes untouched.\n// It returns the kept entries and how many were dropped.\nfunc retainCopy[R any](routes []R, keep func(R) bool) ([]R, int) {\n\tvar kept []R\n\tdropped := 0\n\tfor _, r := range routes {\n\t\tif keep(r) {\n\t\t\tkept = append(kept, r)\n\t\t} else {\n\t\t\tdropped++\n\t\t}\n\t}\n\treturn kept, dropped\n}\n"},
				{File: ag, Old: "// CleanupStaleRoutes removes agent routes that haven't been updated within maxAge.\n// Local routes (where OriginAgent == localID) are never removed.\n// Returns the number of routes removed.\nfunc (t *AgentTable) CleanupStaleRoutes(maxAge time.Duration) int {\n\tt.mu.Lock()\n\tdefer t.mu.Unlock()\n\n\tnow := time.Now()\n\tremoved := 0\n\n\tfor agentID, routes := range t.routes {\n\t\tvar kept []*AgentRoute\n\t\tfor _, r := range routes {\n\t\t\tif r.OriginAgent == t.localID || now.Sub(r.LastUpdate) <= maxAge {\n\t\t\t\tkept = append(kept, r)\n\t\t\t} else {\n\t\t\t\tremoved++\n\t\t\t}\n\t\t}\n\t\tif len(kept) > 0 {\n\t\t\tt.routes[agentID] = kept\n\t\t} else {\n\t\t\tdelete(t.routes, agentID)\n\t\t}\n\t}\n\treturn removed\n}\n", New: "// CleanupStaleRoutes removes agent routes that haven't been updated within maxAge.\n// Local routes (where OriginAgent == localID) are never removed.\n// Returns the number of routes removed.\nfunc (t *AgentTable) CleanupStaleRoutes(maxAge time.Duration) int {\n\tt.mu.Lock()\n\tdefer t.mu.Unlock()\n\n\tnow := time.Now()\n\tlocalOrFresh := func(r *AgentRoute) bool {\n\t\treturn r.OriginAgent == t.localID || now.Sub(r.LastUpdate) <= maxAge\n\t}\n\n\tremoved := 0\n\tfor agentID, routes := range t.routes {\n\t\tkept, dropped := retainCopy(routes, localOrFresh)\n\t\tremoved += dropped\n\t\tif len(kept) > 0 {\n\t\t\tt.routes[agentID] = kept\n\t\t} else {\n\t\t\tdelete(t.routes, agentID)\n\t\t}\n\t}\n\treturn removed\n}\n"},
			}},
			// rewrites
			{Name: "rewrite: operands swapped, !(a<=b), nested ifs", Edits: []Edit{
				{File: tb, Old: upd, New: "\t\t\tif !(route.Sequence <= r.Sequence) ||\n\t\t\t\t(r.Sequence == route.Sequence && r.Metric > route.Metric) {\n"},
				{File: fw, Old: "\t\t\tif route.Sequence > r.Sequence ||\n\t\t\t\t(route.Sequence == r.Sequence && route.Metric < r.Metric) {\n\t\t\t\tcloned := route.Clone()\n\t\t\t\tcloned.LastUpdate = time.Now()\n\t\t\t\tt.routes[key][i] = cloned\n\t\t\t\tt.sortRoutes(key)\n\t\t\t\treturn true\n\t\t\t}\n\t\t\treturn false // Older/worse route\n", New: "\t\t\tif route.Sequence < r.Sequence {\n\t\t\t\treturn false\n\t\t\t}\n\t\t\tif route.Sequence == r.Sequence && route.Metric >= r.Metric {\n\t\t\t\treturn false\n\t\t\t}\n\t\t\tcloned := route.Clone()\n\t\t\tcloned.LastUpdate = time.Now()\n\t\t\tt.routes[key][i] = cloned\n\t\t\tt.sortRoutes(key)\n\t\t\treturn true\n"},
			}},
			{Name: "rewrite: identity test inverted with continue; filter conditions inverted", Edits: []Edit{
				{File: ag, Old: "\t\tif r.OriginAgent == route.OriginAgent && r.NextHop == route.NextHop {\n", New: "\t\tif r.OriginAgent != route.OriginAgent || route.NextHop != r.NextHop {\n\t\t\tcontinue\n\t\t}\n\t\t{\n"},
				{File: tb, Old: "\t\t\tif r.NextHop != peerID {\n\t\t\t\tfiltered = append(filtered, r)\n\t\t\t} else {\n\t\t\t\tcount++\n\t\t\t}\n", New: "\t\t\tif peerID == r.NextHop {\n\t\t\t\tcount++\n\t\t\t\tcontinue\n\t\t\t}\n\t\t\tfiltered = append(filtered, r)\n"},
				{File: fw, Old: "\tnow := time.Now()\n\tremoved := 0\n\n\tfor key, routes := range t.routes {\n\t\tvar kept []*ForwardRoute\n\t\tfor _, r := range routes {\n\t\t\tif r.OriginAgent == t.localID || now.Sub(r.LastUpdate) <= maxAge {\n\t\t\t\tkept = append(kept, r)\n\t\t\t} else {\n\t\t\t\tremoved++\n\t\t\t}\n", New: "\tremoved := 0\n\n\tfor key, routes := range t.routes {\n\t\tvar kept []*ForwardRoute\n\t\tfor _, r := range routes {\n\t\t\tif t.localID != r.OriginAgent && maxAge < time.Since(r.LastUpdate) {\n\t\t\t\tremoved++\n\t\t\t\tcontinue\n\t\t\t}\n\t\t\tkept = append(kept, r)\n"},
			}},
			{Name: "rewrite: loop check through slices.Contains and a helper", Edits: []Edit{
				{File: tb, Old: "import (\n\t\"fmt\"\n", New: "import (\n\t\"slices\"\n\t\"fmt\"\n"},
				{File: tb, Old: loop, New: "\tif slices.Contains(route.Path, t.localID) {\n\t\treturn false\n\t}\n"},
				{File: d, Old: loop, New: "\tif pathHasAgent(t.localID, route.Path) {\n\t\treturn false\n\t}\n"},
				{File: d, Old: "// sortRoutesInMap sorts routes", New: "func pathHasAgent(id identity.AgentID, path []identity.AgentID) bool {\n\tfor i := 0; i < len(path); i++ {\n\t\tif path[i] == id {\n\t\t\treturn true\n\t\t}\n\t}\n\treturn false\n}\n\n// sortRoutesInMap sorts routes"},
			}},
			{Name: "rewrite: disconnect and cleanup through slices.DeleteFunc", Edits: []Edit{
				{File: fw, Old: "import (\n\t\"fmt\"\n", New: "import (\n\t\"slices\"\n\t\"fmt\"\n"},
				{File: fw, Old: "\t\tfiltered := routes[:0]\n\t\tfor _, r := range routes {\n\t\t\tif r.NextHop != peerID {\n\t\t\t\tfiltered = append(filtered, r)\n\t\t\t} else {\n\t\t\t\tcount++\n\t\t\t}\n\t\t}\n", New: "\t\tfiltered := slices.DeleteFunc(routes, func(r *ForwardRoute) bool { return peerID == r.NextHop })\n\t\tcount += len(routes) - len(filtered)\n"},
				{File: fw, Old: "\t\tvar kept []*ForwardRoute\n\t\tfor _, r := range routes {\n\t\t\tif r.OriginAgent == t.localID || now.Sub(r.LastUpdate) <= maxAge {\n\t\t\t\tkept = append(kept, r)\n\t\t\t} else {\n\t\t\t\tremoved++\n\t\t\t}\n\t\t}\n", New: "\t\tkept := slices.DeleteFunc(routes, func(r *ForwardRoute) bool {\n\t\t\tif r.OriginAgent == t.localID {\n\t\t\t\treturn false\n\t\t\t}\n\t\t\treturn now.Sub(r.LastUpdate) > maxAge\n\t\t})\n\t\tremoved += len(routes) - len(kept)\n"},
			}},
			{Name: "DeleteFunc predicate on OriginAgent (ForwardTable)", ExpectRule: "C10.R3", ExpectKey: "ForwardTable", Edits: []Edit{
				{File: fw, Old: "import (\n\t\"fmt\"\n", New: "import (\n\t\"slices\"\n\t\"fmt\"\n"},
				{File: fw, Old: "\t\tfiltered := routes[:0]\n\t\tfor _, r := range routes {\n\t\t\tif r.NextHop != peerID {\n\t\t\t\tfiltered = append(filtered, r)\n\t\t\t} else {\n\t\t\t\tcount++\n\t\t\t}\n\t\t}\n", New: "\t\tfiltered := slices.DeleteFunc(routes, func(r *ForwardRoute) bool { return peerID == r.OriginAgent })\n\t\tcount += len(routes) - len(filtered)\n"},
			}},
			{Name: "rewrite: update rule and disconnect test extracted into predicate helpers", Edits: []Edit{
				{File: tb, Old: upd, New: "\t\t\tif route.supersedes(r) {\n"},
				{File: tb, Old: "// sortRoutes sorts routes for a key by metric (lowest first).\nfunc (t *Table) sortRoutes", New: "func (n *Route) supersedes(old *Route) bool {\n\tif n.Sequence != old.Sequence {\n\t\treturn n.Sequence > old.Sequence\n\t}\n\treturn n.Metric < old.Metric\n}\n\n// sortRoutes sorts routes for a key by metric (lowest first).\nfunc (t *Table) sortRoutes"},
				{File: ag, Old: "\t\t\tif r.NextHop != peerID {\n", New: "\t\t\tif !r.via(peerID) {\n"},
				{File: ag, Old: "// sortRoutes sorts routes for an agent by metric (lowest first).\n", New: "func (r *AgentRoute) via(p identity.AgentID) bool { return r.NextHop == p }\n\n// sortRoutes sorts routes for an agent by metric (lowest first).\n"},
			}},
			{Name: "extracted update predicate accepts equal sequence (Table)", ExpectRule: "C10.R1", ExpectKey: "routing.Table)", Edits: []Edit{
				{File: tb, Old: upd, New: "\t\t\tif route.supersedes(r) {\n"},
				{File: tb, Old: "// sortRoutes sorts routes for a key by metric (lowest first).\nfunc (t *Table) sortRoutes", New: "func (n *Route) supersedes(old *Route) bool {\n\treturn n.Sequence >= old.Sequence || n.Metric < old.Metric\n}\n\n// sortRoutes sorts routes for a key by metric (lowest first).\nfunc (t *Table) sortRoutes"},
			}},
			{Name: "rewrite: insertion extracted into a helper called after the loop check", Edits: []Edit{
				{File: fw, Old: "\t// New route from this origin\n\tcloned := route.Clone()\n\tcloned.LastUpdate = time.Now()\n\tt.routes[key] = append(t.routes[key], cloned)\n\tt.sortRoutes(key)\n\treturn true\n}", New: "\tt.insert(key, route.Clone())\n\treturn true\n}\n\nfunc (t *ForwardTable) insert(key string, r *ForwardRoute) {\n\tr.LastUpdate = time.Now()\n\tt.routes[key] = append(t.routes[key], r)\n\tt.sortRoutes(key)\n}"},
			}},
			{Name: "insertion helper also called before the loop check (ForwardTable)", ExpectRule: "C10.R2", ExpectKey: "ForwardTable", Edits: []Edit{
				{File: fw, Old: "\t// New route from this origin\n\tcloned := route.Clone()\n\tcloned.LastUpdate = time.Now()\n\tt.routes[key] = append(t.routes[key], cloned)\n\tt.sortRoutes(key)\n\treturn true\n}", New: "\tt.insert(key, route.Clone())\n\treturn true\n}\n\nfunc (t *ForwardTable) insert(key string, r *ForwardRoute) {\n\tr.LastUpdate = time.Now()\n\tt.routes[key] = append(t.routes[key], r)\n\tt.sortRoutes(key)\n}\n\n// AddStatic stores a route without the loop check.\nfunc (t *ForwardTable) AddStatic(route *ForwardRoute) {\n\tt.mu.Lock()\n\tdefer t.mu.Unlock()\n\tt.insert(route.Key, route.Clone())\n}"},
			}},
			{Name: "round3 rewrite: table-driven disconnect handler", Edits: []Edit{
				{File: aa, Old: "\ta.routeMgr.HandlePeerDisconnect(peerID)\n\ta.routeMgr.HandlePeerDisconnectDomain(peerID)\n\ta.routeMgr.HandlePeerDisconnectForward(peerID)\n\ta.routeMgr.HandlePeerDisconnectAgent(peerID)\n", New: "\tfor _, forget := range []func(identity.AgentID) int{\n\t\ta.routeMgr.HandlePeerDisconnect,\n\t\ta.routeMgr.HandlePeerDisconnectDomain,\n\t\ta.routeMgr.HandlePeerDisconnectForward,\n\t\ta.routeMgr.HandlePeerDisconnectAgent,\n\t} {\n\t\tforget(peerID)\n\t}\n"},
			}},
			{Name: "round3: table-driven handler without the forward table", ExpectRule: "C10.R5", ExpectKey: "ForwardTable", Edits: []Edit{
				{File: aa, Old: "\ta.routeMgr.HandlePeerDisconnect(peerID)\n\ta.routeMgr.HandlePeerDisconnectDomain(peerID)\n\ta.routeMgr.HandlePeerDisconnectForward(peerID)\n\ta.routeMgr.HandlePeerDisconnectAgent(peerID)\n", New: "\tfor _, forget := range []func(identity.AgentID) int{\n\t\ta.routeMgr.HandlePeerDisconnect,\n\t\ta.routeMgr.HandlePeerDisconnectDomain,\n\t\ta.routeMgr.HandlePeerDisconnectAgent,\n\t} {\n\t\tforget(peerID)\n\t}\n"},
			}},
			{Name: "rewrite: handler calls reordered, explicit peer id variable", Edits: []Edit{
				{File: aa, Old: "\ta.routeMgr.HandlePeerDisconnect(peerID)\n\ta.routeMgr.HandlePeerDisconnectDomain(peerID)\n\ta.routeMgr.HandlePeerDisconnectForward(peerID)\n\ta.routeMgr.HandlePeerDisconnectAgent(peerID)\n", New: "\tmgr, gone := a.routeMgr, conn.RemoteID\n\tmgr.HandlePeerDisconnectAgent(gone)\n\tmgr.HandlePeerDisconnectForward(gone)\n\tmgr.HandlePeerDisconnectDomain(gone)\n\tmgr.HandlePeerDisconnect(gone)\n"},
			}},
		},
	})
}

func runC10(p *kit.Program, r *kit.Report) {
	r.Rule("C10.R1", "update rule: one iteration of the existing-entry loop, walked under the nine orderings of (new sequence ? stored sequence, new metric ? stored metric) for an entry of the same identity (OriginAgent, optionally NextHop): the entry's slot is overwritten with the new route iff sequence newer, or equal with a strictly lower metric; otherwise nothing is written and no second entry is appended")
	r.Rule("C10.R2", "loop rejection: every bucket write that introduces a route is dominated by the fall-through of a complete scan of route.Path against the table's own id (inline loop, slices.Contains, or a contains-helper); the match edge writes nothing")
	r.Rule("C10.R3", "disconnect: in every RemoveRoutesFromPeer an entry is dropped iff its NextHop equals the peer argument, the filtered bucket is written back (or deleted when empty), and every bucket map of the table is filtered")
	r.Rule("C10.R4", "cleanup: in every CleanupStaleRoutes an entry whose OriginAgent equals the table's own id is kept for every age; other entries are kept when younger than maxAge and dropped when older")
	r.Rule("C10.R5", "the Agent method installed as OnPeerDisconnect reaches, on every path, the RemoveRoutesFromPeer of each table held by the route manager, passing the disconnected connection's RemoteID")
	m := c08Build(p, r)
	if m == nil {
		return
	}
	r.Count("functions_analysed", len(m.funcs))
	// bounded model of the tables (shape-independent): obligations of its own, and second
	// opinion on what the structural rules do not recognise
	sem := m.sem()
	for _, t := range m.tables {
		sem.report(r, "C10.R1", "update", "a stored entry is replaced iff the sequence is newer, or equal with a lower metric", t,
			"the update rule is violated")
		sem.report(r, "C10.R2", "loop", "a route whose path contains the local id is never stored", t,
			"a looping route is stored")
		sem.report(r, "C10.R3", "disconnect", "RemoveRoutesFromPeer removes exactly the routes whose next hop is the peer", t,
			"a disconnect leaves routes of the peer behind or removes routes of other peers")
		sem.report(r, "C10.R4", "cleanup", "CleanupStaleRoutes keeps every route of the own origin", t,
			"cleanup removes locally originated routes (or the wrong foreign ones)")
	}
	defer sem.override(r, func(rule, key, detail string) string {
		if strings.HasSuffix(key, "critical section") {
			return ""
		}
		switch rule {
		case "C10.R1":
			return "update"
		case "C10.R2":
			return "loop"
		case "C10.R3":
			return "disconnect"
		case "C10.R4":
			return "cleanup"
		}
		return ""
	}, func(floor string) (string, *c08Table) {
		t := m.tableNamed(floor)
		switch {
		case strings.Contains(floor, "overwrites a stored"):
			return "update", t
		case strings.Contains(floor, "route-introducing bucket writes"):
			return "loop", t
		case strings.Contains(floor, "keep/drop filter loop found under") && strings.Contains(floor, "RemoveRoutesFromPeer"):
			return "disconnect", t
		case strings.Contains(floor, "keep/drop filter loop found under") && strings.Contains(floor, "CleanupStaleRoutes"):
			return "cleanup", t
		}
		return "", nil
	})
	for _, t := range m.tables {
		m.c10Critical(r, t)
	}
	for _, t := range m.tables {
		m.c10Update(r, t)
		m.c10LoopCheck(r, t)
		m.c10Filters(r, t, "RemoveRoutesFromPeer", "C10.R3")
		m.c10Filters(r, t, "CleanupStaleRoutes", "C10.R4")
	}
	m.c10Handler(r)
}

// ---------- helpers ----------

// c10FieldOf: v is a load of field f of base.
func c10FieldOf(v ssa.Value) (*types.Var, ssa.Value) {
	return c08Field(kit.Unwrap(c08Resolve(v)))
}

// c10RouteParam returns the parameter of fn of type *R.
func c10RouteParam(fn *ssa.Function, t *c08Table) *ssa.Parameter {
	for _, prm := range fn.Params {
		if c08RouteOfPtr(prm.Type()) == t.route {
			return prm
		}
	}
	return nil
}

func (m *c08Model) c10EventsOnPath(fn *ssa.Function, path []*ssa.BasicBlock, stopped bool) []*c08Event {
	var out []*c08Event
	for _, ev := range m.events {
		if ev.fn == fn && ev.kind != "delete" && ev.kind != "reset" && c08InPath(path, ev.instr, stopped) {
			out = append(out, ev)
		}
	}
	// calls of package helpers that themselves insert into / overwrite a bucket
	n := len(path)
	if stopped {
		n--
	}
	for i := 0; i < n; i++ {
		for _, in := range path[i].Instrs {
			c, ok := in.(ssa.CallInstruction)
			if !ok {
				continue
			}
			g := kit.CalleeOf(c).Static
			if g == nil || g == fn {
				continue
			}
			for _, ev := range m.events {
				if ev.fn == g && ev.needsSort {
					out = append(out, &c08Event{fn: fn, instr: in, kind: "insert", tbl: ev.tbl, needsSort: true})
					break
				}
			}
		}
	}
	return out
}

// ---------- single critical section (check-then-act) ----------

// c10Critical: every method of table t that takes the table mutex and (directly or through
// helpers of the package) writes buckets performs all its bucket accesses inside one region of
// that mutex, acquired by one write Lock. Reading under one acquisition and writing under
// another (RLock pre-check then Lock, unlock/relock between decision and write, lock yielded
// inside a filter) lets a concurrent operation change the bucket between check and act.
func (m *c08Model) c10Critical(r *kit.Report, t *c08Table) {
	p := m.p
	// functions that touch / write buckets of t, transitively
	touches := map[*ssa.Function]bool{}
	writes := map[*ssa.Function]bool{}
	replaces := map[*ssa.Function]bool{}
	isAccess := func(in ssa.Instruction) bool {
		switch x := in.(type) {
		case *ssa.Lookup:
			return c08RouteOfMap(x.X.Type()) == t.route
		case *ssa.MapUpdate:
			return c08RouteOfMap(x.Map.Type()) == t.route
		case *ssa.Range:
			return c08RouteOfMap(x.X.Type()) == t.route
		case *ssa.Store:
			if ia, ok := x.Addr.(*ssa.IndexAddr); ok && c08RouteOfSlice(ia.X.Type()) == t.route {
				return m.bucketOf(ia.X) != nil
			}
		case ssa.CallInstruction:
			if kit.CalleeOf(x).Built == "delete" && len(x.Common().Args) == 2 {
				return c08RouteOfMap(x.Common().Args[0].Type()) == t.route
			}
		}
		return false
	}
	for _, fn := range m.funcs {
		kit.Instrs(fn, func(in ssa.Instruction) {
			if isAccess(in) {
				touches[fn] = true
			}
		})
	}
	for _, ev := range m.events {
		if ev.tbl == t && ev.kind != "reset" {
			writes[ev.fn] = true
			if ev.kind == "replace" || ev.kind == "inplace" {
				replaces[ev.fn] = true
			}
		}
	}
	for changed := true; changed; {
		changed = false
		for _, fn := range m.funcs {
			for _, c := range kit.Calls(fn) {
				g := kit.CalleeOf(c).Static
				if g == nil || g == fn {
					continue
				}
				for _, set := range []map[*ssa.Function]bool{touches, writes, replaces} {
					if set[g] && !set[fn] {
						set[fn] = true
						changed = true
					}
				}
			}
		}
	}
	for _, fn := range p.Methods(c08Pkg, t.name) {
		if !writes[fn] || t.mu == nil {
			continue
		}
		li := kit.Locks(fn)
		uses := false
		for _, op := range li.Ops {
			if op.Mutex == t.mu && op.Acquire {
				uses = true
			}
		}
		if !uses {
			continue // helper called with the lock held
		}
		rule := ""
		switch {
		case replaces[fn]:
			rule = "C10.R1"
		case fn.Name() == "RemoveRoutesFromPeer":
			rule = "C10.R3"
		case fn.Name() == "CleanupStaleRoutes":
			rule = "C10.R4"
		default:
			continue
		}
		var acc []ssa.Instruction
		kit.Instrs(fn, func(in ssa.Instruction) {
			if isAccess(in) {
				acc = append(acc, in)
				return
			}
			if c, ok := in.(ssa.CallInstruction); ok {
				if _, isDefer := in.(*ssa.Defer); isDefer {
					return
				}
				if g := kit.CalleeOf(c).Static; g != nil && touches[g] {
					acc = append(acc, in)
				}
			}
		})
		bad := ""
		var first ssa.Instruction
		for _, a := range acc {
			acq, held := li.HeldAt(a, t.mu)
			if !held {
				bad = "the bucket access at " + p.Pos(a.Pos()) + " is made without the table mutex"
				break
			}
			if acq == nil {
				bad = "the bucket access at " + p.Pos(a.Pos()) + " can be reached under different acquisitions of the table mutex (lock released and re-taken in between)"
				break
			}
			write := false
			for _, op := range li.Ops {
				if op.Instr == acq && op.Acquire && !op.Read {
					write = true
				}
			}
			if !write {
				bad = "the bucket access at " + p.Pos(a.Pos()) + " of this mutating operation is made under the read lock only"
				break
			}
			if first == nil {
				first = acq
			} else if first != acq {
				bad = "the bucket accesses at " + p.Pos(acc[0].Pos()) + " and " + p.Pos(a.Pos()) + " lie in different critical sections of the table mutex"
				break
			}
		}
		r.Count("critical_section_accesses", len(acc))
		r.Decide(bad == "", rule, kit.FuncName(fn)+" single critical section", p.Pos(fn.Pos()),
			fmt.Sprintf("all %d bucket accesses of the operation lie in one write-locked region", len(acc)),
			bad+": the decision (is the stored entry older? which entries belong to the peer / are stale?) and the write are separated, so a concurrent operation can change the bucket in between and its effect is overwritten or resurrected")
	}
}

// ---------- R1 ----------

func (m *c08Model) c10Update(r *kit.Report, t *c08Table) {
	p := m.p
	fns := map[*ssa.Function]bool{}
	var order []*ssa.Function
	for _, ev := range m.events {
		if ev.tbl == t && (ev.kind == "replace" || ev.kind == "inplace") && !fns[ev.fn] {
			fns[ev.fn] = true
			order = append(order, ev.fn)
		}
	}
	if !r.Require(len(order) >= 1, "floor: no function overwrites a stored %s entry (update path of AddRoute not found)", t.name) {
		return
	}
	for _, fn := range order {
		fname := kit.FuncName(fn)
		key := fname + " update rule"
		m.noteFn("C10.R1", key, t, fn)
		pos := p.Pos(fn.Pos())
		route := c10RouteParam(fn, t)
		if route == nil {
			r.Violation("C10.R1", key, pos, "a stored entry is overwritten in a function that does not receive the new route as a parameter: the sequence/metric rule cannot govern the overwrite")
			continue
		}
		// classify "new.f" / "old.f"
		side := func(v ssa.Value, sub c08Sub) (f *types.Var, who string, idx ssa.Value) {
			// a scalar parameter of a predicate helper stands for the caller's argument
			v = c08Subst(kit.Unwrap(v), sub)
			fld, base := c10FieldOf(v)
			if fld == nil {
				return nil, "", nil
			}
			base = c08Resolve(c08Subst(base, sub))
			if base == ssa.Value(route) {
				return fld, "new", nil
			}
			if b, ia := m.elemOfBucket(base); b != nil && b.tbl == t {
				return fld, "old", ia.Index
			}
			return nil, "", nil
		}
		var hdr *ssa.BasicBlock
		var loopIdx ssa.Value
		var slotCall *ssa.Call
		idFields := map[*types.Var]bool{}
		nCmp := 0
		mixed := false
		var cmpInstrs []ssa.Instruction
		var collect func(f *ssa.Function, sub c08Sub, depth int)
		collect = func(f *ssa.Function, sub c08Sub, depth int) {
			kit.Instrs(f, func(in ssa.Instruction) {
				if c, ok := in.(*ssa.Call); ok && depth < 2 {
					if g, sub2, ok := c08PredCall(c, sub); ok {
						before := nCmp
						collect(g, sub2, depth+1)
						if depth == 0 && nCmp > before {
							cmpInstrs = append(cmpInstrs, in)
						}
					}
					return
				}
				b, ok := in.(*ssa.BinOp)
				if !ok {
					return
				}
				fx, wx, ix := side(b.X, sub)
				fy, wy, iy := side(b.Y, sub)
				if fx == nil || fy == nil || fx != fy || wx == wy {
					return
				}
				idx := ix
				if wy == "old" {
					idx = iy
				}
				phi, ok := c08LoopIndex(idx)
				if !ok {
					// the stored entry was located by slices.IndexFunc(bucket, samePredicate)
					sc := c10SlotCall(idx)
					if sc == nil {
						return
					}
					if slotCall == nil {
						slotCall = sc
					} else if slotCall != sc {
						mixed = true
					}
				} else if hdr == nil {
					hdr, loopIdx = phi.Block(), idx
				} else if hdr != phi.Block() {
					mixed = true
				}
				switch fx {
				case t.rf["Sequence"], t.rf["Metric"]:
					nCmp++
					if depth == 0 {
						cmpInstrs = append(cmpInstrs, in)
					}
				default:
					if b.Op == token.EQL || b.Op == token.NEQ {
						idFields[fx] = true
					}
				}
			})
		}
		collect(fn, nil, 0)
		if hdr != nil && slotCall != nil {
			mixed = true
		}
		var slotPred *ssa.Function
		if slotCall != nil && !mixed {
			loopIdx = slotCall
			switch f := slotCall.Call.Args[1].(type) {
			case *ssa.MakeClosure:
				slotPred, _ = f.Fn.(*ssa.Function)
			case *ssa.Function:
				slotPred = f
			}
			if slotPred != nil && len(slotPred.Params) == 1 {
				// identity fields: what the predicate compares between its element and the new route
				kit.Instrs(slotPred, func(in ssa.Instruction) {
					b, ok := in.(*ssa.BinOp)
					if !ok || (b.Op != token.EQL && b.Op != token.NEQ) {
						return
					}
					fx, bx := c10FieldOf(b.X)
					fy, by := c10FieldOf(b.Y)
					if fx == nil || fx != fy {
						return
					}
					prm := ssa.Value(slotPred.Params[0])
					if (bx == prm && by == ssa.Value(route)) || (by == prm && bx == ssa.Value(route)) {
						idFields[fx] = true
					}
				})
			}
		}
		if (hdr == nil && slotCall == nil) || nCmp == 0 || mixed || (slotCall != nil && (slotPred == nil || len(slotPred.Params) != 1)) {
			r.Violation("C10.R1", key, pos, "a stored entry is overwritten but no comparison of the new route's Sequence/Metric with that entry, made in the same loop over the stored entries, governs it (decision taken elsewhere, e.g. in an earlier pass under another lock, or not at all): an older or worse route replaces a newer one")
			continue
		}
		var body, exit *ssa.BasicBlock
		if slotCall == nil {
			body, exit = c08LoopSuccs(hdr)
			if body == nil || exit == nil {
				r.Violation("C10.R1", key, pos, "cannot delimit the loop over the stored entries")
				continue
			}
		}
		var idList []*types.Var
		for f := range idFields {
			idList = append(idList, f)
		}
		sort.Slice(idList, func(i, j int) bool { return idList[i].Name() < idList[j].Name() })
		var bad []string
		if !idFields[t.rf["OriginAgent"]] {
			bad = append(bad, "the stored entry is not matched on OriginAgent")
		}
		for _, f := range idList {
			if f != t.rf["OriginAgent"] && f != t.rf["NextHop"] {
				bad = append(bad, "entry identity also depends on field "+f.Name())
			}
		}
		type scen struct {
			differ        *types.Var // identity field that differs (nil: same entry)
			oSeq, oMetric kit.Ordering
			slot          int64 // IndexFunc form: the index found (-1: no entry of this identity)
		}
		var atomSub func(s scen, sub c08Sub, depth int) kit.AtomEval
		atomFor := func(s scen) kit.AtomEval { return atomSub(s, nil, 0) }
		atomSub = func(s scen, sub c08Sub, depth int) kit.AtomEval {
			return func(c ssa.Value) (bool, bool) {
				if depth < 2 {
					if g, sub2, ok := c08PredCall(c, sub); ok {
						return c08EvalPred(g, atomSub(s, sub2, depth+1))
					}
				}
				b, ok := c.(*ssa.BinOp)
				if !ok {
					return false, false
				}
				if slotCall != nil && sub == nil {
					// comparisons of the found index with a constant
					if kit.Unwrap(b.X) == ssa.Value(slotCall) {
						if k, ok := kit.ConstInt(b.Y); ok {
							return kit.CmpUnder(b.Op, c08Sign(s.slot-k)), true
						}
					}
					if kit.Unwrap(b.Y) == ssa.Value(slotCall) {
						if k, ok := kit.ConstInt(b.X); ok {
							return kit.CmpUnder(b.Op, c08Sign(k-s.slot)), true
						}
					}
				}
				fx, wx, _ := side(b.X, sub)
				fy, wy, _ := side(b.Y, sub)
				if fx == nil || fy == nil || fx != fy || wx == wy {
					// nil tests on pointers: non-nil
					if (b.Op == token.EQL || b.Op == token.NEQ) && (kit.IsNilConst(b.X) || kit.IsNilConst(b.Y)) {
						return b.Op == token.NEQ, true
					}
					return false, false
				}
				flip := wx == "old" // normalise to new ? old
				var o kit.Ordering
				switch fx {
				case t.rf["Sequence"]:
					o = s.oSeq
				case t.rf["Metric"]:
					o = s.oMetric
				default:
					if !idFields[fx] {
						return false, false
					}
					if s.differ == fx {
						return b.Op == token.NEQ, true
					}
					return b.Op == token.EQL, true
				}
				if flip {
					o = -o
				}
				return kit.CmpUnder(b.Op, o), true
			}
		}
		isSlotWrite := func(ev *c08Event) bool {
			if ev.kind != "replace" && ev.kind != "inplace" {
				return false
			}
			return ev.index == loopIdx || (ev.index != nil && c08Canon(ev.index) == c08Canon(loopIdx))
		}
		fromRoute := func(ev *c08Event) bool {
			if ev.kind == "inplace" {
				return true
			}
			v := c08Resolve(ev.val)
			if c, ok := v.(*ssa.Call); ok && len(c.Call.Args) >= 1 && c08Resolve(c.Call.Args[0]) == ssa.Value(route) {
				return true
			}
			return v == ssa.Value(route)
		}
		// one decision: in loop form an iteration of the loop, in IndexFunc form the code after the search
		walk := func(s scen) kit.WalkResult {
			if slotCall != nil {
				return kit.WalkCFG(slotCall.Block(), atomFor(s), nil)
			}
			return kit.WalkCFG(body, atomFor(s), func(b *ssa.BasicBlock) bool { return b == hdr })
		}
		if slotCall != nil {
			// the predicate selects exactly the entry of the same identity, in the same bucket
			predAtom := func(s scen) kit.AtomEval {
				return func(c ssa.Value) (bool, bool) {
					b, ok := c.(*ssa.BinOp)
					if !ok || (b.Op != token.EQL && b.Op != token.NEQ) {
						return false, false
					}
					fx, _ := c10FieldOf(b.X)
					fy, _ := c10FieldOf(b.Y)
					if fx == nil || fx != fy || !idFields[fx] {
						return false, false
					}
					if s.differ == fx {
						return b.Op == token.NEQ, true
					}
					return b.Op == token.EQL, true
				}
			}
			if v, ok := c08EvalPred(slotPred, predAtom(scen{})); !ok || !v {
				bad = append(bad, "the predicate given to slices.IndexFunc does not accept the stored entry of the same identity")
			}
			for _, f := range idList {
				if v, ok := c08EvalPred(slotPred, predAtom(scen{differ: f})); !ok || v {
					bad = append(bad, "the predicate given to slices.IndexFunc accepts an entry with a different "+f.Name())
				}
			}
			sb := m.bucketOf(slotCall.Call.Args[0])
			for _, ev := range m.events {
				if ev.fn == fn && (ev.kind == "replace" || ev.kind == "inplace") && ev.index == ssa.Value(slotCall) && !ev.bucket.same(sb) {
					bad = append(bad, "the index found in one bucket is used to overwrite a slot of another bucket")
				}
			}
		}
		for _, ev := range m.events {
			if ev.fn != fn || !isSlotWrite(ev) {
				continue
			}
			if ev.kind == "inplace" {
				// an in-place refresh must carry over every field the properties depend on
				stored := map[*types.Var]bool{}
				kit.Instrs(fn, func(in ssa.Instruction) {
					st, ok := in.(*ssa.Store)
					if !ok {
						return
					}
					fa, ok := st.Addr.(*ssa.FieldAddr)
					if !ok {
						return
					}
					if b, ia := m.elemOfBucket(fa.X); b != nil && b.same(ev.bucket) && ia.Index == ev.index && st.Block() == ev.instr.Block() {
						stored[kit.FieldOfAddr(fa)] = true
					}
				})
				var missing []string
				for _, need := range []string{"Metric", "Sequence", "NextHop", "Path"} {
					if !stored[t.rf[need]] {
						missing = append(missing, need)
					}
				}
				if len(missing) > 0 {
					bad = append(bad, "the stored entry is refreshed in place at "+p.Pos(ev.instr.Pos())+" without "+strings.Join(missing, ", ")+": the entry keeps the old value (e.g. a NextHop that no longer is the peer the route was learned from, or a Path that was never loop-checked)")
				}
			}
		}
		cells := 0
		ords := []kit.Ordering{kit.Less, kit.Equal, kit.Greater}
		for _, os := range ords {
			for _, om := range ords {
				cells++
				s := scen{oSeq: os, oMetric: om}
				want := os == kit.Greater || (os == kit.Equal && om == kit.Less)
				desc := fmt.Sprintf("seq %s, metric %s", c08OrdName(os), c08OrdName(om))
				res := walk(s)
				if !res.Known {
					bad = append(bad, desc+": the decision consults a condition at "+p.Pos(c08LastPos(res.Block))+" other than identity, sequence and metric comparisons")
					continue
				}
				evs := m.c10EventsOnPath(fn, res.Path, res.Stopped)
				nSlot, nOther, okVal := 0, 0, true
				for _, ev := range evs {
					if isSlotWrite(ev) {
						nSlot++
						if !fromRoute(ev) {
							okVal = false
						}
					} else {
						nOther++
					}
				}
				if want {
					switch {
					case nSlot == 0:
						bad = append(bad, desc+": the stored entry is not overwritten although the new route is newer/better")
					case !okVal:
						bad = append(bad, desc+": the slot is overwritten with something other than (a copy of) the new route")
					case nOther > 0 || res.Stopped:
						bad = append(bad, desc+": after the overwrite the function goes on (another bucket write / keeps scanning) instead of returning")
					}
					continue
				}
				if nSlot+nOther > 0 {
					bad = append(bad, desc+": the stored entry is overwritten (or the bucket written) although the new route is not newer, nor equally new with a strictly lower metric")
					continue
				}
				if res.Stopped {
					// keeps scanning: what follows the loop must not append it
					res2 := kit.WalkCFG(exit, atomFor(s), nil)
					path2 := append([]*ssa.BasicBlock{}, res2.Path...)
					if len(m.c10EventsOnPath(fn, path2, false)) > 0 || !res2.Known {
						bad = append(bad, desc+": the rejected update is not dropped: it falls through to the append of a second entry for the same origin (which sorts first when its metric is lower)")
					}
				}
			}
		}
		if slotCall != nil {
			// no entry of this identity: nothing may be overwritten
			cells++
			res := walk(scen{slot: -1, oSeq: kit.Greater, oMetric: kit.Less})
			if res.Known {
				for _, ev := range m.c10EventsOnPath(fn, res.Path, false) {
					if ev.kind == "replace" || ev.kind == "inplace" {
						bad = append(bad, "a slot is overwritten although no entry of the same identity was found (index -1)")
					}
				}
			}
		}
		for _, f := range idList {
			if slotCall != nil {
				break // judged on the predicate above
			}
			cells++
			s := scen{differ: f, oSeq: kit.Greater, oMetric: kit.Less}
			res := walk(s)
			if !res.Known {
				bad = append(bad, "entry with different "+f.Name()+": undecidable condition at "+p.Pos(c08LastPos(res.Block)))
				continue
			}
			if len(m.c10EventsOnPath(fn, res.Path, res.Stopped)) > 0 {
				bad = append(bad, "an entry with a different "+f.Name()+" is overwritten")
			}
		}
		r.Count("update_rule_cells", cells)
		ids := []string{}
		for _, f := range idList {
			ids = append(ids, f.Name())
		}
		r.Decide(len(bad) == 0, "C10.R1", key, pos,
			fmt.Sprintf("identity (%s); 9 cells: overwrite iff seq> or (seq= and metric<); rejected updates write nothing", strings.Join(ids, ",")),
			"update rule violated: "+strings.Join(bad, "; "))
	}
}

// c10SlotCall: idx is the result of slices.IndexFunc(bucket, pred).
func c10SlotCall(idx ssa.Value) *ssa.Call {
	c, ok := c08Resolve(kit.Unwrap(idx)).(*ssa.Call)
	if !ok || len(c.Call.Args) != 2 {
		return nil
	}
	if cal := kit.CalleeOf(c); cal.Pkg == "slices" && cal.Name == "IndexFunc" {
		return c
	}
	return nil
}

// ---------- R2 ----------

// c10ContainsCall: call invokes a helper of the package that reports whether the table's own
// id occurs in the route's path, whichever way the two reach it (list and id parameters in
// any order, the route or the table passed instead, a method of either). The helper's values
// are read in the caller's terms: a parameter stands for the argument passed.
// Returns (is such a helper over route.Path, compares with the table's own id).
func (m *c08Model) c10ContainsCall(t *c08Table, call *ssa.Call, isPath, isLocal func(ssa.Value) bool) (bool, bool) {
	g := kit.CalleeOf(call).Static
	if g == nil || len(g.Blocks) == 0 || g.Signature.Results().Len() != 1 {
		return false, false
	}
	if b, isb := g.Signature.Results().At(0).Type().Underlying().(*types.Basic); !isb || b.Kind() != types.Bool {
		return false, false
	}
	sub := c08Sub{}
	for i, prm := range g.Params {
		if i < len(call.Call.Args) {
			sub[prm] = c08Resolve(call.Call.Args[i])
		}
	}
	// translate a callee value into the caller's terms
	inCaller := func(v ssa.Value, pred func(ssa.Value) bool, field *types.Var) bool {
		v = c08Resolve(kit.Unwrap(v))
		if prm, ok := v.(*ssa.Parameter); ok {
			a, ok := sub[prm]
			return ok && pred(a)
		}
		f, base := c10FieldOf(v)
		if f == nil || f != field {
			return false
		}
		prm, ok := base.(*ssa.Parameter)
		if !ok {
			return false
		}
		a, ok := sub[prm]
		if !ok {
			return false
		}
		// the helper reads X.field of its parameter X: in the caller that is field of the argument
		return m.c10FieldOfArg(a, field, pred)
	}
	var eqIf *ssa.If
	eqPol, isPathScan, rightID := false, false, false
	for _, blk := range g.Blocks {
		ifi, isIf := blk.Instrs[len(blk.Instrs)-1].(*ssa.If)
		if !isIf {
			continue
		}
		c, pol := c08NormCond(ifi.Cond, true)
		b, isb := c.(*ssa.BinOp)
		if !isb || (b.Op != token.EQL && b.Op != token.NEQ) {
			continue
		}
		for _, pr := range [][2]ssa.Value{{b.X, b.Y}, {b.Y, b.X}} {
			u, isu := pr[0].(*ssa.UnOp)
			if !isu || u.Op != token.MUL {
				continue
			}
			ia, isia := u.X.(*ssa.IndexAddr)
			if !isia || !c10FullScan(ia) {
				continue
			}
			if !inCaller(ia.X, isPath, t.rf["Path"]) {
				continue
			}
			isPathScan = true
			eqIf, eqPol = ifi, pol == (b.Op == token.EQL)
			rightID = inCaller(pr[1], isLocal, t.localID)
		}
	}
	if !isPathScan {
		// slices.Contains inside the helper
		for _, c := range kit.Calls(g) {
			cc, ok := c.(*ssa.Call)
			if !ok {
				continue
			}
			if cal := kit.CalleeOf(cc); cal.Pkg == "slices" && cal.Name == "Contains" && len(cc.Call.Args) == 2 && inCaller(cc.Call.Args[0], isPath, t.rf["Path"]) {
				allRet := true
				for _, ret := range kit.Returns(g) {
					if kit.ReturnResult(ret, 0) != ssa.Value(cc) {
						allRet = false
					}
				}
				if allRet {
					return true, inCaller(cc.Call.Args[1], isLocal, t.localID)
				}
			}
		}
		return false, false
	}
	eqSucc := eqIf.Block().Succs[0]
	if !eqPol {
		eqSucc = eqIf.Block().Succs[1]
	}
	for _, ret := range kit.Returns(g) {
		v, isc := kit.ConstBool(kit.ReturnResult(ret, 0))
		if !isc {
			return false, false
		}
		inEq := ret.Block() == eqSucc || eqSucc.Dominates(ret.Block())
		if v != inEq {
			return false, false
		}
	}
	return true, rightID
}

// c10FieldOfArg: arg.field, read in the caller, satisfies pred. pred recognises loads of the
// field (route.Path / t.localID); here only the owner is known, so the owner is matched against
// what pred accepts: pred is applied to a synthetic description — the owner must be the route
// parameter (Path) or the receiver (own id) of the calling function.
func (m *c08Model) c10FieldOfArg(owner ssa.Value, field *types.Var, pred func(ssa.Value) bool) bool {
	fn := owner.Parent()
	if fn == nil {
		return false
	}
	// find any load of owner.field in the caller and ask pred about it; if the caller never
	// loads it, compare owners structurally
	found, res := false, false
	kit.Instrs(fn, func(in ssa.Instruction) {
		v, ok := in.(ssa.Value)
		if !ok || found {
			return
		}
		if f, base := c10FieldOf(v); f == field && base == c08Resolve(owner) {
			if _, isLoad := c08Resolve(v).(*ssa.UnOp); isLoad {
				found, res = true, pred(v)
			}
		}
	})
	if found {
		return res
	}
	owner = c08Resolve(owner)
	if prm, ok := owner.(*ssa.Parameter); ok {
		if c08RouteOfPtr(prm.Type()) != nil && field.Name() == "Path" {
			return true
		}
		if len(fn.Params) > 0 && prm == fn.Params[0] && fn.Signature.Recv() != nil && field.Name() != "Path" {
			return true
		}
	}
	return false
}

// c10FullScan: the index of ia runs over the whole slice from element 0 upwards.
func c10FullScan(ia *ssa.IndexAddr) bool {
	phi, ok := c08LoopIndex(ia.Index)
	if !ok {
		return false
	}
	want := int64(0)
	if ia.Index != ssa.Value(phi) {
		want = -1 // range lowering: index = phi + 1
	}
	for i, pr := range phi.Block().Preds {
		if phi.Block().Dominates(pr) {
			continue
		}
		if c, ok := kit.ConstInt(phi.Edges[i]); !ok || c != want {
			return false
		}
	}
	// loop bound: idx < len(slice)
	hb := phi.Block()
	ifi, ok := hb.Instrs[len(hb.Instrs)-1].(*ssa.If)
	if !ok {
		return false
	}
	c, pol := c08NormCond(ifi.Cond, true)
	b, ok := c.(*ssa.BinOp)
	if !ok {
		return false
	}
	isLen := func(v ssa.Value) bool {
		cl, ok := v.(*ssa.Call)
		return ok && kit.CalleeOf(cl).Built == "len" && c08Canon(cl.Call.Args[0]) == c08Canon(ia.X)
	}
	cur := ia.Index
	switch {
	case pol && b.Op == token.LSS && (b.X == cur || b.X == ssa.Value(phi)) && isLen(b.Y):
	case pol && b.Op == token.GTR && (b.Y == cur || b.Y == ssa.Value(phi)) && isLen(b.X):
	case pol && b.Op == token.NEQ && (b.X == cur || b.X == ssa.Value(phi)) && isLen(b.Y):
	default:
		return false
	}
	return true
}

// c10GuardedAt: instruction site of fn is reached only after a complete scan of route.Path
// (route is a *R value of fn: its parameter) found no occurrence of the table's own id.
func (m *c08Model) c10GuardedAt(t *c08Table, fn *ssa.Function, site ssa.Instruction, route ssa.Value) (bool, string) {
	p := m.p
	isPath := func(v ssa.Value) bool {
		f, base := c10FieldOf(v)
		return f != nil && f == t.rf["Path"] && base == ssa.Value(route)
	}
	isLocal := func(v ssa.Value) bool {
		f, base := c10FieldOf(v)
		return f != nil && f == t.localID && len(fn.Params) > 0 && base == ssa.Value(fn.Params[0])
	}
	okCheck, why := false, "no scan of route.Path against the table's own id dominates this write"
	// (a) inline loop
	for _, blk := range fn.Blocks {
		ifi, isIf := blk.Instrs[len(blk.Instrs)-1].(*ssa.If)
		if !isIf {
			continue
		}
		c, pol := c08NormCond(ifi.Cond, true)
		b, isb := c.(*ssa.BinOp)
		if !isb || (b.Op != token.EQL && b.Op != token.NEQ) {
			continue
		}
		for _, pr := range [][2]ssa.Value{{b.X, b.Y}, {b.Y, b.X}} {
			u, isu := pr[0].(*ssa.UnOp)
			if !isu || u.Op != token.MUL {
				continue
			}
			ia, isia := u.X.(*ssa.IndexAddr)
			if !isia || !isPath(ia.X) {
				continue
			}
			if !isLocal(pr[1]) {
				why = "the path scan at " + p.Pos(c08LastPos(blk)) + " compares the hops with something other than the table's own id"
				continue
			}
			if !c10FullScan(ia) {
				why = "the path scan at " + p.Pos(c08LastPos(blk)) + " does not cover route.Path from its first to its last element"
				continue
			}
			phi, _ := c08LoopIndex(ia.Index)
			_, exit := c08LoopSuccs(phi.Block())
			eqSucc := blk.Succs[0]
			if (b.Op == token.EQL) != pol {
				eqSucc = blk.Succs[1]
			}
			// the match edge must not reach the write
			reach := kit.Reach(eqSucc, nil, nil)
			if reach[site.Block()] {
				why = "when the local id is found in route.Path (" + p.Pos(c08LastPos(blk)) + ") control still reaches this write"
				continue
			}
			if exit == nil || !(exit == site.Block() || exit.Dominates(site.Block())) {
				why = "this write is not dominated by the completion of the path scan at " + p.Pos(c08LastPos(blk))
				continue
			}
			okCheck = true
		}
	}
	// (b) guard by a contains call
	if !okCheck {
		for _, g := range kit.GuardsOf(site) {
			c, pol := c08NormCond(g.Cond, g.Polarity)
			call, isCall := c.(*ssa.Call)
			if !isCall || pol {
				continue
			}
			cal := kit.CalleeOf(call)
			args := call.Call.Args
			if cal.Pkg == "slices" && cal.Name == "Contains" && len(args) == 2 {
				if isPath(args[0]) && isLocal(args[1]) {
					okCheck = true
				} else if isPath(args[0]) {
					why = "slices.Contains at " + p.Pos(call.Pos()) + " searches route.Path for something other than the table's own id"
				}
				continue
			}
			if isC, rightID := m.c10ContainsCall(t, call, isPath, isLocal); isC {
				if rightID {
					okCheck = true
				} else {
					why = "the contains-helper at " + p.Pos(call.Pos()) + " searches route.Path for something other than the table's own id"
				}
			}
		}
	}
	return okCheck, why
}

func (m *c08Model) c10LoopCheck(r *kit.Report, t *c08Table) {
	p := m.p
	ord := map[string]int{}
	n := 0
	for _, ev := range m.events {
		if ev.tbl != t || !ev.needsSort {
			continue
		}
		fn := ev.fn
		route := c10RouteParam(fn, t)
		if route == nil {
			continue // removal helpers re-ordering a bucket carry no new route (C08/C09 judge them)
		}
		n++
		fname := kit.FuncName(fn)
		key := fmt.Sprintf("%s bucket %s #%d after loop check", fname, ev.kind, c08Ordinal(ord, fname+ev.kind))
		m.noteFn("C10.R2", key, t, fn)
		pos := p.Pos(ev.instr.Pos())
		okCheck, why := m.c10GuardedAt(t, fn, ev.instr, route)
		if !okCheck {
			// an insertion helper: every call site passes (a clone of) the caller's route and is
			// itself guarded by the caller's loop check
			idx := -1
			for i, q := range fn.Params {
				if q == route {
					idx = i
				}
			}
			sites := p.StaticCallers(fn)
			all := len(sites) > 0 && idx >= 0
			for _, c := range sites {
				caller := c.Parent()
				cr := c10RouteParam(caller, t)
				if cr == nil || idx >= len(c.Common().Args) {
					all = false
					break
				}
				a := c.Common().Args[idx]
				if cl, isCall := a.(*ssa.Call); isCall && len(cl.Call.Args) == 1 && cl.Call.Args[0] == ssa.Value(cr) {
					a = cr
				}
				if a != ssa.Value(cr) {
					all = false
					break
				}
				if ok2, why2 := m.c10GuardedAt(t, caller, c, cr); !ok2 {
					all = false
					why = "in caller " + kit.FuncName(caller) + ": " + why2
					break
				}
			}
			if all {
				okCheck = true
			}
		}
		r.Decide(okCheck, "C10.R2", key, pos,
			"dominated by the fall-through of a complete scan of route.Path for the table's own id",
			why+": a route whose path already contains this agent is stored (routing loop)")
	}
	r.Require(n >= 2, "floor: fewer than 2 route-introducing bucket writes found for %s", t.name)
	r.Count("route_introducing_writes", n)
}

// ---------- R3 / R4: filter loops ----------

type c10Filter struct {
	fn     *ssa.Function
	acc    *ssa.Phi
	hdr    *ssa.BasicBlock
	elem   ssa.Value // the entry r of the current iteration
	bucket *c08Bucket
	// slices.DeleteFunc(bucket, pred) form
	pred *ssa.Function
	call *ssa.Call
}

// c10FindFilters lists the accumulate-what-is-kept loops of fn over buckets of t.
func (m *c08Model) c10FindFilters(fn *ssa.Function, t *c08Table) []*c10Filter {
	var out []*c10Filter
	kit.Instrs(fn, func(in ssa.Instruction) {
		if c, ok := in.(*ssa.Call); ok {
			if cal := kit.CalleeOf(c); cal.Pkg == "slices" && cal.Name == "DeleteFunc" && len(c.Call.Args) == 2 && c08RouteOfSlice(c.Call.Args[0].Type()) == t.route {
				if b := m.bucketOf(c.Call.Args[0]); b != nil {
					var pred *ssa.Function
					switch f := c.Call.Args[1].(type) {
					case *ssa.MakeClosure:
						pred, _ = f.Fn.(*ssa.Function)
					case *ssa.Function:
						pred = f
					}
					if pred != nil && len(pred.Params) == 1 && len(pred.Blocks) > 0 {
						out = append(out, &c10Filter{fn: fn, bucket: b, pred: pred, call: c, elem: pred.Params[0]})
					}
				}
			}
			return
		}
		acc, ok := in.(*ssa.Phi)
		if !ok || c08RouteOfSlice(acc.Type()) != t.route {
			return
		}
		for _, e := range acc.Edges {
			c, ok := e.(*ssa.Call)
			if !ok || kit.CalleeOf(c).Built != "append" || len(c.Call.Args) != 2 || c.Call.Args[0] != ssa.Value(acc) {
				continue
			}
			elems, ok := c08VarargElems(c.Call.Args[1])
			if !ok || len(elems) != 1 {
				continue
			}
			b, ia := m.elemOfBucket(elems[0])
			if b == nil {
				continue
			}
			phi, ok := c08LoopIndex(ia.Index)
			if !ok || phi.Block() != acc.Block() {
				continue
			}
			for _, f := range out {
				if f.acc == acc {
					return
				}
			}
			out = append(out, &c10Filter{fn: fn, acc: acc, hdr: acc.Block(), elem: elems[0], bucket: b})
			return
		}
	})
	return out
}

// c10Filters decides R3 (rootName RemoveRoutesFromPeer) or R4 (CleanupStaleRoutes) for table t.
func (m *c08Model) c10Filters(r *kit.Report, t *c08Table, rootName, rule string) {
	p := m.p
	root := p.Func(c08Pkg, t.name, rootName)
	if !r.Require(root != nil, "anchor-unresolved: %s.%s", t.name, rootName) {
		return
	}
	if !r.Require(len(root.Params) == 2, "anchor-unresolved: %s.%s is expected to take one argument", t.name, rootName) {
		return
	}
	// functions reachable from root inside the package (depth 2) with the roles of their values
	type roleMap map[ssa.Value]string // value -> "arg" (peer / maxAge) | "local"
	roles := map[*ssa.Function]roleMap{root: {root.Params[1]: "arg"}}
	isLocalIn := func(fn *ssa.Function, v ssa.Value) bool {
		if roles[fn][v] == "local" {
			return true
		}
		f, base := c10FieldOf(v)
		return f != nil && f == t.localID && fn == root && base == ssa.Value(root.Params[0])
	}
	order := []*ssa.Function{root}
	fieldsSeen := map[*types.Var]bool{}
	for i := 0; i < len(order) && i < 8; i++ {
		fn := order[i]
		kit.Instrs(fn, func(in ssa.Instruction) {
			if v, ok := in.(ssa.Value); ok {
				if f, _ := c08Field(v); f != nil {
					for _, bf := range t.buckets {
						if bf == f {
							fieldsSeen[f] = true
						}
					}
				}
			}
		})
		for _, c := range kit.Calls(fn) {
			g := kit.CalleeOf(c).Static
			if g == nil || kit.FuncPkgPath(g) != kit.PkgPath(c08Pkg) || len(g.Blocks) == 0 {
				continue
			}
			if _, seen := roles[g]; !seen {
				roles[g] = roleMap{}
				order = append(order, g)
			}
			for j, a := range c.Common().Args {
				if j >= len(g.Params) {
					break
				}
				switch {
				case roles[fn][a] == "arg":
					roles[g][g.Params[j]] = "arg"
				case isLocalIn(fn, a) || (fn != root && func() bool {
					f, base := c10FieldOf(a)
					return f != nil && f == t.localID && len(fn.Params) > 0 && base == ssa.Value(fn.Params[0]) && types.Identical(fn.Params[0].Type(), root.Params[0].Type())
				}()):
					roles[g][g.Params[j]] = "local"
				default:
					// the same helper parameter fed with something else at another call site
					if roles[g][g.Params[j]] != "" && fn != g {
						roles[g][g.Params[j]] = "mixed"
					}
				}
			}
		}
	}
	// every bucket map of the table takes part
	for _, bf := range t.buckets {
		m.note(rule, fmt.Sprintf("%s.%s covers %s", t.name, rootName, bf.Name()), t)
		r.Decide(fieldsSeen[bf], rule, fmt.Sprintf("%s.%s covers %s", t.name, rootName, bf.Name()), p.Pos(root.Pos()),
			"the bucket map is read by the operation",
			"bucket map "+bf.Name()+" is never visited by "+rootName+": its entries are left untouched by this maintenance operation")
	}
	nFilters := 0
	for _, fn := range order {
		for fi, flt := range m.c10FindFilters(fn, t) {
			nFilters++
			m.c10DecideFilter(r, t, rule, rootName, root, fn, flt, fi, func(v ssa.Value) string {
				if isLocalIn(fn, v) {
					return "local"
				}
				if f, base := c10FieldOf(v); f != nil && f == t.localID && len(fn.Params) > 0 && base == ssa.Value(fn.Params[0]) && fn.Signature.Recv() != nil {
					return "local"
				}
				return roles[fn][v]
			})
		}
	}
	r.Require(nFilters >= 1, "floor: no keep/drop filter loop found under %s.%s", t.name, rootName)
	r.Count("filter_loops", nFilters)
}

func (m *c08Model) c10DecideFilter(r *kit.Report, t *c08Table, rule, rootName string, root, fn *ssa.Function, flt *c10Filter, ordinal int, role func(ssa.Value) string) {
	p := m.p
	key := fmt.Sprintf("%s keep/drop table (%s.%s)", kit.FuncName(fn), t.name, rootName)
	if ordinal > 0 {
		key += fmt.Sprintf(" #%d", ordinal+1)
	}
	m.noteFn(rule, key, t, fn)
	pos := p.Pos(fn.Pos())
	var body, exit *ssa.BasicBlock
	if flt.pred != nil {
		pos = p.Pos(flt.call.Pos())
		// inside the predicate closure captured variables are cells of the enclosing function
		outer := role
		resolve := func(v ssa.Value) ssa.Value {
			if cv, ok := c08CellValue(v); ok {
				return cv
			}
			return v
		}
		role = func(v ssa.Value) string {
			v = resolve(kit.Unwrap(v))
			if s := outer(v); s != "" {
				return s
			}
			if f, base := c10FieldOf(v); f != nil && f == t.localID && len(fn.Params) > 0 && fn.Signature.Recv() != nil && resolve(base) == ssa.Value(fn.Params[0]) {
				return "local"
			}
			return ""
		}
	} else {
		if flt.acc.Pos().IsValid() {
			pos = p.Pos(flt.acc.Pos())
		}
		body, exit = c08LoopSuccs(flt.hdr)
		if body == nil || exit == nil {
			r.Violation(rule, key, pos, "cannot delimit the filter loop")
			return
		}
	}
	elemField := func(v ssa.Value, sub c08Sub) *types.Var {
		f, base := c10FieldOf(v)
		if f == nil {
			return nil
		}
		base = c08Subst(base, sub)
		if base == flt.elem || c08Canon(base) == c08Canon(flt.elem) {
			return f
		}
		return nil
	}
	isAge := func(v ssa.Value, sub c08Sub) bool {
		c, ok := kit.Unwrap(v).(*ssa.Call)
		if !ok {
			return false
		}
		cal := kit.CalleeOf(c)
		if cal.Pkg == "time" && cal.Recv == "Time" && cal.Name == "Sub" && len(c.Call.Args) == 2 {
			return elemField(c.Call.Args[1], sub) == t.rf["LastUpdate"] && elemField(c.Call.Args[0], sub) == nil
		}
		if cal.Pkg == "time" && cal.Recv == "" && cal.Name == "Since" && len(c.Call.Args) == 1 {
			return elemField(c.Call.Args[0], sub) == t.rf["LastUpdate"]
		}
		return false
	}
	type scen struct {
		peerEq  bool
		isLocal bool
		age     kit.Ordering
	}
	var atomSub func(s scen, sub c08Sub, depth int) kit.AtomEval
	atomFor := func(s scen) kit.AtomEval { return atomSub(s, nil, 0) }
	atomSub = func(s scen, sub c08Sub, depth int) kit.AtomEval {
		return func(c ssa.Value) (bool, bool) {
			if depth < 2 {
				if g, sub2, ok := c08PredCall(c, sub); ok {
					return c08EvalPred(g, atomSub(s, sub2, depth+1))
				}
			}
			b, ok := c.(*ssa.BinOp)
			if !ok {
				return false, false
			}
			for _, pr := range [][2]ssa.Value{{b.X, b.Y}, {b.Y, b.X}} {
				swapped := pr[0] != b.X
				f := elemField(pr[0], sub)
				other := c08Subst(kit.Unwrap(pr[1]), sub)
				if (b.Op == token.EQL || b.Op == token.NEQ) && f != nil {
					switch {
					case rule == "C10.R3" && f == t.rf["NextHop"] && role(other) == "arg":
						return s.peerEq == (b.Op == token.EQL), true
					case rule == "C10.R4" && f == t.rf["OriginAgent"] && role(other) == "local":
						return s.isLocal == (b.Op == token.EQL), true
					}
				}
				if rule == "C10.R4" && isAge(pr[0], sub) && role(other) == "arg" {
					o := s.age
					if swapped {
						o = -o
					}
					return kit.CmpUnder(b.Op, o), true
				}
			}
			if (b.Op == token.EQL || b.Op == token.NEQ) && (kit.IsNilConst(b.X) || kit.IsNilConst(b.Y)) {
				return b.Op == token.NEQ, true
			}
			return false, false
		}
	}
	// one iteration: kept?
	step := func(s scen) (kept bool, why string) {
		if flt.pred != nil {
			res := kit.WalkCFG(flt.pred.Blocks[0], atomFor(s), nil)
			if !res.Known || res.Block == nil {
				return false, "the delete predicate consults a condition at " + p.Pos(c08LastPos(res.Block)) + " outside the rule's inputs"
			}
			ret, ok := res.Block.Instrs[len(res.Block.Instrs)-1].(*ssa.Return)
			if !ok || len(ret.Results) != 1 {
				return false, "the delete predicate does not return"
			}
			var prev *ssa.BasicBlock
			if n := len(res.Path); n >= 2 {
				prev = res.Path[n-2]
			}
			del, ok := kit.EvalBool(ret.Results[0], atomFor(s), prev, res.Block)
			if !ok {
				return false, "the delete predicate's result depends on something outside the rule's inputs"
			}
			return !del, ""
		}
		res := kit.WalkCFG(body, atomFor(s), func(b *ssa.BasicBlock) bool { return b == flt.hdr })
		if !res.Known {
			return false, "the keep/drop decision consults a condition at " + p.Pos(c08LastPos(res.Block)) + " outside the rule's inputs"
		}
		if !res.Stopped {
			return false, "the iteration leaves the loop"
		}
		in := c08PhiIncoming(flt.acc, res.Path[len(res.Path)-2])
		if in == ssa.Value(flt.acc) {
			return false, ""
		}
		if c, ok := in.(*ssa.Call); ok && kit.CalleeOf(c).Built == "append" {
			if elems, ok := c08VarargElems(c.Call.Args[1]); ok && len(elems) == 1 && (elems[0] == flt.elem || c08Canon(elems[0]) == c08Canon(flt.elem)) && c.Call.Args[0] == ssa.Value(flt.acc) {
				return true, ""
			}
		}
		return false, "the kept-slice is updated with something other than the current entry"
	}
	var bad []string
	if rule == "C10.R3" {
		for _, eq := range []bool{true, false} {
			kept, why := step(scen{peerEq: eq})
			switch {
			case why != "":
				bad = append(bad, fmt.Sprintf("NextHop==peer is %v: %s", eq, why))
			case eq && kept:
				bad = append(bad, "an entry whose NextHop is the disconnected peer is kept")
			case !eq && !kept:
				bad = append(bad, "an entry learned through another peer is dropped")
			}
		}
	} else {
		for _, loc := range []bool{true, false} {
			for _, age := range []kit.Ordering{kit.Less, kit.Equal, kit.Greater} {
				kept, why := step(scen{isLocal: loc, age: age})
				desc := fmt.Sprintf("own-origin=%v, age %s maxAge", loc, c08OrdName(age))
				switch {
				case why != "":
					bad = append(bad, desc+": "+why)
				case loc && !kept:
					bad = append(bad, desc+": a locally originated route is removed by cleanup")
				case !loc && age == kit.Greater && kept:
					bad = append(bad, desc+": a stale foreign route is kept")
				case !loc && age == kit.Less && !kept:
					bad = append(bad, desc+": a fresh foreign route is removed")
				}
			}
		}
	}
	// write-back after the loop
	splitLock := false
	if flt.pred != nil {
		avoid := map[ssa.Instruction]bool{}
		nStore := 0
		for _, ev := range m.events {
			if ev.fn != fn || !ev.bucket.same(flt.bucket) {
				continue
			}
			if mu, ok := ev.instr.(*ssa.MapUpdate); ok && kit.DependsOn(mu.Value, flt.call) {
				avoid[ev.instr] = true
				nStore++
			}
			if ev.kind == "delete" {
				avoid[ev.instr] = true
			}
		}
		leak := nStore == 0
		for _, ret := range kit.Returns(fn) {
			if ret.Block() != fn.Recover && kit.CanReachAvoiding(flt.call, ret, avoid) {
				// returning straight from the DeleteFunc block is fine only through a write-back
				leak = true
			}
		}
		if flt.bucket.next != nil && kit.CanReachAvoiding(flt.call, flt.bucket.next, avoid) {
			leak = true
		}
		if leak {
			bad = append(bad, "the result of slices.DeleteFunc is not stored back into the map on every path: dropped entries stay stored (stale tail of the old slice header)")
		}
	}
	for _, n := range []int64{0, 1} {
		if flt.pred != nil {
			break
		}
		n := n
		atom := func(c ssa.Value) (bool, bool) {
			b, ok := c.(*ssa.BinOp)
			if !ok {
				return false, false
			}
			isLen := func(v ssa.Value) bool {
				cl, ok := v.(*ssa.Call)
				return ok && kit.CalleeOf(cl).Built == "len" && cl.Call.Args[0] == ssa.Value(flt.acc)
			}
			if isLen(b.X) {
				if k, ok := kit.ConstInt(b.Y); ok {
					return kit.CmpUnder(b.Op, c08Sign(n-k)), true
				}
			}
			if isLen(b.Y) {
				if k, ok := kit.ConstInt(b.X); ok {
					return kit.CmpUnder(b.Op, c08Sign(k-n)), true
				}
			}
			if (b.Op == token.EQL || b.Op == token.NEQ) && (b.X == ssa.Value(flt.acc) || b.Y == ssa.Value(flt.acc)) && (kit.IsNilConst(b.X) || kit.IsNilConst(b.Y)) {
				return (n == 0) == (b.Op == token.EQL), true
			}
			return false, false
		}
		res := kit.WalkCFG(exit, atom, func(b *ssa.BasicBlock) bool { return b.Dominates(flt.hdr) && b != exit })
		done := false
		for _, ev := range m.events {
			if ev.fn != fn || !c08InPath(res.Path, ev.instr, res.Stopped) || !ev.bucket.same(flt.bucket) {
				continue
			}
			if ev.kind == "delete" && n == 0 {
				done = true
			}
			if mu, ok := ev.instr.(*ssa.MapUpdate); ok && (mu.Value == ssa.Value(flt.acc)) {
				done = true
				// the bucket is read and written back in one critical section
				li := kit.Locks(fn)
				uses := false
				for _, op := range li.Ops {
					if op.Mutex == t.mu {
						uses = true
					}
				}
				if uses && !li.SameRegion(flt.acc, ev.instr, t.mu) {
					splitLock = true
				}
			}
		}
		if !done {
			bad = append(bad, fmt.Sprintf("when %d entries are kept the filtered bucket is not written back to (or deleted from) the map: dropped entries stay stored", n))
		}
	}
	_ = splitLock // judged by the "single critical section" obligation of the operation
	okMsg := "dropped iff NextHop == peer; filtered bucket written back"
	if rule == "C10.R4" {
		okMsg = "own-origin entries kept for every age; foreign entries kept when fresh, dropped when stale; bucket written back"
	}
	r.Decide(len(bad) == 0, rule, key, pos, okMsg, strings.Join(bad, "; "))
}

// ---------- R5 ----------

func (m *c08Model) c10Handler(r *kit.Report) {
	p := m.p
	if p.Package("internal/agent") == nil {
		r.Floor("anchor-unresolved: package internal/agent not loaded")
		return
	}
	// the Agent method stored into a field named OnPeerDisconnect
	var handler *ssa.Function
	for _, fn := range p.FuncsInPkg("internal/agent") {
		kit.Instrs(fn, func(in ssa.Instruction) {
			st, ok := in.(*ssa.Store)
			if !ok {
				return
			}
			fa, ok := st.Addr.(*ssa.FieldAddr)
			if !ok {
				return
			}
			if f := kit.FieldOfAddr(fa); f == nil || f.Name() != "OnPeerDisconnect" {
				return
			}
			var target *ssa.Function
			switch v := st.Val.(type) {
			case *ssa.MakeClosure:
				target, _ = v.Fn.(*ssa.Function)
			case *ssa.Function:
				target = v
			}
			if target == nil {
				return
			}
			if target.Synthetic != "" { // bound-method wrapper: the wrapped method is its only static callee
				if obj, ok := target.Object().(*types.Func); ok {
					if real := p.SSA.FuncValue(obj); real != nil && len(real.Blocks) > 0 {
						target = real
					}
				}
				if target.Synthetic != "" {
					for _, c := range kit.Calls(target) {
						if g := kit.CalleeOf(c).Static; g != nil {
							target = g
						}
					}
				}
			}
			handler = target
		})
	}
	if !r.Require(handler != nil && len(handler.Blocks) > 0, "anchor-unresolved: function installed as OnPeerDisconnect in internal/agent") {
		return
	}
	hname := kit.FuncName(handler)
	// the connection parameter and its RemoteID
	fromConn := func(v ssa.Value) bool {
		f, base := c10FieldOf(v)
		if f == nil || f.Name() != "RemoteID" {
			return false
		}
		for _, prm := range handler.Params {
			if base == ssa.Value(prm) {
				return true
			}
		}
		return false
	}
	// manager: struct in routing holding pointers to the table types
	type hop struct {
		call ssa.CallInstruction // call in the handler
		ok   bool                // peer id passed through
		why  string
	}
	reached := map[*c08Table][]hop{}
	// follow static calls from the handler, depth 3, tracking which parameter carries the peer id
	type frame struct {
		fn    *ssa.Function
		peer  map[ssa.Value]bool
		first ssa.CallInstruction
		depth int
	}
	var visit func(fr frame)
	visit = func(fr frame) {
		for _, c := range kit.Calls(fr.fn) {
			if _, isGo := c.(*ssa.Go); isGo {
				continue
			}
			g := kit.CalleeOf(c).Static
			if g == nil {
				// table-driven form: a func value called with the peer id (resolved through the call graph)
				passes := false
				for _, a := range c.Common().Args {
					if fr.peer[a] || (fr.fn == handler && fromConn(a)) {
						passes = true
					}
				}
				if !passes || c.Common().IsInvoke() || fr.depth >= 3 {
					continue
				}
				first := fr.first
				if first == nil {
					first = c
				}
				for _, dg := range p.CalleesAt(c) {
					if dg == nil || len(dg.Blocks) == 0 {
						continue
					}
					np := map[ssa.Value]bool{}
					for j, a := range c.Common().Args {
						if j < len(dg.Params) && (fr.peer[a] || (fr.fn == handler && fromConn(a))) {
							np[dg.Params[j]] = true
						}
					}
					visit(frame{fn: dg, peer: np, first: first, depth: fr.depth + 1})
				}
				continue
			}
			if len(g.Blocks) == 0 {
				continue
			}
			first := fr.first
			if first == nil {
				first = c
			}
			// is g a table's RemoveRoutesFromPeer?
			if g.Signature.Recv() != nil && g.Name() == "RemoveRoutesFromPeer" {
				if n, ok := c08DerefNamed(g.Signature.Recv().Type()); ok && m.byType[n] != nil {
					args := c.Common().Args
					h := hop{call: first, ok: len(args) == 2 && (fr.peer[args[1]] || (fr.fn == handler && fromConn(args[1])))}
					if !h.ok {
						h.why = "the id passed at " + p.Pos(c.Pos()) + " is not the disconnected connection's RemoteID"
					}
					// on every path of the calling wrapper
					if !c10OnEveryPath(fr.fn, c) {
						h.ok, h.why = false, kit.FuncName(fr.fn)+" can return without calling "+kit.FuncName(g)
					}
					reached[m.byType[n]] = append(reached[m.byType[n]], h)
					continue
				}
			}
			if fr.depth >= 3 || !(g.Synthetic != "" || kit.FuncPkgPath(g) == kit.PkgPath(c08Pkg) || kit.FuncPkgPath(g) == kit.PkgPath("internal/agent")) {
				continue
			}
			np := map[ssa.Value]bool{}
			any := false
			for j, a := range c.Common().Args {
				if j < len(g.Params) && (fr.peer[a] || (fr.fn == handler && fromConn(a))) {
					np[g.Params[j]] = true
					any = true
				}
			}
			if !any {
				continue
			}
			visit(frame{fn: g, peer: np, first: first, depth: fr.depth + 1})
		}
	}
	visit(frame{fn: handler, peer: map[ssa.Value]bool{}})
	for _, t := range m.tables {
		key := fmt.Sprintf("%s reaches %s.RemoveRoutesFromPeer", hname, "routing."+t.name)
		pos := p.Pos(handler.Pos())
		hops := reached[t]
		if len(hops) == 0 {
			r.Violation("C10.R5", key, pos, "the disconnect handler never reaches %s.RemoveRoutesFromPeer with the disconnected peer's id: routes learned through the peer stay in that table after the disconnect", t.name)
			continue
		}
		good := false
		why := ""
		for _, h := range hops {
			if !h.ok {
				why = h.why
				continue
			}
			// the first call of the chain lies on every path of the handler
			every := c10OnEveryPath(handler, h.call)
			if !every {
				why = "the handler can return without the call at " + p.Pos(h.call.Pos()) + " (conditional cleanup)"
			}
			if every {
				good = true
			}
		}
		r.Decide(good, "C10.R5", key, pos,
			"called on every path with the connection's RemoteID",
			why+": routes learned through the disconnected peer stay in "+t.name)
	}
	r.Count("disconnect_tables", len(m.tables))
}

// c10OnEveryPath: call executes on every path from the entry of fn to each of its returns. A
// call in the body of a loop that ranges over a non-empty array/slice literal (table-driven
// code) counts when the loop is on every path and every iteration passes the call.
func c10OnEveryPath(fn *ssa.Function, call ssa.Instruction) bool {
	if len(fn.Blocks) == 0 {
		return false
	}
	all := true
	for _, ret := range kit.Returns(fn) {
		if ret.Block() != fn.Recover && c08ReachAvoidingFromEntry(fn, ret, call) {
			all = false
		}
	}
	if all {
		return true
	}
	for _, h := range fn.Blocks {
		if !h.Dominates(call.Block()) || h == call.Block() {
			continue
		}
		loop := c08NaturalLoop(h)
		if len(loop) < 2 || !loop[call.Block()] || !c10LiteralRange(h) || len(h.Instrs) == 0 {
			continue
		}
		body, _ := c08LoopSuccs(h)
		if body == nil || len(body.Instrs) == 0 {
			continue
		}
		hFirst := h.Instrs[0]
		onPath := true
		for _, ret := range kit.Returns(fn) {
			if ret.Block() != fn.Recover && c08ReachAvoidingFromEntry(fn, ret, hFirst) {
				onPath = false
			}
		}
		if !onPath {
			continue
		}
		if body.Instrs[0] != call && kit.CanReachAvoiding(body.Instrs[0], hFirst, map[ssa.Instruction]bool{call: true}) {
			continue
		}
		return true
	}
	return false
}

// c10LiteralRange: h is the header of a range loop over an array/slice literal of constant
// non-zero length.
func c10LiteralRange(h *ssa.BasicBlock) bool {
	ifi, ok := h.Instrs[len(h.Instrs)-1].(*ssa.If)
	if !ok {
		return false
	}
	b, ok := ifi.Cond.(*ssa.BinOp)
	if !ok || b.Op != token.LSS {
		return false
	}
	if _, isIdx := c08LoopIndex(b.X); !isIdx {
		return false
	}
	if n, ok := kit.ConstInt(b.Y); ok {
		return n > 0
	}
	cl, ok := b.Y.(*ssa.Call)
	if !ok || kit.CalleeOf(cl).Built != "len" {
		return false
	}
	sl, ok := c08Resolve(cl.Call.Args[0]).(*ssa.Slice)
	if !ok {
		return false
	}
	a, ok := sl.X.(*ssa.Alloc)
	if !ok {
		return false
	}
	if pt, ok := a.Type().Underlying().(*types.Pointer); ok {
		if arr, ok := pt.Elem().Underlying().(*types.Array); ok {
			return arr.Len() > 0
		}
	}
	return false
}

func c08DerefNamed(t types.Type) (*types.Named, bool) {
	if pt, ok := t.(*types.Pointer); ok {
		t = pt.Elem()
	}
	n, ok := t.(*types.Named)
	return n, ok
}

// c08ReachAvoidingFromEntry: ret is reachable from the function entry without executing must.
func c08ReachAvoidingFromEntry(fn *ssa.Function, ret ssa.Instruction, must ssa.Instruction) bool {
	entry := fn.Blocks[0]
	if len(entry.Instrs) == 0 {
		return false
	}
	first := entry.Instrs[0]
	if first == must {
		return false
	}
	if first == ret {
		return true
	}
	return kit.CanReachAvoiding(first, ret, map[ssa.Instruction]bool{must: true})
}
