package rules

import (
	"fmt"
	"go/token"
	"go/types"
	"sort"
	"strings"

	"golang.org/x/tools/go/ssa"

	"mmverify/kit"
)

func init() {
	register(&Check{
		ID: "C21", Level: "other", Patterns: []string{"./internal/socks5", "./internal/agent"},
		Technique: "must-pass-through (auth success edge) over the static call graph, nil-error/true-result leaf analysis, path-sensitive abstract evaluation of the authenticator list under the assumption auth.enabled",
		Explain: "Decides (R1) that every static call chain into a function that invokes Dialer.Dial/DialContext, UDPAssociationHandler.CreateUDPAssociation or ICMPHandler.CreateICMPSession crosses the err==nil edge of an authenticating call (the WebSocket listener is covered because it can only reach these through Handler.Handle); (R2) that the functions invoking Authenticator.Authenticate return a nil error only with Authenticate's own nil result on an element of the handler's authenticator list, that every credential-holding Authenticator returns nil only after CredentialStore.Valid was true, and that every Valid returns true only for a present entry whose stored secret compared equal to the supplied password; (R3) by abstract evaluation of the list construction from every call chain that stores Handler.authenticators, with config SOCKS5AuthConfig.Enabled assumed true, that the stored list is non-empty and contains only credential-checking authenticators. " +
			"Trusted: bcrypt/subtle compare semantics. Not decided: strength of credentials, HTTP-level Basic auth of the WebSocket endpoint.",
		Run:       runC21,
		SelfTests: c21SelfTests,
	})
}

var c21SelfTests = []SelfTest{
	// ---- R1
	{Name: "auth error only logged, dispatch continues", ExpectRule: "C21.R1", Edits: []Edit{
		{File: "internal/socks5/handler.go", Old: "\tif err != nil {\n\t\treturn fmt.Errorf(\"authentication: %w\", err)\n\t}\n", New: "\tif err != nil {\n\t\t_ = fmt.Errorf(\"authentication: %w\", err)\n\t}\n"},
	}},
	{Name: "auth gate weakened by an exemption", ExpectRule: "C21.R1", Edits: []Edit{
		{File: "internal/socks5/handler.go", Old: "\tif err != nil {\n\t\treturn fmt.Errorf(\"authentication: %w\", err)\n\t}\n", New: "\tif err != nil && !errors.Is(err, io.EOF) {\n\t\treturn fmt.Errorf(\"authentication: %w\", err)\n\t}\n"},
	}},
	{Name: "auth gate inverted", ExpectRule: "C21.R1", Edits: []Edit{
		{File: "internal/socks5/handler.go", Old: "\tif err != nil {\n\t\treturn fmt.Errorf(\"authentication: %w\", err)\n\t}\n", New: "\tif err == nil {\n\t\treturn fmt.Errorf(\"authentication: %w\", err)\n\t}\n"},
	}},
	{Name: "websocket listener bypasses Handle", ExpectRule: "C21.R1", Edits: []Edit{
		{File: "internal/socks5/ws_listener.go", Old: "\tl.handler.Handle(wc)\n", New: "\tif req, err := l.handler.readRequest(wc); err == nil {\n\t\tl.handler.handleConnect(wc, req)\n\t}\n"},
	}},
	// ---- R2
	{Name: "authenticate returns success when no method is acceptable", ExpectRule: "C21.R2", Edits: []Edit{
		{File: "internal/socks5/handler.go", Old: "\t\treturn \"\", errors.New(\"no acceptable authentication method\")\n", New: "\t\treturn \"\", nil\n"},
	}},
	{Name: "Authenticate error dropped", ExpectRule: "C21.R2", Edits: []Edit{
		{File: "internal/socks5/handler.go", Old: "\treturn selectedAuth.Authenticate(conn, conn)\n", New: "\tuser, _ := selectedAuth.Authenticate(conn, conn)\n\treturn user, nil\n"},
	}},
	{Name: "fallback to a fresh no-auth authenticator", ExpectRule: "C21.R2", Edits: []Edit{
		{File: "internal/socks5/handler.go", Old: "\t\tconn.Write([]byte{SOCKS5Version, AuthMethodNoAcceptable})\n\t\treturn \"\", errors.New(\"no acceptable authentication method\")\n", New: "\t\tselectedAuth = &NoAuthAuthenticator{}\n"},
	}},
	{Name: "invalid credentials answered with failure but accepted", ExpectRule: "C21.R2", Edits: []Edit{
		{File: "internal/socks5/auth.go", Old: "\t\twriter.Write([]byte{0x01, AuthStatusFailure})\n\t\treturn \"\", errors.New(\"authentication failed\")\n", New: "\t\twriter.Write([]byte{0x01, AuthStatusFailure})\n"},
	}},
	{Name: "Valid polarity inverted in Authenticate", ExpectRule: "C21.R2", Edits: []Edit{
		{File: "internal/socks5/auth.go", Old: "if !a.Credentials.Valid(string(username), string(password)) {", New: "if a.Credentials.Valid(string(username), string(password)) {"},
	}},
	{Name: "bcrypt mismatch accepted", ExpectRule: "C21.R2", Edits: []Edit{
		{File: "internal/socks5/auth.go", Old: "return bcrypt.CompareHashAndPassword([]byte(storedHash), []byte(password)) == nil", New: "return bcrypt.CompareHashAndPassword([]byte(storedHash), []byte(password)) != nil"},
	}},
	{Name: "unknown user falls through to the compare (empty password accepted)", ExpectRule: "C21.R2", Edits: []Edit{
		{File: "internal/socks5/auth.go", Old: "\t\tsubtle.ConstantTimeCompare([]byte(password), []byte(password))\n\t\treturn false\n", New: "\t\tsubtle.ConstantTimeCompare([]byte(password), []byte(password))\n"},
	}},
	{Name: "constant-time compare result misread", ExpectRule: "C21.R2", Edits: []Edit{
		{File: "internal/socks5/auth.go", Old: "return subtle.ConstantTimeCompare([]byte(storedPass), []byte(password)) == 1", New: "return subtle.ConstantTimeCompare([]byte(storedPass), []byte(password)) == 0"},
	}},
	{Name: "stored secret compared with itself", ExpectRule: "C21.R2", Edits: []Edit{
		{File: "internal/socks5/auth.go", Old: "return subtle.ConstantTimeCompare([]byte(storedPass), []byte(password)) == 1", New: "return subtle.ConstantTimeCompare([]byte(storedPass), []byte(storedPass)) == 1"},
	}},
	{Name: "empty password accepted without consulting the store", ExpectRule: "C21.R2", Edits: []Edit{
		{File: "internal/socks5/auth.go", Old: "\tpassword := make([]byte, pLen)\n", New: "\tif pLen == 0 {\n\t\treturn string(username), nil\n\t}\n\tpassword := make([]byte, pLen)\n"},
	}},
	{Name: "unknown user judged by the dummy hash", ExpectRule: "C21.R2", Edits: []Edit{
		{File: "internal/socks5/auth.go", Old: "\t\tbcrypt.CompareHashAndPassword([]byte(dummyHash), []byte(password))\n\t\treturn false\n", New: "\t\treturn bcrypt.CompareHashAndPassword([]byte(dummyHash), []byte(password)) == nil\n"},
	}},
	{Name: "any bcrypt error other than a mismatch counts as success (seed C21-a class)", ExpectRule: "C21.R2", Edits: []Edit{
		{File: "internal/socks5/auth.go", Old: "\treturn bcrypt.CompareHashAndPassword([]byte(storedHash), []byte(password)) == nil\n", New: "\terr := bcrypt.CompareHashAndPassword([]byte(storedHash), []byte(password))\n\tif errors.Is(err, bcrypt.ErrMismatchedHashAndPassword) {\n\t\treturn false\n\t}\n\treturn true\n"},
	}},
	{Name: "user name checked against itself", ExpectRule: "C21.R2", Edits: []Edit{
		{File: "internal/socks5/auth.go", Old: "if !a.Credentials.Valid(string(username), string(password)) {", New: "if !a.Credentials.Valid(string(username), string(username)) {"},
	}},
	{Name: "password trimmed before the comparison", ExpectRule: "C21.R2", Edits: []Edit{
		{File: "internal/socks5/auth.go", Old: "return subtle.ConstantTimeCompare([]byte(storedPass), []byte(password)) == 1", New: "return subtle.ConstantTimeCompare([]byte(storedPass), bytes.TrimSpace([]byte(password))) == 1"},
		{File: "internal/socks5/auth.go", Old: "import (\n\t\"crypto/subtle\"\n", New: "import (\n\t\"bytes\"\n\t\"crypto/subtle\"\n"},
	}},
	{Name: "recently authenticated peers skip the handshake", ExpectRule: "C21.R2", Edits: []Edit{
		{File: "internal/socks5/handler.go", Old: "\theader := make([]byte, 2)\n\tif _, err := io.ReadFull(conn, header); err != nil {\n\t\treturn \"\", err\n\t}\n\n\tif header[0] != SOCKS5Version {\n\t\treturn \"\", fmt.Errorf", New: "\tif ra := conn.RemoteAddr(); ra != nil && ra.String() == h.lastPeer {\n\t\treturn \"\", nil\n\t}\n\theader := make([]byte, 2)\n\tif _, err := io.ReadFull(conn, header); err != nil {\n\t\treturn \"\", err\n\t}\n\n\tif header[0] != SOCKS5Version {\n\t\treturn \"\", fmt.Errorf"},
		{File: "internal/socks5/handler.go", Old: "\tauthenticators []Authenticator\n\tdialer         Dialer\n", New: "\tauthenticators []Authenticator\n\tdialer         Dialer\n\tlastPeer       string\n"},
	}},
	{Name: "loopback clients exempted from authentication", ExpectRule: "C21.R1", Edits: []Edit{
		{File: "internal/socks5/handler.go", Old: "\t_, err := h.authenticate(conn)\n\tif err != nil {\n\t\treturn fmt.Errorf(\"authentication: %w\", err)\n\t}\n", New: "\ttcp, _ := conn.RemoteAddr().(*net.TCPAddr)\n\tif tcp == nil || !tcp.IP.IsLoopback() {\n\t\tif _, err := h.authenticate(conn); err != nil {\n\t\t\treturn fmt.Errorf(\"authentication: %w\", err)\n\t\t}\n\t}\n"},
	}},
	// ---- R4
	{Name: "user without password stored with the empty secret (seed C21-b class)", ExpectRule: "C21.R4", Edits: []Edit{
		{File: "internal/agent/agent.go", Old: "\t\t} else if u.Password != \"\" {\n\t\t\t// Fall back to plaintext password (deprecated)\n\t\t\tusers[u.Username] = u.Password\n", New: "\t\t} else {\n\t\t\t// Fall back to plaintext password (deprecated)\n\t\t\tusers[u.Username] = u.Password\n"},
	}},
	{Name: "user loops merged into a helper that loses the non-empty test", ExpectRule: "C21.R4", Edits: []Edit{
		{File: "internal/agent/agent.go", Old: "\t// Separate plaintext and hashed credentials\n\tusers := make(map[string]string)\n\thashedUsers := make(map[string]string)\n\n\tfor _, u := range a.cfg.SOCKS5.Auth.Users {\n\t\tif u.PasswordHash != \"\" {\n\t\t\t// Prefer password hash if available\n\t\t\thashedUsers[u.Username] = u.PasswordHash\n\t\t} else if u.Password != \"\" {\n\t\t\t// Fall back to plaintext password (deprecated)\n\t\t\tusers[u.Username] = u.Password\n\t\t}\n\t}\n", New: "\tusers, hashedUsers := a.splitSOCKS5Users()\n"},
		{File: "internal/agent/agent.go", Old: "// buildSOCKS5Auth builds SOCKS5 authenticators from config.\n", New: "func (a *Agent) splitSOCKS5Users() (users, hashedUsers map[string]string) {\n\tusers = make(map[string]string)\n\thashedUsers = make(map[string]string)\n\tfor _, u := range a.cfg.SOCKS5.Auth.Users {\n\t\tif u.PasswordHash != \"\" {\n\t\t\thashedUsers[u.Username] = u.PasswordHash\n\t\t\tcontinue\n\t\t}\n\t\tusers[u.Username] = u.Password\n\t}\n\treturn users, hashedUsers\n}\n\n// buildSOCKS5Auth builds SOCKS5 authenticators from config.\n"},
	}},
	{Name: "websocket credential store built without the non-empty test", ExpectRule: "C21.R4", Edits: []Edit{
		{File: "internal/agent/agent.go", Old: "\t\t} else if u.Password != \"\" {\n\t\t\tusers[u.Username] = u.Password\n", New: "\t\t} else {\n\t\t\tusers[u.Username] = u.Password\n"},
	}},
	// ---- R3
	{Name: "agent appends no-auth for compatibility", ExpectRule: "C21.R3", Edits: []Edit{
		{File: "internal/agent/agent.go", Old: "\treturn socks5.CreateAuthenticators(socks5.AuthConfig{\n", New: "\treturn append(socks5.CreateAuthenticators(socks5.AuthConfig{\n"},
		{File: "internal/agent/agent.go", Old: "\t\tHashedUsers: hashedUsers,\n\t})\n}\n\n// buildSOCKS5CredentialStore", New: "\t\tHashedUsers: hashedUsers,\n\t}), &socks5.NoAuthAuthenticator{})\n}\n\n// buildSOCKS5CredentialStore"},
	}},
	{Name: "empty user list leaves the list empty (the original defect)", ExpectRule: "C21.R3", Edits: []Edit{
		{File: "internal/socks5/auth.go", Old: "\t\t} else {\n\t\t\t// Fall back to plaintext credentials (deprecated)\n\t\t\tcreds = StaticCredentials(cfg.Users)\n\t\t}\n\t\tauths = append(auths, NewUserPassAuthenticator(creds))\n", New: "\t\t} else if len(cfg.Users) > 0 {\n\t\t\tcreds = StaticCredentials(cfg.Users)\n\t\t}\n\t\tif creds != nil {\n\t\t\tauths = append(auths, NewUserPassAuthenticator(creds))\n\t\t}\n"},
	}},
	{Name: "agent stops requiring authentication", ExpectRule: "C21.R3", Edits: []Edit{
		{File: "internal/agent/agent.go", Old: "\t\tEnabled:     true,\n\t\tRequired:    true,\n\t\tUsers:       users,\n", New: "\t\tEnabled:     true,\n\t\tRequired:    false,\n\t\tUsers:       users,\n"},
	}},
	{Name: "agent falls back to no-auth when no user is configured", ExpectRule: "C21.R3", Edits: []Edit{
		{File: "internal/agent/agent.go", Old: "\tif !a.cfg.SOCKS5.Auth.Enabled {\n\t\treturn []socks5.Authenticator{&socks5.NoAuthAuthenticator{}}", New: "\tif !a.cfg.SOCKS5.Auth.Enabled || len(a.cfg.SOCKS5.Auth.Users) == 0 {\n\t\treturn []socks5.Authenticator{&socks5.NoAuthAuthenticator{}}"},
	}},
	{Name: "websocket listener gets its own handler without authenticators", ExpectRule: "C21.R3", Edits: []Edit{
		{File: "internal/socks5/server.go", Old: "listener, err := NewWebSocketListener(cfg, s.handler)", New: "listener, err := NewWebSocketListener(cfg, NewHandler(nil, s.cfg.Dialer))"},
	}},
	// ---- rewrites
	{Name: "rewrite: handshake wrapper and serve helper", Edits: []Edit{
		{File: "internal/socks5/handler.go", Old: "\t_, err := h.authenticate(conn)\n\tif err != nil {\n\t\treturn fmt.Errorf(\"authentication: %w\", err)\n\t}\n", New: "\tif err := h.handshake(conn); err != nil {\n\t\treturn err\n\t}\n"},
		{File: "internal/socks5/handler.go", Old: "// Handle processes a SOCKS5 connection.\n", New: "func (h *Handler) handshake(conn net.Conn) error {\n\tif _, err := h.authenticate(conn); err != nil {\n\t\treturn fmt.Errorf(\"authentication: %w\", err)\n\t}\n\treturn nil\n}\n\n// Handle processes a SOCKS5 connection.\n"},
	}},
	{Name: "rewrite: method selection in a helper, switch on error", Edits: []Edit{
		{File: "internal/socks5/handler.go", Old: "\tvar selectedAuth Authenticator\n\tfor _, auth := range h.authenticators {\n\t\tfor _, m := range methods {\n\t\t\tif m == auth.GetMethod() {\n\t\t\t\tselectedAuth = auth\n\t\t\t\tbreak\n\t\t\t}\n\t\t}\n\t\tif selectedAuth != nil {\n\t\t\tbreak\n\t\t}\n\t}\n", New: "\tselectedAuth := h.selectAuth(methods)\n"},
		{File: "internal/socks5/handler.go", Old: "// readRequest reads the SOCKS5 request.\n", New: "func (h *Handler) selectAuth(methods []byte) Authenticator {\n\tfor i := range h.authenticators {\n\t\tfor _, m := range methods {\n\t\t\tif m == h.authenticators[i].GetMethod() {\n\t\t\t\treturn h.authenticators[i]\n\t\t\t}\n\t\t}\n\t}\n\treturn nil\n}\n\n// readRequest reads the SOCKS5 request.\n"},
	}},
	{Name: "rewrite: Valid with positive ok test and explicit err variable", Edits: []Edit{
		{File: "internal/socks5/auth.go", Old: "\treturn bcrypt.CompareHashAndPassword([]byte(storedHash), []byte(password)) == nil\n", New: "\tif err := bcrypt.CompareHashAndPassword([]byte(storedHash), []byte(password)); err != nil {\n\t\treturn false\n\t}\n\treturn true\n"},
		{File: "internal/socks5/auth.go", Old: "\treturn subtle.ConstantTimeCompare([]byte(storedPass), []byte(password)) == 1\n", New: "\tsame := subtle.ConstantTimeCompare([]byte(password), []byte(storedPass)) == 1\n\treturn ok && same\n"},
	}},
	{Name: "rewrite: Authenticate with the success branch first, compare result tested against 0", Edits: []Edit{
		{File: "internal/socks5/auth.go", Old: "\tif !a.Credentials.Valid(string(username), string(password)) {\n\t\t// Send failure response\n\t\twriter.Write([]byte{0x01, AuthStatusFailure})\n\t\treturn \"\", errors.New(\"authentication failed\")\n\t}\n\n\t// Send success response\n\t_, err := writer.Write([]byte{0x01, AuthStatusSuccess})\n\tif err != nil {\n\t\treturn \"\", err\n\t}\n\n\treturn string(username), nil\n", New: "\tif a.Credentials != nil && a.Credentials.Valid(string(username), string(password)) {\n\t\t_, err := writer.Write([]byte{0x01, AuthStatusSuccess})\n\t\treturn string(username), err\n\t}\n\twriter.Write([]byte{0x01, AuthStatusFailure})\n\treturn \"\", errors.New(\"authentication failed\")\n"},
		{File: "internal/socks5/auth.go", Old: "return subtle.ConstantTimeCompare([]byte(storedPass), []byte(password)) == 1", New: "return subtle.ConstantTimeCompare([]byte(storedPass), []byte(password)) != 0"},
	}},
	{Name: "rewrite: empty secrets rejected in Valid instead of at insertion; users split in a helper", Edits: []Edit{
		{File: "internal/socks5/auth.go", Old: "\treturn subtle.ConstantTimeCompare([]byte(storedPass), []byte(password)) == 1\n", New: "\tif storedPass == \"\" {\n\t\treturn false\n\t}\n\treturn subtle.ConstantTimeCompare([]byte(storedPass), []byte(password)) == 1\n"},
		{File: "internal/agent/agent.go", Old: "\t\t} else if u.Password != \"\" {\n\t\t\t// Fall back to plaintext password (deprecated)\n\t\t\tusers[u.Username] = u.Password\n", New: "\t\t} else {\n\t\t\t// Fall back to plaintext password (deprecated)\n\t\t\tusers[u.Username] = u.Password\n"},
	}},
	{Name: "rewrite: empty password rejected by the authenticator, insertion unguarded", Edits: []Edit{
		{File: "internal/socks5/auth.go", Old: "\tpassword := make([]byte, pLen)\n", New: "\tif pLen < 1 {\n\t\treturn \"\", errors.New(\"password is empty\")\n\t}\n\tpassword := make([]byte, pLen)\n"},
		{File: "internal/agent/agent.go", Old: "\t\t} else if u.Password != \"\" {\n\t\t\tusers[u.Username] = u.Password\n", New: "\t\t} else {\n\t\t\tusers[u.Username] = u.Password\n"},
	}},
	{Name: "rewrite: insertion guarded by len()", Edits: []Edit{
		{File: "internal/agent/agent.go", Old: "\t\t} else if u.Password != \"\" {\n\t\t\t// Fall back to plaintext password (deprecated)\n\t\t\tusers[u.Username] = u.Password\n", New: "\t\t} else if len(u.Password) > 0 {\n\t\t\t// Fall back to plaintext password (deprecated)\n\t\t\tusers[u.Username] = u.Password\n"},
	}},
	{Name: "rewrite: handler selected as a method value after authentication", Edits: []Edit{
		{File: "internal/socks5/handler.go", Old: "\tswitch req.Command {\n\tcase CmdConnect:\n\t\treturn h.handleConnect(conn, req)\n\tcase CmdUDPAssociate:\n\t\treturn h.handleUDPAssociate(conn, req)\n\tcase CmdICMPEcho:\n\t\treturn h.handleICMPEcho(conn, req)\n\tdefault:\n\t\th.sendReply(conn, ReplyCmdNotSupported, nil, 0)\n\t\treturn fmt.Errorf(\"unsupported command: %d\", req.Command)\n\t}\n}\n", New: "\tvar serve func(net.Conn, *Request) error\n\tswitch req.Command {\n\tcase CmdICMPEcho:\n\t\tserve = h.handleICMPEcho\n\tcase CmdUDPAssociate:\n\t\tserve = h.handleUDPAssociate\n\tcase CmdConnect:\n\t\tserve = h.handleConnect\n\t}\n\tif serve == nil {\n\t\th.sendReply(conn, ReplyCmdNotSupported, nil, 0)\n\t\treturn fmt.Errorf(\"unsupported command: %d\", req.Command)\n\t}\n\treturn serve(conn, req)\n}\n"},
	}},
	{Name: "rewrite: dial moved into a helper called by the CONNECT handler", Edits: []Edit{
		{File: "internal/socks5/handler.go", Old: "\ttarget, err := h.dialer.DialContext(ctx, \"tcp\", targetAddr)\n", New: "\ttarget, err := h.dialTo(ctx, targetAddr)\n"},
		{File: "internal/socks5/handler.go", Old: "// handleConnect handles CONNECT commands.\n", New: "func (h *Handler) dialTo(ctx context.Context, address string) (net.Conn, error) {\n\treturn h.dialer.DialContext(ctx, \"tcp\", address)\n}\n\n// handleConnect handles CONNECT commands.\n"},
	}},
	{Name: "websocket listener takes the CONNECT handler as a method value and calls it", ExpectRule: "C21.R1", Edits: []Edit{
		{File: "internal/socks5/ws_listener.go", Old: "\tl.handler.Handle(wc)\n", New: "\tserve := l.handler.handleConnect\n\tif req, err := l.handler.readRequest(wc); err == nil {\n\t\tserve(wc, req)\n\t}\n"},
	}},
	{Name: "handler table built before authentication and used without it", ExpectRule: "C21.R1", Edits: []Edit{
		{File: "internal/socks5/handler.go", Old: "\t_, err := h.authenticate(conn)\n\tif err != nil {\n\t\treturn fmt.Errorf(\"authentication: %w\", err)\n\t}\n", New: "\tfast := map[byte]func(net.Conn, *Request) error{CmdConnect: h.handleConnect}\n\t_, err := h.authenticate(conn)\n\tif err != nil {\n\t\tif req, rerr := h.readRequest(conn); rerr == nil && fast[req.Command] != nil {\n\t\t\treturn fast[req.Command](conn, req)\n\t\t}\n\t\treturn fmt.Errorf(\"authentication: %w\", err)\n\t}\n"},
	}},
	{Name: "rewrite: table-driven dispatch (map from command to method value)", Edits: []Edit{
		{File: "internal/socks5/handler.go", Old: "\tswitch req.Command {\n\tcase CmdConnect:\n\t\treturn h.handleConnect(conn, req)\n\tcase CmdUDPAssociate:\n\t\treturn h.handleUDPAssociate(conn, req)\n\tcase CmdICMPEcho:\n\t\treturn h.handleICMPEcho(conn, req)\n\tdefault:\n\t\th.sendReply(conn, ReplyCmdNotSupported, nil, 0)\n\t\treturn fmt.Errorf(\"unsupported command: %d\", req.Command)\n\t}\n}\n", New: "\thandlers := map[byte]func(net.Conn, *Request) error{\n\t\tCmdConnect:      h.handleConnect,\n\t\tCmdUDPAssociate: h.handleUDPAssociate,\n\t\tCmdICMPEcho:     h.handleICMPEcho,\n\t}\n\tserve, ok := handlers[req.Command]\n\tif !ok {\n\t\th.sendReply(conn, ReplyCmdNotSupported, nil, 0)\n\t\treturn fmt.Errorf(\"unsupported command: %d\", req.Command)\n\t}\n\treturn serve(conn, req)\n}\n"},
	}},
	{Name: "rewrite: command handlers registered in a table by the constructor", Edits: []Edit{
		{File: "internal/socks5/handler.go", Old: "\tswitch req.Command {\n\tcase CmdConnect:\n\t\treturn h.handleConnect(conn, req)\n\tcase CmdUDPAssociate:\n\t\treturn h.handleUDPAssociate(conn, req)\n\tcase CmdICMPEcho:\n\t\treturn h.handleICMPEcho(conn, req)\n\tdefault:\n\t\th.sendReply(conn, ReplyCmdNotSupported, nil, 0)\n\t\treturn fmt.Errorf(\"unsupported command: %d\", req.Command)\n\t}\n}\n", New: "\tserve, ok := h.commands[req.Command]\n\tif !ok {\n\t\th.sendReply(conn, ReplyCmdNotSupported, nil, 0)\n\t\treturn fmt.Errorf(\"unsupported command: %d\", req.Command)\n\t}\n\treturn serve(conn, req)\n}\n"},
		{File: "internal/socks5/handler.go", Old: "\tauthenticators []Authenticator\n\tdialer         Dialer\n", New: "\tauthenticators []Authenticator\n\tdialer         Dialer\n\tcommands       map[byte]func(net.Conn, *Request) error\n"},
		{File: "internal/socks5/handler.go", Old: "\treturn &Handler{\n\t\tauthenticators:   auths,\n\t\tdialer:           dialer,\n\t\tudpAssociations:  make(map[uint64]*UDPAssociation),\n\t\ticmpAssociations: make(map[uint64]*ICMPAssociation),\n\t}\n", New: "\th := &Handler{\n\t\tauthenticators:   auths,\n\t\tdialer:           dialer,\n\t\tudpAssociations:  make(map[uint64]*UDPAssociation),\n\t\ticmpAssociations: make(map[uint64]*ICMPAssociation),\n\t}\n\th.commands = map[byte]func(net.Conn, *Request) error{\n\t\tCmdConnect:      h.handleConnect,\n\t\tCmdUDPAssociate: h.handleUDPAssociate,\n\t\tCmdICMPEcho:     h.handleICMPEcho,\n\t}\n\treturn h\n"},
	}},
	{Name: "rewrite: empty-list default in one helper shared by NewHandler and NewServer", Edits: []Edit{
		{File: "internal/socks5/handler.go", Old: "\tif len(auths) == 0 {\n\t\tauths = []Authenticator{&NoAuthAuthenticator{}}\n\t}\n", New: "\tauths = authenticatorsOrDefault(auths)\n"},
		{File: "internal/socks5/server.go", Old: "\tif len(cfg.Authenticators) == 0 {\n\t\tcfg.Authenticators = []Authenticator{&NoAuthAuthenticator{}}\n\t}\n", New: "\tcfg.Authenticators = authenticatorsOrDefault(cfg.Authenticators)\n"},
		{File: "internal/socks5/auth.go", Old: "// AuthConfig holds authentication configuration.\n", New: "func authenticatorsOrDefault(auths []Authenticator) []Authenticator {\n\tif len(auths) > 0 {\n\t\treturn auths\n\t}\n\treturn []Authenticator{&NoAuthAuthenticator{}}\n}\n\n// AuthConfig holds authentication configuration.\n"},
	}},
	{Name: "shared default helper plus an empty list for an empty user set", ExpectRule: "C21.R3", Edits: []Edit{
		{File: "internal/socks5/handler.go", Old: "\tif len(auths) == 0 {\n\t\tauths = []Authenticator{&NoAuthAuthenticator{}}\n\t}\n", New: "\tauths = authenticatorsOrDefault(auths)\n"},
		{File: "internal/socks5/server.go", Old: "\tif len(cfg.Authenticators) == 0 {\n\t\tcfg.Authenticators = []Authenticator{&NoAuthAuthenticator{}}\n\t}\n", New: "\tcfg.Authenticators = authenticatorsOrDefault(cfg.Authenticators)\n"},
		{File: "internal/socks5/auth.go", Old: "// AuthConfig holds authentication configuration.\n", New: "func authenticatorsOrDefault(auths []Authenticator) []Authenticator {\n\tif len(auths) > 0 {\n\t\treturn auths\n\t}\n\treturn []Authenticator{&NoAuthAuthenticator{}}\n}\n\n// AuthConfig holds authentication configuration.\n"},
		{File: "internal/socks5/auth.go", Old: "\t\t} else {\n\t\t\t// Fall back to plaintext credentials (deprecated)\n\t\t\tcreds = StaticCredentials(cfg.Users)\n\t\t}\n\t\tauths = append(auths, NewUserPassAuthenticator(creds))\n", New: "\t\t} else if len(cfg.Users) > 0 {\n\t\t\tcreds = StaticCredentials(cfg.Users)\n\t\t}\n\t\tif creds != nil {\n\t\t\tauths = append(auths, NewUserPassAuthenticator(creds))\n\t\t}\n"},
	}},
	{Name: "rewrite: agent builds the list itself, server relies on NewHandler's default", Edits: []Edit{
		{File: "internal/agent/agent.go", Old: "\treturn socks5.CreateAuthenticators(socks5.AuthConfig{\n\t\tEnabled:     true,\n\t\tRequired:    true,\n\t\tUsers:       users,\n\t\tHashedUsers: hashedUsers,\n\t})\n", New: "\tvar creds socks5.CredentialStore = socks5.StaticCredentials(users)\n\tif len(hashedUsers) > 0 {\n\t\tcreds = socks5.HashedCredentials(hashedUsers)\n\t}\n\tauths := make([]socks5.Authenticator, 0, 1)\n\tauths = append(auths, socks5.NewUserPassAuthenticator(creds))\n\treturn auths\n"},
		{File: "internal/socks5/server.go", Old: "\tif len(cfg.Authenticators) == 0 {\n\t\tcfg.Authenticators = []Authenticator{&NoAuthAuthenticator{}}\n\t}\n", New: ""},
	}},
	{Name: "rewrite: CreateAuthenticators with switch and early no-auth return when disabled", Edits: []Edit{
		{File: "internal/socks5/auth.go", Old: "\t\tvar creds CredentialStore\n\t\tif len(cfg.HashedUsers) > 0 {\n\t\t\t// Prefer hashed credentials if available\n\t\t\tcreds = HashedCredentials(cfg.HashedUsers)\n\t\t} else {\n\t\t\t// Fall back to plaintext credentials (deprecated)\n\t\t\tcreds = StaticCredentials(cfg.Users)\n\t\t}\n\t\tauths = append(auths, NewUserPassAuthenticator(creds))\n", New: "\t\tswitch {\n\t\tcase len(cfg.HashedUsers) > 0:\n\t\t\tauths = append(auths, NewUserPassAuthenticator(HashedCredentials(cfg.HashedUsers)))\n\t\tdefault:\n\t\t\tauths = []Authenticator{&UserPassAuthenticator{Credentials: StaticCredentials(cfg.Users)}}\n\t\t}\n"},
	}},
}

// ---------------------------------------------------------------------------------------------

type c21cx struct {
	p *kit.Program
	r *kit.Report

	socksPkg   string
	authNamed  *types.Named // socks5.Authenticator
	credNamed  *types.Named // socks5.CredentialStore
	listField  *types.Var   // the []Authenticator field of socks5.Handler
	cfgEnabled *types.Var   // config.SOCKS5AuthConfig.Enabled

	authFnState map[*ssa.Function]int // 1 in progress, 2 yes, 3 no
	authFnWhy   map[*ssa.Function]string
	closedType  map[string]bool   // concrete authenticator type name -> Authenticate returns nil only after Valid
	typeWhy     map[string]string // why a type is open

	enabledConsulted int
	stores           []c21Store
}

type c21Store struct {
	named *types.Named
	valid *ssa.Function
}

func c21IsErrCtor(v ssa.Value) bool {
	switch x := v.(type) {
	case *ssa.Call:
		cal := kit.CalleeOf(x)
		return (cal.Pkg == "errors" && cal.Name == "New") || (cal.Pkg == "fmt" && cal.Name == "Errorf")
	case *ssa.MakeInterface:
		return true
	}
	return false
}

// c21NilTest: cond (normalised, with polarity pol) establishes v != nil (wantNil=false) or v == nil (wantNil=true).
func c21NilTest(g kit.Guard, v ssa.Value, wantNil bool) bool {
	x, trueMeansNil, ok := kit.IsErrNilCheck(g.Cond)
	if !ok || x != v {
		return false
	}
	return (trueMeansNil == g.Polarity) == wantNil
}

func (cx *c21cx) isAuthenticatorIface(t types.Type) bool {
	n, ok := t.(*types.Named)
	return ok && n == cx.authNamed
}

// isAuthInvoke: call is Authenticator.Authenticate through the interface, or a static call of
// the Authenticate method of a credential-checking implementation.
func (cx *c21cx) isAuthInvoke(c ssa.CallInstruction) bool {
	cc := c.Common()
	if cc.IsInvoke() {
		return cc.Method.Name() == "Authenticate" && cx.isAuthenticatorIface(cc.Value.Type())
	}
	cal := kit.CalleeOf(c)
	if cal.Static != nil && cal.Name == "Authenticate" && cal.Recv != "" && cal.Pkg == cx.socksPkg {
		return cx.closedType[cal.Recv]
	}
	return false
}

// isAuthEvent: an authenticating call: Authenticate itself or a repository function that
// returns a nil error only with a successful authenticating call.
func (cx *c21cx) isAuthEvent(c ssa.CallInstruction) bool {
	if cx.isAuthInvoke(c) {
		return true
	}
	cal := kit.CalleeOf(c)
	if cal.Static != nil && cal.Static.Blocks != nil && kit.IsRepoPkg(cal.Pkg) {
		return cx.authFn(cal.Static)
	}
	return false
}

// authFn: fn's last result is an error that is nil only if an authenticating call inside fn
// returned nil (directly passed through, or on the err==nil edge of that call).
func (cx *c21cx) authFn(fn *ssa.Function) bool {
	switch cx.authFnState[fn] {
	case 1, 3:
		return false
	case 2:
		return true
	}
	cx.authFnState[fn] = 1
	ok, why := cx.authFnCompute(fn)
	if ok {
		cx.authFnState[fn] = 2
	} else {
		cx.authFnState[fn] = 3
		cx.authFnWhy[fn] = why
	}
	return ok
}

func (cx *c21cx) authFnCompute(fn *ssa.Function) (bool, string) {
	res := fn.Signature.Results()
	if res.Len() == 0 || !kit.IsErrorType(res.At(res.Len()-1).Type()) {
		return false, "no error result"
	}
	hasEvent := false
	for _, c := range kit.Calls(fn) {
		if _, isCall := c.(*ssa.Call); isCall && cx.isAuthEvent(c) {
			hasEvent = true
		}
	}
	if !hasEvent {
		return false, "contains no authenticating call"
	}
	leaves := kit.ResultLeaves(fn, res.Len()-1)
	if len(leaves) == 0 {
		return false, "no return"
	}
	for _, l := range leaves {
		if cx.errLeafAuthenticated(fn, l) {
			continue
		}
		return false, "return at " + cx.p.Pos(l.Ret.Pos()) + " can yield a nil error without a successful Authenticate"
	}
	return true, ""
}

// errLeafAuthenticated: the error value of this leaf is non-nil, or is the error result of an
// authenticating call, or the leaf is only reached on the err==nil edge of one.
func (cx *c21cx) errLeafAuthenticated(fn *ssa.Function, l kit.ResultLeaf) bool {
	if c21IsErrCtor(l.Val) {
		return true
	}
	for _, g := range l.Guards {
		if c21NilTest(g, l.Val, false) {
			return true
		}
	}
	if c, _, ok := kit.ResultOf(l.Val); ok && cx.isAuthEvent(c) && kit.ErrResultOf(c) == l.Val {
		return true
	}
	for _, c := range kit.Calls(fn) {
		call, isCall := c.(*ssa.Call)
		if !isCall || !cx.isAuthEvent(c) {
			continue
		}
		ev := kit.ErrResultOf(call)
		if ev == nil {
			continue
		}
		for _, g := range l.Guards {
			if c21NilTest(g, ev, true) {
				return true
			}
		}
	}
	return false
}

// authSuccessAt: in the named function top, instruction site executes only after an
// authenticating call of top returned a nil error.
func (cx *c21cx) authSuccessAt(top *ssa.Function, site ssa.Instruction) bool {
	gs := kit.NormGuards(kit.GuardsOf(site))
	for _, c := range kit.Calls(top) {
		call, isCall := c.(*ssa.Call)
		if !isCall || !cx.isAuthEvent(c) || !kit.Precedes(call, site) {
			continue
		}
		ev := kit.ErrResultOf(call)
		if ev == nil {
			continue
		}
		for _, g := range gs {
			if c21NilTest(g, ev, true) {
				return true
			}
		}
	}
	return false
}

func c21Lift(in ssa.Instruction) ssa.Instruction {
	for in.Parent() != nil && in.Parent().Parent() != nil {
		fn := in.Parent()
		var mk ssa.Instruction
		kit.Instrs(fn.Parent(), func(x ssa.Instruction) {
			if mc, ok := x.(*ssa.MakeClosure); ok && mc.Fn == fn && mk == nil {
				mk = mc
			}
		})
		if mk == nil {
			return in
		}
		in = mk
	}
	return in
}

// protectedSite: every way control can arrive at site (in named function top) has passed an
// authentication success edge — at the site itself, or at every static call site of top,
// transitively. A function nobody calls is an entry: unprotected.
func (cx *c21cx) protectedSite(top *ssa.Function, site ssa.Instruction, visiting map[*ssa.Function]bool) (bool, string) {
	if cx.authSuccessAt(top, site) {
		return true, ""
	}
	if visiting[top] {
		return true, "" // cycle: decided by the other callers
	}
	visiting[top] = true
	defer delete(visiting, top)
	callers := cx.callSites(top)
	if len(callers) == 0 {
		return false, kit.FuncName(top) + " (an entry: no static caller)"
	}
	for _, c := range callers {
		ctop := kit.TopLevel(c.Parent())
		if ok, via := cx.protectedSite(ctop, c21Lift(c), visiting); !ok {
			return false, kit.FuncName(top) + " <- " + via
		}
	}
	return true, ""
}

// callSites: the static call sites of fn plus the places where fn is taken as a value (method
// value, handler table): the function cannot run before such a reference is evaluated, so the
// reference is judged like a call.
func (cx *c21cx) callSites(fn *ssa.Function) []ssa.Instruction {
	var out []ssa.Instruction
	for _, c := range cx.p.StaticCallers(fn) {
		out = append(out, c)
	}
	for _, ref := range cx.p.G7ValueRefs(fn) {
		// a reference that registers the function in a table kept in a struct field (handlers
		// built by the constructor) runs where that field is looked up and called
		if f := c21RegisteredIn(ref, fn); f != nil {
			if calls := cx.dynamicCallsVia(f); len(calls) > 0 {
				out = append(out, calls...)
				continue
			}
		}
		out = append(out, ref)
	}
	return out
}

// c21RegisteredIn: the function value created/used by instruction ref ends up (directly or as
// an entry of a map) in a struct field; returns that field.
func c21RegisteredIn(ref ssa.Instruction, fn *ssa.Function) *types.Var {
	var start []ssa.Value
	if v, ok := ref.(ssa.Value); ok {
		start = append(start, v) // MakeClosure of the bound method
	}
	switch x := ref.(type) {
	case *ssa.MapUpdate:
		start = append(start, x.Map)
	case *ssa.Store:
		if fa, ok := x.Addr.(*ssa.FieldAddr); ok {
			return kit.FieldOfAddr(fa)
		}
	}
	seen := map[ssa.Value]bool{}
	for len(start) > 0 {
		v := start[0]
		start = start[1:]
		if v == nil || seen[v] || v.Referrers() == nil {
			continue
		}
		seen[v] = true
		for _, r := range *v.Referrers() {
			switch x := r.(type) {
			case *ssa.MapUpdate:
				if x.Value == v {
					start = append(start, x.Map)
				}
			case *ssa.Store:
				if x.Val == v {
					if fa, ok := x.Addr.(*ssa.FieldAddr); ok {
						return kit.FieldOfAddr(fa)
					}
				}
			case *ssa.MakeInterface:
				start = append(start, x)
			case *ssa.ChangeType:
				start = append(start, x)
			case *ssa.Phi:
				start = append(start, x)
			}
		}
	}
	return nil
}

// dynamicCallsVia: the calls of function values obtained from field f (element of the map / slice
// held there, or the field itself).
func (cx *c21cx) dynamicCallsVia(f *types.Var) []ssa.Instruction {
	var out []ssa.Instruction
	var from func(v ssa.Value, d int) bool
	from = func(v ssa.Value, d int) bool {
		if v == nil || d > 6 {
			return false
		}
		if lf, _ := kit.LoadedField(v); lf == f {
			return true
		}
		switch x := v.(type) {
		case *ssa.Extract:
			return from(x.Tuple, d+1)
		case *ssa.Lookup:
			return from(x.X, d+1)
		case *ssa.Index:
			return from(x.X, d+1)
		case *ssa.UnOp:
			if ia, ok := x.X.(*ssa.IndexAddr); ok {
				return from(ia.X, d+1)
			}
		case *ssa.Phi:
			for _, e := range x.Edges {
				if from(e, d+1) {
					return true
				}
			}
		case *ssa.TypeAssert:
			return from(x.X, d+1)
		case *ssa.ChangeType:
			return from(x.X, d+1)
		}
		return false
	}
	for _, fn := range cx.p.RepoFuncs() {
		for _, c := range kit.Calls(fn) {
			cc := c.Common()
			if cc.IsInvoke() || cc.StaticCallee() != nil {
				continue
			}
			if _, isBuiltin := cc.Value.(*ssa.Builtin); isBuiltin {
				continue
			}
			if from(cc.Value, 0) {
				out = append(out, c)
			}
		}
	}
	return out
}

func runC21(p *kit.Program, r *kit.Report) {
	r.Rule("C21.R1", "every static call chain into a function that invokes Dialer.Dial/DialContext, UDPAssociationHandler.CreateUDPAssociation or ICMPHandler.CreateICMPSession crosses the err==nil edge of an authenticating call")
	r.Rule("C21.R2", "functions invoking Authenticator.Authenticate return nil only with its nil result, on an element of Handler's authenticator list; credential-holding authenticators return nil only after CredentialStore.Valid was true; Valid returns true only for a present entry whose secret compared equal to the password")
	r.Rule("C21.R4", "no credential store admits an empty secret: Valid rejects an empty stored secret/password (bcrypt compare, explicit test), or the authenticator rejects an empty password, or every entry inserted into the map that becomes the store is guarded non-empty")
	r.Rule("C21.R3", "with SOCKS5 auth.enabled assumed true, every list stored into Handler's authenticator field (along every static call chain) is non-empty and holds only credential-checking authenticators")
	cx := &c21cx{p: p, r: r, socksPkg: kit.PkgPath("internal/socks5"),
		authFnState: map[*ssa.Function]int{}, authFnWhy: map[*ssa.Function]string{},
		closedType: map[string]bool{}, typeWhy: map[string]string{}}
	cx.authNamed = p.NamedType("internal/socks5", "Authenticator")
	cx.credNamed = p.NamedType("internal/socks5", "CredentialStore")
	cx.cfgEnabled = p.Field("internal/config", "SOCKS5AuthConfig", "Enabled")
	if h := p.NamedType("internal/socks5", "Handler"); h != nil && cx.authNamed != nil {
		for _, f := range kit.StructFields(h) {
			if sl, ok := f.Type().Underlying().(*types.Slice); ok && cx.isAuthenticatorIface(sl.Elem()) {
				cx.listField = f
			}
		}
	}
	if !r.Require(cx.authNamed != nil && cx.credNamed != nil, "anchor-unresolved: interfaces socks5.Authenticator / socks5.CredentialStore") ||
		!r.Require(cx.listField != nil, "anchor-unresolved: []Authenticator field of socks5.Handler") ||
		!r.Require(cx.cfgEnabled != nil, "anchor-unresolved: field config.SOCKS5AuthConfig.Enabled") {
		return
	}

	cx.ruleR2Types()
	cx.ruleR2Authenticate()
	cx.ruleR1()
	cx.ruleR3()
	cx.ruleR4()
}

// ---------------------------------------------------------------------------------------------
// R1

func (cx *c21cx) isCommandSink(c ssa.CallInstruction) (string, bool) {
	cal := kit.CalleeOf(c)
	if !cal.Iface || cal.Pkg != cx.socksPkg {
		return "", false
	}
	switch cal.Recv + "." + cal.Name {
	case "Dialer.Dial", "Dialer.DialContext", "UDPAssociationHandler.CreateUDPAssociation", "ICMPHandler.CreateICMPSession":
		return cal.Recv + "." + cal.Name, true
	}
	return "", false
}

func (cx *c21cx) ruleR1() {
	p, r := cx.p, cx.r
	execs := map[*ssa.Function][]string{}
	for _, fn := range p.RepoFuncs() {
		for _, c := range kit.Calls(fn) {
			if name, ok := cx.isCommandSink(c); ok {
				top := kit.TopLevel(fn)
				execs[top] = append(execs[top], name)
			}
		}
	}
	r.Count("command_executor_functions", len(execs))
	if !r.Require(len(execs) >= 1, "floor: no function invokes a Dialer/UDPAssociationHandler/ICMPHandler command method") {
		return
	}
	nAuthFns := 0
	for _, fn := range p.FuncsInPkg("internal/socks5") {
		if fn.Parent() == nil && cx.authFn(fn) {
			nAuthFns++
		}
	}
	r.Count("authenticating_functions", nAuthFns)
	var fns []*ssa.Function
	for fn := range execs {
		fns = append(fns, fn)
	}
	sort.Slice(fns, func(i, j int) bool { return kit.FuncName(fns[i]) < kit.FuncName(fns[j]) })
	nSites := 0
	for _, ex := range fns {
		callers := cx.callSites(ex)
		if len(callers) == 0 {
			r.Violation("C21.R1", "entry "+kit.FuncName(ex), p.Pos(ex.Pos()),
				"%s executes %s and is an entry of its own (no static caller): nothing authenticates the client before the command runs", kit.FuncName(ex), strings.Join(execs[ex], ","))
			continue
		}
		ord := map[string]int{}
		for _, c := range callers {
			top := kit.TopLevel(c.Parent())
			ord[kit.FuncName(top)]++
			nSites++
			key := fmt.Sprintf("%s calls %s #%d", kit.FuncName(top), kit.FuncName(ex), ord[kit.FuncName(top)])
			ok, via := cx.protectedSite(top, c21Lift(c), map[*ssa.Function]bool{})
			r.Decide(ok, "C21.R1", key, p.Pos(c.Pos()),
				"reached only after an authenticating call returned a nil error",
				"the command executor "+kit.FuncName(ex)+" ("+strings.Join(execs[ex], ",")+") is reachable without crossing the success edge of an authenticating call (unprotected chain: "+via+"): a client that never presented valid credentials gets its command executed")
		}
	}
	r.Count("executor_call_sites", nSites)
}

// ---------------------------------------------------------------------------------------------
// R2: implementations

func c21Implements(t types.Type, iface *types.Named) bool {
	it, ok := iface.Underlying().(*types.Interface)
	if !ok {
		return false
	}
	return types.Implements(t, it) || types.Implements(types.NewPointer(t), it)
}

// repoNamedTypes lists the named non-interface types declared in loaded repository packages.
func (cx *c21cx) repoNamedTypes() []*types.Named {
	var out []*types.Named
	for _, pk := range cx.p.RepoPackages() {
		if pk.Types == nil {
			continue
		}
		sc := pk.Types.Scope()
		for _, name := range sc.Names() {
			tn, ok := sc.Lookup(name).(*types.TypeName)
			if !ok || tn.IsAlias() {
				continue
			}
			n, ok := tn.Type().(*types.Named)
			if !ok || n.TypeParams().Len() > 0 {
				continue
			}
			if _, isIface := n.Underlying().(*types.Interface); isIface {
				continue
			}
			out = append(out, n)
		}
	}
	return out
}

func (cx *c21cx) methodOf(n *types.Named, name string) *ssa.Function {
	for i := 0; i < n.NumMethods(); i++ {
		if m := n.Method(i); m.Name() == name {
			if f := cx.p.SSA.FuncValue(m); f != nil && f.Blocks != nil {
				return f
			}
		}
	}
	return nil
}

func (cx *c21cx) isValidCall(v ssa.Value) bool {
	c, ok := v.(*ssa.Call)
	if !ok {
		return false
	}
	cc := c.Common()
	if cc.IsInvoke() {
		n, ok := cc.Value.Type().(*types.Named)
		return ok && n == cx.credNamed && cc.Method.Name() == "Valid"
	}
	cal := kit.CalleeOf(c)
	if cal.Static != nil && cal.Name == "Valid" && cal.Static.Signature.Recv() != nil {
		return c21Implements(cal.Static.Signature.Recv().Type(), cx.credNamed)
	}
	return false
}

func (cx *c21cx) ruleR2Types() {
	p, r := cx.p, cx.r
	nAuth, nCred := 0, 0
	for _, n := range cx.repoNamedTypes() {
		// ---- Authenticator implementations
		if c21Implements(n, cx.authNamed) {
			nAuth++
			name := n.Obj().Name()
			fn := cx.methodOf(n, "Authenticate")
			holdsCreds := false
			if st, ok := n.Underlying().(*types.Struct); ok {
				for i := 0; i < st.NumFields(); i++ {
					ft := st.Field(i).Type()
					if fn, ok := ft.(*types.Named); ok && fn == cx.credNamed {
						holdsCreds = true
					} else if c21Implements(ft, cx.credNamed) {
						holdsCreds = true
					}
				}
			}
			closed, why := false, "no Authenticate body"
			if fn != nil {
				closed, why = cx.authenticateClosed(fn)
			}
			cx.closedType[name] = closed
			cx.typeWhy[name] = why
			key := "authenticator " + strings.TrimPrefix(n.Obj().Pkg().Path(), kit.Module+"/") + "." + name
			pos := p.Pos(n.Obj().Pos())
			if fn != nil {
				pos = p.Pos(fn.Pos())
			}
			if holdsCreds {
				r.Decide(closed, "C21.R2", key, pos,
					"Authenticate returns a nil error only on the true edge of CredentialStore.Valid",
					"this credential-holding authenticator can report success without CredentialStore.Valid having returned true ("+why+"): a client with wrong or no credentials is authenticated")
			} else {
				r.Infof("C21.R2", key, pos, "holds no credential store; classified %s (R3 decides where it may be installed)", map[bool]string{true: "credential-checking", false: "open"}[closed])
			}
		}
		// ---- CredentialStore implementations
		if c21Implements(n, cx.credNamed) {
			nCred++
			fn := cx.methodOf(n, "Valid")
			key := "credential store " + strings.TrimPrefix(n.Obj().Pkg().Path(), kit.Module+"/") + "." + n.Obj().Name()
			if fn == nil {
				r.Violation("C21.R2", key, p.Pos(n.Obj().Pos()), "Valid has no analysable body")
				continue
			}
			cx.stores = append(cx.stores, c21Store{named: n, valid: fn})
			ok, why := cx.validSound(fn)
			r.Decide(ok, "C21.R2", key, p.Pos(fn.Pos()),
				"Valid returns true only for a present entry whose stored secret compared equal to the supplied password",
				"Valid can return true "+why+": credentials that match no configured user are accepted")
		}
	}
	r.Count("authenticator_implementations", nAuth)
	r.Count("credential_store_implementations", nCred)
	r.Require(nAuth >= 2, "floor: fewer than 2 Authenticator implementations found (%d)", nAuth)
	r.Require(nCred >= 1, "floor: no CredentialStore implementation found")
	nClosed := 0
	for _, c := range cx.closedType {
		if c {
			nClosed++
		}
	}
	r.Require(nClosed >= 1, "floor: no credential-checking Authenticator implementation found")
}

// authenticateClosed: every return of the Authenticate method that may carry a nil error is
// reached only on the true edge of a CredentialStore.Valid call.
func (cx *c21cx) authenticateClosed(fn *ssa.Function) (bool, string) {
	res := fn.Signature.Results()
	if res.Len() == 0 || !kit.IsErrorType(res.At(res.Len()-1).Type()) {
		return false, "no error result"
	}
	leaves := kit.ResultLeaves(fn, res.Len()-1)
	if len(leaves) == 0 {
		return false, "no return"
	}
	for _, l := range leaves {
		if c21IsErrCtor(l.Val) {
			continue
		}
		ok := false
		for _, g := range l.Guards {
			if c21NilTest(g, l.Val, false) {
				ok = true
			}
			if g.Polarity && cx.isValidCall(g.Cond) {
				ok = true
				// the two credentials handed to Valid must be two different client inputs
				if c := g.Cond.(*ssa.Call); kit.Arg(c, 0) != nil && kit.Arg(c, 1) != nil && c21StripConv(kit.Arg(c, 0)) == c21StripConv(kit.Arg(c, 1)) {
					return false, "Valid at " + cx.p.Pos(c.Pos()) + " is given the same value as user name and as password"
				}
			}
		}
		if !ok {
			return false, "return at " + cx.p.Pos(l.Ret.Pos()) + " may carry a nil error and is not guarded by Valid()==true"
		}
	}
	return true, ""
}

func c21StripConv(v ssa.Value) ssa.Value {
	for {
		switch x := v.(type) {
		case *ssa.Convert:
			v = x.X
		case *ssa.ChangeType:
			v = x.X
		default:
			return v
		}
	}
}

// c21StoredOf: v (through conversions) is the value result of a comma-ok map lookup; returns it.
func c21StoredOf(v ssa.Value) *ssa.Lookup {
	v = c21StripConv(v)
	if e, ok := v.(*ssa.Extract); ok && e.Index == 0 {
		if l, ok := e.Tuple.(*ssa.Lookup); ok && l.CommaOk {
			return l
		}
	}
	return nil
}

// validSound decides the Valid method of a map-backed credential store.
func (cx *c21cx) validSound(fn *ssa.Function) (bool, string) {
	if len(fn.Params) != 3 {
		return false, "(unexpected signature)"
	}
	recv, user, pass := fn.Params[0], fn.Params[1], fn.Params[2]
	derivesRecv := func(v ssa.Value) bool {
		v = c21StripConv(v)
		if v == recv {
			return true
		}
		if u, ok := v.(*ssa.UnOp); ok && u.Op == token.MUL {
			// value receivers are spilled: *alloc where alloc was stored with recv; or a field of the receiver
			switch a := u.X.(type) {
			case *ssa.Alloc:
				if refs := a.Referrers(); refs != nil {
					for _, rr := range *refs {
						if st, ok := rr.(*ssa.Store); ok && st.Addr == a && c21StripConv(st.Val) == recv {
							return true
						}
					}
				}
			case *ssa.FieldAddr:
				return c21StripConv(a.X) == recv
			}
		}
		if f, ok := v.(*ssa.Field); ok {
			return c21StripConv(f.X) == recv
		}
		return false
	}
	// present(g) -> lookup
	present := func(gs []kit.Guard) map[*ssa.Lookup]bool {
		out := map[*ssa.Lookup]bool{}
		for _, g := range gs {
			e, ok := g.Cond.(*ssa.Extract)
			if !ok || e.Index != 1 || !g.Polarity {
				continue
			}
			l, ok := e.Tuple.(*ssa.Lookup)
			if !ok || !l.CommaOk || !derivesRecv(l.X) || c21StripConv(l.Index) != user {
				continue
			}
			out[l] = true
		}
		return out
	}
	// compare(cond, pol) -> lookups whose stored value is compared equal with the password
	compare := func(cond ssa.Value, pol bool) *ssa.Lookup {
		pairOf := func(a, b ssa.Value) *ssa.Lookup {
			if l := c21StoredOf(a); l != nil && c21StripConv(b) == pass {
				return l
			}
			if l := c21StoredOf(b); l != nil && c21StripConv(a) == pass {
				return l
			}
			return nil
		}
		switch x := cond.(type) {
		case *ssa.BinOp:
			if x.Op != token.EQL && x.Op != token.NEQ {
				return nil
			}
			eq := (x.Op == token.EQL) == pol // the condition says "the two sides are equal"
			for _, side := range [][2]ssa.Value{{x.X, x.Y}, {x.Y, x.X}} {
				c, ok := side[0].(*ssa.Call)
				if !ok {
					continue
				}
				cal := kit.CalleeOf(c)
				args := c.Call.Args
				switch {
				case cal.Pkg == "golang.org/x/crypto/bcrypt" && cal.Name == "CompareHashAndPassword" && len(args) == 2 && kit.IsNilConst(side[1]):
					if l := c21StoredOf(args[0]); eq && l != nil && c21StripConv(args[1]) == pass {
						return l
					}
				case cal.Pkg == "crypto/subtle" && cal.Name == "ConstantTimeCompare" && len(args) == 2:
					// the result is 1 (equal) or 0: "== 1" and "!= 0" both mean equal
					if k, ok := kit.ConstInt(side[1]); ok && ((k == 1 && eq) || (k == 0 && !eq)) {
						return pairOf(args[0], args[1])
					}
				}
				return nil
			}
			if b, ok := x.X.Type().Underlying().(*types.Basic); ok && eq && b.Info()&types.IsString != 0 {
				return pairOf(x.X, x.Y)
			}
		case *ssa.Call:
			cal := kit.CalleeOf(x)
			if pol && cal.Name == "Equal" && (cal.Pkg == "bytes" || cal.Pkg == "crypto/hmac") && len(x.Call.Args) == 2 {
				return pairOf(x.Call.Args[0], x.Call.Args[1])
			}
		}
		return nil
	}
	leaves := kit.ResultLeaves(fn, 0)
	if len(leaves) == 0 {
		return false, "(no return)"
	}
	for _, l := range leaves {
		v, neg := kit.StripNot(l.Val)
		pres := present(l.Guards)
		var cmp []*ssa.Lookup
		for _, g := range l.Guards {
			if lk := compare(g.Cond, g.Polarity); lk != nil {
				cmp = append(cmp, lk)
			}
		}
		if c, ok := kit.ConstBool(v); ok {
			if c == neg {
				continue // returns false
			}
		} else if lk := compare(v, !neg); lk != nil {
			cmp = append(cmp, lk)
		}
		ok := false
		for _, lk := range cmp {
			if pres[lk] {
				ok = true
			}
		}
		if !ok {
			what := "without a successful comparison of the stored secret with the password"
			if len(cmp) > 0 {
				what = "for a user name that is not in the store (the lookup's ok result does not guard the comparison)"
			}
			return false, what + " (return at " + cx.p.Pos(l.Ret.Pos()) + ")"
		}
	}
	return true, ""
}

// ---------------------------------------------------------------------------------------------
// R2: functions invoking Authenticate

// c21RecvOrigin classifies where the receiver of an Authenticate invoke can come from.
type c21RecvOrigin struct {
	list, nilc bool
	other      string // description of a foreign origin ("" = none)
}

func (cx *c21cx) recvOrigin(v ssa.Value, depth int, seen map[ssa.Value]bool, o *c21RecvOrigin) {
	if v == nil || seen[v] {
		return
	}
	seen[v] = true
	foreign := func(what string, at token.Pos) {
		if o.other == "" {
			o.other = what + " at " + cx.p.Pos(at)
		}
	}
	switch x := v.(type) {
	case *ssa.Const:
		if kit.IsNilConst(x) {
			o.nilc = true
		} else {
			foreign("constant", x.Pos())
		}
	case *ssa.Phi:
		for _, e := range x.Edges {
			cx.recvOrigin(e, depth, seen, o)
		}
	case *ssa.UnOp:
		if x.Op == token.MUL {
			switch a := x.X.(type) {
			case *ssa.IndexAddr:
				cx.recvOrigin(a.X, depth, seen, o) // element of a list
				return
			case *ssa.FieldAddr:
				if kit.FieldOfAddr(a) == cx.listField {
					o.list = true
					return
				}
			case *ssa.Alloc:
				if refs := a.Referrers(); refs != nil {
					for _, rr := range *refs {
						if st, ok := rr.(*ssa.Store); ok && st.Addr == a {
							cx.recvOrigin(st.Val, depth, seen, o)
						}
					}
				}
				return
			}
		}
		foreign("value", x.Pos())
	case *ssa.Slice:
		cx.recvOrigin(x.X, depth, seen, o)
	case *ssa.ChangeType:
		cx.recvOrigin(x.X, depth, seen, o)
	case *ssa.Extract:
		if c, ok := x.Tuple.(*ssa.Call); ok {
			cx.recvCall(c, x.Index, depth, seen, o)
			return
		}
		foreign("value", x.Pos())
	case *ssa.Call:
		cx.recvCall(x, 0, depth, seen, o)
	case *ssa.Parameter:
		fn := x.Parent()
		idx := -1
		for i, q := range fn.Params {
			if q == x {
				idx = i
			}
		}
		sites := cx.p.StaticCallers(fn)
		if depth >= 3 || idx < 0 || len(sites) == 0 {
			foreign("parameter "+x.Name()+" of "+kit.FuncName(fn), x.Pos())
			return
		}
		for _, s := range sites {
			if idx < len(s.Common().Args) {
				cx.recvOrigin(s.Common().Args[idx], depth+1, seen, o)
			}
		}
	case *ssa.MakeInterface:
		foreign("freshly constructed "+x.X.Type().String(), x.Pos())
	default:
		foreign(fmt.Sprintf("%T", v), v.Pos())
	}
}

func (cx *c21cx) recvCall(c *ssa.Call, idx, depth int, seen map[ssa.Value]bool, o *c21RecvOrigin) {
	cal := kit.CalleeOf(c)
	if cal.Static != nil && cal.Static.Blocks != nil && kit.IsRepoPkg(cal.Pkg) && depth < 3 {
		for _, l := range kit.ResultLeaves(cal.Static, idx) {
			cx.recvOrigin(l.Val, depth+1, seen, o)
		}
		return
	}
	if o.other == "" {
		o.other = "result of " + cal.String() + " at " + cx.p.Pos(c.Pos())
	}
}

func (cx *c21cx) ruleR2Authenticate() {
	p, r := cx.p, cx.r
	n := 0
	for _, fn := range p.RepoFuncs() {
		k := 0
		for _, c := range kit.Calls(fn) {
			cc := c.Common()
			if !cc.IsInvoke() || cc.Method.Name() != "Authenticate" || !cx.isAuthenticatorIface(cc.Value.Type()) {
				continue
			}
			n++
			k++
			top := kit.TopLevel(fn)
			key := fmt.Sprintf("%s Authenticate #%d", kit.FuncName(top), k)
			// (a) nil error only with Authenticate's nil
			ok := fn == top && cx.authFn(top)
			why := cx.authFnWhy[top]
			if fn != top {
				why = "Authenticate is invoked inside a closure"
			}
			r.Decide(ok, "C21.R2", key+" result", p.Pos(c.Pos()),
				"the function returns a nil error only with Authenticate's own nil error",
				"the function that runs the authentication can report success without Authenticate having succeeded ("+why+"): Handle then serves the unauthenticated client")
			// (b) receiver is an element of the handler's list
			var o c21RecvOrigin
			cx.recvOrigin(cc.Value, 0, map[ssa.Value]bool{}, &o)
			r.Decide(o.list && o.other == "", "C21.R2", key+" receiver", p.Pos(c.Pos()),
				"the authenticator is an element of Handler's configured list",
				"the authenticator that is run can be something else than an element of the configured list ("+o.other+"): a fallback authenticator bypasses the configured credentials")
		}
	}
	r.Count("authenticate_invocations", n)
	r.Require(n >= 1, "floor: no invocation of Authenticator.Authenticate found")
}

// ---------------------------------------------------------------------------------------------
// R3: abstract evaluation of the authenticator list

type c21Elem struct {
	typ  string
	open bool
	pos  token.Pos
}

// c21List is one possible shape of a []Authenticator value.
type c21List struct {
	elems []c21Elem
	top   bool
	why   string
}

func (l c21List) String() string {
	var s []string
	for _, e := range l.elems {
		s = append(s, e.typ)
	}
	if l.top {
		if len(s) > 0 {
			return "unknown(" + l.why + ")+[" + strings.Join(s, ",") + "]"
		}
		return "unknown(" + l.why + ")"
	}
	return "[" + strings.Join(s, ",") + "]"
}

type c21Frame struct {
	fn   *ssa.Function
	site ssa.CallInstruction // call in the next (outer) frame; nil for the outermost
}

type c21Eval struct {
	cx      *c21cx
	chain   []c21Frame // innermost first
	world   map[string]c21List
	pending *c21Pending
	needFn  bool // the outermost frame's parameters were needed
	active  map[string]bool
	steps   int
}

type c21Pending struct {
	key  string
	opts []c21List
}

// frameKey identifies frame fi of this evaluator by the call sites that lead to it, so that the
// same helper inlined at two different sites (or depths) has two different identities.
func (e *c21Eval) frameKey(fi int) string {
	var b strings.Builder
	for _, fr := range e.chain[fi:] {
		fmt.Fprintf(&b, "%p/%p;", fr.fn, fr.site)
	}
	return b.String()
}

func c21Top(why string) []c21List { return []c21List{{top: true, why: why}} }

func c21Dedup(in []c21List) []c21List {
	seen := map[string]bool{}
	var out []c21List
	for _, l := range in {
		k := l.String()
		if !seen[k] {
			seen[k] = true
			out = append(out, l)
		}
	}
	return out
}

func (e *c21Eval) isListType(t types.Type) bool {
	sl, ok := t.Underlying().(*types.Slice)
	return ok && e.cx.isAuthenticatorIface(sl.Elem())
}

// choose makes the evaluation path-sensitive: a value with several possible shapes is fixed to
// one shape per explored world.
func (e *c21Eval) choose(v ssa.Value, fi int, shapes []c21List) []c21List {
	shapes = c21Dedup(shapes)
	if len(shapes) <= 1 {
		return shapes
	}
	key := e.frameKey(fi) + fmt.Sprintf("|%p", v)
	if s, ok := e.world[key]; ok {
		return []c21List{s}
	}
	if e.pending == nil {
		e.pending = &c21Pending{key: key, opts: shapes}
	}
	return shapes[:1]
}

func (e *c21Eval) evalList(v ssa.Value, fi int) []c21List {
	e.steps++
	if e.steps > 20000 {
		return c21Top("evaluation budget exceeded")
	}
	akey := "L" + e.frameKey(fi) + fmt.Sprintf("|%p", v)
	if e.active[akey] {
		return nil // cyclic dependency (loop-carried value): contributes nothing new
	}
	e.active[akey] = true
	defer delete(e.active, akey)
	res := e.evalList1(v, fi)
	switch v.(type) {
	case *ssa.Phi, *ssa.Call, *ssa.Parameter, *ssa.Extract, *ssa.UnOp:
		return e.choose(v, fi, res)
	}
	return c21Dedup(res)
}

func (e *c21Eval) evalList1(v ssa.Value, fi int) []c21List {
	switch x := v.(type) {
	case *ssa.Const:
		if kit.IsNilConst(x) {
			return []c21List{{}}
		}
	case *ssa.Phi:
		var out []c21List
		for i, ed := range x.Edges {
			if e.feasibleEdge(x.Block().Preds[i], x.Block(), fi) {
				out = append(out, e.evalList(ed, fi)...)
			}
		}
		return out
	case *ssa.ChangeType:
		return e.evalList(x.X, fi)
	case *ssa.MakeSlice:
		if k, ok := kit.ConstInt(x.Len); ok && k == 0 {
			return []c21List{{}}
		}
		return c21Top("make with non-zero length")
	case *ssa.Slice:
		if a, ok := x.X.(*ssa.Alloc); ok {
			if arr, ok := a.Type().Underlying().(*types.Pointer).Elem().Underlying().(*types.Array); ok && x.Low == nil {
				// slice literal / variadic pack (whole array) or make([]T, n, cap) with constant n
				n := arr.Len()
				if x.High != nil {
					h, isConst := kit.ConstInt(x.High)
					if !isConst || h < 0 || h > n {
						return c21Top("array sliced with a non-constant bound")
					}
					n = h
				}
				if n == 0 {
					return []c21List{{}}
				}
				return []c21List{e.arrayLiteral(a, int(n))}
			}
		}
		if x.Low == nil && x.High == nil && x.Max == nil {
			return e.evalList(x.X, fi)
		}
		return c21Top("re-sliced list")
	case *ssa.Call:
		return e.evalCall(x, 0, fi)
	case *ssa.Extract:
		if c, ok := x.Tuple.(*ssa.Call); ok {
			return e.evalCall(c, x.Index, fi)
		}
	case *ssa.Parameter:
		return e.evalParam(x, fi, func(arg ssa.Value, fo int) []c21List { return e.evalList(arg, fo) })
	case *ssa.UnOp:
		if x.Op != token.MUL {
			break
		}
		switch a := x.X.(type) {
		case *ssa.Alloc:
			return e.evalDefs(e.reachingDefs(x, a, -1, fi), -1, nil, fi)
		case *ssa.FieldAddr:
			if base, ok := a.X.(*ssa.Alloc); ok {
				return e.evalDefs(e.reachingDefs(x, base, a.Field, fi), a.Field, kit.FieldOfAddr(a), fi)
			}
			return c21Top("list loaded from " + kit.FieldOfAddr(a).Name() + " of a shared struct")
		}
	}
	return c21Top(fmt.Sprintf("unsupported list expression %T at %s", v, e.cx.p.Pos(v.Pos())))
}

// arrayLiteral: the backing array of a slice literal / variadic argument list.
func (e *c21Eval) arrayLiteral(a *ssa.Alloc, n int) c21List {
	elems := make([]*c21Elem, n)
	if refs := a.Referrers(); refs != nil {
		for _, rr := range *refs {
			ia, ok := rr.(*ssa.IndexAddr)
			if !ok || ia.X != a || ia.Referrers() == nil {
				continue
			}
			idx, ok := kit.ConstInt(ia.Index)
			if !ok || idx < 0 {
				return c21List{top: true, why: "array element with non-constant index"}
			}
			if int(idx) >= n {
				continue
			}
			for _, r2 := range *ia.Referrers() {
				if st, ok := r2.(*ssa.Store); ok && st.Addr == ia {
					el, ok := e.elemOf(st.Val, 0)
					if !ok {
						return c21List{top: true, why: "authenticator value of unknown concrete type at " + e.cx.p.Pos(st.Pos())}
					}
					elems[idx] = &el
				}
			}
		}
	}
	var l c21List
	for _, el := range elems {
		if el == nil {
			return c21List{top: true, why: "list element never assigned"}
		}
		l.elems = append(l.elems, *el)
	}
	return l
}

// elemOf determines the concrete authenticator type of an interface value.
func (e *c21Eval) elemOf(v ssa.Value, depth int) (c21Elem, bool) {
	switch x := v.(type) {
	case *ssa.MakeInterface:
		t := x.X.Type()
		if pt, ok := t.(*types.Pointer); ok {
			t = pt.Elem()
		}
		n, ok := t.(*types.Named)
		if !ok {
			return c21Elem{}, false
		}
		pos := x.Pos()
		if !pos.IsValid() {
			pos = x.X.Pos()
		}
		return c21Elem{typ: n.Obj().Name(), open: !e.cx.closedType[n.Obj().Name()], pos: pos}, true
	case *ssa.ChangeInterface:
		return e.elemOf(x.X, depth)
	case *ssa.Phi:
		var got *c21Elem
		for _, ed := range x.Edges {
			el, ok := e.elemOf(ed, depth)
			if !ok {
				return c21Elem{}, false
			}
			if got == nil || el.open {
				c := el
				got = &c
			}
		}
		if got != nil {
			return *got, true
		}
	case *ssa.Call:
		cal := kit.CalleeOf(x)
		if cal.Static != nil && cal.Static.Blocks != nil && depth < 3 {
			var got *c21Elem
			for _, l := range kit.ResultLeaves(cal.Static, 0) {
				el, ok := e.elemOf(l.Val, depth+1)
				if !ok {
					return c21Elem{}, false
				}
				if got == nil || el.open {
					c := el
					got = &c
				}
			}
			if got != nil {
				return *got, true
			}
		}
	}
	return c21Elem{}, false
}

func (e *c21Eval) evalCall(c *ssa.Call, idx, fi int) []c21List {
	cal := kit.CalleeOf(c)
	if cal.Built == "append" && len(c.Call.Args) == 2 {
		var out []c21List
		for _, a := range e.evalList(c.Call.Args[0], fi) {
			for _, b := range e.evalList(c.Call.Args[1], fi) {
				if a.top || b.top {
					// an unknown part: keep what is known so that an appended open authenticator is still named
					why := a.why
					if !a.top {
						why = b.why
					}
					out = append(out, c21List{top: true, why: why, elems: append(append([]c21Elem{}, a.elems...), b.elems...)})
					continue
				}
				out = append(out, c21List{elems: append(append([]c21Elem{}, a.elems...), b.elems...)})
			}
		}
		return out
	}
	if cal.Static == nil || cal.Static.Blocks == nil || !kit.IsRepoPkg(cal.Pkg) {
		return c21Top("result of " + cal.String())
	}
	if len(e.chain) > 12 {
		return c21Top("call depth")
	}
	// evaluate the callee in a new innermost frame: frames are addressed by index, so push at the
	// front by building a sub-evaluator view
	sub := e.push(cal.Static, c, fi)
	var out []c21List
	for _, ret := range kit.Returns(cal.Static) {
		if ret.Block() == cal.Static.Recover || idx >= len(ret.Results) {
			continue
		}
		if !sub.feasibleBlock(ret.Block(), 0) {
			continue
		}
		out = append(out, sub.evalList(kit.ReturnResult(ret, idx), 0)...)
	}
	e.pull(sub)
	return out
}

// push returns an evaluator whose frame 0 is the callee and whose frames 1.. are e's frames
// fi.. (the call happened in e's frame fi).
func (e *c21Eval) push(fn *ssa.Function, site ssa.CallInstruction, fi int) *c21Eval {
	chain := append([]c21Frame{{fn: fn, site: site}}, e.chain[fi:]...)
	return &c21Eval{cx: e.cx, chain: chain, world: e.world, pending: e.pending, active: e.active, steps: e.steps, needFn: e.needFn}
}

func (e *c21Eval) pull(sub *c21Eval) {
	e.pending, e.steps = sub.pending, sub.steps
	e.needFn = e.needFn || sub.needFn
}

// evalParam resolves a parameter through the call site of its frame.
func (e *c21Eval) evalParam(prm *ssa.Parameter, fi int, eval func(arg ssa.Value, fo int) []c21List) []c21List {
	fr := e.chain[fi]
	if prm.Parent() != fr.fn {
		return c21Top("parameter of an enclosing function")
	}
	idx := -1
	for i, q := range fr.fn.Params {
		if q == prm {
			idx = i
		}
	}
	if fr.site == nil || fi+1 >= len(e.chain) {
		e.needFn = true
		return c21Top("parameter " + prm.Name() + " of " + kit.FuncName(fr.fn) + " (no caller in this chain)")
	}
	args := fr.site.Common().Args
	if idx < 0 || idx >= len(args) {
		return c21Top("parameter without argument")
	}
	return eval(args[idx], fi+1)
}

type c21Def struct {
	zero  bool
	whole bool      // store of the whole struct; val is the struct value
	val   ssa.Value // stored value
	bad   string    // escaping / unsupported
}

// reachingDefs finds the definitions of alloc (field < 0) or alloc.field that reach instruction
// at, walking the CFG backwards over feasible edges.
func (e *c21Eval) reachingDefs(at ssa.Instruction, alloc *ssa.Alloc, field int, fi int) []c21Def {
	// escape check: the variable is only accessed by direct loads/stores and field loads/stores
	if refs := alloc.Referrers(); refs != nil {
		for _, rr := range *refs {
			switch x := rr.(type) {
			case *ssa.Store:
				if x.Addr != alloc {
					return []c21Def{{bad: "address of the variable is stored"}}
				}
			case *ssa.UnOp:
			case *ssa.FieldAddr:
				if x.Referrers() != nil {
					for _, r2 := range *x.Referrers() {
						switch y := r2.(type) {
						case *ssa.Store:
							if y.Addr != x {
								return []c21Def{{bad: "address of a field is stored"}}
							}
						case *ssa.UnOp:
						case *ssa.DebugRef:
						default:
							if field >= 0 && x.Field == field {
								return []c21Def{{bad: "address of the field escapes"}}
							}
						}
					}
				}
			case *ssa.DebugRef:
			default:
				return []c21Def{{bad: "address of the variable escapes"}}
			}
		}
	}
	var defs []c21Def
	seen := map[*ssa.BasicBlock]bool{}
	var walk func(b *ssa.BasicBlock, from int)
	walk = func(b *ssa.BasicBlock, from int) {
		for i := from - 1; i >= 0; i-- {
			switch x := b.Instrs[i].(type) {
			case *ssa.Store:
				if x.Addr == alloc {
					defs = append(defs, c21Def{whole: field >= 0, val: x.Val})
					return
				}
				if fa, ok := x.Addr.(*ssa.FieldAddr); ok && fa.X == alloc && field >= 0 && fa.Field == field {
					defs = append(defs, c21Def{val: x.Val})
					return
				}
			case *ssa.Alloc:
				if x == alloc {
					defs = append(defs, c21Def{zero: true})
					return
				}
			}
		}
		for _, pr := range b.Preds {
			if seen[pr] {
				continue
			}
			if !e.feasibleEdge(pr, b, fi) {
				continue
			}
			seen[pr] = true
			walk(pr, len(pr.Instrs))
		}
	}
	walk(at.Block(), kit.InstrIndex(at))
	return defs
}

// evalDefs turns reaching definitions of a list-typed variable/field into shapes.
func (e *c21Eval) evalDefs(defs []c21Def, field int, fv *types.Var, fi int) []c21List {
	var out []c21List
	for _, d := range defs {
		switch {
		case d.bad != "":
			out = append(out, c21Top(d.bad)...)
		case d.zero:
			out = append(out, c21List{})
		case d.whole:
			out = append(out, e.evalStructField(d.val, field, fi)...)
		default:
			out = append(out, e.evalList(d.val, fi)...)
		}
	}
	if len(defs) == 0 {
		return c21Top("no reaching definition")
	}
	return out
}

// evalStructField evaluates field #field (a []Authenticator) of a struct value.
func (e *c21Eval) evalStructField(sv ssa.Value, field int, fi int) []c21List {
	switch x := sv.(type) {
	case *ssa.Parameter:
		return e.evalParam(x, fi, func(arg ssa.Value, fo int) []c21List { return e.evalStructField(arg, field, fo) })
	case *ssa.UnOp:
		if a, ok := x.X.(*ssa.Alloc); ok && x.Op == token.MUL {
			return e.evalDefs(e.reachingDefs(x, a, field, fi), field, nil, fi)
		}
	case *ssa.Call:
		cal := kit.CalleeOf(x)
		if cal.Static != nil && cal.Static.Blocks != nil && kit.IsRepoPkg(cal.Pkg) && len(e.chain) <= 12 {
			sub := e.push(cal.Static, x, fi)
			var out []c21List
			for _, ret := range kit.Returns(cal.Static) {
				if ret.Block() == cal.Static.Recover || len(ret.Results) == 0 || !sub.feasibleBlock(ret.Block(), 0) {
					continue
				}
				out = append(out, sub.evalStructField(kit.ReturnResult(ret, 0), field, 0)...)
			}
			e.pull(sub)
			return out
		}
	}
	return c21Top(fmt.Sprintf("struct value %T at %s", sv, e.cx.p.Pos(sv.Pos())))
}

// evalStructBool evaluates bool field #field of a struct value.
func (e *c21Eval) evalStructBool(sv ssa.Value, field int, fi int) (bool, bool) {
	switch x := sv.(type) {
	case *ssa.Parameter:
		fr := e.chain[fi]
		idx := -1
		for i, q := range fr.fn.Params {
			if q == x {
				idx = i
			}
		}
		if fr.site == nil || fi+1 >= len(e.chain) || idx < 0 || idx >= len(fr.site.Common().Args) {
			if x.Parent() == fr.fn {
				e.needFn = true
			}
			return false, false
		}
		return e.evalStructBool(fr.site.Common().Args[idx], field, fi+1)
	case *ssa.UnOp:
		if a, ok := x.X.(*ssa.Alloc); ok && x.Op == token.MUL {
			return e.boolDefs(e.reachingDefs(x, a, field, fi), field, fi)
		}
	}
	return false, false
}

func (e *c21Eval) boolDefs(defs []c21Def, field int, fi int) (bool, bool) {
	if len(defs) == 0 {
		return false, false
	}
	var val, have bool
	for _, d := range defs {
		var b, ok bool
		switch {
		case d.bad != "":
			return false, false
		case d.zero:
			b, ok = false, true
		case d.whole:
			b, ok = e.evalStructBool(d.val, field, fi)
		default:
			b, ok = e.evalBool(d.val, fi)
		}
		if !ok {
			return false, false
		}
		if have && b != val {
			return false, false
		}
		val, have = b, true
	}
	return val, have
}

// evalBool evaluates a branch condition under the assumption and the frame bindings.
func (e *c21Eval) evalBool(v ssa.Value, fi int) (bool, bool) {
	e.steps++
	if e.steps > 20000 {
		return false, false
	}
	akey := "B" + e.frameKey(fi) + fmt.Sprintf("|%p", v)
	if e.active[akey] {
		return false, false
	}
	e.active[akey] = true
	defer delete(e.active, akey)
	switch x := v.(type) {
	case *ssa.Const:
		return kit.ConstBool(x)
	case *ssa.UnOp:
		switch x.Op {
		case token.NOT:
			b, ok := e.evalBool(x.X, fi)
			return !b, ok
		case token.MUL:
			switch a := x.X.(type) {
			case *ssa.FieldAddr:
				if kit.FieldOfAddr(a) == e.cx.cfgEnabled {
					e.cx.enabledConsulted++
					return true, true // the assumption: authentication is enabled
				}
				if base, ok := a.X.(*ssa.Alloc); ok {
					return e.boolDefs(e.reachingDefs(x, base, a.Field, fi), a.Field, fi)
				}
			case *ssa.Alloc:
				return e.boolDefs(e.reachingDefs(x, a, -1, fi), -1, fi)
			}
		}
	case *ssa.Field:
		if kit.FieldOfAddr(x) == e.cx.cfgEnabled {
			e.cx.enabledConsulted++
			return true, true
		}
		return e.evalStructBool(x.X, x.Field, fi)
	case *ssa.BinOp:
		for _, side := range []struct {
			l, c ssa.Value
			flip bool
		}{{x.X, x.Y, false}, {x.Y, x.X, true}} {
			k, isConst := kit.ConstInt(side.c)
			if _, cc := side.c.(*ssa.Const); !cc || !isConst {
				continue
			}
			arg, ok := kit.LenOf(side.l)
			if !ok || !e.isListType(arg.Type()) {
				continue
			}
			op := x.Op
			if side.flip {
				op = flipCmp(op)
			}
			shapes := e.evalList(arg, fi)
			if len(shapes) == 0 {
				return false, false
			}
			var val, have bool
			for _, s := range shapes {
				if s.top {
					return false, false
				}
				n := int64(len(s.elems))
				ord := 0
				if n < k {
					ord = -1
				} else if n > k {
					ord = 1
				}
				b := cmpHolds(op, ord)
				if have && b != val {
					return false, false
				}
				val, have = b, true
			}
			return val, have
		}
	}
	return false, false
}

func (e *c21Eval) feasibleEdge(pred, succ *ssa.BasicBlock, fi int) bool {
	for _, g := range kit.G7EdgeGuards(pred, succ) {
		if b, ok := e.evalBool(g.Cond, fi); ok && b != g.Polarity {
			return false
		}
	}
	return true
}

func (e *c21Eval) feasibleBlock(b *ssa.BasicBlock, fi int) bool {
	for _, g := range kit.NormGuards(kit.Guards(b)) {
		if v, ok := e.evalBool(g.Cond, fi); ok && v != g.Polarity {
			return false
		}
	}
	return true
}

// chainFeasible: every call site of the chain can execute under the assumption.
func (e *c21Eval) chainFeasible() bool {
	for i, fr := range e.chain {
		if fr.site == nil || i+1 >= len(e.chain) {
			continue
		}
		if fr.site.Parent() != e.chain[i+1].fn {
			continue // call inside a closure: guards of the closure body only
		}
		if !e.feasibleBlock(fr.site.Block(), i+1) {
			return false
		}
	}
	return true
}

func c21ChainString(chain []c21Frame) string {
	var s []string
	for _, fr := range chain {
		s = append(s, kit.FuncName(fr.fn))
	}
	return strings.Join(s, " <- ")
}

func (cx *c21cx) ruleR3() {
	p, r := cx.p, cx.r
	stores := p.FieldAccessesOfKind(cx.listField, kit.FieldStore, kit.FieldAddrUse)
	r.Count("authenticator_list_stores", len(stores))
	if !r.Require(len(stores) >= 1, "floor: no store to Handler.%s found", cx.listField.Name()) {
		return
	}
	nChains := 0
	for si, acc := range stores {
		if acc.Kind == kit.FieldAddrUse {
			r.Violation("C21.R3", fmt.Sprintf("%s address of %s #%d", kit.FuncName(acc.Fn), cx.listField.Name(), si+1), p.Pos(acc.Instr.Pos()),
				"the address of the handler's authenticator list escapes: the list can be replaced outside the analysed construction")
			continue
		}
		// demand-driven enumeration of call chains
		type item struct{ chain []c21Frame }
		work := []item{{chain: []c21Frame{{fn: acc.Fn}}}}
		for len(work) > 0 {
			it := work[0]
			work = work[1:]
			if len(it.chain) > 10 {
				continue
			}
			shapes, feasible, need := cx.solveAt(it.chain, acc)
			outer := it.chain[len(it.chain)-1].fn
			if need {
				callers := p.StaticCallers(outer)
				if len(callers) == 0 {
					r.Infof("C21.R3", "chain "+c21ChainString(it.chain), p.Pos(outer.Pos()), "the list depends on a parameter of %s, which has no static caller in non-test code: no production path", kit.FuncName(outer))
					continue
				}
				for _, c := range callers {
					ch := append([]c21Frame{}, it.chain...)
					ch[len(ch)-1].site = c
					ch = append(ch, c21Frame{fn: c.Parent()})
					work = append(work, item{chain: ch})
				}
				continue
			}
			if !feasible {
				r.Infof("C21.R3", "chain "+c21ChainString(it.chain), p.Pos(acc.Instr.Pos()), "not executable when authentication is enabled")
				continue
			}
			nChains++
			key := "list stored by " + c21ChainString(it.chain)
			bad := ""
			for _, s := range shapes {
				for _, el := range s.elems {
					if el.open {
						bad = fmt.Sprintf("the list can contain %s (created at %s), which reports success without checking credentials (%s)", el.typ, p.Pos(el.pos), cx.typeWhy[el.typ])
					}
				}
				switch {
				case bad != "":
				case s.top:
					bad = "the construction of the list is not recognisable (" + s.why + "), so it cannot be shown to exclude no-auth"
				case len(s.elems) == 0:
					bad = "the list can be empty; an empty list offers no method, but every constructor on this chain that replaces an empty list by a default must be excluded — here the empty list itself is stored"
				default:
					for _, el := range s.elems {
						if el.open {
							bad = fmt.Sprintf("the list can be %s: %s (created at %s) reports success without checking credentials (%s)", s, el.typ, p.Pos(el.pos), cx.typeWhy[el.typ])
						}
					}
				}
				if bad != "" {
					break
				}
			}
			if len(shapes) == 0 {
				bad = "no value could be derived for the stored list"
			}
			var ss []string
			for _, s := range shapes {
				ss = append(ss, s.String())
			}
			if bad != "" && len(shapes) == 1 && !shapes[0].top && len(shapes[0].elems) == 0 {
				// a stored empty list fails closed in authenticate (no method acceptable): not a violation
				r.OK("C21.R3", key, p.Pos(acc.Instr.Pos()), "possible lists with auth enabled: %s (empty list: no acceptable method, fails closed)", strings.Join(ss, " "))
				continue
			}
			r.Decide(bad == "", "C21.R3", key, p.Pos(acc.Instr.Pos()),
				"possible lists with auth enabled: "+strings.Join(ss, " ")+" — non-empty, credential-checking only",
				"with socks5.auth.enabled the handler's authenticator list is not guaranteed to demand credentials: "+bad+". A client offering method 0x00 is then served without credentials")
		}
	}
	r.Count("construction_chains_evaluated", nChains)
	r.Count("enabled_flag_consultations", cx.enabledConsulted)
	r.Require(nChains >= 1, "floor: no executable construction chain of the handler's authenticator list found")
	r.Require(cx.enabledConsulted >= 1, "floor: the construction never consults config SOCKS5AuthConfig.Enabled (assumption has no effect)")
}

// solveAt evaluates the stored value of one store access along a chain.
func (cx *c21cx) solveAt(chain []c21Frame, acc kit.FieldAccess) ([]c21List, bool, bool) {
	feasible := true
	needCaller := false
	var shapes []c21List
	var rec func(world map[string]c21List, depth int)
	rec = func(world map[string]c21List, depth int) {
		e := &c21Eval{cx: cx, chain: chain, world: world, active: map[string]bool{}}
		ok := e.chainFeasible() && e.feasibleBlock(acc.Instr.Block(), 0)
		var res []c21List
		if ok && e.pending == nil {
			res = e.evalList(acc.Val, 0)
		}
		needCaller = needCaller || e.needFn
		if e.pending != nil && depth < 8 {
			for _, o := range e.pending.opts {
				w2 := map[string]c21List{}
				for k, v := range world {
					w2[k] = v
				}
				w2[e.pending.key] = o
				rec(w2, depth+1)
			}
			return
		}
		if !ok {
			if len(world) == 0 {
				feasible = false
			}
			return
		}
		shapes = append(shapes, res...)
	}
	rec(map[string]c21List{}, 0)
	return c21Dedup(shapes), feasible, needCaller
}

// ---------------------------------------------------------------------------------------------
// R4: an unusable (empty) secret must never become a usable credential

// c21ExcludesEmpty: "cond == pol" implies that a value accepted by isTarget is a non-empty
// string / byte slice (x != "", len(x) > 0 and the like).
func c21ExcludesEmpty(cond ssa.Value, pol bool, isTarget func(ssa.Value) bool) bool {
	b, ok := cond.(*ssa.BinOp)
	if !ok {
		return false
	}
	for _, side := range []struct {
		x, k ssa.Value
		flip bool
	}{{b.X, b.Y, false}, {b.Y, b.X, true}} {
		if s, isStr := kit.ConstString(side.k); isStr && s == "" && isTarget(side.x) {
			switch b.Op {
			case token.NEQ:
				return pol
			case token.EQL:
				return !pol
			}
		}
		k, isInt := kit.ConstInt(side.k)
		if _, isConst := side.k.(*ssa.Const); !isConst || !isInt {
			continue
		}
		arg, isLen := kit.LenOf(side.x)
		if !isLen || !isTarget(arg) {
			continue
		}
		op := b.Op
		if side.flip {
			op = flipCmp(op)
		}
		// evaluate "len op k" for len = 0: the empty value must take the other branch
		ord := 0
		if 0 < k {
			ord = -1
		} else if 0 > k {
			ord = 1
		}
		switch op {
		case token.LSS, token.LEQ, token.GTR, token.GEQ, token.EQL, token.NEQ:
			return cmpHolds(op, ord) != pol
		}
	}
	return false
}

// validRejectsEmpty: every leaf on which Valid can return true is guarded by (or is) a bcrypt
// comparison (an empty hash never verifies) or a test that the stored secret / the password is
// non-empty.
func (cx *c21cx) validRejectsEmpty(fn *ssa.Function) bool {
	if len(fn.Params) != 3 {
		return false
	}
	pass := fn.Params[2]
	isTarget := func(v ssa.Value) bool {
		v = c21StripConv(v)
		return v == pass || c21StoredOf(v) != nil
	}
	safe := func(cond ssa.Value, pol bool) bool {
		if c21ExcludesEmpty(cond, pol, isTarget) {
			return true
		}
		if b, ok := cond.(*ssa.BinOp); ok && (b.Op == token.EQL || b.Op == token.NEQ) && (b.Op == token.EQL) == pol {
			for _, side := range [][2]ssa.Value{{b.X, b.Y}, {b.Y, b.X}} {
				if c, ok := side[0].(*ssa.Call); ok && kit.IsNilConst(side[1]) {
					if cal := kit.CalleeOf(c); cal.Pkg == "golang.org/x/crypto/bcrypt" && cal.Name == "CompareHashAndPassword" {
						return true
					}
				}
			}
		}
		return false
	}
	for _, l := range kit.ResultLeaves(fn, 0) {
		v, neg := kit.StripNot(l.Val)
		if c, ok := kit.ConstBool(v); ok && c == neg {
			continue // returns false
		}
		ok := false
		for _, g := range l.Guards {
			if safe(g.Cond, g.Polarity) {
				ok = true
			}
		}
		if _, isConst := kit.ConstBool(v); !isConst && safe(v, !neg) {
			ok = true
		}
		if !ok {
			return false
		}
	}
	return true
}

// authenticatorsRejectEmptyPassword: every Valid call made by a credential-checking
// authenticator is reached only with a non-empty password argument.
func (cx *c21cx) authenticatorsRejectEmptyPassword() bool {
	n := 0
	for _, fn := range cx.p.RepoFuncs() {
		if fn.Name() != "Authenticate" || fn.Signature.Recv() == nil || !c21Implements(fn.Signature.Recv().Type(), cx.authNamed) {
			continue
		}
		for _, c := range kit.Calls(fn) {
			call, ok := c.(*ssa.Call)
			if !ok || !cx.isValidCall(call) {
				continue
			}
			n++
			pw := kit.Arg(call, 1)
			if pw == nil {
				return false
			}
			root := c21StripConv(pw)
			var lenV ssa.Value
			if ms, ok := root.(*ssa.MakeSlice); ok {
				lenV = ms.Len
			}
			isTarget := func(v ssa.Value) bool { return c21StripConv(v) == root }
			ok2 := false
			for _, g := range kit.NormGuards(kit.GuardsOf(call)) {
				if c21ExcludesEmpty(g.Cond, g.Polarity, isTarget) {
					ok2 = true
				}
				// a test on the announced length the buffer was made with
				if b, isBin := g.Cond.(*ssa.BinOp); isBin && lenV != nil {
					for _, side := range []struct {
						x, k ssa.Value
						flip bool
					}{{b.X, b.Y, false}, {b.Y, b.X, true}} {
						k, isInt := kit.ConstInt(side.k)
						if _, isConst := side.k.(*ssa.Const); !isConst || !isInt || side.x != lenV {
							continue
						}
						op := b.Op
						if side.flip {
							op = flipCmp(op)
						}
						ord := 0
						if 0 < k {
							ord = -1
						} else if 0 > k {
							ord = 1
						}
						if cmpHolds(op, ord) != g.Polarity {
							ok2 = true
						}
					}
				}
			}
			if !ok2 {
				return false
			}
		}
	}
	return n > 0
}

type c21MapOrigins struct {
	makes   map[*ssa.MakeMap]bool
	unknown string
}

func (cx *c21cx) mapOrigins(v ssa.Value, depth int, seen map[ssa.Value]bool, o *c21MapOrigins) {
	if v == nil || seen[v] {
		return
	}
	seen[v] = true
	unknown := func(what string) {
		if o.unknown == "" {
			o.unknown = what
		}
	}
	if depth > 8 {
		unknown("a chain of calls that is too deep")
		return
	}
	switch x := v.(type) {
	case *ssa.MakeMap:
		o.makes[x] = true
	case *ssa.Const:
		if !kit.IsNilConst(x) {
			unknown("a constant")
		}
	case *ssa.ChangeType:
		cx.mapOrigins(x.X, depth, seen, o)
	case *ssa.Convert:
		cx.mapOrigins(x.X, depth, seen, o)
	case *ssa.MakeInterface:
		cx.mapOrigins(x.X, depth, seen, o)
	case *ssa.Phi:
		for _, e := range x.Edges {
			cx.mapOrigins(e, depth, seen, o)
		}
	case *ssa.Parameter:
		fn := x.Parent()
		idx := -1
		for i, q := range fn.Params {
			if q == x {
				idx = i
			}
		}
		sites := cx.p.StaticCallers(fn)
		if idx < 0 || len(sites) == 0 {
			if fn.Object() != nil && fn.Object().Exported() {
				return // exported API without a caller in production code: nothing flows in
			}
			unknown("parameter " + x.Name() + " of " + kit.FuncName(fn))
			return
		}
		for _, c := range sites {
			if idx < len(c.Common().Args) {
				cx.mapOrigins(c.Common().Args[idx], depth+1, seen, o)
			}
		}
	case *ssa.Extract:
		if c, ok := x.Tuple.(*ssa.Call); ok {
			cx.mapCall(c, x.Index, depth, seen, o)
			return
		}
		unknown("a multi-value expression")
	case *ssa.Call:
		cx.mapCall(x, 0, depth, seen, o)
	case *ssa.Field:
		cx.structFieldOrigins(x.X, x.Field, depth, seen, o)
	case *ssa.UnOp:
		if x.Op != token.MUL {
			unknown("an expression")
			return
		}
		switch a := x.X.(type) {
		case *ssa.Alloc:
			cx.allocStores(a, -1, depth, seen, o)
		case *ssa.FieldAddr:
			if base, ok := a.X.(*ssa.Alloc); ok {
				cx.allocStores(base, a.Field, depth, seen, o)
				return
			}
			f := kit.FieldOfAddr(a)
			accs := cx.p.FieldAccessesOfKind(f, kit.FieldStore)
			if len(accs) == 0 {
				unknown("field " + f.Name() + ", which no code assigns (filled from configuration data)")
				return
			}
			for _, acc := range accs {
				cx.mapOrigins(acc.Val, depth+1, seen, o)
			}
		default:
			unknown("a value loaded through a pointer")
		}
	default:
		unknown(fmt.Sprintf("a %T", v))
	}
}

func (cx *c21cx) mapCall(c *ssa.Call, idx, depth int, seen map[ssa.Value]bool, o *c21MapOrigins) {
	cal := kit.CalleeOf(c)
	if cal.Static == nil || cal.Static.Blocks == nil || !kit.IsRepoPkg(cal.Pkg) {
		if o.unknown == "" {
			o.unknown = "the result of " + cal.String()
		}
		return
	}
	for _, l := range kit.ResultLeaves(cal.Static, idx) {
		cx.mapOrigins(l.Val, depth+1, seen, o)
	}
}

// allocStores: the values stored into a local variable (field < 0) or into one field of a local
// struct (also through whole-struct stores).
func (cx *c21cx) allocStores(a *ssa.Alloc, field int, depth int, seen map[ssa.Value]bool, o *c21MapOrigins) {
	refs := a.Referrers()
	if refs == nil {
		return
	}
	for _, rr := range *refs {
		switch x := rr.(type) {
		case *ssa.Store:
			if x.Addr != a {
				continue
			}
			if field < 0 {
				cx.mapOrigins(x.Val, depth, seen, o)
			} else {
				cx.structFieldOrigins(x.Val, field, depth, seen, o)
			}
		case *ssa.FieldAddr:
			if x.X != a || field < 0 || x.Field != field || x.Referrers() == nil {
				continue
			}
			for _, r2 := range *x.Referrers() {
				if st, ok := r2.(*ssa.Store); ok && st.Addr == x {
					cx.mapOrigins(st.Val, depth, seen, o)
				}
			}
		}
	}
}

func (cx *c21cx) structFieldOrigins(sv ssa.Value, field int, depth int, seen map[ssa.Value]bool, o *c21MapOrigins) {
	if depth > 8 {
		return
	}
	switch x := sv.(type) {
	case *ssa.Parameter:
		fn := x.Parent()
		idx := -1
		for i, q := range fn.Params {
			if q == x {
				idx = i
			}
		}
		for _, c := range cx.p.StaticCallers(fn) {
			if idx >= 0 && idx < len(c.Common().Args) {
				cx.structFieldOrigins(c.Common().Args[idx], field, depth+1, seen, o)
			}
		}
	case *ssa.UnOp:
		if a, ok := x.X.(*ssa.Alloc); ok && x.Op == token.MUL {
			cx.allocStores(a, field, depth, seen, o)
			return
		}
		if o.unknown == "" {
			o.unknown = "a struct loaded through a pointer"
		}
	case *ssa.Phi:
		for _, e := range x.Edges {
			cx.structFieldOrigins(e, field, depth, seen, o)
		}
	case *ssa.Call:
		cal := kit.CalleeOf(x)
		if cal.Static != nil && cal.Static.Blocks != nil && kit.IsRepoPkg(cal.Pkg) {
			for _, l := range kit.ResultLeaves(cal.Static, 0) {
				cx.structFieldOrigins(l.Val, field, depth+1, seen, o)
			}
			return
		}
		if o.unknown == "" {
			o.unknown = "the result of " + cal.String()
		}
	default:
		if o.unknown == "" {
			o.unknown = fmt.Sprintf("a struct value %T", sv)
		}
	}
}

func (cx *c21cx) ruleR4() {
	p, r := cx.p, cx.r
	authRejects := cx.authenticatorsRejectEmptyPassword()
	// all map insertions of the loaded program, by the map they go into
	type update struct {
		mu *ssa.MapUpdate
		fn *ssa.Function
	}
	var updates []update
	for _, fn := range p.RepoFuncs() {
		kit.Instrs(fn, func(in ssa.Instruction) {
			if mu, ok := in.(*ssa.MapUpdate); ok {
				if m, ok := mu.Map.Type().Underlying().(*types.Map); ok {
					if b, ok := m.Elem().Underlying().(*types.Basic); ok && b.Info()&types.IsString != 0 {
						updates = append(updates, update{mu, fn})
					}
				}
			}
		})
	}
	for _, sto := range cx.stores {
		name := sto.named.Obj().Name()
		key := "credential store " + strings.TrimPrefix(sto.named.Obj().Pkg().Path(), kit.Module+"/") + "." + name + " empty secret"
		pos := p.Pos(sto.valid.Pos())
		if cx.validRejectsEmpty(sto.valid) {
			r.OK("C21.R4", key, pos, "Valid cannot succeed on an empty stored secret (bcrypt comparison or explicit non-empty test)")
			continue
		}
		if authRejects {
			r.OK("C21.R4", key, pos, "every authenticator rejects an empty password before consulting the store")
			continue
		}
		if _, isMap := sto.named.Underlying().(*types.Map); !isMap {
			r.Violation("C21.R4", key, pos, "Valid of this store accepts an empty stored secret with an empty password and the store is not a map whose construction can be examined")
			continue
		}
		// construction sites of the store type
		org := &c21MapOrigins{makes: map[*ssa.MakeMap]bool{}}
		nSites := 0
		for _, fn := range p.RepoFuncs() {
			kit.Instrs(fn, func(in ssa.Instruction) {
				switch x := in.(type) {
				case *ssa.ChangeType:
					if x.Type() == types.Type(sto.named) {
						nSites++
						cx.mapOrigins(x.X, 0, map[ssa.Value]bool{}, org)
					}
				case *ssa.MakeMap:
					if x.Type() == types.Type(sto.named) {
						nSites++
						org.makes[x] = true
					}
				}
			})
		}
		r.Count("credential_store_construction_sites", nSites)
		bad, badPos := "", pos
		if org.unknown != "" {
			bad = "the map that becomes the store comes from " + org.unknown + ", whose entries cannot be shown to be non-empty"
		}
		nIns := 0
		for _, u := range updates {
			uo := &c21MapOrigins{makes: map[*ssa.MakeMap]bool{}}
			cx.mapOrigins(u.mu.Map, 0, map[ssa.Value]bool{}, uo)
			hit := false
			for m := range uo.makes {
				if org.makes[m] {
					hit = true
				}
			}
			if !hit {
				continue
			}
			nIns++
			if s, isConst := kit.ConstString(u.mu.Value); isConst && s != "" {
				continue
			}
			val := c21StripConv(u.mu.Value)
			same := func(v ssa.Value) bool {
				v = c21StripConv(v)
				if v == val {
					return true
				}
				f1, b1 := kit.LoadedField(v)
				f2, b2 := kit.LoadedField(val)
				return f1 != nil && f1 == f2 && b1 == b2
			}
			guarded := false
			for _, g := range kit.NormGuards(kit.GuardsOf(u.mu)) {
				if c21ExcludesEmpty(g.Cond, g.Polarity, same) {
					guarded = true
				}
			}
			if !guarded && bad == "" {
				bad = kit.FuncName(u.fn) + " inserts a secret into the map that becomes a " + name + " without testing that it is non-empty"
				badPos = p.Pos(u.mu.Pos())
			}
		}
		r.Count("credential_map_insertions", nIns)
		r.Decide(bad == "", "C21.R4", key, badPos,
			fmt.Sprintf("all %d insertion(s) into the map(s) that become the store are guarded non-empty", nIns),
			bad+": a configured user without a usable password is stored with the secret \"\", and "+name+".Valid accepts the empty password for it (neither Valid nor the authenticator rejects empty secrets)")
	}
}
