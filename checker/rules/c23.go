package rules

import (
	"fmt"
	"go/types"
	"os"
	"sort"
	"strings"

	"golang.org/x/tools/go/ssa"

	"mmverify/kit"
)

func init() {
	register(&Check{
		ID: "C23", Level: "other", Patterns: []string{"./internal/socks5"},
		Technique: "path-enumerating symbolic evaluation of the request parser, dispatcher and reply encoder (wire layout compared with RFC 1928), structural provenance of the dial address, linear bounds prover over dominating guards",
		Explain: "Decides (R1) that the address handed to Dialer.DialContext/Dial is net.JoinHostPort(req.DestAddr, decimal(req.DestPort)) on network \"tcp\", that the function returning (*Request, error) fills, on every successful path, Command/AddrType from bytes 1/3 of a 4-byte header read, DestAddr from exactly the 4 (ATYP 1) or 16 (ATYP 4) bytes read next rendered by net.IP.String, or from the length-prefixed domain bytes (ATYP 3, zero length rejected), and DestPort as the big-endian value of the final 2 bytes, all with io.ReadFull on the client connection, and that the dispatcher calls the dialing handler only for command 1 (UDP 3, ICMP 4) with that request; (R2) that the paths on which no supported command / address type matched send reply 7 / 8 and execute nothing; (R3) that the reply encoder writes VER=5, REP, RSV=0, an ATYP that agrees with the address bytes copied (1: To4()!=nil result or a fresh 4-byte buffer, 4: a non-nil IP whose To4() is nil), a buffer of exactly 4+len(addr)+2 bytes and the port big-endian at 4+len(addr); (R4) that every index/slice operation and fixed-size binary accessor in package socks5 is within bounds by a dominating length guard or construction. " +
			"Not decided: unchecked type assertions (dialer LocalAddr), panics inside other packages, net.IP values of exotic length in replies, what the Dialer implementation does with the address.",
		Run:       runC23,
		SelfTests: c23SelfTests,
	})
}

var c23SelfTests = []SelfTest{
	// ---- R1
	{Name: "dial port off by one", ExpectRule: "C23.R1", Edits: []Edit{
		{File: "internal/socks5/handler.go", Old: "targetAddr := net.JoinHostPort(req.DestAddr, strconv.Itoa(int(req.DestPort)))", New: "targetAddr := net.JoinHostPort(req.DestAddr, strconv.Itoa(int(req.DestPort+1)))"},
	}},
	{Name: "dial address without IPv6 bracketing", ExpectRule: "C23.R1", Edits: []Edit{
		{File: "internal/socks5/handler.go", Old: "targetAddr := net.JoinHostPort(req.DestAddr, strconv.Itoa(int(req.DestPort)))", New: "targetAddr := req.DestAddr + \":\" + strconv.Itoa(int(req.DestPort))"},
	}},
	{Name: "port decoded little-endian", ExpectRule: "C23.R1", Edits: []Edit{
		{File: "internal/socks5/handler.go", Old: "req.DestPort = binary.BigEndian.Uint16(portBuf)", New: "req.DestPort = binary.LittleEndian.Uint16(portBuf)"},
	}},
	{Name: "IPv4 case reads 16 bytes", ExpectRule: "C23.R1", Edits: []Edit{
		{File: "internal/socks5/handler.go", Old: "\tcase AddrTypeIPv4:\n\t\taddr := make([]byte, 4)\n", New: "\tcase AddrTypeIPv4:\n\t\taddr := make([]byte, 16)\n"},
	}},
	{Name: "address type taken from the reserved byte", ExpectRule: "C23.R1", Edits: []Edit{
		{File: "internal/socks5/handler.go", Old: "\t\tAddrType: header[3],\n", New: "\t\tAddrType: header[2],\n"},
	}},
	{Name: "domain read may be short (conn.Read instead of io.ReadFull)", ExpectRule: "C23.R1", Edits: []Edit{
		{File: "internal/socks5/handler.go", Old: "\t\tif _, err := io.ReadFull(conn, domain); err != nil {\n", New: "\t\tif _, err := conn.Read(domain); err != nil {\n"},
	}},
	{Name: "zero-length domain accepted", ExpectRule: "C23.R1", Edits: []Edit{
		{File: "internal/socks5/handler.go", Old: "\t\tif domainLen == 0 {\n", New: "\t\tif domainLen < 0 {\n"},
	}},
	{Name: "IPv6 treated as the fallback address type", ExpectRule: "C23.R1", Edits: []Edit{
		{File: "internal/socks5/handler.go", Old: "\tcase AddrTypeIPv6:\n\t\taddr := make([]byte, 16)\n\t\tif _, err := io.ReadFull(conn, addr); err != nil {\n\t\t\treturn nil, err\n\t\t}\n\t\treq.DestIP = net.IP(addr)\n\t\treq.DestAddr = req.DestIP.String()\n\t\treq.RawDest = addr\n\n\tdefault:\n\t\th.sendReply(conn, ReplyAddrNotSupported, nil, 0)\n\t\treturn nil, fmt.Errorf(\"unsupported address type: %d\", req.AddrType)\n\t}\n", New: "\tdefault:\n\t\taddr := make([]byte, 16)\n\t\tif _, err := io.ReadFull(conn, addr); err != nil {\n\t\t\treturn nil, err\n\t\t}\n\t\treq.DestIP = net.IP(addr)\n\t\treq.DestAddr = req.DestIP.String()\n\t\treq.RawDest = addr\n\t}\n"},
	}},
	{Name: "UDP ASSOCIATE command dispatched to the CONNECT handler", ExpectRule: "C23.R1", Edits: []Edit{
		{File: "internal/socks5/handler.go", Old: "\tcase CmdConnect:\n\t\treturn h.handleConnect(conn, req)\n\tcase CmdUDPAssociate:\n\t\treturn h.handleUDPAssociate(conn, req)\n", New: "\tcase CmdConnect, CmdBind:\n\t\treturn h.handleConnect(conn, req)\n\tcase CmdUDPAssociate:\n\t\treturn h.handleUDPAssociate(conn, req)\n"},
	}},
	// ---- R2
	{Name: "unsupported command answered with the wrong code", ExpectRule: "C23.R2", Edits: []Edit{
		{File: "internal/socks5/handler.go", Old: "\t\th.sendReply(conn, ReplyCmdNotSupported, nil, 0)\n\t\treturn fmt.Errorf(\"unsupported command: %d\", req.Command)\n", New: "\t\th.sendReply(conn, ReplyServerFailure, nil, 0)\n\t\treturn fmt.Errorf(\"unsupported command: %d\", req.Command)\n"},
	}},
	{Name: "unsupported command not answered", ExpectRule: "C23.R2", Edits: []Edit{
		{File: "internal/socks5/handler.go", Old: "\t\th.sendReply(conn, ReplyCmdNotSupported, nil, 0)\n\t\treturn fmt.Errorf(\"unsupported command: %d\", req.Command)\n", New: "\t\treturn fmt.Errorf(\"unsupported command: %d\", req.Command)\n"},
	}},
	{Name: "unsupported address type answered with command-not-supported", ExpectRule: "C23.R2", Edits: []Edit{
		{File: "internal/socks5/handler.go", Old: "\t\th.sendReply(conn, ReplyAddrNotSupported, nil, 0)\n\t\treturn nil, fmt.Errorf(\"unsupported address type", New: "\t\th.sendReply(conn, ReplyCmdNotSupported, nil, 0)\n\t\treturn nil, fmt.Errorf(\"unsupported address type"},
	}},
	// ---- R3
	{Name: "reply ATYP constants swapped", ExpectRule: "C23.R3", Edits: []Edit{
		{File: "internal/socks5/handler.go", Old: "\tif ipv4 := bindIP.To4(); ipv4 != nil {\n\t\taddrType = AddrTypeIPv4\n", New: "\tif ipv4 := bindIP.To4(); ipv4 != nil {\n\t\taddrType = AddrTypeIPv6\n"},
	}},
	{Name: "nil bind address encoded as 16 zero bytes with ATYP 1", ExpectRule: "C23.R3", Edits: []Edit{
		{File: "internal/socks5/handler.go", Old: "\t\taddrBytes = make([]byte, 4) // 0.0.0.0\n", New: "\t\taddrBytes = make([]byte, 16)\n"},
	}},
	{Name: "reserved byte carries the reply code", ExpectRule: "C23.R3", Edits: []Edit{
		{File: "internal/socks5/handler.go", Old: "\tbuf[1] = reply\n\tbuf[2] = 0x00 // RSV\n", New: "\tbuf[1] = 0x00\n\tbuf[2] = reply\n"},
	}},
	{Name: "port written over the address", ExpectRule: "C23.R3", Edits: []Edit{
		{File: "internal/socks5/handler.go", Old: "\tbinary.BigEndian.PutUint16(buf[4+len(addrBytes):], bindPort)\n", New: "\tbinary.BigEndian.PutUint16(buf[4:], bindPort)\n"},
	}},
	{Name: "reply port little-endian", ExpectRule: "C23.R3", Edits: []Edit{
		{File: "internal/socks5/handler.go", Old: "\tbinary.BigEndian.PutUint16(buf[4+len(addrBytes):], bindPort)\n", New: "\tbinary.LittleEndian.PutUint16(buf[4+len(addrBytes):], bindPort)\n"},
	}},
	{Name: "truncated hand-built failure reply bypassing the encoder", ExpectRule: "C23.R3", Edits: []Edit{
		{File: "internal/socks5/handler.go", Old: "\t\th.sendReply(conn, ReplyCmdNotSupported, nil, 0)\n\t\treturn ErrUDPDisabled\n", New: "\t\tconn.Write([]byte{SOCKS5Version, ReplyCmdNotSupported, 0x00})\n\t\treturn ErrUDPDisabled\n"},
	}},
	// ---- R5
	{Name: "reply encoded in a pooled buffer that a helper's defer puts back before the write (seed C23-b class)", ExpectRule: "C23.R5", Edits: []Edit{
		{File: "internal/socks5/handler.go", Old: "\tbuf := make([]byte, 4+len(addrBytes)+2)\n", New: "\tbuf := pooledReplyBuf(4 + len(addrBytes) + 2)\n"},
		{File: "internal/socks5/handler.go", Old: "// sendReply sends a SOCKS5 reply.\n", New: "var replyBufPool = sync.Pool{New: func() any { return new([64]byte) }}\n\nfunc pooledReplyBuf(n int) []byte {\n\tb := replyBufPool.Get().(*[64]byte)\n\tdefer replyBufPool.Put(b)\n\treturn b[:n]\n}\n\n// sendReply sends a SOCKS5 reply.\n"},
	}},
	{Name: "pooled reply buffer put back explicitly before the write", ExpectRule: "C23.R5", Edits: []Edit{
		{File: "internal/socks5/handler.go", Old: "\tbuf := make([]byte, 4+len(addrBytes)+2)\n\tbuf[0] = SOCKS5Version\n\tbuf[1] = reply\n\tbuf[2] = 0x00 // RSV\n\tbuf[3] = addrType\n\tcopy(buf[4:], addrBytes)\n\tbinary.BigEndian.PutUint16(buf[4+len(addrBytes):], bindPort)\n\n\t_, err := conn.Write(buf)\n", New: "\tbuf := replyBufPool.Get().(*[22]byte)\n\tbuf[0] = SOCKS5Version\n\tbuf[1] = reply\n\tbuf[2] = 0x00 // RSV\n\tbuf[3] = addrType\n\tn := 4 + copy(buf[4:20], addrBytes)\n\tbinary.BigEndian.PutUint16(buf[n:], bindPort)\n\tout := buf[:n+2]\n\treplyBufPool.Put(buf)\n\n\t_, err := conn.Write(out)\n"},
		{File: "internal/socks5/handler.go", Old: "// sendReply sends a SOCKS5 reply.\n", New: "var replyBufPool = sync.Pool{New: func() any { return new([22]byte) }}\n\n// sendReply sends a SOCKS5 reply.\n"},
	}},
	{Name: "reply encoded in a scratch buffer of the shared Handler", ExpectRule: "C23.R5", Edits: []Edit{
		{File: "internal/socks5/handler.go", Old: "\tbuf := make([]byte, 4+len(addrBytes)+2)\n", New: "\tbuf := h.replyScratch[:4+len(addrBytes)+2]\n"},
		{File: "internal/socks5/handler.go", Old: "\tauthenticators []Authenticator\n\tdialer         Dialer\n", New: "\tauthenticators []Authenticator\n\tdialer         Dialer\n\treplyScratch   [64]byte\n"},
	}},
	{Name: "reply encoded in a package-level buffer", ExpectRule: "C23.R5", Edits: []Edit{
		{File: "internal/socks5/handler.go", Old: "\tbuf := make([]byte, 4+len(addrBytes)+2)\n", New: "\tbuf := replyScratch[:4+len(addrBytes)+2]\n"},
		{File: "internal/socks5/handler.go", Old: "// sendReply sends a SOCKS5 reply.\n", New: "var replyScratch [64]byte\n\n// sendReply sends a SOCKS5 reply.\n"},
	}},
	// ---- more R1
	{Name: "domain name canonicalised before dialing (seed C23-a class)", ExpectRule: "C23.R1", Edits: []Edit{
		{File: "internal/socks5/handler.go", Old: "\t\treq.DestAddr = string(domain)\n", New: "\t\treq.DestAddr = string(bytes.TrimRight(domain, \".\"))\n"},
		{File: "internal/socks5/handler.go", Old: "import (\n\t\"context\"\n", New: "import (\n\t\"bytes\"\n\t\"context\"\n"},
	}},
	{Name: "request rewritten by the dispatcher after parsing (default port)", ExpectRule: "C23.R1", Edits: []Edit{
		{File: "internal/socks5/handler.go", Old: "\t// Dispatch based on command\n", New: "\tif req.DestPort == 0 {\n\t\treq.DestPort = 80\n\t}\n\t// Dispatch based on command\n"},
	}},
	{Name: "host lower-cased at dial time", ExpectRule: "C23.R1", Edits: []Edit{
		{File: "internal/socks5/handler.go", Old: "targetAddr := net.JoinHostPort(req.DestAddr, strconv.Itoa(int(req.DestPort)))", New: "targetAddr := net.JoinHostPort(strings.ToLower(req.DestAddr), strconv.Itoa(int(req.DestPort)))"},
		{File: "internal/socks5/handler.go", Old: "import (\n\t\"context\"\n", New: "import (\n\t\"context\"\n\t\"strings\"\n"},
	}},
	{Name: "request header read into a scratch buffer of the shared Handler", ExpectRule: "C23.R1", Edits: []Edit{
		{File: "internal/socks5/handler.go", Old: "\theader := make([]byte, 4)\n\tif _, err := io.ReadFull(conn, header); err != nil {\n\t\treturn nil, err\n\t}\n\n\tif header[0] != SOCKS5Version {\n\t\treturn nil, fmt.Errorf(\"unsupported SOCKS version: %d\", header[0])\n\t}\n\n\treq := &Request{", New: "\theader := h.hdrScratch[:]\n\tif _, err := io.ReadFull(conn, header); err != nil {\n\t\treturn nil, err\n\t}\n\n\tif header[0] != SOCKS5Version {\n\t\treturn nil, fmt.Errorf(\"unsupported SOCKS version: %d\", header[0])\n\t}\n\n\treq := &Request{"},
		{File: "internal/socks5/handler.go", Old: "\tauthenticators []Authenticator\n\tdialer         Dialer\n", New: "\tauthenticators []Authenticator\n\tdialer         Dialer\n\thdrScratch     [4]byte\n"},
	}},
	{Name: "domain length sign-extended (names of 128+ bytes)", ExpectRule: "C23.R1", Edits: []Edit{
		{File: "internal/socks5/handler.go", Old: "\t\tdomainLen := int(lenBuf[0])\n\t\tif domainLen == 0 {", New: "\t\tdomainLen := int(int8(lenBuf[0])) & 0x7f\n\t\tif domainLen == 0 {"},
	}},
	// ---- R4
	{Name: "UDP header minimum length weakened", ExpectRule: "C23.R4", Edits: []Edit{
		{File: "internal/socks5/udp.go", Old: "\tif len(data) < 10 {", New: "\tif len(data) < 3 {"},
	}},
	{Name: "IPv6 datagram length check copied from IPv4", ExpectRule: "C23.R4", Edits: []Edit{
		{File: "internal/socks5/udp.go", Old: "\t\tif len(data) < offset+16+2 {\n", New: "\t\tif len(data) < offset+4+2 {\n"},
	}},
	{Name: "port length check dropped and domain check off by two", ExpectRule: "C23.R4", Edits: []Edit{
		{File: "internal/socks5/udp.go", Old: "\tif len(data) < offset+2 {\n\t\treturn nil, nil, errors.New(\"datagram too short for port\")\n\t}\n", New: ""},
		{File: "internal/socks5/udp.go", Old: "\t\tif len(data) < offset+domainLen+2 {\n", New: "\t\tif len(data) < offset+domainLen {\n"},
	}},
	{Name: "auth header buffer too small for the index used", ExpectRule: "C23.R4", Edits: []Edit{
		{File: "internal/socks5/auth.go", Old: "\theader := make([]byte, 2)\n\tif _, err := io.ReadFull(reader, header); err != nil {\n\t\treturn \"\", err\n\t}\n\n\tif header[0] != 0x01 {", New: "\theader := make([]byte, 1)\n\tif _, err := io.ReadFull(reader, header); err != nil {\n\t\treturn \"\", err\n\t}\n\n\tif header[0] != 0x01 {"},
	}},
	// ---- rewrites
	{Name: "rewrite: if-chain instead of switch, port by shifts, FormatUint", Edits: []Edit{
		{File: "internal/socks5/handler.go", Old: "req.DestPort = binary.BigEndian.Uint16(portBuf)", New: "req.DestPort = uint16(portBuf[0])<<8 | uint16(portBuf[1])"},
		{File: "internal/socks5/handler.go", Old: "targetAddr := net.JoinHostPort(req.DestAddr, strconv.Itoa(int(req.DestPort)))", New: "port := strconv.FormatUint(uint64(req.DestPort), 10)\n\ttargetAddr := net.JoinHostPort(req.DestAddr, port)"},
		{File: "internal/socks5/handler.go", Old: "\tswitch req.Command {\n\tcase CmdConnect:\n\t\treturn h.handleConnect(conn, req)\n\tcase CmdUDPAssociate:\n\t\treturn h.handleUDPAssociate(conn, req)\n\tcase CmdICMPEcho:\n\t\treturn h.handleICMPEcho(conn, req)\n\tdefault:\n\t\th.sendReply(conn, ReplyCmdNotSupported, nil, 0)\n\t\treturn fmt.Errorf(\"unsupported command: %d\", req.Command)\n\t}\n", New: "\tif req.Command == CmdConnect {\n\t\treturn h.handleConnect(conn, req)\n\t} else if req.Command == CmdUDPAssociate {\n\t\treturn h.handleUDPAssociate(conn, req)\n\t} else if req.Command != CmdICMPEcho {\n\t\th.sendReply(conn, ReplyCmdNotSupported, nil, 0)\n\t\treturn fmt.Errorf(\"unsupported command: %d\", req.Command)\n\t}\n\treturn h.handleICMPEcho(conn, req)\n"},
	}},
	{Name: "rewrite: IP address reading extracted into a helper", Edits: []Edit{
		{File: "internal/socks5/handler.go", Old: "\tcase AddrTypeIPv4:\n\t\taddr := make([]byte, 4)\n\t\tif _, err := io.ReadFull(conn, addr); err != nil {\n\t\t\treturn nil, err\n\t\t}\n\t\treq.DestIP = net.IP(addr)\n\t\treq.DestAddr = req.DestIP.String()\n\t\treq.RawDest = addr\n", New: "\tcase AddrTypeIPv4:\n\t\tif err := readIPInto(conn, req, net.IPv4len); err != nil {\n\t\t\treturn nil, err\n\t\t}\n"},
		{File: "internal/socks5/handler.go", Old: "\tcase AddrTypeIPv6:\n\t\taddr := make([]byte, 16)\n\t\tif _, err := io.ReadFull(conn, addr); err != nil {\n\t\t\treturn nil, err\n\t\t}\n\t\treq.DestIP = net.IP(addr)\n\t\treq.DestAddr = req.DestIP.String()\n\t\treq.RawDest = addr\n", New: "\tcase AddrTypeIPv6:\n\t\tif err := readIPInto(conn, req, net.IPv6len); err != nil {\n\t\t\treturn nil, err\n\t\t}\n"},
		{File: "internal/socks5/handler.go", Old: "// sendReply sends a SOCKS5 reply.\n", New: "func readIPInto(r io.Reader, req *Request, n int) error {\n\taddr := make([]byte, n)\n\tif _, err := io.ReadFull(r, addr); err != nil {\n\t\treturn err\n\t}\n\treq.DestIP = net.IP(addr)\n\treq.DestAddr = net.IP(addr).String()\n\treq.RawDest = addr\n\treturn nil\n}\n\n// sendReply sends a SOCKS5 reply.\n"},
	}},
	{Name: "rewrite: reply encoder with switch and early address normalisation", Edits: []Edit{
		{File: "internal/socks5/handler.go", Old: "\tif ipv4 := bindIP.To4(); ipv4 != nil {\n\t\taddrType = AddrTypeIPv4\n\t\taddrBytes = ipv4\n\t} else if bindIP != nil {\n\t\taddrType = AddrTypeIPv6\n\t\taddrBytes = bindIP\n\t} else {\n\t\taddrType = AddrTypeIPv4\n\t\taddrBytes = make([]byte, 4) // 0.0.0.0\n\t}\n", New: "\tipv4 := bindIP.To4()\n\tswitch {\n\tcase bindIP == nil:\n\t\taddrType, addrBytes = AddrTypeIPv4, make([]byte, net.IPv4len)\n\tcase ipv4 == nil:\n\t\taddrType, addrBytes = AddrTypeIPv6, bindIP\n\tdefault:\n\t\taddrType, addrBytes = AddrTypeIPv4, ipv4\n\t}\n"},
	}},
	{Name: "rewrite: reply encoded in a pooled array that is put back after the write", Edits: []Edit{
		{File: "internal/socks5/handler.go", Old: "\tbuf := make([]byte, 4+len(addrBytes)+2)\n\tbuf[0] = SOCKS5Version\n\tbuf[1] = reply\n\tbuf[2] = 0x00 // RSV\n\tbuf[3] = addrType\n\tcopy(buf[4:], addrBytes)\n\tbinary.BigEndian.PutUint16(buf[4+len(addrBytes):], bindPort)\n\n\t_, err := conn.Write(buf)\n", New: "\tbuf := replyBufPool.Get().(*[22]byte)\n\tdefer replyBufPool.Put(buf)\n\tbuf[0] = SOCKS5Version\n\tbuf[1] = reply\n\tbuf[2] = 0x00 // RSV\n\tbuf[3] = addrType\n\tn := 4 + copy(buf[4:20], addrBytes)\n\tbinary.BigEndian.PutUint16(buf[n:], bindPort)\n\n\t_, err := conn.Write(buf[:n+2])\n"},
		{File: "internal/socks5/handler.go", Old: "// sendReply sends a SOCKS5 reply.\n", New: "var replyBufPool = sync.Pool{New: func() any { return new([22]byte) }}\n\n// sendReply sends a SOCKS5 reply.\n"},
	}},
	{Name: "rewrite: reply built by an encoding helper that returns a fresh slice", Edits: []Edit{
		{File: "internal/socks5/handler.go", Old: "\tbuf := make([]byte, 4+len(addrBytes)+2)\n\tbuf[0] = SOCKS5Version\n\tbuf[1] = reply\n\tbuf[2] = 0x00 // RSV\n\tbuf[3] = addrType\n\tcopy(buf[4:], addrBytes)\n\tbinary.BigEndian.PutUint16(buf[4+len(addrBytes):], bindPort)\n\n\t_, err := conn.Write(buf)\n", New: "\t_, err := conn.Write(encodeReplyBytes(reply, addrType, addrBytes, bindPort))\n"},
		{File: "internal/socks5/handler.go", Old: "// sendReply sends a SOCKS5 reply.\n", New: "func encodeReplyBytes(reply, addrType byte, addrBytes []byte, bindPort uint16) []byte {\n\tbuf := make([]byte, 4+len(addrBytes)+2)\n\tbuf[0] = SOCKS5Version\n\tbuf[1] = reply\n\tbuf[2] = 0x00 // RSV\n\tbuf[3] = addrType\n\tcopy(buf[4:], addrBytes)\n\tbinary.BigEndian.PutUint16(buf[4+len(addrBytes):], bindPort)\n\treturn buf\n}\n\n// sendReply sends a SOCKS5 reply.\n"},
	}},
	{Name: "rewrite: dispatch extracted into a helper with early-return ifs", Edits: []Edit{
		{File: "internal/socks5/handler.go", Old: "\tswitch req.Command {\n\tcase CmdConnect:\n\t\treturn h.handleConnect(conn, req)\n\tcase CmdUDPAssociate:\n\t\treturn h.handleUDPAssociate(conn, req)\n\tcase CmdICMPEcho:\n\t\treturn h.handleICMPEcho(conn, req)\n\tdefault:\n\t\th.sendReply(conn, ReplyCmdNotSupported, nil, 0)\n\t\treturn fmt.Errorf(\"unsupported command: %d\", req.Command)\n\t}\n}\n", New: "\treturn h.dispatch(conn, req)\n}\n\nfunc (h *Handler) dispatch(conn net.Conn, req *Request) error {\n\tcmd := req.Command\n\tif cmd == CmdConnect {\n\t\treturn h.handleConnect(conn, req)\n\t}\n\tif cmd == CmdUDPAssociate {\n\t\treturn h.handleUDPAssociate(conn, req)\n\t}\n\tif cmd == CmdICMPEcho {\n\t\treturn h.handleICMPEcho(conn, req)\n\t}\n\th.sendReply(conn, ReplyCmdNotSupported, nil, 0)\n\treturn fmt.Errorf(\"unsupported command: %d\", cmd)\n}\n"},
	}},
	{Name: "rewrite: handler selected as a method value, unsupported command as a nil guard", Edits: []Edit{
		{File: "internal/socks5/handler.go", Old: "\tswitch req.Command {\n\tcase CmdConnect:\n\t\treturn h.handleConnect(conn, req)\n\tcase CmdUDPAssociate:\n\t\treturn h.handleUDPAssociate(conn, req)\n\tcase CmdICMPEcho:\n\t\treturn h.handleICMPEcho(conn, req)\n\tdefault:\n\t\th.sendReply(conn, ReplyCmdNotSupported, nil, 0)\n\t\treturn fmt.Errorf(\"unsupported command: %d\", req.Command)\n\t}\n}\n", New: "\tvar serve func(net.Conn, *Request) error\n\tswitch req.Command {\n\tcase CmdICMPEcho:\n\t\tserve = h.handleICMPEcho\n\tcase CmdUDPAssociate:\n\t\tserve = h.handleUDPAssociate\n\tcase CmdConnect:\n\t\tserve = h.handleConnect\n\t}\n\tif serve == nil {\n\t\th.sendReply(conn, ReplyCmdNotSupported, nil, 0)\n\t\treturn fmt.Errorf(\"unsupported command: %d\", req.Command)\n\t}\n\treturn serve(conn, req)\n}\n"},
	}},
	{Name: "rewrite: allocate-and-read blocks replaced by a readExact helper", Edits: []Edit{
		{File: "internal/socks5/handler.go", Old: "\theader := make([]byte, 4)\n\tif _, err := io.ReadFull(conn, header); err != nil {\n\t\treturn nil, err\n\t}\n\n\tif header[0] != SOCKS5Version {\n\t\treturn nil, fmt.Errorf(\"unsupported SOCKS version: %d\", header[0])\n\t}\n\n\treq := &Request{", New: "\theader, err := readExact(conn, 4)\n\tif err != nil {\n\t\treturn nil, err\n\t}\n\n\tif header[0] != SOCKS5Version {\n\t\treturn nil, fmt.Errorf(\"unsupported SOCKS version: %d\", header[0])\n\t}\n\n\treq := &Request{"},
		{File: "internal/socks5/handler.go", Old: "\tportBuf := make([]byte, 2)\n\tif _, err := io.ReadFull(conn, portBuf); err != nil {\n\t\treturn nil, err\n\t}\n\treq.DestPort = binary.BigEndian.Uint16(portBuf)\n", New: "\tportBuf, err := readExact(conn, 2)\n\tif err != nil {\n\t\treturn nil, err\n\t}\n\treq.DestPort = binary.BigEndian.Uint16(portBuf)\n"},
		{File: "internal/socks5/handler.go", Old: "// readRequest reads the SOCKS5 request.\n", New: "func readExact(r io.Reader, n int) ([]byte, error) {\n\tb := make([]byte, n)\n\tif _, err := io.ReadFull(r, b); err != nil {\n\t\treturn nil, err\n\t}\n\treturn b, nil\n}\n\n// readRequest reads the SOCKS5 request.\n"},
	}},
	{Name: "rewrite: dial moved into a helper that is handed the address", Edits: []Edit{
		{File: "internal/socks5/handler.go", Old: "\ttarget, err := h.dialer.DialContext(ctx, \"tcp\", targetAddr)\n", New: "\ttarget, err := h.dialTo(ctx, targetAddr)\n"},
		{File: "internal/socks5/handler.go", Old: "// handleConnect handles CONNECT commands.\n", New: "func (h *Handler) dialTo(ctx context.Context, address string) (net.Conn, error) {\n\treturn h.dialer.DialContext(ctx, \"tcp\", address)\n}\n\n// handleConnect handles CONNECT commands.\n"},
	}},
	{Name: "rewrite: reply assembled with append and AppendUint16", Edits: []Edit{
		{File: "internal/socks5/handler.go", Old: "\tbuf := make([]byte, 4+len(addrBytes)+2)\n\tbuf[0] = SOCKS5Version\n\tbuf[1] = reply\n\tbuf[2] = 0x00 // RSV\n\tbuf[3] = addrType\n\tcopy(buf[4:], addrBytes)\n\tbinary.BigEndian.PutUint16(buf[4+len(addrBytes):], bindPort)\n", New: "\tbuf := make([]byte, 0, 4+len(addrBytes)+2)\n\tbuf = append(buf, SOCKS5Version, reply, 0x00, addrType)\n\tbuf = append(buf, addrBytes...)\n\tbuf = binary.BigEndian.AppendUint16(buf, bindPort)\n"},
	}},
	{Name: "rewrite: reply with literal zero address and defaults assigned first", Edits: []Edit{
		{File: "internal/socks5/handler.go", Old: "\tvar addrType byte\n\tvar addrBytes []byte\n\n\tif ipv4 := bindIP.To4(); ipv4 != nil {\n\t\taddrType = AddrTypeIPv4\n\t\taddrBytes = ipv4\n\t} else if bindIP != nil {\n\t\taddrType = AddrTypeIPv6\n\t\taddrBytes = bindIP\n\t} else {\n\t\taddrType = AddrTypeIPv4\n\t\taddrBytes = make([]byte, 4) // 0.0.0.0\n\t}\n", New: "\taddrType := byte(AddrTypeIPv4)\n\taddrBytes := []byte{0, 0, 0, 0}\n\tif ipv4 := bindIP.To4(); ipv4 != nil {\n\t\taddrBytes = ipv4\n\t} else if bindIP != nil {\n\t\taddrType = AddrTypeIPv6\n\t\taddrBytes = bindIP\n\t}\n"},
		{File: "internal/socks5/handler.go", Old: "\tbuf := make([]byte, 4+len(addrBytes)+2)\n\tbuf[0] = SOCKS5Version\n\tbuf[1] = reply\n\tbuf[2] = 0x00 // RSV\n\tbuf[3] = addrType\n\tcopy(buf[4:], addrBytes)\n\tbinary.BigEndian.PutUint16(buf[4+len(addrBytes):], bindPort)\n", New: "\tbuf := make([]byte, 0, 4+len(addrBytes)+2)\n\tbuf = append(buf, SOCKS5Version, reply, 0x00, addrType)\n\tbuf = append(buf, addrBytes...)\n\tbuf = binary.BigEndian.AppendUint16(buf, bindPort)\n"},
	}},
	{Name: "appended reply with REP and RSV swapped", ExpectRule: "C23.R3", Edits: []Edit{
		{File: "internal/socks5/handler.go", Old: "\tbuf := make([]byte, 4+len(addrBytes)+2)\n\tbuf[0] = SOCKS5Version\n\tbuf[1] = reply\n\tbuf[2] = 0x00 // RSV\n\tbuf[3] = addrType\n\tcopy(buf[4:], addrBytes)\n\tbinary.BigEndian.PutUint16(buf[4+len(addrBytes):], bindPort)\n", New: "\tbuf := make([]byte, 0, 4+len(addrBytes)+2)\n\tbuf = append(buf, SOCKS5Version, 0x00, reply, addrType)\n\tbuf = append(buf, addrBytes...)\n\tbuf = binary.BigEndian.AppendUint16(buf, bindPort)\n"},
	}},
	{Name: "appended reply with a little-endian port", ExpectRule: "C23.R3", Edits: []Edit{
		{File: "internal/socks5/handler.go", Old: "\tbuf := make([]byte, 4+len(addrBytes)+2)\n\tbuf[0] = SOCKS5Version\n\tbuf[1] = reply\n\tbuf[2] = 0x00 // RSV\n\tbuf[3] = addrType\n\tcopy(buf[4:], addrBytes)\n\tbinary.BigEndian.PutUint16(buf[4+len(addrBytes):], bindPort)\n", New: "\tbuf := make([]byte, 0, 4+len(addrBytes)+2)\n\tbuf = append(buf, SOCKS5Version, reply, 0x00, addrType)\n\tbuf = append(buf, addrBytes...)\n\tbuf = binary.LittleEndian.AppendUint16(buf, bindPort)\n"},
	}},
	{Name: "method-value dispatch that maps BIND to the CONNECT handler", ExpectRule: "C23.R1", Edits: []Edit{
		{File: "internal/socks5/handler.go", Old: "\tswitch req.Command {\n\tcase CmdConnect:\n\t\treturn h.handleConnect(conn, req)\n\tcase CmdUDPAssociate:\n\t\treturn h.handleUDPAssociate(conn, req)\n\tcase CmdICMPEcho:\n\t\treturn h.handleICMPEcho(conn, req)\n\tdefault:\n\t\th.sendReply(conn, ReplyCmdNotSupported, nil, 0)\n\t\treturn fmt.Errorf(\"unsupported command: %d\", req.Command)\n\t}\n}\n", New: "\tvar serve func(net.Conn, *Request) error\n\tswitch req.Command {\n\tcase CmdICMPEcho:\n\t\tserve = h.handleICMPEcho\n\tcase CmdUDPAssociate:\n\t\tserve = h.handleUDPAssociate\n\tcase CmdConnect, CmdBind:\n\t\tserve = h.handleConnect\n\t}\n\tif serve == nil {\n\t\th.sendReply(conn, ReplyCmdNotSupported, nil, 0)\n\t\treturn fmt.Errorf(\"unsupported command: %d\", req.Command)\n\t}\n\treturn serve(conn, req)\n}\n"},
	}},
	{Name: "dial helper that is handed an address without brackets", ExpectRule: "C23.R1", Edits: []Edit{
		{File: "internal/socks5/handler.go", Old: "\ttarget, err := h.dialer.DialContext(ctx, \"tcp\", targetAddr)\n", New: "\ttarget, err := h.dialTo(ctx, req.DestAddr+\":\"+strconv.Itoa(int(req.DestPort)))\n"},
		{File: "internal/socks5/handler.go", Old: "// handleConnect handles CONNECT commands.\n", New: "func (h *Handler) dialTo(ctx context.Context, address string) (net.Conn, error) {\n\treturn h.dialer.DialContext(ctx, \"tcp\", address)\n}\n\n// handleConnect handles CONNECT commands.\n"},
	}},
	{Name: "readExact helper that tolerates short reads", ExpectRule: "C23.R1", Edits: []Edit{
		{File: "internal/socks5/handler.go", Old: "\theader := make([]byte, 4)\n\tif _, err := io.ReadFull(conn, header); err != nil {\n\t\treturn nil, err\n\t}\n\n\tif header[0] != SOCKS5Version {\n\t\treturn nil, fmt.Errorf(\"unsupported SOCKS version: %d\", header[0])\n\t}\n\n\treq := &Request{", New: "\theader, err := readExact(conn, 4)\n\tif err != nil {\n\t\treturn nil, err\n\t}\n\n\tif header[0] != SOCKS5Version {\n\t\treturn nil, fmt.Errorf(\"unsupported SOCKS version: %d\", header[0])\n\t}\n\n\treq := &Request{"},
		{File: "internal/socks5/handler.go", Old: "\tportBuf := make([]byte, 2)\n\tif _, err := io.ReadFull(conn, portBuf); err != nil {\n\t\treturn nil, err\n\t}\n\treq.DestPort = binary.BigEndian.Uint16(portBuf)\n", New: "\tportBuf, err := readExact(conn, 2)\n\tif err != nil {\n\t\treturn nil, err\n\t}\n\treq.DestPort = binary.BigEndian.Uint16(portBuf)\n"},
		{File: "internal/socks5/handler.go", Old: "// readRequest reads the SOCKS5 request.\n", New: "func readExact(r io.Reader, n int) ([]byte, error) {\n\tb := make([]byte, n)\n\tif _, err := r.Read(b); err != nil {\n\t\treturn nil, err\n\t}\n\treturn b, nil\n}\n\n// readRequest reads the SOCKS5 request.\n"},
	}},
	{Name: "rewrite: table-driven dispatch (map from command to method value)", Edits: []Edit{
		{File: "internal/socks5/handler.go", Old: "\tswitch req.Command {\n\tcase CmdConnect:\n\t\treturn h.handleConnect(conn, req)\n\tcase CmdUDPAssociate:\n\t\treturn h.handleUDPAssociate(conn, req)\n\tcase CmdICMPEcho:\n\t\treturn h.handleICMPEcho(conn, req)\n\tdefault:\n\t\th.sendReply(conn, ReplyCmdNotSupported, nil, 0)\n\t\treturn fmt.Errorf(\"unsupported command: %d\", req.Command)\n\t}\n}\n", New: "\thandlers := map[byte]func(net.Conn, *Request) error{\n\t\tCmdConnect:      h.handleConnect,\n\t\tCmdUDPAssociate: h.handleUDPAssociate,\n\t\tCmdICMPEcho:     h.handleICMPEcho,\n\t}\n\tserve, ok := handlers[req.Command]\n\tif !ok {\n\t\th.sendReply(conn, ReplyCmdNotSupported, nil, 0)\n\t\treturn fmt.Errorf(\"unsupported command: %d\", req.Command)\n\t}\n\treturn serve(conn, req)\n}\n"},
	}},
	{Name: "table-driven dispatch with the UDP handler registered for CONNECT", ExpectRule: "C23.R1", Edits: []Edit{
		{File: "internal/socks5/handler.go", Old: "\tswitch req.Command {\n\tcase CmdConnect:\n\t\treturn h.handleConnect(conn, req)\n\tcase CmdUDPAssociate:\n\t\treturn h.handleUDPAssociate(conn, req)\n\tcase CmdICMPEcho:\n\t\treturn h.handleICMPEcho(conn, req)\n\tdefault:\n\t\th.sendReply(conn, ReplyCmdNotSupported, nil, 0)\n\t\treturn fmt.Errorf(\"unsupported command: %d\", req.Command)\n\t}\n}\n", New: "\thandlers := map[byte]func(net.Conn, *Request) error{\n\t\tCmdConnect:      h.handleUDPAssociate,\n\t\tCmdUDPAssociate: h.handleConnect,\n\t\tCmdICMPEcho:     h.handleICMPEcho,\n\t}\n\tserve, ok := handlers[req.Command]\n\tif !ok {\n\t\th.sendReply(conn, ReplyCmdNotSupported, nil, 0)\n\t\treturn fmt.Errorf(\"unsupported command: %d\", req.Command)\n\t}\n\treturn serve(conn, req)\n}\n"},
	}},
	{Name: "rewrite: command handlers registered in a table by the constructor", Edits: []Edit{
		{File: "internal/socks5/handler.go", Old: "\tswitch req.Command {\n\tcase CmdConnect:\n\t\treturn h.handleConnect(conn, req)\n\tcase CmdUDPAssociate:\n\t\treturn h.handleUDPAssociate(conn, req)\n\tcase CmdICMPEcho:\n\t\treturn h.handleICMPEcho(conn, req)\n\tdefault:\n\t\th.sendReply(conn, ReplyCmdNotSupported, nil, 0)\n\t\treturn fmt.Errorf(\"unsupported command: %d\", req.Command)\n\t}\n}\n", New: "\tserve, ok := h.commands[req.Command]\n\tif !ok {\n\t\th.sendReply(conn, ReplyCmdNotSupported, nil, 0)\n\t\treturn fmt.Errorf(\"unsupported command: %d\", req.Command)\n\t}\n\treturn serve(conn, req)\n}\n"},
		{File: "internal/socks5/handler.go", Old: "\tauthenticators []Authenticator\n\tdialer         Dialer\n", New: "\tauthenticators []Authenticator\n\tdialer         Dialer\n\tcommands       map[byte]func(net.Conn, *Request) error\n"},
		{File: "internal/socks5/handler.go", Old: "\treturn &Handler{\n\t\tauthenticators:   auths,\n\t\tdialer:           dialer,\n\t\tudpAssociations:  make(map[uint64]*UDPAssociation),\n\t\ticmpAssociations: make(map[uint64]*ICMPAssociation),\n\t}\n", New: "\th := &Handler{\n\t\tauthenticators:   auths,\n\t\tdialer:           dialer,\n\t\tudpAssociations:  make(map[uint64]*UDPAssociation),\n\t\ticmpAssociations: make(map[uint64]*ICMPAssociation),\n\t}\n\th.commands = map[byte]func(net.Conn, *Request) error{\n\t\tCmdConnect:      h.handleConnect,\n\t\tCmdUDPAssociate: h.handleUDPAssociate,\n\t\tCmdICMPEcho:     h.handleICMPEcho,\n\t}\n\treturn h\n"},
	}},
	{Name: "rewrite: UDP header parser with a single combined length check per case", Edits: []Edit{
		{File: "internal/socks5/udp.go", Old: "\t\tif len(data) < offset+1 {\n\t\t\treturn nil, nil, errors.New(\"datagram too short for domain length\")\n\t\t}\n\t\tdomainLen := int(data[offset])\n\t\toffset++\n\t\tif len(data) < offset+domainLen+2 {\n", New: "\t\tdomainLen := int(data[offset])\n\t\toffset++\n\t\tif offset+domainLen+2 > len(data) {\n"},
	}},
}

type c23cx struct {
	p   *kit.Program
	r   *kit.Report
	pkg string

	reqNamed *types.Named
	fCmd     *types.Var
	fAtyp    *types.Var
	fAddr    *types.Var
	fPort    *types.Var

	encoders   map[*ssa.Function]int // reply encoder -> index of the reply-code parameter
	encPaths   map[*ssa.Function][]*c23Path
	connectEx  map[*ssa.Function]bool
	udpEx      map[*ssa.Function]bool
	icmpEx     map[*ssa.Function]bool
	parsers    []*ssa.Function
	parserSet  map[*ssa.Function]bool
	truncFloor bool

	cmdTesting    map[*ssa.Function]bool
	dispatchRoots map[*ssa.Function]bool
}

func c23IsNetConn(t types.Type) bool { return t.String() == "net.Conn" }

func c23IsByte(t types.Type) bool {
	b, ok := t.Underlying().(*types.Basic)
	return ok && b.Kind() == types.Uint8
}

func runC23(p *kit.Program, r *kit.Report) {
	r.Rule("C23.R1", "the dial address is JoinHostPort(req.DestAddr, decimal(req.DestPort)) on tcp; the request parser decodes command, address type, address and port from exactly the wire bytes of RFC 1928 with full reads; the dispatcher runs the dialing handler only for CONNECT with the parsed request")
	r.Rule("C23.R2", "when no supported command / address type matched, reply 7 / 8 is sent and nothing is executed")
	r.Rule("C23.R3", "the reply encoder writes VER=5, REP, RSV=0, ATYP consistent with the copied address bytes, length 4+len(addr)+2 and the port big-endian after the address")
	r.Rule("C23.R5", "the reply bytes handed to conn.Write are exclusively held by the encoding call until the write returned: not taken from shared memory, not put back into a pool, published, sent or handed to a goroutine before")
	r.Rule("C23.R4", "every index, slice and fixed-size binary accessor in package socks5 is within bounds (construction, dominating length guard, or read-count post-condition)")
	cx := &c23cx{p: p, r: r, pkg: kit.PkgPath("internal/socks5"),
		encoders: map[*ssa.Function]int{}, encPaths: map[*ssa.Function][]*c23Path{},
		connectEx: map[*ssa.Function]bool{}, udpEx: map[*ssa.Function]bool{}, icmpEx: map[*ssa.Function]bool{}, parserSet: map[*ssa.Function]bool{}}
	cx.reqNamed = p.NamedType("internal/socks5", "Request")
	cx.fCmd = p.Field("internal/socks5", "Request", "Command")
	cx.fAtyp = p.Field("internal/socks5", "Request", "AddrType")
	cx.fAddr = p.Field("internal/socks5", "Request", "DestAddr")
	cx.fPort = p.Field("internal/socks5", "Request", "DestPort")
	if !r.Require(cx.reqNamed != nil && cx.fCmd != nil && cx.fAtyp != nil && cx.fAddr != nil && cx.fPort != nil,
		"anchor-unresolved: socks5.Request with fields Command/AddrType/DestAddr/DestPort") {
		return
	}
	cx.findRoles()
	if len(r.Floors) > 0 {
		return
	}
	cx.ruleDial()
	cx.ruleParser()
	cx.ruleRequestWriters()
	cx.ruleDispatcher()
	cx.ruleReply()
	cx.ruleRawReplies()
	cx.ruleBounds()
}

// findRoles locates the reply encoder, the command executors and the request parser by what
// they do.
func (cx *c23cx) findRoles() {
	p, r := cx.p, cx.r
	for _, fn := range p.FuncsInPkg("internal/socks5") {
		if fn.Parent() != nil {
			continue
		}
		// executors
		for _, f := range kit.WithClosures(fn) {
			for _, c := range kit.Calls(f) {
				cal := kit.CalleeOf(c)
				if !cal.Iface || cal.Pkg != cx.pkg {
					continue
				}
				switch cal.Recv + "." + cal.Name {
				case "Dialer.Dial", "Dialer.DialContext":
					cx.connectEx[fn] = true
				case "UDPAssociationHandler.CreateUDPAssociation":
					cx.udpEx[fn] = true
				case "ICMPHandler.CreateICMPSession":
					cx.icmpEx[fn] = true
				}
			}
		}
		// parser: returns (*Request, error)
		res := fn.Signature.Results()
		if res.Len() == 2 && kit.IsErrorType(res.At(1).Type()) {
			if pt, ok := res.At(0).Type().(*types.Pointer); ok && pt.Elem() == types.Type(cx.reqNamed) {
				cx.parsers = append(cx.parsers, fn)
				cx.parserSet[fn] = true
			}
		}
		// reply encoder: writes to a net.Conn parameter a buffer one of whose header bytes is a byte
		// parameter. The buffer may be built by helpers (inlined) and may come from a pool.
		hasConn, byteIdx := false, -1
		for i, prm := range fn.Params {
			hasConn = hasConn || c23IsNetConn(prm.Type())
			if c23IsByte(prm.Type()) {
				byteIdx = i
			}
		}
		if !hasConn || byteIdx < 0 {
			continue
		}
		ex := &c23Exec{p: p, maxPaths: 600, inline: func(callee *ssa.Function, depth int) bool {
			return depth < 2 && kit.FuncPkgPath(callee) == cx.pkg && len(callee.Blocks) <= 40
		}}
		ex.run(fn)
		if ex.overflow {
			continue
		}
		unowned := ""
		for _, pa := range ex.paths {
			for _, ev := range pa.st.events {
				if ev.kind != "call" || ev.callee != "net.Conn.Write" || len(ev.args) < 2 || !ev.args[0].isParam() {
					continue
				}
				if o, _, _, ok := pa.st.resolveSlice(ev.args[1]); ok {
					// some header byte (offset < 4) of the written buffer is a byte parameter: the reply code
					for i := int64(0); i < 4; i++ {
						e := o.elems[i]
						if o.hasSegs && int(i) < len(o.segs) && o.segs[i].kind == "byte" {
							e = o.segs[i].t
						}
						if e.isParam() && int(e.n) < len(fn.Params) && c23IsByte(fn.Params[e.n].Type()) {
							cx.encoders[fn] = int(e.n)
							cx.encPaths[fn] = ex.paths
						}
					}
				} else if what := c23SharedRoot(pa.st, ev.args[1]); what != "" {
					unowned = what
				}
			}
		}
		// a function that is handed constant reply codes and writes from memory it does not own is
		// the reply encoder as well: the layout cannot be examined, the ownership rule reports it
		if _, found := cx.encoders[fn]; !found && unowned != "" {
			nConst := 0
			for _, c := range p.StaticCallers(fn) {
				if byteIdx < len(c.Common().Args) {
					if _, isConst := kit.ConstInt(c.Common().Args[byteIdx]); isConst {
						nConst++
					}
				}
			}
			if nConst >= 2 {
				cx.encoders[fn] = byteIdx
				cx.encPaths[fn] = ex.paths
			}
		}
	}
	// functions that look at Request.Command are part of the dispatch; the command handlers are the
	// functions from which a command sink is reachable without passing through dispatch code
	cx.cmdTesting = map[*ssa.Function]bool{}
	for _, acc := range p.FieldAccessesOfKind(cx.fCmd, kit.FieldLoad) {
		cx.cmdTesting[kit.TopLevel(acc.Fn)] = true
	}
	callsParser := map[*ssa.Function]bool{}
	for _, pf := range cx.parsers {
		for _, c := range p.StaticCallers(pf) {
			callsParser[kit.TopLevel(c.Parent())] = true
		}
	}
	cx.dispatchRoots = callsParser
	for _, set := range []map[*ssa.Function]bool{cx.connectEx, cx.udpEx, cx.icmpEx} {
		for changed := true; changed; {
			changed = false
			for fn := range set {
				for _, c := range p.StaticCallers(fn) {
					top := kit.TopLevel(c.Parent())
					if kit.FuncPkgPath(top) != cx.pkg || set[top] || cx.cmdTesting[top] || callsParser[top] {
						continue
					}
					set[top] = true
					changed = true
				}
			}
		}
	}
	r.Count("reply_encoders", len(cx.encoders))
	r.Count("request_parsers", len(cx.parsers))
	r.Count("connect_executors", len(cx.connectEx))
	r.Require(len(cx.encoders) >= 1, "anchor-unresolved: no function writes a reply (buffer whose byte 1 is a byte parameter) to a net.Conn parameter")
	r.Require(len(cx.parsers) >= 1, "anchor-unresolved: no function of package socks5 returns (*Request, error)")
	r.Require(len(cx.connectEx) >= 1, "anchor-unresolved: no function invokes Dialer.Dial/DialContext")
}

// ---------------------------------------------------------------------------------------------
// R1a: dial address

// c23PortExpr: v is a decimal rendering of exactly the value of field DestPort.
func (cx *c23cx) portExpr(v ssa.Value, depth int) (bool, string) {
	if depth > 6 {
		return false, "expression too deep"
	}
	switch x := v.(type) {
	case *ssa.Call:
		cal := kit.CalleeOf(x)
		switch {
		case cal.Pkg == "strconv" && cal.Name == "Itoa" && len(x.Call.Args) == 1:
			return cx.portValue(x.Call.Args[0], depth+1)
		case cal.Pkg == "strconv" && (cal.Name == "FormatUint" || cal.Name == "FormatInt") && len(x.Call.Args) == 2:
			if b, ok := kit.ConstInt(x.Call.Args[1]); !ok || b != 10 {
				return false, "port not formatted in base 10"
			}
			return cx.portValue(x.Call.Args[0], depth+1)
		case cal.Pkg == "fmt" && cal.Name == "Sprint" && len(x.Call.Args) == 1:
			return cx.variadicPort(x.Call.Args[0], depth+1)
		case cal.Pkg == "fmt" && cal.Name == "Sprintf" && len(x.Call.Args) == 2:
			if f, ok := kit.ConstString(x.Call.Args[0]); !ok || f != "%d" {
				return false, "port formatted with a format other than %d"
			}
			return cx.variadicPort(x.Call.Args[1], depth+1)
		}
		return false, "port produced by " + cal.String()
	}
	return false, fmt.Sprintf("port string is a %T", v)
}

func (cx *c23cx) variadicPort(v ssa.Value, depth int) (bool, string) {
	sl, ok := v.(*ssa.Slice)
	if !ok {
		return false, "unrecognised variadic argument"
	}
	a, ok := sl.X.(*ssa.Alloc)
	if !ok || a.Referrers() == nil {
		return false, "unrecognised variadic argument"
	}
	var vals []ssa.Value
	for _, rr := range *a.Referrers() {
		if ia, ok := rr.(*ssa.IndexAddr); ok && ia.Referrers() != nil {
			for _, r2 := range *ia.Referrers() {
				if st, ok := r2.(*ssa.Store); ok && st.Addr == ia {
					vals = append(vals, st.Val)
				}
			}
		}
	}
	if len(vals) != 1 {
		return false, "more than one formatted value"
	}
	return cx.portValue(vals[0], depth)
}

func (cx *c23cx) portValue(v ssa.Value, depth int) (bool, string) {
	for i := 0; i < 6; i++ {
		switch x := v.(type) {
		case *ssa.Convert:
			if b, ok := x.Type().Underlying().(*types.Basic); !ok || b.Info()&types.IsInteger == 0 {
				return false, "port converted to a non-integer type"
			} else if b.Kind() == types.Int8 || b.Kind() == types.Uint8 || b.Kind() == types.Int16 {
				return false, "port truncated by a narrowing conversion"
			}
			v = x.X
			continue
		case *ssa.MakeInterface:
			v = x.X
			continue
		case *ssa.ChangeType:
			v = x.X
			continue
		}
		break
	}
	if f, _ := kit.LoadedField(v); f == cx.fPort {
		return true, ""
	}
	if _, ok := v.(*ssa.BinOp); ok {
		return false, "port is an arithmetic expression, not the requested port"
	}
	return false, "port value does not come from Request.DestPort"
}

func (cx *c23cx) ruleDial() {
	p, r := cx.p, cx.r
	n := 0
	for _, fn := range p.FuncsInPkg("internal/socks5") {
		for _, c := range kit.Calls(fn) {
			cal := kit.CalleeOf(c)
			if !cal.Iface || cal.Pkg != cx.pkg || cal.Recv != "Dialer" {
				continue
			}
			sig := c.Common().Signature()
			np := sig.Params().Len()
			if np < 2 {
				continue
			}
			n++
			key := fmt.Sprintf("%s %s #%d", kit.FuncName(kit.TopLevel(fn)), cal.Name, n)
			pos := p.Pos(c.Pos())
			network, address := kit.Arg(c, np-2), kit.Arg(c, np-1)
			bad := ""
			if s, ok := kit.ConstString(network); !ok || !strings.HasPrefix(s, "tcp") {
				bad = "the network is not the constant \"tcp\""
			}
			if bad == "" {
				bad = cx.dialAddress(address, 0)
			}
			r.Decide(bad == "", "C23.R1", key, pos,
				"dials tcp JoinHostPort(req.DestAddr, decimal(req.DestPort))",
				"the address handed to the dialer is not exactly the requested destination: "+bad)
		}
	}
	r.Count("dial_sites", n)
}

// dialAddress: "" if v is net.JoinHostPort(req.DestAddr, decimal(req.DestPort)); a parameter is
// judged at every static call site of its function (the dial may live in a helper that is handed
// the address).
func (cx *c23cx) dialAddress(v ssa.Value, depth int) string {
	if prm, ok := v.(*ssa.Parameter); ok && depth < 4 {
		fn := prm.Parent()
		idx := -1
		for i, q := range fn.Params {
			if q == prm {
				idx = i
			}
		}
		sites := cx.p.StaticCallers(fn)
		if idx < 0 || len(sites) == 0 {
			return "the address is parameter " + prm.Name() + " of " + kit.FuncName(fn) + ", which has no static caller"
		}
		for _, c := range sites {
			if idx >= len(c.Common().Args) {
				return "the address parameter has no argument at a call site"
			}
			if bad := cx.dialAddress(c.Common().Args[idx], depth+1); bad != "" {
				return bad
			}
		}
		return ""
	}
	jc, ok := v.(*ssa.Call)
	if !ok || !kit.CalleeOf(jc).Is("net", "", "JoinHostPort") || len(jc.Call.Args) != 2 {
		return "the address is not built by net.JoinHostPort (IPv6 literals need bracketing)"
	}
	f, b1 := kit.LoadedField(jc.Call.Args[0])
	if f != cx.fAddr {
		return "the host part is not Request.DestAddr"
	}
	if ok, why := cx.portExpr(jc.Call.Args[1], 0); !ok {
		return why
	}
	// both fields must be read from the same request value
	if !cx.portFromSameRequest(jc.Call.Args[1], b1) {
		return "host and port are taken from different requests"
	}
	return ""
}

func (cx *c23cx) portFromSameRequest(v ssa.Value, base ssa.Value) bool {
	found := false
	var rec func(v ssa.Value, d int)
	rec = func(v ssa.Value, d int) {
		if d > 8 || v == nil {
			return
		}
		if f, b := kit.LoadedField(v); f == cx.fPort {
			if b == base {
				found = true
			}
			return
		}
		switch x := v.(type) {
		case *ssa.Call:
			for _, a := range x.Call.Args {
				rec(a, d+1)
			}
		case *ssa.Convert:
			rec(x.X, d+1)
		case *ssa.MakeInterface:
			rec(x.X, d+1)
		case *ssa.ChangeType:
			rec(x.X, d+1)
		case *ssa.Slice:
			if a, ok := x.X.(*ssa.Alloc); ok && a.Referrers() != nil {
				for _, rr := range *a.Referrers() {
					if ia, ok := rr.(*ssa.IndexAddr); ok && ia.Referrers() != nil {
						for _, r2 := range *ia.Referrers() {
							if st, ok := r2.(*ssa.Store); ok {
								rec(st.Val, d+1)
							}
						}
					}
				}
			}
		}
	}
	rec(v, 0)
	return found
}

// ---------------------------------------------------------------------------------------------
// R1b / R2: parser

type c23Sel struct {
	pos  []int64 // constants the value compared equal to on this path
	neg  []int64 // constants it compared unequal to
	seen bool
}

// selector collects the (in)equalities of the path conditions on the atom rendered as atom.
func c23Selector(pa *c23Path, atom string) c23Sel {
	var s c23Sel
	st := pa.st
	for _, c := range pa.st.conds {
		t := c.t
		if t.op != "bin" || (t.s != "==" && t.s != "!=") {
			continue
		}
		var k int64
		var ok bool
		switch {
		case st.show(t.args[0]) == atom:
			k, ok = t.args[1].intVal()
		case st.show(t.args[1]) == atom:
			k, ok = t.args[0].intVal()
		}
		if !ok {
			continue
		}
		s.seen = true
		if (t.s == "==") == c.taken {
			s.pos = append(s.pos, k)
		} else {
			s.neg = append(s.neg, k)
		}
	}
	return s
}

func (cx *c23cx) replyCodes(pa *c23Path) []string {
	var out []string
	for _, ev := range pa.st.events {
		if ev.kind == "call" && ev.static != nil {
			if idx, ok := cx.encoders[ev.static]; ok && idx < len(ev.args) {
				out = append(out, pa.st.show(ev.args[idx]))
			}
		}
	}
	return out
}

func (cx *c23cx) ruleParser() {
	p, r := cx.p, cx.r
	for _, fn := range cx.parsers {
		fname := kit.FuncName(fn)
		ex := &c23Exec{p: p, maxPaths: 4000, inline: func(callee *ssa.Function, depth int) bool {
			if _, isEnc := cx.encoders[callee]; isEnc {
				return false
			}
			return kit.FuncPkgPath(callee) == cx.pkg && len(callee.Blocks) <= 60
		}}
		ex.run(fn)
		if !r.Require(!ex.overflow, "parser %s: more than %d paths", fname, ex.maxPaths) {
			continue
		}
		r.Count("parser_paths", len(ex.paths))
		nOK, nDefault := 0, 0
		type verdict struct {
			ok  bool
			why string
			pos string
		}
		byType := map[string]*verdict{}
		note := func(key string, ok bool, why string, pos string) {
			v := byType[key]
			if v == nil {
				byType[key] = &verdict{ok: ok, why: why, pos: pos}
				return
			}
			if !ok && v.ok {
				v.ok, v.why, v.pos = false, why, pos
			}
		}
		fpos := p.Pos(fn.Pos())
		for _, pa := range ex.paths {
			st := pa.st
			if st.truncated {
				r.Floor("parser %s contains a loop the path evaluation cannot follow", fname)
				break
			}
			if st.panicked || len(pa.results) != 2 {
				continue
			}
			success := pa.results[1].isNil()
			if os.Getenv("MMVERIFY_DEBUG") == "c23" {
				fmt.Fprintf(os.Stderr, "parser path: results=%s,%s reads=%d\n", st.show(pa.results[0]), st.show(pa.results[1]), st.nreads)
				for id, ob := range st.objs {
					for fi, ft := range ob.fields {
						fmt.Fprintf(os.Stderr, "   obj#%d.%d = %s\n", id, fi, st.show(ft))
					}
				}
				for _, ev := range st.events {
					fmt.Fprintf(os.Stderr, "   ev %s %s depth=%d\n", ev.kind, ev.callee, ev.depth)
				}
			}
			// reads on this path
			var reads []c23Event
			for _, ev := range st.events {
				if ev.kind == "read" {
					reads = append(reads, ev)
				}
			}
			atom := "R0[3]"
			sel := c23Selector(pa, atom)
			if !success {
				if sel.seen && len(sel.pos) == 0 {
					// the "no supported address type" path
					nDefault++
					codes := cx.replyCodes(pa)
					ok := len(codes) == 1 && codes[0] == "8"
					note("R2|"+fname+" unsupported address type", ok,
						fmt.Sprintf("an address type that matches no supported value is answered with reply code(s) %v instead of 8 (address type not supported)", codes), fpos)
				}
				continue
			}
			nOK++
			// ---- successful parse: compare with the wire format
			rq := pa.results[0]
			var o *c23Obj
			if rq.isObj() {
				o = st.objs[int(rq.n)]
			}
			if o == nil {
				note("R1|"+fname+" decoded request", false, "the returned request is not a value built by the parser on this path", fpos)
				continue
			}
			fieldStr := func(f *types.Var) string {
				for i, sf := range kit.StructFields(cx.reqNamed) {
					if sf == f {
						if t, ok := o.fields[i]; ok {
							return st.show(t)
						}
					}
				}
				return "<unset>"
			}
			fieldTerm := func(f *types.Var) *c23T {
				for i, sf := range kit.StructFields(cx.reqNamed) {
					if sf == f {
						return o.fields[i]
					}
				}
				return nil
			}
			lenStr := func(i int) string {
				if i < len(reads) && reads[i].lenT != nil {
					return st.show(reads[i].lenT)
				}
				return "?"
			}
			key := "R1|" + fname + " address type ?"
			bad := ""
			check := func(cond bool, msg string) {
				if !cond && bad == "" {
					bad = msg
				}
			}
			for i, rd := range reads {
				shared := ""
				if rd.obj < 0 && len(rd.args) > 1 {
					shared = c23SharedRoot(st, rd.args[1])
				}
				check(shared == "", fmt.Sprintf("read #%d stores the request bytes in %s: concurrent connections overwrite each other's request while it is being parsed", i, shared))
				check(rd.full, fmt.Sprintf("read #%d of the request may return fewer bytes than the field needs (not io.ReadFull): a request split across TCP segments is mis-parsed", i))
				check(len(rd.args) > 0 && st.show(rd.args[0]) == "param:"+c23ConnParamName(fn), fmt.Sprintf("read #%d does not read from the client connection", i))
			}
			check(len(reads) >= 3, "fewer than three reads (header, address, port)")
			check(lenStr(0) == "4", "the request header read is "+lenStr(0)+" bytes, not 4")
			check(fieldStr(cx.fCmd) == "R0[1]", "Command is "+fieldStr(cx.fCmd)+", not byte 1 of the header")
			check(fieldStr(cx.fAtyp) == atom, "AddrType is "+fieldStr(cx.fAtyp)+", not byte 3 of the header")
			if bad == "" {
				switch {
				case len(sel.pos) == 0:
					bad = "the request is accepted on a path that never matched the address type against a supported value: unsupported address types are parsed as something else"
				case len(sel.pos) > 1 && sel.pos[0] != sel.pos[1]:
					bad = "contradictory address type tests"
				}
			}
			if bad == "" {
				k := sel.pos[0]
				key = fmt.Sprintf("R1|%s address type %d", fname, k)
				last := len(reads) - 1
				// the decoded port must equal 256*b0+b1 of the last read for every byte pair: decided
				// on a set of byte pairs that separates big-endian from every byte-swapped, shifted
				// or truncated variant
				portOK := func() bool {
					rn := fmt.Sprintf("R%d", last)
					pt := fieldTerm(cx.fPort)
					if pt == nil {
						return false
					}
					for _, pr := range [][2]int64{{0, 0}, {0, 1}, {1, 0}, {1, 2}, {0x12, 0x34}, {0xff, 0xfe}, {0x80, 0x00}, {0x00, 0x80}, {0xab, 0xab}} {
						v, ok := st.evalInt(pt, map[string]int64{rn + "[0]": pr[0], rn + "[1]": pr[1]})
						if !ok || v != pr[0]<<8|pr[1] {
							return false
						}
					}
					return true
				}
				// the announced domain length: int(b) of the single length byte
				lenIsByte := func(t *c23T) bool {
					if t == nil {
						return false
					}
					for _, b := range []int64{0, 1, 7, 127, 128, 255} {
						v, ok := st.evalInt(t, map[string]int64{"R1[0]": b})
						if !ok || v != b {
							return false
						}
					}
					return true
				}
				switch k {
				case 1, 4:
					want := map[int64]string{1: "4", 4: "16"}[k]
					check(len(reads) == 3, fmt.Sprintf("%d reads instead of header, address, port", len(reads)))
					check(lenStr(1) == want, "the address read is "+lenStr(1)+" bytes, not "+want)
					check(fieldStr(cx.fAddr) == "net.IP.String(R1)", "DestAddr is "+fieldStr(cx.fAddr)+", not net.IP(address bytes).String()")
				case 3:
					check(len(reads) == 4, fmt.Sprintf("%d reads instead of header, length, domain, port", len(reads)))
					check(lenStr(1) == "1", "the domain length read is "+lenStr(1)+" bytes, not 1")
					check(len(reads) > 2 && lenIsByte(reads[2].lenT), "the domain read is "+lenStr(2)+" bytes, not the announced length")
					check(fieldStr(cx.fAddr) == "string(R2)", "DestAddr is "+fieldStr(cx.fAddr)+", not the domain bytes")
					if bad == "" {
						excluded := false
						for _, c := range st.conds {
							if v, ok := st.evalCond(c.t, map[string]int64{"R1[0]": 0}); ok && v != c.taken {
								excluded = true
							}
						}
						check(excluded, "a zero-length domain name is accepted: the empty host makes the dialer connect to the proxy host itself")
					}
				default:
					bad = fmt.Sprintf("address type %d is accepted; RFC 1928 defines 1, 3 and 4", k)
				}
				check(lenStr(last) == "2", "the port read is "+lenStr(last)+" bytes, not 2")
				check(portOK(), "DestPort is "+fieldStr(cx.fPort)+", not the big-endian value of the two port bytes")
			}
			note(key, bad == "", bad, fpos)
		}
		var keys []string
		for k := range byType {
			keys = append(keys, k)
		}
		sort.Strings(keys)
		for _, k := range keys {
			v := byType[k]
			rule, key, _ := strings.Cut(k, "|")
			if rule == "R1" {
				r.Decide(v.ok, "C23.R1", key, v.pos, "decoded exactly from the wire bytes (header, address, port) with full reads",
					"a successfully parsed request does not carry exactly what the client sent: "+v.why)
			} else {
				r.Decide(v.ok, "C23.R2", key, v.pos, "answered with reply 8 and rejected", v.why)
			}
		}
		r.Count("parser_success_paths", nOK)
		r.Require(nOK >= 3, "floor: parser %s has %d successful paths (expected one per address type)", fname, nOK)
		if nDefault == 0 {
			r.Violation("C23.R2", fname+" unsupported address type", fpos, "no path of the parser rejects an address type that matches none of the supported values")
		}
	}
}

// fieldTable: a struct field of package socks5 (by name and index) that is assigned exactly once,
// with a map literal of constant integer keys and method values, and never updated through the
// field afterwards. Such a table is a finite case distinction on its key.
func (cx *c23cx) fieldTable(name string, idx int) ([]int64, []*ssa.Function, bool) {
	pk := cx.p.Package("internal/socks5")
	if pk == nil || pk.Types == nil {
		return nil, nil, false
	}
	for _, tn := range pk.Types.Scope().Names() {
		obj, ok := pk.Types.Scope().Lookup(tn).(*types.TypeName)
		if !ok {
			continue
		}
		st, ok := obj.Type().Underlying().(*types.Struct)
		if !ok || idx >= st.NumFields() || st.Field(idx).Name() != name {
			continue
		}
		f := st.Field(idx)
		if _, isMap := f.Type().Underlying().(*types.Map); !isMap {
			continue
		}
		if len(cx.p.FieldAccessesOfKind(f, kit.MapInsert, kit.MapDelete, kit.FieldClear, kit.FieldAddrUse)) > 0 {
			return nil, nil, false
		}
		stores := cx.p.FieldAccessesOfKind(f, kit.FieldStore)
		if len(stores) != 1 {
			return nil, nil, false
		}
		mm, ok := c23StripCT(stores[0].Val).(*ssa.MakeMap)
		if !ok || mm.Referrers() == nil {
			return nil, nil, false
		}
		var keys []int64
		var fns []*ssa.Function
		for _, rr := range *mm.Referrers() {
			mu, ok := rr.(*ssa.MapUpdate)
			if !ok {
				continue
			}
			k, isConst := kit.ConstInt(mu.Key)
			mc, isClosure := mu.Value.(*ssa.MakeClosure)
			if !isConst || !isClosure {
				return nil, nil, false
			}
			fv, _ := mc.Fn.(*ssa.Function)
			target, isBound := c23BoundTarget(fv)
			if !isBound {
				return nil, nil, false
			}
			keys = append(keys, k)
			fns = append(fns, target)
		}
		return keys, fns, len(keys) > 0
	}
	return nil, nil, false
}

// ruleRequestWriters: the decoded fields are written by the parser (and the helpers it calls)
// only; any other store changes what is dialed after the request was parsed.
func (cx *c23cx) ruleRequestWriters() {
	p, r := cx.p, cx.r
	allowed := map[*ssa.Function]bool{}
	var add func(fn *ssa.Function, d int)
	add = func(fn *ssa.Function, d int) {
		if fn == nil || allowed[fn] || d > 4 {
			return
		}
		allowed[fn] = true
		for _, f := range kit.WithClosures(fn) {
			for _, c := range kit.Calls(f) {
				if cal := kit.CalleeOf(c); cal.Static != nil && kit.FuncPkgPath(cal.Static) == cx.pkg {
					add(kit.TopLevel(cal.Static), d+1)
				}
			}
		}
	}
	for _, fn := range cx.parsers {
		add(fn, 0)
	}
	n, ord := 0, map[string]int{}
	for _, f := range []*types.Var{cx.fCmd, cx.fAtyp, cx.fAddr, cx.fPort} {
		for _, acc := range p.FieldAccessesOfKind(f, kit.FieldStore, kit.FieldAddrUse) {
			top := kit.TopLevel(acc.Fn)
			if allowed[top] {
				n++
				continue
			}
			k := kit.FuncName(top) + " writes Request." + f.Name()
			ord[k]++
			r.Violation("C23.R1", fmt.Sprintf("%s #%d", k, ord[k]), p.Pos(acc.Instr.Pos()),
				"Request.%s is modified outside the request parser: what is dialed (or dispatched) is no longer exactly what the client's request encoded", f.Name())
		}
	}
	r.Count("request_field_stores_in_parser", n)
	if len(ord) == 0 {
		r.OK("C23.R1", "writers of Request.Command/AddrType/DestAddr/DestPort", p.Pos(cx.parsers[0].Pos()), "%d store(s), all inside the request parser and its helpers", n)
	}
}

func c23ConnParamName(fn *ssa.Function) string {
	for _, prm := range fn.Params {
		if c23IsNetConn(prm.Type()) || prm.Type().String() == "io.Reader" {
			return prm.Name()
		}
	}
	return "?"
}

// ---------------------------------------------------------------------------------------------
// dispatcher

func (cx *c23cx) ruleDispatcher() {
	p, r := cx.p, cx.r
	cmdConst := func(name string, def int64) int64 {
		if s, ok := p.ConstValue("internal/socks5", name); ok {
			var n int64
			if _, err := fmt.Sscan(s, &n); err == nil {
				return n
			}
		}
		return def
	}
	icmpCmd := cmdConst("CmdICMPEcho", 4)
	// the dispatch starts in the function that obtains the request from the parser; callees that
	// look at Request.Command are evaluated with it
	disp := cx.dispatchRoots
	r.Count("dispatchers", len(disp))
	if !r.Require(len(disp) >= 1, "anchor-unresolved: no function calls the request parser") {
		return
	}
	nConnectRuns := 0
	var fns []*ssa.Function
	for fn := range disp {
		fns = append(fns, fn)
	}
	sort.Slice(fns, func(i, j int) bool { return kit.FuncName(fns[i]) < kit.FuncName(fns[j]) })
	for _, fn := range fns {
		fname := kit.FuncName(fn)
		fpos := p.Pos(fn.Pos())
		ex := &c23Exec{p: p, maxPaths: 4000, fieldTable: cx.fieldTable, inline: func(callee *ssa.Function, depth int) bool {
			if _, isEnc := cx.encoders[callee]; isEnc || cx.parserSet[callee] {
				return false
			}
			return cx.cmdTesting[kit.TopLevel(callee)] && kit.FuncPkgPath(callee) == cx.pkg && len(callee.Blocks) <= 80
		}}
		ex.run(fn)
		if !r.Require(!ex.overflow, "dispatcher %s: too many paths", fname) {
			continue
		}
		r.Count("dispatcher_paths", len(ex.paths))
		type verdict struct {
			ok  bool
			why string
		}
		res := map[string]*verdict{}
		note := func(key string, ok bool, why string) {
			if v := res[key]; v == nil {
				res[key] = &verdict{ok, why}
			} else if !ok && v.ok {
				v.ok, v.why = false, why
			}
		}
		nDefault := 0
		for _, pa := range ex.paths {
			st := pa.st
			if st.truncated || st.panicked {
				continue
			}
			// the request is result #0 of a parser call on this path
			reqAtom := ""
			for _, ev := range st.events {
				if ev.kind == "call" && ev.static != nil && cx.parserSet[ev.static] {
					reqAtom = st.show(&c23T{op: "call", s: ev.callee, args: ev.args}) + "#0"
				}
			}
			var execs []c23Event
			for _, ev := range st.events {
				if ev.kind == "call" && ev.static != nil && (cx.connectEx[ev.static] || cx.udpEx[ev.static] || cx.icmpEx[ev.static]) {
					execs = append(execs, ev)
				}
			}
			if reqAtom == "" {
				for _, ev := range execs {
					note("R1|"+fname+" runs "+kit.FuncName(ev.static), false, "a command handler runs on a path that never parsed a request")
				}
				continue
			}
			sel := c23Selector(pa, reqAtom+".Command")
			for _, ev := range execs {
				if cx.connectEx[ev.static] {
					nConnectRuns++
				}
				want := int64(1)
				what := "CONNECT (1)"
				switch {
				case cx.udpEx[ev.static]:
					want, what = 3, "UDP ASSOCIATE (3)"
				case cx.icmpEx[ev.static]:
					want, what = icmpCmd, fmt.Sprintf("ICMP echo (%d)", icmpCmd)
				}
				key := "R1|" + fname + " runs " + kit.FuncName(ev.static)
				selected := len(sel.pos) >= 1 && sel.pos[0] == want
				hasReq := false
				for _, a := range ev.args {
					if st.show(a) == reqAtom {
						hasReq = true
					}
				}
				switch {
				case !selected:
					note(key, false, fmt.Sprintf("%s is run on a path where the command byte was not compared equal to %s (matched: %v, excluded: %v): a different command is executed as this one", kit.FuncName(ev.static), what, sel.pos, sel.neg))
				case !hasReq:
					note(key, false, "the handler is not given the request that was parsed on this path")
				default:
					note(key, true, "")
				}
			}
			if sel.seen && len(sel.pos) == 0 {
				nDefault++
				codes := cx.replyCodes(pa)
				ok := len(execs) == 0 && len(codes) == 1 && codes[0] == "7"
				note("R2|"+fname+" unsupported command", ok,
					fmt.Sprintf("a command that matches no supported value is answered with reply code(s) %v (want exactly 7, command not supported) and runs %d handler(s)", codes, len(execs)))
			}
		}
		var keys []string
		for k := range res {
			keys = append(keys, k)
		}
		sort.Strings(keys)
		for _, k := range keys {
			v := res[k]
			rule, key, _ := strings.Cut(k, "|")
			if rule == "R1" {
				r.Decide(v.ok, "C23.R1", key, fpos, "run only for its own command byte, with the parsed request", v.why)
			} else {
				r.Decide(v.ok, "C23.R2", key, fpos, "answered with reply 7, nothing executed", v.why)
			}
		}
		if nDefault == 0 && nConnectRuns >= 1 {
			r.Violation("C23.R2", fname+" unsupported command", fpos, "no path of the dispatcher handles a command that matches none of the supported values")
		}
	}
	r.Require(nConnectRuns >= 1, "anchor-unresolved: no evaluated dispatch path reaches the function that dials")
}

// ---------------------------------------------------------------------------------------------
// R3: reply layout

func (cx *c23cx) ruleReply() {
	p, r := cx.p, cx.r
	var fns []*ssa.Function
	for fn := range cx.encoders {
		fns = append(fns, fn)
	}
	sort.Slice(fns, func(i, j int) bool { return kit.FuncName(fns[i]) < kit.FuncName(fns[j]) })
	for _, fn := range fns {
		fname := kit.FuncName(fn)
		replyIdx := cx.encoders[fn]
		nWrites := 0
		type verdict struct {
			ok  bool
			why string
			pos string
		}
		res := map[string]*verdict{}
		ownBad, ownPos := "", ""
		for _, pa := range cx.encPaths[fn] {
			st := pa.st
			if st.truncated {
				r.Floor("reply encoder %s contains a loop the path evaluation cannot follow", fname)
				break
			}
			for ei, ev := range st.events {
				if ev.kind != "call" || ev.callee != "net.Conn.Write" || len(ev.args) < 2 {
					continue
				}
				nWrites++
				if why := cx.replyOwnership(pa, ei, ev); why != "" && ownBad == "" {
					ownBad, ownPos = why, p.Pos(ev.in.Pos())
				}
				if c23SharedRoot(st, ev.args[1]) != "" {
					continue // layout cannot be examined; reported by the ownership rule
				}
				ok, why, kind := cx.replyLayout(fn, replyIdx, pa, ev)
				key := fname + " reply with " + kind
				if v := res[key]; v == nil {
					res[key] = &verdict{ok, why, p.Pos(ev.in.Pos())}
				} else if !ok && v.ok {
					v.ok, v.why = false, why
				}
			}
		}
		if nWrites > 0 {
			if ownPos == "" {
				ownPos = p.Pos(fn.Pos())
			}
			r.Decide(ownBad == "", "C23.R5", fname+" reply buffer ownership", ownPos,
				"the bytes handed to conn.Write live in memory that this call allocated or holds exclusively until the write returned",
				"the reply bytes can change between encoding and the write: "+ownBad+". The Handler serves all connections concurrently, so another connection's reply overwrites this one's (wrong reply code / malformed reply)")
		}
		r.Count("reply_write_paths", nWrites)
		r.Require(nWrites >= 1, "floor: reply encoder %s never writes", fname)
		var keys []string
		for k := range res {
			keys = append(keys, k)
		}
		sort.Strings(keys)
		for _, k := range keys {
			v := res[k]
			r.Decide(v.ok, "C23.R3", k, v.pos, "VER, REP, RSV, ATYP, address and port are laid out as RFC 1928 requires",
				"a malformed reply can be written: "+v.why)
		}
	}
}

// ruleRawReplies: outside the reply encoder no function of the package writes a hand-built
// buffer that starts with the SOCKS version byte and is longer than the two-byte negotiation
// messages: such a write is a reply that escapes the layout rule.
func (cx *c23cx) ruleRawReplies() {
	p, r := cx.p, cx.r
	n := 0
	for _, fn := range p.FuncsInPkg("internal/socks5") {
		if _, isEnc := cx.encoders[kit.TopLevel(fn)]; isEnc {
			continue
		}
		for _, c := range kit.Calls(fn) {
			cal := kit.CalleeOf(c)
			if !cal.Iface || cal.Name != "Write" || (cal.Pkg != "net" && cal.Pkg != "io") {
				continue
			}
			buf := kit.Arg(c, 0)
			if buf == nil {
				continue
			}
			rg, ok := kit.AddrRange(buf)
			if !ok || rg.Root == nil || rg.Lo != 0 {
				continue
			}
			size := int64(-1)
			switch x := rg.Root.(type) {
			case *ssa.Alloc:
				if l, ok := c23ArrayLen(x.Type()); ok {
					size = l
				}
			case *ssa.MakeSlice:
				if l, ok := kit.ConstInt(x.Len); ok {
					size = l
				}
			default:
				continue
			}
			if rg.Hi >= 0 {
				size = rg.Hi
			}
			if size == 2 {
				continue // method selection / sub-negotiation status
			}
			ver := false
			kit.Instrs(fn, func(in ssa.Instruction) {
				if st, ok := in.(*ssa.Store); ok {
					if ar, ok := kit.AddrRange(st.Addr); ok && ar.Root == rg.Root && ar.Lo == 0 && ar.Hi == 1 {
						if k, ok := kit.ConstInt(st.Val); ok && k == 5 {
							ver = true
						}
					}
				}
			})
			if !ver {
				continue
			}
			n++
			r.Violation("C23.R3", fmt.Sprintf("%s hand-built reply #%d", kit.FuncName(kit.TopLevel(fn)), n), p.Pos(c.Pos()),
				"a buffer starting with the SOCKS version byte (%d bytes) is written to the client outside the reply encoder: this reply is not covered by the layout rule (a short or mis-ordered reply desynchronises the client)", size)
		}
	}
	if n == 0 {
		r.OK("C23.R3", "replies written outside the encoder", p.Pos(cx.parsers[0].Pos()), "none: every SOCKS5 reply goes through the reply encoder")
	}
}

// atypAgrees: the ATYP byte (rendered) agrees with the address bytes x on this path; returns the
// address length it implies.
func (cx *c23cx) atypAgrees(st *c23State, atyp string, x *c23T) (int64, string) {
	holds := func(rendered string, taken bool) bool {
		for _, c := range st.conds {
			if st.show(c.t) == rendered && c.taken == taken {
				return true
			}
		}
		return false
	}
	nonNil := func(t *c23T) bool {
		s := st.show(t)
		return holds("("+s+"!=nil)", true) || holds("("+s+"==nil)", false) || holds("(nil!="+s+")", true) || holds("(nil=="+s+")", false)
	}
	isNil := func(s string) bool {
		return holds("("+s+"!=nil)", false) || holds("("+s+"==nil)", true) || holds("(nil!="+s+")", false) || holds("(nil=="+s+")", true)
	}
	constLen, lenKnown := st.lenTerm(x).intVal()
	switch atyp {
	case "1":
		four := lenKnown && constLen == 4
		if !four && x.isCallOf("net.IP.To4") && (nonNil(x) || (len(x.args) == 1 && x.args[0].op == "gload" && strings.HasPrefix(x.args[0].s, "net.IPv4"))) {
			four = true
		}
		if !four {
			return 0, "ATYP is 1 (IPv4) but the address bytes (" + st.show(x) + ") are not known to be 4 bytes long"
		}
		return 4, ""
	case "4":
		sixteen := lenKnown && constLen == 16
		if !sixteen && x.isCallOf("net.IP.To16") && nonNil(x) {
			sixteen = true
		}
		if !sixteen && nonNil(x) && isNil("net.IP.To4("+st.show(x)+")") {
			sixteen = true
		}
		if !sixteen {
			return 0, "ATYP is 4 (IPv6) but the address bytes (" + st.show(x) + ") are not known to be a non-IPv4, non-nil IP"
		}
		return 16, ""
	}
	return 0, "byte 3 (ATYP) is " + atyp + ", not 1 or 4"
}

// replyLayoutSegs checks a reply assembled by append: VER, REP, RSV, ATYP, address, port.
func (cx *c23cx) replyLayoutSegs(fn *ssa.Function, replyIdx int, pa *c23Path, o *c23Obj) (bool, string, string) {
	st := pa.st
	var parts []string
	for _, sg := range o.segs {
		parts = append(parts, sg.kind)
	}
	n := len(o.segs)
	shapeOK := n >= 6 && o.segs[n-1].kind == "u16be"
	for i := 0; i < 4 && shapeOK; i++ {
		shapeOK = o.segs[i].kind == "byte"
	}
	// the address: one slice, or a run of individually appended bytes (a literal such as 0,0,0,0)
	literal := int64(0)
	if shapeOK && !(n == 6 && o.segs[4].kind == "bytes") {
		for _, sg := range o.segs[4 : n-1] {
			if sg.kind != "byte" {
				shapeOK = false
			}
		}
		literal = int64(n - 5)
	}
	if !shapeOK {
		if n >= 1 && o.segs[n-1].kind == "u16le" {
			return false, "the port is not appended big-endian", "appended reply"
		}
		return false, "the appended reply consists of [" + strings.Join(parts, ",") + "], not VER, REP, RSV, ATYP, address bytes, big-endian port", "appended reply"
	}
	if literal > 0 {
		kind := fmt.Sprintf("address of %d literal bytes", literal)
		atyp := st.show(o.segs[3].t)
		if !(atyp == "1" && literal == 4) && !(atyp == "4" && literal == 16) {
			return false, fmt.Sprintf("ATYP is %s but %d address bytes are appended", atyp, literal), kind
		}
		o2 := *o
		o2.segs = append(append([]c23Seg{}, o.segs[:4]...), c23Seg{kind: "bytes", t: c23Const("literal")}, o.segs[n-1])
		ok, why, _ := cx.replyLayoutSegsHead(fn, replyIdx, st, &o2, false)
		return ok, why, kind
	}
	x := o.segs[4].t
	kind := "address " + st.show(x)
	ok, why, _ := cx.replyLayoutSegsHead(fn, replyIdx, st, o, true)
	return ok, why, kind
}

// replyLayoutSegsHead checks VER/REP/RSV/port of a six-segment reply and, if withAtyp, that ATYP
// agrees with the address slice.
func (cx *c23cx) replyLayoutSegsHead(fn *ssa.Function, replyIdx int, st *c23State, o *c23Obj, withAtyp bool) (bool, string, string) {
	x := o.segs[4].t
	kind := ""
	if v := st.show(o.segs[0].t); v != "5" {
		return false, "byte 0 (VER) is " + v + ", not 5", kind
	}
	if e1 := o.segs[1].t; !e1.isParam() || int(e1.n) != replyIdx {
		return false, "byte 1 (REP) is " + st.show(e1) + ", not the reply code", kind
	}
	if v := st.show(o.segs[2].t); v != "0" {
		return false, "byte 2 (RSV) is " + v + ", not 0", kind
	}
	if withAtyp {
		if _, why := cx.atypAgrees(st, st.show(o.segs[3].t), x); why != "" {
			return false, why, kind
		}
	}
	if pt := o.segs[5].t; !pt.isParam() || int(pt.n) >= len(fn.Params) || fn.Params[pt.n].Type().String() != "uint16" {
		return false, "the port written is " + st.show(pt) + ", not the port parameter", kind
	}
	return true, "", kind
}

// c23SharedRoot: the slice term is rooted in memory shared between connections (a package-level
// variable or a field reached from a parameter such as the Handler receiver); "" otherwise
// (memory of this call, a caller-supplied slice, or unknown).
func c23SharedRoot(st *c23State, t *c23T) string {
	field := ""
	for t != nil {
		switch t.op {
		case "sl", "elem", "conv", "load":
			t = t.args[0]
		case "fld", "fldv":
			if field == "" {
				field = t.s
			}
			t = t.args[0]
		case "gload", "global":
			return "package-level variable " + t.s
		case "param":
			if field != "" {
				return "field " + field + " reached from parameter " + t.s + ", which all connections share"
			}
			return ""
		default:
			return ""
		}
	}
	return ""
}

// replyOwnership: "" if the buffer written by event w (index wi of the path) is exclusively held
// by this call until the write; otherwise what breaks the ownership.
func (cx *c23cx) replyOwnership(pa *c23Path, wi int, w c23Event) string {
	st := pa.st
	o, _, _, ok := st.resolveSlice(w.args[1])
	if !ok {
		if what := c23SharedRoot(st, w.args[1]); what != "" {
			return "the reply is encoded in " + what
		}
		return ""
	}
	for k := 0; k < wi; k++ {
		ev := st.events[k]
		pos := cx.p.Pos(ev.in.Pos())
		switch ev.kind {
		case "call":
			if ev.callee == "sync.Pool.Put" {
				for _, a := range ev.args {
					if st.refsObj(a, o.id) {
						when := "before the write"
						if ev.defer_ {
							when = "by a deferred call that runs when the encoding helper returns, before the caller writes"
						}
						return "the buffer is put back into the pool at " + pos + " " + when + " (the next Get hands the same array to another goroutine)"
					}
				}
			}
			if ev.defer_ && ev.static != nil && ev.static.Parent() != nil {
				// deferred closure: releases what it captured if its body puts into a pool
				for _, c := range kit.Calls(ev.static) {
					if kit.CalleeOf(c).String() == "sync.Pool.Put" {
						for _, a := range ev.args {
							if st.refsObj(a, o.id) || a.op == "obj" {
								return "a deferred closure at " + pos + " puts the buffer back into the pool before the caller writes it"
							}
						}
					}
				}
			}
		case "store":
			if ev.obj == -1 && st.refsObj(ev.val, o.id) {
				if what := c23SharedRoot(st, ev.idx); what != "" {
					return "the buffer is published in " + what + " at " + pos + " before the write"
				}
			}
		case "go":
			for _, a := range ev.args {
				if st.refsObj(a, o.id) {
					return "the buffer is handed to a goroutine started at " + pos + " before the write"
				}
			}
		case "send":
			if st.refsObj(ev.val, o.id) {
				return "the buffer is sent on a channel at " + pos + " before the write"
			}
		}
	}
	return ""
}

// replyLayout checks one conn.Write of the reply encoder on one path. kind names the address
// source (used in the obligation key).
func (cx *c23cx) replyLayout(fn *ssa.Function, replyIdx int, pa *c23Path, w c23Event) (bool, string, string) {
	st := pa.st
	o, lo, _, ok := st.resolveSlice(w.args[1])
	if !ok {
		return false, "the written buffer is not a byte slice built by this call (layout not recognisable)", "unrecognised buffer"
	}
	if z, isInt := lo.intVal(); !isInt || z != 0 {
		return false, "the reply is not written from the start of its buffer", "partial buffer"
	}
	if o.hasSegs {
		return cx.replyLayoutSegs(fn, replyIdx, pa, o)
	}
	// address bytes: the copy into the buffer at offset 4
	var x *c23T
	var cp c23Event
	nCopies := 0
	for _, ev := range st.events {
		if ev.kind == "copy" && ev.obj == o.id {
			nCopies++
			if at, isInt := ev.idx.intVal(); isInt && at == 4 {
				x, cp = ev.val, ev
			}
		}
	}
	if x == nil || nCopies != 1 {
		return false, "the address bytes are not copied to offset 4 of the reply exactly once", "unrecognised address"
	}
	kind := "address " + st.show(x)
	show := func(i int64) string {
		if t, ok := o.elems[i]; ok {
			return st.show(t)
		}
		return "<unset>"
	}
	if show(0) != "5" {
		return false, "byte 0 (VER) is " + show(0) + ", not 5", kind
	}
	if e1 := o.elems[1]; e1 == nil || !e1.isParam() || int(e1.n) != replyIdx {
		return false, "byte 1 (REP) is " + show(1) + ", not the reply code", kind
	}
	if show(2) != "0" {
		return false, "byte 2 (RSV) is " + show(2) + ", not 0", kind
	}
	// ATYP agrees with the address bytes; this fixes the address length n on this path
	holds := func(rendered string, taken bool) bool {
		for _, c := range st.conds {
			if st.show(c.t) == rendered && c.taken == taken {
				return true
			}
		}
		return false
	}
	nonNil := func(t *c23T) bool {
		s := st.show(t)
		return holds("("+s+"!=nil)", true) || holds("("+s+"==nil)", false) || holds("(nil!="+s+")", true) || holds("(nil=="+s+")", false)
	}
	isNil := func(s string) bool {
		return holds("("+s+"!=nil)", false) || holds("("+s+"==nil)", true) || holds("(nil!="+s+")", false) || holds("(nil=="+s+")", true)
	}
	lenX := st.lenTerm(x)
	constLen, lenKnown := lenX.intVal()
	atyp := show(3)
	var n int64
	switch atyp {
	case "1":
		n = 4
		four := lenKnown && constLen == 4
		if !four && x.isCallOf("net.IP.To4") && (nonNil(x) || (len(x.args) == 1 && x.args[0].op == "gload" && strings.HasPrefix(x.args[0].s, "net.IPv4"))) {
			four = true
		}
		if !four {
			return false, "ATYP is 1 (IPv4) but the address bytes (" + st.show(x) + ") are not known to be 4 bytes long", kind
		}
	case "4":
		n = 16
		sixteen := lenKnown && constLen == 16
		if !sixteen && x.isCallOf("net.IP.To16") && nonNil(x) {
			sixteen = true
		}
		if !sixteen && nonNil(x) && isNil("net.IP.To4("+st.show(x)+")") {
			sixteen = true
		}
		if !sixteen {
			return false, "ATYP is 4 (IPv6) but the address bytes (" + st.show(x) + ") are not known to be a non-IPv4, non-nil IP", kind
		}
	default:
		return false, "byte 3 (ATYP) is " + atyp + ", not 1 or 4", kind
	}
	// with len(address) = n on this path: bytes copied, length written and port offset
	env := map[string]int64{st.show(lenX): n}
	dst, ok := st.evalInt(cp.lenT, env)
	if !ok || dst < n {
		return false, fmt.Sprintf("only %s bytes of room for a %d-byte address at offset 4", st.show(cp.lenT), n), kind
	}
	if cp.res != nil {
		env[st.show(cp.res)] = n
	}
	if lw, ok := st.evalInt(st.lenTerm(w.args[1]), env); !ok || lw != n+6 {
		return false, "the reply written is " + st.show(st.lenTerm(w.args[1])) + " bytes, not 4+len(address)+2", kind
	}
	// port
	nPut := 0
	for _, ev := range st.events {
		if ev.kind != "call" || !strings.HasSuffix(ev.callee, ".PutUint16") || len(ev.args) != 3 {
			continue
		}
		po, plo, _, ok := st.resolveSlice(ev.args[1])
		if !ok || po.id != o.id {
			continue
		}
		nPut++
		if ev.callee != "encoding/binary.bigEndian.PutUint16" {
			return false, "the port is not written big-endian (" + ev.callee + ")", kind
		}
		if at, ok := st.evalInt(plo, env); !ok || at != n+4 {
			return false, "the port is written at offset " + st.show(plo) + ", not 4+len(address)", kind
		}
		if pt := ev.args[2]; !pt.isParam() || int(pt.n) >= len(fn.Params) || fn.Params[pt.n].Type().String() != "uint16" {
			return false, "the port written is " + st.show(pt) + ", not the port parameter", kind
		}
	}
	if nPut != 1 {
		return false, fmt.Sprintf("the port is written %d times with PutUint16 into the reply", nPut), kind
	}
	return true, "", kind
}

// ---------------------------------------------------------------------------------------------
// R4

func (cx *c23cx) ruleBounds() {
	pv := &c23Prover{p: cx.p}
	n, nf := 0, 0
	for _, fn := range cx.p.FuncsInPkg("internal/socks5") {
		nf++
		n += pv.check(fn, func(key, pos string, ok bool, detail string) {
			cx.r.Decide(ok, "C23.R4", key, pos, "within bounds", "a client-controlled length can drive this operation out of range (run-time panic in the connection's goroutine takes the agent down): "+detail)
		})
	}
	cx.r.Count("bounds_goals", n)
	cx.r.Count("bounds_functions", nf)
	cx.r.Require(n >= 20, "floor: only %d bounds goals found in package socks5", n)
}
