package rules

import (
	"fmt"
	"go/token"
	"go/types"
	"sort"
	"strconv"
	"strings"

	"golang.org/x/tools/go/ssa"

	"mmverify/kit"
)

// Round-2 rules of C05: tail tolerance of nested decoders (R5) and minimum-length pre-checks (R6).

// linInl is lin with one level of inlining of small package functions (e.g. a reader method that
// returns len(buf)-offset), so that guards written through such helpers can be evaluated.
func (cx *c05ctx) linInl(v ssa.Value, depth int) (c05lin, bool) {
	l, ok := cx.lin(v, 0)
	if !ok || depth > 2 {
		return l, ok
	}
	out := c05lin{c: l.c, t: map[c05sym]int64{}}
	for s, n := range l.t {
		if s.kind == "val" {
			if c, isCall := s.v.(*ssa.Call); isCall {
				if st := kit.CalleeOf(c).Static; st != nil && st.Blocks != nil && kit.FuncPkgPath(st) == kit.PkgPath("internal/protocol") {
					rets := kit.Returns(st)
					if len(rets) == 1 && len(rets[0].Results) == 1 {
						if sub, ok := cx.linInl(kit.ReturnResult(rets[0], 0), depth+1); ok {
							out = out.add(sub, n)
							continue
						}
					}
				}
			}
		}
		out.t[s] += n
	}
	return out, true
}

// holdsForLongInput: the guard lets control through when the input buffer is arbitrarily long
// (input length 2^40 and 2^41, cursor position small). Only guards over the input length, the cursor
// offset and constants are judged.
func (cx *c05ctx) holdsForLongInput(fn *ssa.Function, g kit.Guard) bool {
	cond, pol := g.Cond, g.Polarity
	for {
		u, ok := cond.(*ssa.UnOp)
		if !ok || u.Op != token.NOT {
			break
		}
		cond, pol = u.X, !pol
	}
	b, ok := cond.(*ssa.BinOp)
	if !ok {
		return false
	}
	switch b.Op {
	case token.LSS, token.LEQ, token.GTR, token.GEQ, token.EQL, token.NEQ:
	default:
		return false
	}
	la, ok1 := cx.linInl(b.X, 0)
	lb, ok2 := cx.linInl(b.Y, 0)
	if !ok1 || !ok2 {
		return false
	}
	mentions := false
	// every quantity other than the input length (cursor position, wire integers, lengths of decoded
	// fields) is bounded by what was read: it is sampled at 0 and at 2^32, far below the input lengths tried
	eval := func(f c05lin, inputLen, other int64) (int64, bool) {
		v := f.c
		for s, n := range f.t {
			switch {
			case s.kind == "lenf" && s.f == cx.rBuf:
				mentions = true
				v += n * inputLen
			case s.kind == "len" && c05isByteSlice(s.v.Type()):
				if _, isParam := s.v.(*ssa.Parameter); !isParam {
					return 0, false
				}
				mentions = true
				v += n * inputLen
			default:
				v += n * other
			}
		}
		return v, true
	}
	for _, in := range []int64{c05huge, 2 * c05huge} {
		for _, other := range []int64{0, 1 << 32} {
			a, okA := eval(la, in, other)
			bb, okB := eval(lb, in, other)
			if !okA || !okB || !mentions {
				return false
			}
			if g2evalCmp(b.Op, a, bb) != pol {
				return false
			}
		}
	}
	return true
}

// errorSetter: a reader-cursor method that records an error in the cursor (stores into a field of
// type error) and is not a token primitive.
func (cx *c05ctx) errorSetter(m *ssa.Function) bool {
	if m == nil || !cx.rMeth[m] || c05tokenKind(cx, m) != "" {
		return false
	}
	found := false
	kit.Instrs(m, func(in ssa.Instruction) {
		if st, ok := in.(*ssa.Store); ok {
			if fa, ok := st.Addr.(*ssa.FieldAddr); ok {
				if f := kit.FieldOfAddr(fa); f != nil && kit.IsErrorType(f.Type()) {
					found = true
				}
			}
		}
	})
	return found
}

// responsible: the guards of a rejecting site that are not shared (same branch, same polarity) with
// any success return of the function: the conditions that select the rejection.
func c05responsible(fn *ssa.Function, at ssa.Instruction) []kit.Guard {
	type key struct {
		i   *ssa.If
		pol bool
	}
	shared := map[key]bool{}
	res := fn.Signature.Results()
	hasErr := res.Len() > 0 && kit.IsErrorType(res.At(res.Len()-1).Type())
	for _, ret := range kit.Returns(fn) {
		if ret.Block() == fn.Recover || (hasErr && c05definiteError(fn, ret)) {
			continue
		}
		for _, g := range kit.GuardsOf(ret) {
			shared[key{g.If, g.Polarity}] = true
		}
	}
	var out []kit.Guard
	for _, g := range kit.GuardsOf(at) {
		if !shared[key{g.If, g.Polarity}] {
			out = append(out, g)
		}
	}
	return out
}

// rejectsTrailing lists the places in decoder n (and the package functions it calls, cursor
// primitives excluded) where the input is rejected under a guard that holds for arbitrarily long input.
func (cx *c05ctx) rejectsTrailing(n *ssa.Function) []string {
	var out []string
	seen := map[*ssa.Function]bool{}
	var visit func(fn *ssa.Function, d int)
	visit = func(fn *ssa.Function, d int) {
		if fn == nil || seen[fn] || fn.Blocks == nil || d > 3 {
			return
		}
		seen[fn] = true
		res := fn.Signature.Results()
		hasErr := res.Len() > 0 && kit.IsErrorType(res.At(res.Len()-1).Type())
		check := func(at ssa.Instruction, what string) {
			gs := c05responsible(fn, at)
			// the branches that enter the rejecting block directly (covers "a || b" conditions, whose
			// shared target has several predecessors and therefore no single dominating guard)
			blk := at.Block()
			for _, pred := range blk.Preds {
				if ifi, ok := pred.Instrs[len(pred.Instrs)-1].(*ssa.If); ok && len(pred.Succs) == 2 && pred.Succs[0] != pred.Succs[1] {
					gs = append(gs, kit.Guard{Cond: ifi.Cond, Polarity: pred.Succs[0] == blk, If: ifi})
				}
			}
			for _, g := range gs {
				if cx.holdsForLongInput(fn, g) {
					out = append(out, fmt.Sprintf("%s at %s (condition at %s)", what, cx.p.Pos(at.Pos()), cx.p.Pos(g.Cond.Pos())))
					return
				}
			}
		}
		if hasErr {
			for _, ret := range kit.Returns(fn) {
				if ret.Block() == fn.Recover || !c05definiteError(fn, ret) {
					continue
				}
				check(ret, "error return in "+kit.FuncName(fn))
			}
		}
		for _, c := range kit.Calls(fn) {
			st := kit.CalleeOf(c).Static
			if st == nil {
				continue
			}
			if cx.errorSetter(st) {
				if ci, ok := c.(ssa.Instruction); ok {
					check(ci, "decode error recorded in "+kit.FuncName(fn))
				}
				continue
			}
			if kit.FuncPkgPath(st) == kit.PkgPath("internal/protocol") && !cx.rMeth[st] && st != cx.rNew {
				if _, nestedTail := cx.tailArg(c); nestedTail {
					continue // judged at its own site
				}
				if _, isDec := cx.decSet[st]; isDec {
					if args := c.Common().Args; len(fn.Params) == 0 || len(args) == 0 || args[0] != ssa.Value(fn.Params[0]) {
						continue // decodes an already delimited payload
					}
					// the function's own input handed on unchanged: the callee sees the same tail
				}
				visit(st, d+1)
			}
		}
	}
	visit(n, 0)
	return out
}

// laterCursorUse: after call c in fn the cursor is read again (token primitive or another nested decode).
func (cx *c05ctx) laterCursorUse(fn *ssa.Function, c *ssa.Call) bool {
	return cx.laterCursorUseDepth(fn, c, 0)
}

func (cx *c05ctx) laterCursorUseDepth(fn *ssa.Function, c *ssa.Call, depth int) bool {
	// the nested decode sits in a helper that works on its caller's cursor: what the callers read
	// after the helper returns also follows the nested message
	if depth < 2 {
		takesCursor := cx.rMeth[fn]
		for _, prm := range fn.Params {
			if pt, ok := prm.Type().(*types.Pointer); ok && types.Identical(pt.Elem(), cx.rT) {
				takesCursor = true
			}
		}
		if takesCursor {
			for _, site := range cx.p.StaticCallers(fn) {
				if sc, ok := site.(*ssa.Call); ok && kit.FuncPkgPath(sc.Parent()) == kit.PkgPath("internal/protocol") {
					if cx.laterCursorUseDepth(sc.Parent(), sc, depth+1) {
						return true
					}
				}
			}
		}
	}
	for _, o := range kit.Calls(fn) {
		oi, _ := o.(ssa.Instruction)
		if oi == nil || o == ssa.CallInstruction(c) {
			continue
		}
		st := kit.CalleeOf(o).Static
		_, isTail := cx.tailArg(o)
		readsCursor := st != nil && cx.rMeth[st] && (c05tokenKind(cx, st) != "" || cx.readsTokens(st, 0))
		if readsCursor || isTail {
			if kit.CanReachAvoiding(c, oi, nil) && !kit.Precedes(oi, c) {
				return true
			}
		}
	}
	return false
}

func (cx *c05ctx) ruleR5() {
	p, r := cx.p, cx.r
	r.Rule("C05.R5", "a decoder that is invoked on the unread tail of a buffer while further fields follow accepts trailing bytes: none of its rejections is guarded by a condition that holds for arbitrarily long input")
	n := 0
	for _, fn := range cx.funcs {
		if !cx.decodeSide[fn] {
			continue
		}
		ord := map[string]int{}
		for _, c := range kit.Calls(fn) {
			call, ok := c.(*ssa.Call)
			if !ok {
				continue
			}
			st := kit.CalleeOf(c).Static
			mt, isDec := cx.decSet[st]
			if st == nil || !isDec {
				continue
			}
			if _, ok := cx.tailArg(c); !ok {
				continue
			}
			ord[mt]++
			key := fmt.Sprintf("%s nested %s #%d tail tolerance", kit.FuncName(fn), mt, ord[mt])
			if !cx.laterCursorUse(fn, call) {
				r.OK("C05.R5", key, p.Pos(call.Pos()), "nested message is the last element: its decoder may insist on an exact length")
				continue
			}
			n++
			rej := cx.rejectsTrailing(st)
			r.Decide(len(rej) == 0, "C05.R5", key, p.Pos(call.Pos()),
				kit.FuncName(st)+" never rejects input for being longer than the message",
				fmt.Sprintf("%s is handed the whole unread tail (more fields follow) but rejects long input: %s; the nested %s can never be decoded here, it is dropped or the following fields are read from the wrong position", kit.FuncName(st), strings.Join(rej, "; "), mt))
		}
	}
	r.Count("nested_decodes_followed_by_more_fields", n)
}

// ---------- R6: minimum-length pre-checks ----------

// minSize: the smallest number of bytes the schema can occupy (loops run zero times, variable
// byte strings are empty, nested messages take their own minimum).
func (cx *c05ctx) minSize(seq []c05node, depth int) int64 {
	var n int64
	for i, t := range seq {
		switch {
		case t.kind == "bytes":
			// a byte string without its own length prefix is self-describing (address by type, prefix by
			// family): its legitimate values are not empty; a prefixed one may be empty
			prefixed := false
			if i > 0 {
				switch seq[i-1].kind {
				case "u8", "u16", "u32":
					for f := range t.fields {
						if seq[i-1].fields[f] {
							prefixed = true
						}
					}
				}
			}
			if !prefixed {
				n++
			}
		case t.kind == "u8":
			n++
		case t.kind == "u16":
			n += 2
		case t.kind == "u32":
			n += 4
		case t.kind == "u64":
			n += 8
		case strings.HasPrefix(t.kind, "fixed"):
			if k, err := strconv.ParseInt(strings.TrimPrefix(t.kind, "fixed"), 10, 64); err == nil {
				n += k
			}
		case t.kind == "nested" && depth < 4:
			if enc := cx.encoders[t.msg]; enc != nil {
				if sub, bad := cx.schema(enc); bad == "" {
					n += cx.minSize(sub, depth+1)
				}
			}
		case t.kind == "alt":
			var best int64 = -1
			for _, a := range t.alts {
				if m := cx.minSize(a, depth+1); best < 0 || m < best {
					best = m
				}
			}
			if best > 0 {
				n += best
			}
		}
	}
	return n
}

func (cx *c05ctx) ruleR6() {
	p, r := cx.p, cx.r
	r.Rule("C05.R6", "a decoder's up-front length check does not reject an input as long as the shortest message its encoder can produce")
	var names []string
	for mt := range cx.decoders {
		names = append(names, mt)
	}
	sort.Strings(names)
	n := 0
	for _, mt := range names {
		dec, enc := cx.decoders[mt], cx.encoders[mt]
		if enc == nil || len(dec.Params) == 0 {
			continue
		}
		ws, bad := cx.schema(enc)
		if bad != "" {
			continue
		}
		min := cx.minSize(ws, 0)
		// optional tails make the true minimum smaller than the writer's; only the writer's minimum is
		// claimed: an input of that length must not be rejected by a pure length comparison
		buf := dec.Params[0]
		isLen := func(v ssa.Value) bool {
			c, ok := g2stripConv(v).(*ssa.Call)
			return ok && kit.CalleeOf(c).Built == "len" && len(c.Call.Args) == 1 && c.Call.Args[0] == ssa.Value(buf)
		}
		rejected := ""
		checked := false
		for _, ret := range kit.Returns(dec) {
			if ret.Block() == dec.Recover || !c05definiteError(dec, ret) {
				continue
			}
			for _, g := range c05responsible(dec, ret) {
				ex, rel := g2guardExcludes(g, isLen, min)
				if !rel {
					continue
				}
				checked = true
				if !ex {
					// the guard lets a buffer of the minimal length through to this error return
					rejected = p.Pos(g.Cond.Pos())
				}
			}
		}
		if !checked {
			continue
		}
		n++
		r.Decide(rejected == "", "C05.R6", "minimum length accepted by "+kit.FuncName(dec), p.Pos(dec.Pos()),
			fmt.Sprintf("a %d-byte input (shortest encoding of %s) passes the length pre-checks", min, mt),
			fmt.Sprintf("the length check at %s rejects a %d-byte input, the shortest message %s produces: such a message does not survive a round trip", rejected, min, kit.FuncName(enc)))
	}
	r.Count("decoders_with_length_precheck", n)
}

var _ = types.Typ

// readsTokens: the reader method (a helper, not a primitive) reads from the cursor through primitives
// or nested decodes, directly or through other helpers.
func (cx *c05ctx) readsTokens(m *ssa.Function, d int) bool {
	if m == nil || m.Blocks == nil || d > 3 {
		return false
	}
	for _, c := range kit.Calls(m) {
		st := kit.CalleeOf(c).Static
		if st == nil {
			continue
		}
		if _, isTail := cx.tailArg(c); isTail {
			return true
		}
		if cx.rMeth[st] && (c05tokenKind(cx, st) != "" || (st != m && cx.readsTokens(st, d+1))) {
			return true
		}
	}
	return false
}

// c05definiteError: the return certainly carries a non-nil error: a freshly built error or a sentinel,
// or a field/variable that a dominating guard has just found non-nil. "return x, r.err" at the end of a
// decoder is not one: it is the success return whenever r.err is nil.
func c05definiteError(fn *ssa.Function, ret *ssa.Return) bool {
	n := len(ret.Results)
	if n == 0 || !kit.IsErrorType(fn.Signature.Results().At(n-1).Type()) {
		return false
	}
	ev := kit.ReturnResult(ret, n-1)
	if kit.IsNilConst(ev) {
		return false
	}
	switch t := ev.(type) {
	case *ssa.Call, *ssa.MakeInterface, *ssa.Extract:
		// result of a constructor / wrapped error; an Extract of a call that was checked non-nil
		if ex, ok := t.(*ssa.Extract); ok {
			for _, g := range kit.GuardsOf(ret) {
				if x, trueMeansNil, ok := kit.IsErrNilCheck(g.Cond); ok && x == ssa.Value(ex) && trueMeansNil != g.Polarity {
					return true
				}
			}
			return false
		}
		return true
	case *ssa.UnOp:
		if t.Op != token.MUL {
			return false
		}
		if _, isGlobal := t.X.(*ssa.Global); isGlobal {
			return true
		}
		f, _ := kit.LoadedField(t)
		for _, g := range kit.GuardsOf(ret) {
			x, trueMeansNil, ok := kit.IsErrNilCheck(g.Cond)
			if !ok || trueMeansNil == g.Polarity {
				continue
			}
			if x == ev {
				return true
			}
			if f2, _ := kit.LoadedField(x); f != nil && f2 == f {
				return true
			}
		}
	}
	return false
}
