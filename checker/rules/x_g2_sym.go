package rules

// Symbolic integer/slice evaluation shared by the g2 rule sets: integers as a minimum over linear
// forms, byte-slice values as views [lo, hi) of a root buffer, small helper functions inlined with
// their parameters bound to the caller's arguments, if/else merges recognised as min().

import (
	"go/token"

	"golang.org/x/tools/go/ssa"

	"mmverify/kit"
)

type g2key struct {
	kind string // "val": opaque integer value; "len": length of the root buffer v
	v    ssa.Value
}

// g2lf is a linear form c + sum coef*sym.
type g2lf struct {
	c int64
	t map[g2key]int64
}

func (a g2lf) plus(b g2lf, k int64) g2lf {
	out := g2lf{c: a.c + k*b.c, t: map[g2key]int64{}}
	for s, n := range a.t {
		out.t[s] += n
	}
	for s, n := range b.t {
		out.t[s] += k * n
	}
	for s, n := range out.t {
		if n == 0 {
			delete(out.t, s)
		}
	}
	return out
}

func (a g2lf) isConst() bool     { return len(a.t) == 0 }
func (a g2lf) equal(b g2lf) bool { d := a.plus(b, -1); return d.c == 0 && len(d.t) == 0 }
func g2sym(k g2key) g2lf         { return g2lf{t: map[g2key]int64{k: 1}} }

// g2env binds the parameters of fn to the arguments of the call site that entered it.
type g2env struct {
	fn   *ssa.Function
	site ssa.CallInstruction
	up   *g2env
	d    int
}

func g2envOf(fr *g2frame) *g2env {
	if fr == nil {
		return nil
	}
	return &g2env{fn: fr.fn, site: fr.site, up: g2envOf(fr.caller), d: fr.depth}
}

func (e *g2env) arg(p *ssa.Parameter) (ssa.Value, *g2env, bool) {
	if e == nil || e.site == nil || p.Parent() != e.fn || e.site.Common().IsInvoke() {
		return nil, nil, false
	}
	for i, q := range e.fn.Params {
		if q == p {
			args := e.site.Common().Args
			if i < len(args) {
				up := e.up
				if up == nil {
					up = &g2env{fn: e.site.Parent()}
				}
				return args[i], up, true
			}
		}
	}
	return nil, nil, false
}

// g2view is a byte-slice value seen as [lo, min(hi...)) of a root buffer.
type g2view struct {
	root ssa.Value
	lo   g2lf
	hi   []g2lf
}

const g2symDepth = 12

// g2intForms: v <= every returned form; v == min(forms) when exact. nil = not expressible.
func g2intForms(v ssa.Value, env *g2env, d int) []g2lf {
	if v == nil || d > g2symDepth {
		return nil
	}
	if c, ok := kit.ConstInt(v); ok {
		return []g2lf{{c: c}}
	}
	opaque := []g2lf{g2sym(g2key{"val", v})}
	switch x := v.(type) {
	case *ssa.Convert:
		return g2intForms(x.X, env, d+1)
	case *ssa.ChangeType:
		return g2intForms(x.X, env, d+1)
	case *ssa.Parameter:
		if a, up, ok := env.arg(x); ok {
			return g2intForms(a, up, d+1)
		}
		return opaque
	case *ssa.BinOp:
		a, b := g2intForms(x.X, env, d+1), g2intForms(x.Y, env, d+1)
		if a == nil || b == nil {
			return opaque
		}
		switch x.Op {
		case token.ADD:
			if len(a)*len(b) > 8 {
				return opaque
			}
			var out []g2lf
			for _, p := range a {
				for _, q := range b {
					out = append(out, p.plus(q, 1))
				}
			}
			return out
		case token.SUB:
			if len(b) != 1 {
				return opaque
			}
			var out []g2lf
			for _, p := range a {
				out = append(out, p.plus(b[0], -1))
			}
			return out
		}
		return opaque
	case *ssa.Call:
		cal := kit.CalleeOf(x)
		switch cal.Built {
		case "len":
			if vw, ok := g2sliceView(x.Call.Args[0], env, d+1); ok {
				var out []g2lf
				for _, h := range vw.hi {
					out = append(out, h.plus(vw.lo, -1))
				}
				return out
			}
			return opaque
		case "min":
			var out []g2lf
			for _, a := range x.Call.Args {
				f := g2intForms(a, env, d+1)
				if f == nil {
					return opaque
				}
				out = append(out, f...)
			}
			if len(out) > 8 {
				return opaque
			}
			return out
		}
		if st := cal.Static; st != nil && st.Blocks != nil && kit.IsRepoPkg(kit.FuncPkgPath(st)) && (env == nil || env.d < 4) {
			rets := kit.Returns(st)
			if len(rets) == 1 && len(rets[0].Results) == 1 {
				depth := 1
				if env != nil {
					depth = env.d + 1
				}
				if f := g2intForms(kit.ReturnResult(rets[0], 0), &g2env{fn: st, site: x, up: env, d: depth}, d+1); f != nil {
					return f
				}
			}
		}
		return opaque
	case *ssa.Phi:
		if f, ok := g2phiMin(x, env, d); ok {
			return f
		}
		return opaque
	}
	return opaque
}

// g2phiMin: a two-way merge "if a OP b { v = p } else { v = q }" that selects the smaller of p and q.
func g2phiMin(phi *ssa.Phi, env *g2env, d int) ([]g2lf, bool) {
	blk := phi.Block()
	if len(phi.Edges) != 2 || len(blk.Preds) != 2 {
		return nil, false
	}
	dom := blk.Idom()
	if dom == nil || len(dom.Instrs) == 0 || len(dom.Succs) != 2 {
		return nil, false
	}
	ifi, ok := dom.Instrs[len(dom.Instrs)-1].(*ssa.If)
	if !ok {
		return nil, false
	}
	// which phi edge is taken when the condition is true
	branchOf := func(pred *ssa.BasicBlock) int {
		if pred == dom {
			if dom.Succs[0] == blk {
				return 0
			}
			return 1
		}
		for k := 0; k < 2; k++ {
			s := dom.Succs[k]
			// the arm must be entered only from the branch (no other condition joins it)
			if s != blk && (s == pred || s.Dominates(pred)) && len(s.Preds) == 1 && len(pred.Succs) == 1 {
				return k
			}
		}
		return -1
	}
	b0, b1 := branchOf(blk.Preds[0]), branchOf(blk.Preds[1])
	if b0 < 0 || b1 < 0 || b0 == b1 {
		return nil, false
	}
	vTrue, vFalse := phi.Edges[0], phi.Edges[1]
	if b0 == 1 {
		vTrue, vFalse = vFalse, vTrue
	}
	ft, ff := g2intForms(vTrue, env, d+1), g2intForms(vFalse, env, d+1)
	if len(ft) != 1 || len(ff) != 1 {
		return nil, false
	}
	cond, neg := ifi.Cond, false
	for {
		u, ok := cond.(*ssa.UnOp)
		if !ok || u.Op != token.NOT {
			break
		}
		cond, neg = u.X, !neg
	}
	cmp, ok := cond.(*ssa.BinOp)
	if !ok {
		return nil, false
	}
	fx, fy := g2intForms(cmp.X, env, d+1), g2intForms(cmp.Y, env, d+1)
	if len(fx) != 1 || len(fy) != 1 {
		return nil, false
	}
	// normalise to "big > small" being true on the true branch
	var diff g2lf
	switch cmp.Op {
	case token.GTR, token.GEQ:
		diff = fx[0].plus(fy[0], -1)
	case token.LSS, token.LEQ:
		diff = fy[0].plus(fx[0], -1)
	default:
		return nil, false
	}
	if neg {
		vTrue, vFalse = vFalse, vTrue
		ft, ff = ff, ft
	}
	// true branch taken when diff > 0 (or >= 0): it selects the smaller iff ff - ft == diff
	if ff[0].plus(ft[0], -1).equal(diff) {
		return []g2lf{ft[0], ff[0]}, true
	}
	return nil, false
}

// g2sliceView resolves a byte-slice value to a view of its root buffer.
func g2sliceView(v ssa.Value, env *g2env, d int) (g2view, bool) {
	if v == nil || d > g2symDepth {
		return g2view{}, false
	}
	root := func(r ssa.Value) (g2view, bool) {
		return g2view{root: r, hi: []g2lf{g2sym(g2key{"len", r})}}, true
	}
	switch x := v.(type) {
	case *ssa.Parameter:
		if a, up, ok := env.arg(x); ok {
			return g2sliceView(a, up, d+1)
		}
		return root(x)
	case *ssa.Slice:
		if _, isArr := g2arrayLen(x.X.Type()); isArr {
			return g2view{}, false
		}
		base, ok := g2sliceView(x.X, env, d+1)
		if !ok {
			return g2view{}, false
		}
		out := g2view{root: base.root, lo: base.lo, hi: base.hi}
		if x.High != nil {
			hf := g2intForms(x.High, env, d+1)
			if hf == nil {
				return g2view{}, false
			}
			out.hi = nil
			for _, h := range hf {
				out.hi = append(out.hi, base.lo.plus(h, 1))
			}
		}
		if x.Low != nil {
			lf := g2intForms(x.Low, env, d+1)
			if len(lf) != 1 {
				return g2view{}, false
			}
			out.lo = base.lo.plus(lf[0], 1)
		}
		return out, true
	case *ssa.Phi:
		// a merge of views of one root with one start: the end is the merge of the ends
		if len(x.Edges) == 2 && !x.Block().Dominates(x.Block().Preds[0]) && !x.Block().Dominates(x.Block().Preds[1]) {
			a, ok1 := g2sliceView(x.Edges[0], env, d+1)
			b, ok2 := g2sliceView(x.Edges[1], env, d+1)
			if ok1 && ok2 && a.root == b.root && a.lo.equal(b.lo) && len(a.hi) == 1 && len(b.hi) == 1 {
				if hi, ok := g2phiMinOf(x, a.hi[0], b.hi[0], env, d); ok {
					return g2view{root: a.root, lo: a.lo, hi: hi}, true
				}
			}
		}
		return root(x)
	case *ssa.Const:
		return g2view{}, false
	}
	return root(v)
}

// g2phiMinOf is g2phiMin for a merge whose two incoming values have the given forms.
func g2phiMinOf(phi *ssa.Phi, e0, e1 g2lf, env *g2env, d int) ([]g2lf, bool) {
	blk := phi.Block()
	dom := blk.Idom()
	if dom == nil || len(dom.Instrs) == 0 || len(dom.Succs) != 2 || len(blk.Preds) != 2 {
		return nil, false
	}
	ifi, ok := dom.Instrs[len(dom.Instrs)-1].(*ssa.If)
	if !ok {
		return nil, false
	}
	branchOf := func(pred *ssa.BasicBlock) int {
		if pred == dom {
			if dom.Succs[0] == blk {
				return 0
			}
			return 1
		}
		for k := 0; k < 2; k++ {
			s := dom.Succs[k]
			// the arm must be entered only from the branch (no other condition joins it)
			if s != blk && (s == pred || s.Dominates(pred)) && len(s.Preds) == 1 && len(pred.Succs) == 1 {
				return k
			}
		}
		return -1
	}
	b0, b1 := branchOf(blk.Preds[0]), branchOf(blk.Preds[1])
	if b0 < 0 || b1 < 0 || b0 == b1 {
		return nil, false
	}
	ft, ff := e0, e1
	if b0 == 1 {
		ft, ff = e1, e0
	}
	cond, neg := ifi.Cond, false
	for {
		u, ok := cond.(*ssa.UnOp)
		if !ok || u.Op != token.NOT {
			break
		}
		cond, neg = u.X, !neg
	}
	cmp, ok := cond.(*ssa.BinOp)
	if !ok {
		return nil, false
	}
	fx, fy := g2intForms(cmp.X, env, d+1), g2intForms(cmp.Y, env, d+1)
	if len(fx) != 1 || len(fy) != 1 {
		return nil, false
	}
	var diff g2lf
	switch cmp.Op {
	case token.GTR, token.GEQ:
		diff = fx[0].plus(fy[0], -1)
	case token.LSS, token.LEQ:
		diff = fy[0].plus(fx[0], -1)
	default:
		return nil, false
	}
	if neg {
		ft, ff = ff, ft
	}
	if ff.plus(ft, -1).equal(diff) {
		return []g2lf{ft, ff}, true
	}
	return nil, false
}

// g2symLenBound: a constant upper bound of len(v) derived symbolically (some alternative of the
// view's length is a constant).
func g2symLenBound(v ssa.Value, env *g2env) (int64, bool) {
	vw, ok := g2sliceView(v, env, 0)
	if !ok {
		return 0, false
	}
	best, found := int64(0), false
	for _, h := range vw.hi {
		l := h.plus(vw.lo, -1)
		if l.isConst() && l.c >= 0 && (!found || l.c < best) {
			best, found = l.c, true
		}
	}
	return best, found
}

// g2symChunkWidth: s = X[lo:hi] where, relative to the root buffer of X, hi = min(lo+K, len(root)) (or
// lo+K alone) after inlining helpers; returns K.
func g2symChunkWidth(s *ssa.Slice) (int64, bool) {
	if s.Low == nil || s.High == nil {
		return 0, false
	}
	env := &g2env{fn: s.Parent()}
	base, ok := g2sliceView(s.X, env, 0)
	if !ok || !base.lo.isConst() || base.lo.c != 0 {
		return 0, false
	}
	lo := g2intForms(s.Low, env, 0)
	hi := g2intForms(s.High, env, 0)
	if len(lo) != 1 || len(hi) == 0 {
		return 0, false
	}
	lenRoot := g2sym(g2key{"len", base.root})
	var k int64
	found := false
	for _, h := range hi {
		w := h.plus(lo[0], -1)
		switch {
		case w.isConst():
			if found && w.c != k {
				return 0, false
			}
			k, found = w.c, true
		case h.equal(lenRoot):
		default:
			return 0, false
		}
	}
	return k, found
}
