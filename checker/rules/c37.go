package rules

import (
	"fmt"
	"go/token"
	"go/types"
	"regexp/syntax"
	"strings"

	"golang.org/x/tools/go/ssa"

	"mmverify/kit"
)

func init() {
	register(&Check{
		ID: "C37", Level: "other", Patterns: []string{"./internal/config"},
		Technique: "SSA shape of the expander + regexp/syntax prefix proof + return-value provenance of the callback",
		Explain: "Decides that the configuration expander (the internal/config function whose (*regexp.Regexp).ReplaceAllStringFunc callback looks the environment up) is one single regular-expression pass over its unmodified parameter whose result is returned unmodified, that no caller feeds it already expanded or already decoded text, that every match of the (constant, never reassigned) pattern must begin with a literal '$', and that every value the callback returns is result #0 of os.LookupEnv on that lookup's ok edge, or the match / a sub-slice of the match on a lookup's !ok edge. " +
			"Not decided: the exact ${VAR:-default} grammar (which sub-slice is the name and which the default) and the semantics of package regexp itself.",
		Run: runC37,
		SelfTests: []SelfTest{
			{Name: "second expansion pass in Parse", ExpectRule: "C37.R1", ExpectKey: "call site", Edits: []Edit{
				{File: "internal/config/config.go", Old: "expanded := expandEnvVars(string(data))", New: "expanded := expandEnvVars(expandEnvVars(string(data)))"},
			}},
			{Name: "substituted value expanded again by the callback", ExpectRule: "C37.R1", Edits: []Edit{
				{File: "internal/config/config.go", Old: "\t\tif val, ok := os.LookupEnv(name); ok {\n\t\t\treturn val\n\t\t}", New: "\t\tif val, ok := os.LookupEnv(name); ok {\n\t\t\treturn os.ExpandEnv(val)\n\t\t}"},
			}},
			{Name: "recursive expansion of the substituted value", ExpectRule: "C37.R3", Edits: []Edit{
				{File: "internal/config/config.go", Old: "\t\tif val, ok := os.LookupEnv(name); ok {\n\t\t\treturn val\n\t\t}", New: "\t\tif val, ok := os.LookupEnv(name); ok {\n\t\t\treturn expandEnvVars(val)\n\t\t}"},
			}},
			{Name: "expanded text post-processed", ExpectRule: "C37.R1", ExpectKey: "result", Edits: []Edit{
				{File: "internal/config/config.go", Old: "\treturn envVarRegex.ReplaceAllStringFunc(s, func(match string) string {", New: "\treturn strings.TrimSpace(envVarRegex.ReplaceAllStringFunc(s, func(match string) string {"},
				{File: "internal/config/config.go", Old: "\t\treturn match // Keep original if not found\n\t})\n", New: "\t\treturn match // Keep original if not found\n\t}))\n"},
			}},
			{Name: "decoded field expanded after parsing", ExpectRule: "C37.R1", ExpectKey: "call site", Edits: []Edit{
				{File: "internal/config/config.go", Old: "\t// Validate\n\tif err := cfg.Validate(); err != nil {\n\t\treturn nil, fmt.Errorf(\"config validation failed: %w\", err)", New: "\tcfg.Agent.DataDir = expandEnvVars(cfg.Agent.DataDir)\n\tif err := cfg.Validate(); err != nil {\n\t\treturn nil, fmt.Errorf(\"config validation failed: %w\", err)"},
			}},
			{Name: "decoded field run through os.ExpandEnv", ExpectRule: "C37.R1", ExpectKey: "os.ExpandEnv", Edits: []Edit{
				{File: "internal/config/config.go", Old: "\t// Validate\n\tif err := cfg.Validate(); err != nil {\n\t\treturn nil, fmt.Errorf(\"config validation failed: %w\", err)", New: "\tcfg.Agent.DataDir = os.ExpandEnv(cfg.Agent.DataDir)\n\tif err := cfg.Validate(); err != nil {\n\t\treturn nil, fmt.Errorf(\"config validation failed: %w\", err)"},
			}},
			{Name: "expansion split into two sequential passes (braced, then bare)", ExpectRule: "C37.R1", ExpectKey: "single pass", Edits: []Edit{
				{File: "internal/config/config.go", Old: "\treturn envVarRegex.ReplaceAllStringFunc(s, func(match string) string {", New: "\tf := func(match string) string {"},
				{File: "internal/config/config.go", Old: "\t\treturn match // Keep original if not found\n\t})\n}", New: "\t\treturn match // Keep original if not found\n\t}\n\treturn bareVarRegex.ReplaceAllStringFunc(envVarRegex.ReplaceAllStringFunc(s, f), f)\n}\n\nvar bareVarRegex = regexp.MustCompile(`\\$([A-Za-z_][A-Za-z0-9_]*)`)"},
			}},
			{Name: "expansion repeated until no dollar is left", ExpectRule: "C37.R1", ExpectKey: "call site", Edits: []Edit{
				{File: "internal/config/config.go", Old: "\treturn envVarRegex.ReplaceAllStringFunc(s, func(match string) string {", New: "\tfor i := 0; i < 4 && strings.Contains(s, \"$\"); i++ {\n\t\ts = expandOnce(s)\n\t}\n\treturn s\n}\n\nfunc expandOnce(s string) string {\n\treturn envVarRegex.ReplaceAllStringFunc(s, func(match string) string {"},
			}},
			{Name: "shell-style :- (set-but-empty takes the default)", ExpectRule: "C37.R3", Edits: []Edit{
				{File: "internal/config/config.go", Old: "\t\t\tif val, ok := os.LookupEnv(varName); ok {", New: "\t\t\tif val, ok := os.LookupEnv(varName); ok && val != \"\" {"},
			}},
			{Name: "variable name upper-cased before the lookup", ExpectRule: "C37.R3", ExpectKey: "lookup", Edits: []Edit{
				{File: "internal/config/config.go", Old: "\t\tif val, ok := os.LookupEnv(name); ok {", New: "\t\tif val, ok := os.LookupEnv(strings.ToUpper(name)); ok {"},
			}},
			{Name: "looked-up value trimmed before substitution", ExpectRule: "C37.R3", Edits: []Edit{
				{File: "internal/config/config.go", Old: "\t\tif val, ok := os.LookupEnv(name); ok {\n\t\t\treturn val\n\t\t}", New: "\t\tif val, ok := os.LookupEnv(name); ok {\n\t\t\treturn strings.TrimSpace(val)\n\t\t}"},
			}},
			{Name: "chained passes whose callbacks delegate to a shared helper (braced pass, then the combined pass on its result)", ExpectRule: "C37.R1", ExpectKey: "input", Edits: []Edit{
				{File: "internal/config/config.go", Old: "\treturn envVarRegex.ReplaceAllStringFunc(s, func(match string) string {", New: "\ts = bracedRe.ReplaceAllStringFunc(s, func(m string) string { return resolveRef(m) })\n\treturn envVarRegex.ReplaceAllStringFunc(s, func(m string) string { return resolveRef(m) })\n}\n\nvar bracedRe = regexp.MustCompile(`\\$\\{([^}]+)\\}`)\n\nfunc resolveRef(match string) string {\n\t{"},
				{File: "internal/config/config.go", Old: "\t\treturn match // Keep original if not found\n\t})\n}", New: "\t\treturn match // Keep original if not found\n\t}\n}"},
			}},
			{Name: "expander replaced by os.ExpandEnv in Parse", ExpectRule: "C37.R3", ExpectKey: "os.ExpandEnv", Edits: []Edit{
				{File: "internal/config/config.go", Old: "expanded := expandEnvVars(string(data))", New: "expanded := os.ExpandEnv(string(data))"},
			}},
			{Name: "rewrite: no-dollar fast path, callback delegating to a named helper", Edits: []Edit{
				{File: "internal/config/config.go", Old: "\treturn envVarRegex.ReplaceAllStringFunc(s, func(match string) string {", New: "\tif !strings.Contains(s, \"$\") {\n\t\treturn s\n\t}\n\treturn envVarRegex.ReplaceAllStringFunc(s, func(m string) string { return resolveRef(m) })\n}\n\nfunc resolveRef(match string) string {\n\t{"},
				{File: "internal/config/config.go", Old: "\t\treturn match // Keep original if not found\n\t})\n}", New: "\t\treturn match // Keep original if not found\n\t}\n}"},
			}},
			{Name: "rewrite: named resolver, body helper, strings.Cut and one lookup with a pre-chosen fallback", Edits: []Edit{
				{File: "internal/config/config.go", Old: "\treturn envVarRegex.ReplaceAllStringFunc(s, func(match string) string {", New: "\treturn envVarRegex.ReplaceAllStringFunc(s, resolveRefA)\n}\n\nfunc refBodyA(ref string) string {\n\tif !strings.HasPrefix(ref, \"${\") {\n\t\treturn ref[1:]\n\t}\n\treturn ref[2 : len(ref)-1]\n}\n\nfunc resolveRefA(ref string) string {\n\tvarName, fallback, hasDefault := strings.Cut(refBodyA(ref), \":-\")\n\tif !hasDefault {\n\t\tfallback = ref\n\t}\n\tval, found := os.LookupEnv(varName)\n\tif !found {\n\t\treturn fallback\n\t}\n\treturn val\n}\n\nfunc oldExpandBody(match string) string {\n\t{"},
				{File: "internal/config/config.go", Old: "\t\treturn match // Keep original if not found\n\t})\n}", New: "\t\treturn match // Keep original if not found\n\t}\n}"},
			}},
			{Name: "single lookup whose fallback for a plain reference is the empty string", ExpectRule: "C37.R3", Edits: []Edit{
				{File: "internal/config/config.go", Old: "\treturn envVarRegex.ReplaceAllStringFunc(s, func(match string) string {", New: "\treturn envVarRegex.ReplaceAllStringFunc(s, resolveRefA)\n}\n\nfunc refBodyA(ref string) string {\n\tif !strings.HasPrefix(ref, \"${\") {\n\t\treturn ref[1:]\n\t}\n\treturn ref[2 : len(ref)-1]\n}\n\nfunc resolveRefA(ref string) string {\n\tvarName, fallback, hasDefault := strings.Cut(refBodyA(ref), \":-\")\n\tif !hasDefault {\n\t\tfallback = \"\"\n\t}\n\tval, found := os.LookupEnv(varName)\n\tif !found {\n\t\treturn fallback\n\t}\n\treturn val\n}\n\nfunc oldExpandBody(match string) string {\n\t{"},
				{File: "internal/config/config.go", Old: "\t\treturn match // Keep original if not found\n\t})\n}", New: "\t\treturn match // Keep original if not found\n\t}\n}"},
			}},
			{Name: "rewrite: hand-written FindAllStringSubmatchIndex scanner assembling the result in a strings.Builder", Edits: []Edit{
				{File: "internal/config/config.go", Old: "\treturn envVarRegex.ReplaceAllStringFunc(s, func(match string) string {", New: "\tif strings.IndexByte(s, '$') < 0 {\n\t\treturn s\n\t}\n\trefs := envVarRegex.FindAllStringSubmatchIndex(s, -1)\n\tvar out strings.Builder\n\tcopied := 0\n\tfor _, loc := range refs {\n\t\tout.WriteString(s[copied:loc[0]])\n\t\tnameStart, nameEnd := loc[2], loc[3]\n\t\tif nameStart < 0 {\n\t\t\tnameStart, nameEnd = loc[4], loc[5]\n\t\t}\n\t\tout.WriteString(lookupRefC(s[nameStart:nameEnd], s[loc[0]:loc[1]]))\n\t\tcopied = loc[1]\n\t}\n\tout.WriteString(s[copied:])\n\treturn out.String()\n}\n\nfunc lookupRefC(name, original string) string {\n\tvarName, notFound := name, original\n\tif idx := strings.Index(name, \":-\"); 0 <= idx {\n\t\tvarName, notFound = name[:idx], name[idx+2:]\n\t}\n\tif val, ok := os.LookupEnv(varName); ok {\n\t\treturn val\n\t}\n\treturn notFound\n}\n\nfunc oldExpandBody(match string) string {\n\t{"},
				{File: "internal/config/config.go", Old: "\t\treturn match // Keep original if not found\n\t})\n}", New: "\t\treturn match // Keep original if not found\n\t}\n}"},
			}},
			{Name: "hand-written scanner re-expands its own output", ExpectRule: "C37.R1", Edits: []Edit{
				{File: "internal/config/config.go", Old: "\treturn envVarRegex.ReplaceAllStringFunc(s, func(match string) string {", New: "\tif strings.IndexByte(s, '$') < 0 {\n\t\treturn s\n\t}\n\trefs := envVarRegex.FindAllStringSubmatchIndex(s, -1)\n\tvar out strings.Builder\n\tcopied := 0\n\tfor _, loc := range refs {\n\t\tout.WriteString(s[copied:loc[0]])\n\t\tnameStart, nameEnd := loc[2], loc[3]\n\t\tif nameStart < 0 {\n\t\t\tnameStart, nameEnd = loc[4], loc[5]\n\t\t}\n\t\tout.WriteString(lookupRefC(s[nameStart:nameEnd], s[loc[0]:loc[1]]))\n\t\tcopied = loc[1]\n\t}\n\tout.WriteString(s[copied:])\n\treturn expandEnvVars(out.String())\n}\n\nfunc lookupRefC(name, original string) string {\n\tvarName, notFound := name, original\n\tif idx := strings.Index(name, \":-\"); 0 <= idx {\n\t\tvarName, notFound = name[:idx], name[idx+2:]\n\t}\n\tif val, ok := os.LookupEnv(varName); ok {\n\t\treturn val\n\t}\n\treturn notFound\n}\n\nfunc oldExpandBody(match string) string {\n\t{"},
				{File: "internal/config/config.go", Old: "\t\treturn match // Keep original if not found\n\t})\n}", New: "\t\treturn match // Keep original if not found\n\t}\n}"},
			}},
			{Name: "dollar made optional in the pattern", ExpectRule: "C37.R2", Edits: []Edit{
				{File: "internal/config/config.go", Old: "|\\$([A-Za-z_][A-Za-z0-9_]*)`)", New: "|\\$?([A-Za-z_][A-Za-z0-9_]*)`)"},
			}},
			{Name: "percent-style alternative added to the pattern", ExpectRule: "C37.R2", Edits: []Edit{
				{File: "internal/config/config.go", Old: "|\\$([A-Za-z_][A-Za-z0-9_]*)`)", New: "|\\$([A-Za-z_][A-Za-z0-9_]*)|%([A-Za-z_]+)%`)"},
			}},
			{Name: "pattern replaced at run time", ExpectRule: "C37.R2", Edits: []Edit{
				{File: "internal/config/config.go", Old: "\t// Expand environment variables\n\texpanded := expandEnvVars(string(data))", New: "\tenvVarRegex = regexp.MustCompile(`[a-z]+`)\n\texpanded := expandEnvVars(string(data))"},
			}},
			{Name: "unset variable replaced by the empty string", ExpectRule: "C37.R3", Edits: []Edit{
				{File: "internal/config/config.go", Old: "\t\treturn match // Keep original if not found", New: "\t\treturn \"\""},
			}},
			{Name: "lookup polarity inverted", ExpectRule: "C37.R3", Edits: []Edit{
				{File: "internal/config/config.go", Old: "\t\t\tif val, ok := os.LookupEnv(varName); ok {", New: "\t\t\tif val, ok := os.LookupEnv(varName); !ok {"},
			}},
			{Name: "set-but-empty variable treated as unset (Getenv)", ExpectRule: "C37.R3", Edits: []Edit{
				{File: "internal/config/config.go", Old: "\t\tif val, ok := os.LookupEnv(name); ok {\n\t\t\treturn val\n\t\t}", New: "\t\tif val := os.Getenv(name); val != \"\" {\n\t\t\treturn val\n\t\t}"},
			}},
			{Name: "default returned although the variable is set", ExpectRule: "C37.R3", Edits: []Edit{
				{File: "internal/config/config.go", Old: "\t\t\tif val, ok := os.LookupEnv(varName); ok {\n\t\t\t\treturn val\n\t\t\t}\n\t\t\treturn defaultVal", New: "\t\t\t_ = varName\n\t\t\treturn defaultVal"},
			}},
			{Name: "rewrite: early return on the unset edge, result through a local", Edits: []Edit{
				{File: "internal/config/config.go", Old: "\t\tif val, ok := os.LookupEnv(name); ok {\n\t\t\treturn val\n\t\t}\n\t\treturn match // Keep original if not found\n\t})\n", New: "\t\tval, ok := os.LookupEnv(name)\n\t\tif !ok {\n\t\t\treturn match\n\t\t}\n\t\treturn val\n\t})\n\treturn out\n"},
				{File: "internal/config/config.go", Old: "\treturn envVarRegex.ReplaceAllStringFunc(s, func(match string) string {", New: "\tout := envVarRegex.ReplaceAllStringFunc(s, func(match string) string {"},
			}},
			{Name: "rewrite: named callback, single result variable", Edits: []Edit{
				{File: "internal/config/config.go", Old: "\treturn envVarRegex.ReplaceAllStringFunc(s, func(match string) string {", New: "\treturn envVarRegex.ReplaceAllStringFunc(s, expandOneRef)\n}\n\nfunc expandOneRef(match string) string {\n\t{"},
				{File: "internal/config/config.go", Old: "\t\treturn match // Keep original if not found\n\t})\n}", New: "\t\treturn match // Keep original if not found\n\t}\n}"},
			}},
			{Name: "rewrite: pattern compiled inside the expander", Edits: []Edit{
				{File: "internal/config/config.go", Old: "\treturn envVarRegex.ReplaceAllStringFunc(s, func(match string) string {", New: "\tre := regexp.MustCompile(`\\$(?:\\{([^}]+)\\}|([A-Za-z_][A-Za-z0-9_]*))`)\n\treturn re.ReplaceAllStringFunc(s, func(match string) string {"},
			}},
		},
	})
}

// c37ReplaceFamily: calls that perform another expansion/substitution pass.
func c37IsPass(cal kit.Callee) bool {
	if cal.Pkg == "regexp" && cal.Recv == "Regexp" {
		switch cal.Name {
		case "ReplaceAllStringFunc", "ReplaceAllString", "ReplaceAllLiteralString", "ReplaceAll", "ReplaceAllFunc", "ReplaceAllLiteral", "Expand", "ExpandString":
			return true
		}
	}
	if cal.Pkg == "os" && cal.Recv == "" && (cal.Name == "Expand" || cal.Name == "ExpandEnv") {
		return true
	}
	return false
}

func c37IsEnvLookup(cal kit.Callee) bool {
	return cal.Pkg == "os" && cal.Recv == "" && (cal.Name == "LookupEnv" || cal.Name == "Getenv" || cal.Name == "Environ") ||
		cal.Pkg == "syscall" && cal.Name == "Getenv"
}

// c37Callback resolves the function value handed to ReplaceAllStringFunc.
func c37Callback(v ssa.Value) *ssa.Function {
	switch x := v.(type) {
	case *ssa.MakeClosure:
		f, _ := x.Fn.(*ssa.Function)
		return f
	case *ssa.Function:
		return x
	case *ssa.ChangeType:
		return c37Callback(x.X)
	}
	return nil
}

type c37Expander struct {
	fn       *ssa.Function
	call     *ssa.Call
	callback *ssa.Function
	scanner  bool // hand-written scanner: regexp Find* over the parameter, result assembled in a builder
}

func runC37(p *kit.Program, r *kit.Report) {
	r.Rule("C37.R1", "the expander performs exactly one regular-expression pass over its unmodified parameter and returns that pass's result unmodified; it is not re-entered from its callback; no call site feeds it text that was already expanded or already decoded from the configuration")
	r.Rule("C37.R2", "the pattern is a constant that is assigned once, and every match of it must begin with a literal '$' (text without a dollar sign has no match)")
	r.Rule("C37.R3", "every value the callback returns is result #0 of os.LookupEnv on that lookup's ok edge, or the match / a sub-slice of the match on the !ok edge of a lookup; looked-up names are sub-slices of the match")

	// ---- anchor: the expander(s) by role
	var exps []c37Expander
	for _, fn := range p.FuncsInPkg("internal/config") {
		for _, c := range kit.Calls(fn) {
			cal := kit.CalleeOf(c)
			if !(cal.Pkg == "regexp" && cal.Recv == "Regexp" && cal.Name == "ReplaceAllStringFunc") {
				continue
			}
			call, ok := c.(*ssa.Call)
			if !ok {
				continue
			}
			cb := c37Callback(kit.Arg(c, 1))
			if cb == nil {
				continue
			}
			if c37ReadsEnv(cb, 0, map[*ssa.Function]bool{}) {
				exps = append(exps, c37Expander{fn: fn, call: call, callback: cb})
			}
		}
	}
	// hand-written scanners: a function string -> string that applies a regexp Find* method to its
	// parameter and reads the environment (directly or through helpers)
	for _, fn := range p.FuncsInPkg("internal/config") {
		if fn.Parent() != nil || len(fn.Params) == 0 || fn.Signature.Results().Len() != 1 {
			continue
		}
		already := false
		for _, e := range exps {
			if e.fn == fn {
				already = true
			}
		}
		if already {
			continue
		}
		for _, c := range kit.Calls(fn) {
			cal := kit.CalleeOf(c)
			call, ok := c.(*ssa.Call)
			if !ok || cal.Pkg != "regexp" || cal.Recv != "Regexp" || !strings.HasPrefix(cal.Name, "Find") || !strings.Contains(cal.Name, "String") {
				continue
			}
			if _, isParam := kit.Arg(c, 0).(*ssa.Parameter); !isParam {
				continue
			}
			if c37ReadsEnv(fn, 0, map[*ssa.Function]bool{}) {
				exps = append(exps, c37Expander{fn: fn, call: call, scanner: true})
				break
			}
		}
	}
	if len(exps) == 0 {
		// the regexp mechanism is gone: if the package expands through os.Expand/os.ExpandEnv
		// instead, that replacement is the violation (different semantics), not a blind spot
		n := 0
		for _, fn := range p.FuncsInPkg("internal/config") {
			for _, c := range kit.Calls(fn) {
				if cal := kit.CalleeOf(c); cal.Pkg == "os" && cal.Recv == "" && (cal.Name == "Expand" || cal.Name == "ExpandEnv") {
					n++
					r.Violation("C37.R3", fmt.Sprintf("%s %s #%d", kit.FuncName(fn), cal.String(), n), p.Pos(c.Pos()),
						"configuration text is expanded by %s instead of a pattern pass whose callback returns the LookupEnv value / the reference as written: an unset variable without default is replaced (by the empty string) instead of being left as written, and ${VAR:-default} is not honoured", cal.String())
				}
			}
		}
		if n > 0 {
			return
		}
	}
	if !r.Require(len(exps) >= 1, "anchor-unresolved: no function of internal/config passes an environment-reading callback to (*regexp.Regexp).ReplaceAllStringFunc") {
		return
	}
	r.Count("expanders", len(exps))
	isExpander := func(f *ssa.Function) bool {
		for _, e := range exps {
			if e.fn == f {
				return true
			}
		}
		return false
	}

	passNo := map[*ssa.Function]int{}
	perFn := map[*ssa.Function]int{}
	for _, e := range exps {
		perFn[e.fn]++
	}
	for _, e := range exps {
		fname := kit.FuncName(e.fn)
		pos := p.Pos(e.call.Pos())
		passNo[e.fn]++
		sfx := ""
		if perFn[e.fn] > 1 {
			sfx = fmt.Sprintf(" (pass #%d)", passNo[e.fn])
		}
		if e.scanner {
			c37Scanner(p, r, e, exps, fname, pos)
			continue
		}
		if passNo[e.fn] == 1 {
			// ---- R1 (a): exactly one pass in the expander and everything it defines (once per function)
			c37SinglePass(p, r, e, exps, fname, pos)
		}
		// ---- R1 (b): input is the parameter, output is the call
		in := kit.Arg(e.call, 0)
		_, isParam := in.(*ssa.Parameter)
		chained := ""
		for _, src := range kit.Slice(in, kit.SliceOpts{Prog: p}) {
			if src.Kind == kit.SrcCall && c37IsPass(kit.CalleeOf(src.Call)) {
				chained = p.Pos(src.Call.Pos())
			}
		}
		badIn := "the text handed to ReplaceAllStringFunc is not the expander's parameter itself: text without '$' can be altered before the pass"
		if chained != "" {
			badIn = "the text handed to this substitution pass is the output of the substitution pass at " + chained + " (chained passes): values and defaults substituted by the first pass are scanned and expanded again by this one"
		}
		r.Decide(isParam && e.call.Parent() == e.fn, "C37.R1", fname+" input"+sfx, pos,
			"the pass runs over the unmodified parameter", badIn)
		rets := kit.Returns(e.fn)
		okOut := len(rets) > 0
		for _, ret := range rets {
			if ret.Block() == e.fn.Recover {
				continue
			}
			for _, l := range kit.GuardedLeaves(kit.ReturnResult(ret, 0), ret) {
				if l.V == ssa.Value(e.call) {
					continue
				}
				// fast path: the parameter itself, returned only when it contains no '$'
				if l.V == in && isParam && c37NoDollarGuard(l.Guards, in) {
					continue
				}
				if perFn[e.fn] > 1 {
					if c, isCall := l.V.(*ssa.Call); isCall && c37IsPass(kit.CalleeOf(c)) {
						continue // judged with the pass that produces it
					}
				}
				okOut = false
			}
		}
		r.Decide(okOut, "C37.R1", fname+" result"+sfx, pos,
			"every return yields the result of the single pass unmodified",
			"the expander returns something other than the unmodified result of its single pass: text without '$' (or a substituted value) is altered after the pass")

		// ---- R2: the pattern
		c37Pattern(p, r, e, fname+sfx)

		// ---- R3: callback return values
		c37CallbackReturns(p, r, e)
	}

	// ---- R1 (c): call sites
	nSites := 0
	for _, e := range exps {
		ord := map[string]int{}
		for _, site := range p.StaticCallers(e.fn) {
			caller := site.Parent()
			if kit.TopLevel(caller) == kit.TopLevel(e.fn) {
				continue // re-entry is judged above
			}
			nSites++
			cn := kit.FuncName(caller)
			ord[cn]++
			key := fmt.Sprintf("call site %s #%d of %s", cn, ord[cn], kit.FuncName(e.fn))
			bad := ""
			for _, src := range kit.Slice(kit.Arg(site, 0), kit.SliceOpts{Prog: p}) {
				switch src.Kind {
				case kit.SrcCall:
					if cal := kit.CalleeOf(src.Call); cal.Static != nil && isExpander(cal.Static) {
						bad = "the argument is itself a result of the expander (second pass)"
					} else if c37IsPass(cal) {
						bad = "the argument is the result of another expansion pass (" + cal.String() + ")"
					}
				case kit.SrcField:
					if src.Field != nil && src.Field.Pkg() != nil && src.Field.Pkg().Path() == kit.PkgPath("internal/config") {
						bad = "the argument is the decoded configuration field " + src.Field.Name() + " (its text already went through the expander before decoding)"
					}
				}
			}
			r.Decide(bad == "", "C37.R1", key, p.Pos(site.Pos()),
				"the expander is applied to text that was not expanded before",
				bad+": a value substituted from the environment is expanded a second time")
		}
	}
	r.Count("expander_call_sites", nSites)

	// ---- R1 (d): no other environment expansion of expanded / decoded text in the package
	nOther := 0
	for _, fn := range p.FuncsInPkg("internal/config") {
		top := kit.TopLevel(fn)
		if isExpander(top) {
			continue
		}
		inCallback := false
		for _, e := range exps {
			if e.callback != nil && kit.TopLevel(e.callback) == top {
				inCallback = true
			}
		}
		if inCallback {
			continue
		}
		ord := 0
		for _, c := range kit.Calls(fn) {
			cal := kit.CalleeOf(c)
			if !(cal.Pkg == "os" && cal.Recv == "" && (cal.Name == "Expand" || cal.Name == "ExpandEnv")) {
				continue
			}
			nOther++
			ord++
			bad := ""
			for _, src := range kit.Slice(kit.Arg(c, 0), kit.SliceOpts{Prog: p}) {
				switch src.Kind {
				case kit.SrcCall:
					if sc := kit.CalleeOf(src.Call); sc.Static != nil && isExpander(sc.Static) {
						bad = "the expander's result"
					}
				case kit.SrcField:
					if src.Field != nil && src.Field.Pkg() != nil && src.Field.Pkg().Path() == kit.PkgPath("internal/config") {
						bad = "the decoded configuration field " + src.Field.Name()
					}
				}
			}
			r.Decide(bad == "", "C37.R1", fmt.Sprintf("%s %s #%d", kit.FuncName(fn), cal.String(), ord), p.Pos(c.Pos()),
				"environment expansion of text that did not go through the expander",
				cal.String()+" is applied to "+bad+": a value substituted from the environment is expanded a second time")
		}
	}
	r.Count("other_env_expansions_in_package", nOther)
	if nSites == 0 {
		// the expander is no longer used: if the package expands through os.Expand/os.ExpandEnv
		// instead, that replacement is the violation, not a blind spot
		n := 0
		for _, fn := range p.FuncsInPkg("internal/config") {
			for _, c := range kit.Calls(fn) {
				if cal := kit.CalleeOf(c); cal.Pkg == "os" && cal.Recv == "" && (cal.Name == "Expand" || cal.Name == "ExpandEnv") {
					n++
					r.Violation("C37.R3", fmt.Sprintf("%s %s replaces the expander #%d", kit.FuncName(fn), cal.String(), n), p.Pos(c.Pos()),
						"the pattern-based expander has no call site any more and configuration text is expanded by %s: an unset variable without default is replaced by the empty string instead of being left as written, and ${VAR:-default} is not honoured", cal.String())
				}
			}
		}
		r.Require(n > 0, "floor: the expander has no call site in the repository")
	}
}

// c37Pattern decides R2 for one expander.
func c37Pattern(p *kit.Program, r *kit.Report, e c37Expander, fname string) {
	pos := p.Pos(e.call.Pos())
	recv := kit.Receiver(e.call)
	var compile *ssa.Call
	srcDesc := ""
	switch x := recv.(type) {
	case *ssa.Call:
		compile = x
		srcDesc = "compiled in place"
	case *ssa.UnOp:
		g, ok := x.X.(*ssa.Global)
		if x.Op != token.MUL || !ok {
			break
		}
		srcDesc = "global " + g.Name()
		// every store to the global, in repository functions and package initialisers
		var stores []*ssa.Store
		fns := append([]*ssa.Function{}, p.RepoFuncs()...)
		for _, pk := range p.RepoPackages() {
			if sp := p.SSAPkg(pk.PkgPath); sp != nil {
				if in := sp.Func("init"); in != nil {
					fns = append(fns, in)
				}
			}
		}
		addrTaken := false
		for _, f := range fns {
			kit.Instrs(f, func(in ssa.Instruction) {
				if st, ok := in.(*ssa.Store); ok && st.Addr == ssa.Value(g) {
					stores = append(stores, st)
					return
				}
				// the address of the global used other than by load/store
				for _, op := range in.Operands(nil) {
					if op != nil && *op == ssa.Value(g) {
						if u, ok := in.(*ssa.UnOp); ok && u.Op == token.MUL {
							continue
						}
						if _, ok := in.(*ssa.Store); ok {
							continue
						}
						addrTaken = true
					}
				}
			})
		}
		r.Decide(len(stores) == 1 && !addrTaken, "C37.R2", fname+" pattern assigned once", pos,
			"the pattern variable has exactly one assignment (its initialiser)",
			fmt.Sprintf("the pattern variable %s has %d assignments (or its address escapes): the pattern in force is not the verified constant", g.Name(), len(stores)))
		for _, st := range stores {
			if c, _, ok := kit.ResultOf(st.Val); ok && compile == nil {
				if st.Parent().Name() == "init" {
					compile = c
				}
			}
		}
		if compile == nil && len(stores) > 0 {
			if c, _, ok := kit.ResultOf(stores[0].Val); ok {
				compile = c
			}
		}
	}
	if compile == nil {
		r.Violation("C37.R2", fname+" pattern constant", pos, "the regular expression used by the expander is not a pattern constant compiled by package regexp: its matches cannot be bounded to texts starting with '$'")
		return
	}
	cal := kit.CalleeOf(compile)
	flags := syntax.Perl
	okCompile := cal.Pkg == "regexp" && (cal.Name == "MustCompile" || cal.Name == "Compile")
	if cal.Pkg == "regexp" && (cal.Name == "MustCompilePOSIX" || cal.Name == "CompilePOSIX") {
		okCompile, flags = true, syntax.POSIX
	}
	pat, isConst := kit.ConstString(kit.Arg(compile, 0))
	if !okCompile || !isConst {
		r.Violation("C37.R2", fname+" pattern constant", pos, "the regular expression (%s) is not compiled from a string constant by regexp.(Must)Compile: its matches cannot be bounded to texts starting with '$'", srcDesc)
		return
	}
	re, err := syntax.Parse(pat, flags)
	if err != nil {
		r.Violation("C37.R2", fname+" pattern constant", pos, "the pattern constant does not parse (%v): MustCompile panics at start-up", err)
		return
	}
	r.OK("C37.R2", fname+" pattern constant", pos, "pattern %q (%s)", pat, srcDesc)
	nAlt := 0
	ok, why := c37StartsWithDollar(re, &nAlt)
	r.Count("pattern_leading_atoms", nAlt)
	r.Decide(ok, "C37.R2", fname+" pattern begins with '$'", pos,
		fmt.Sprintf("every match of %q must begin with a literal '$' (%d leading atom(s) examined)", pat, nAlt),
		fmt.Sprintf("pattern %q can match text that does not begin with '$' (%s): configuration text without a dollar sign is rewritten", pat, why))
}

// c37StartsWithDollar: every string matched by re is non-empty and begins with the rune '$'.
func c37StartsWithDollar(re *syntax.Regexp, n *int) (bool, string) {
	switch re.Op {
	case syntax.OpLiteral:
		*n++
		if len(re.Rune) > 0 && re.Rune[0] == '$' {
			return true, ""
		}
		return false, fmt.Sprintf("alternative begins with literal %q", string(re.Rune))
	case syntax.OpCharClass:
		*n++
		if len(re.Rune) == 2 && re.Rune[0] == '$' && re.Rune[1] == '$' {
			return true, ""
		}
		return false, "alternative begins with a character class other than [$]"
	case syntax.OpCapture, syntax.OpPlus:
		return c37StartsWithDollar(re.Sub[0], n)
	case syntax.OpRepeat:
		if re.Min >= 1 {
			return c37StartsWithDollar(re.Sub[0], n)
		}
		return false, "alternative begins with an optional repetition"
	case syntax.OpConcat:
		if len(re.Sub) == 0 {
			return false, "empty alternative"
		}
		return c37StartsWithDollar(re.Sub[0], n)
	case syntax.OpAlternate:
		for _, s := range re.Sub {
			if ok, why := c37StartsWithDollar(s, n); !ok {
				return false, why
			}
		}
		return len(re.Sub) > 0, "empty alternation"
	}
	*n++
	return false, "alternative begins with " + re.Op.String() + " (" + re.String() + ")"
}

// c37SubOfMatch: v is the callback's parameter or a (slice of a ...) slice of it.
func c37SubOfMatch(v ssa.Value, param ssa.Value, depth int) bool {
	if v == param {
		return true
	}
	if depth > 12 {
		return false
	}
	switch x := v.(type) {
	case *ssa.Slice:
		return c37SubOfMatch(x.X, param, depth+1)
	case *ssa.Phi:
		for _, e := range x.Edges {
			if !c37SubOfMatch(e, param, depth+1) {
				return false
			}
		}
		return len(x.Edges) > 0
	}
	return false
}

// c37OkGuard: cond (with polarity) is the ok result of an os.LookupEnv call; returns the call
// and whether "ok is true" is established.
func c37OkGuard(g kit.Guard) (*ssa.Call, bool, bool) {
	cond, pol := g.Cond, g.Polarity
	for {
		if u, ok := cond.(*ssa.UnOp); ok && u.Op == token.NOT {
			cond, pol = u.X, !pol
			continue
		}
		if b, ok := cond.(*ssa.BinOp); ok && (b.Op == token.EQL || b.Op == token.NEQ) {
			if k, isc := kit.ConstBool(b.Y); isc {
				if (b.Op == token.EQL) != k {
					pol = !pol
				}
				cond = b.X
				continue
			}
		}
		break
	}
	ex, ok := cond.(*ssa.Extract)
	if !ok || ex.Index != 1 {
		return nil, false, false
	}
	c, ok := ex.Tuple.(*ssa.Call)
	if !ok {
		return nil, false, false
	}
	if cal := kit.CalleeOf(c); !(cal.Pkg == "os" && cal.Name == "LookupEnv") {
		return nil, false, false
	}
	return c, pol, true
}

// c37GuardsOnEdge: guards that hold when control flows pred -> succ.
func c37GuardsOnEdge(pred, succ *ssa.BasicBlock) []kit.Guard {
	gs := append([]kit.Guard{}, kit.Guards(pred)...)
	if n := len(pred.Instrs); n > 0 {
		if ifi, ok := pred.Instrs[n-1].(*ssa.If); ok && pred.Succs[0] != pred.Succs[1] {
			if pred.Succs[0] == succ {
				gs = append(gs, kit.Guard{Cond: ifi.Cond, Polarity: true, If: ifi})
			} else if pred.Succs[1] == succ {
				gs = append(gs, kit.Guard{Cond: ifi.Cond, Polarity: false, If: ifi})
			}
		}
	}
	return gs
}

type c37Leaf struct {
	v  ssa.Value
	gs []kit.Guard
}

// c37Leaves expands v through phis, attaching to each leaf the guards of the edge it arrives on.
func c37Leaves(v ssa.Value, gs []kit.Guard, seen map[ssa.Value]bool, out *[]c37Leaf) {
	if phi, ok := v.(*ssa.Phi); ok {
		if seen[v] {
			return
		}
		seen[v] = true
		for i, e := range phi.Edges {
			// both hold for this leaf: what guards the use, and what selected this edge of the phi
			merged := append(append([]kit.Guard{}, gs...), c37GuardsOnEdge(phi.Block().Preds[i], phi.Block())...)
			c37Leaves(e, merged, seen, out)
		}
		return
	}
	*out = append(*out, c37Leaf{v, gs})
}

func c37CallbackReturns(p *kit.Program, r *kit.Report, e c37Expander) {
	cb := e.callback
	cbName := kit.FuncName(cb)
	if !r.Require(len(cb.Params) >= 1, "anchor-unresolved: callback %s has no parameter", cbName) {
		return
	}
	// the match is the last parameter (a method value / closure may carry a receiver first)
	param := ssa.Value(cb.Params[len(cb.Params)-1])
	if b, ok := param.Type().Underlying().(*types.Basic); !ok || b.Kind() != types.String {
		r.Floor("anchor-unresolved: callback %s parameter is not a string", cbName)
		return
	}
	cnt := &c37Counts{}
	c37AnalyseReturns(p, r, cb, func(v ssa.Value) bool { return v == param }, func(v ssa.Value) bool { return v == param }, 0, map[*ssa.Function]bool{}, cnt)
	r.Count("callback_returns", cnt.ret)
	r.Count("callback_return_values", cnt.leaf)
	r.Count("env_lookups", cnt.look)
	r.Require(cnt.ret >= 1, "floor: callback %s has no return", cbName)
}

type c37Counts struct{ ret, leaf, look int }

// c37SubOfF: v is one of the base values (the match, or a parameter bound to a sub-slice of
// the match) or a (slice of a ...) slice of one.
func c37SubOfF(v ssa.Value, base func(ssa.Value) bool, depth int) bool {
	if base(v) {
		return true
	}
	if depth > 12 {
		return false
	}
	switch x := v.(type) {
	case *ssa.Slice:
		return c37SubOfF(x.X, base, depth+1)
	case *ssa.Phi:
		for _, e := range x.Edges {
			if !c37SubOfF(e, base, depth+1) {
				return false
			}
		}
		return len(x.Edges) > 0
	case *ssa.Extract:
		// before / after of strings.Cut, the remainder of CutPrefix / CutSuffix
		if c, ok := x.Tuple.(*ssa.Call); ok {
			cal := kit.CalleeOf(c)
			if cal.Pkg == "strings" && len(c.Call.Args) >= 1 {
				switch {
				case cal.Name == "Cut" && x.Index <= 1, (cal.Name == "CutPrefix" || cal.Name == "CutSuffix") && x.Index == 0:
					return c37SubOfF(c.Call.Args[0], base, depth+1)
				}
			}
		}
	case *ssa.Call:
		cal := kit.CalleeOf(x)
		if cal.Pkg == "strings" && len(x.Call.Args) >= 1 {
			switch cal.Name {
			case "TrimPrefix", "TrimSuffix", "TrimSpace", "Trim", "TrimLeft", "TrimRight", "TrimFunc", "TrimLeftFunc", "TrimRightFunc":
				return c37SubOfF(x.Call.Args[0], base, depth+1)
			}
		}
		// a repository helper every return of which is a sub-slice of an argument that is
		// itself a sub-slice of the match (envRefBody(ref) = ref[1:] / ref[2:len(ref)-1])
		if h := cal.Static; h != nil && h.Blocks != nil && kit.IsRepoPkg(kit.FuncPkgPath(h)) && depth < 6 {
			args := x.Call.Args
			hb := func(q ssa.Value) bool {
				for i, prm := range h.Params {
					if q == ssa.Value(prm) && i < len(args) && c37SubOfF(args[i], base, depth+2) {
						return true
					}
				}
				return false
			}
			n := 0
			for _, ret := range kit.Returns(h) {
				if ret.Block() == h.Recover || len(ret.Results) != 1 {
					continue
				}
				n++
				if !c37SubOfF(ret.Results[0], hb, depth+2) {
					return false
				}
			}
			return n > 0
		}
	}
	return false
}

// c37AnalyseReturns decides R3 for fn: the callback itself, or a helper the callback returns
// the result of (resolveEnvRef(match[2:len(match)-1], match)). base recognises the values of
// fn's frame that are (sub-slices of) the match; whole recognises the match as written.
func c37AnalyseReturns(p *kit.Program, r *kit.Report, fn *ssa.Function, base, whole func(ssa.Value) bool, depth int, seen map[*ssa.Function]bool, cnt *c37Counts) {
	if seen[fn] {
		return
	}
	seen[fn] = true // on the analysis stack (recursion guard)
	defer delete(seen, fn)
	name := kit.FuncName(fn)
	nRet := 0
	for _, ret := range kit.Returns(fn) {
		if ret.Block() == fn.Recover || len(ret.Results) == 0 {
			continue
		}
		nRet++
		cnt.ret++
		var leaves []c37Leaf
		c37Leaves(kit.ReturnResult(ret, 0), kit.GuardsOf(ret), map[ssa.Value]bool{}, &leaves)
		for j, l := range leaves {
			cnt.leaf++
			key := fmt.Sprintf("%s return #%d value #%d", name, nRet, j+1)
			pos := p.Pos(ret.Pos())
			// established lookup facts
			var okTrue, okFalse []*ssa.Call
			for _, g := range l.gs {
				if c, isTrue, ok := c37OkGuard(g); ok {
					if isTrue {
						okTrue = append(okTrue, c)
					} else {
						okFalse = append(okFalse, c)
					}
				}
			}
			isLookup := false
			if ex, ok := l.v.(*ssa.Extract); ok && ex.Index == 0 {
				if c, ok := ex.Tuple.(*ssa.Call); ok && kit.CalleeOf(c).Pkg == "os" && kit.CalleeOf(c).Name == "LookupEnv" {
					isLookup = true
				}
			}
			switch {
			case isLookup:
				c := l.v.(*ssa.Extract).Tuple.(*ssa.Call)
				on := false
				for _, t := range okTrue {
					if t == c {
						on = true
					}
				}
				r.Decide(on, "C37.R3", key, pos,
					"the looked-up value is returned, unmodified, on the ok edge of its lookup",
					"the value of os.LookupEnv is returned without its ok result being established: an unset variable is replaced by the empty string instead of its default / the reference as written")
			case c37SubOfF(l.v, base, 0):
				what := "a sub-slice of the match (the default)"
				if whole(l.v) {
					what = "the match as written"
				}
				r.Decide(len(okFalse) > 0, "C37.R3", key, pos,
					what+" is returned on the !ok edge of a lookup",
					what+" is returned although no lookup has reported the variable unset on this path: a reference to a set variable is not replaced by its value")
			default:
				// the result of a repository helper that is handed (parts of) the match
				if call, ok := l.v.(*ssa.Call); ok && depth < 3 {
					h := kit.CalleeOf(call).Static
					if h != nil && h.Blocks != nil && kit.IsRepoPkg(kit.FuncPkgPath(h)) && !seen[h] && !c37IsPass(kit.CalleeOf(call)) {
						args := call.Call.Args
						hb := func(v ssa.Value) bool {
							for i, prm := range h.Params {
								if v == ssa.Value(prm) && i < len(args) && c37SubOfF(args[i], base, 0) {
									return true
								}
							}
							return false
						}
						hw := func(v ssa.Value) bool {
							for i, prm := range h.Params {
								if v == ssa.Value(prm) && i < len(args) && whole(args[i]) {
									return true
								}
							}
							return false
						}
						cnt.leaf--
						c37AnalyseReturns(p, r, h, hb, hw, depth+1, seen, cnt)
						continue
					}
				}
				r.Violation("C37.R3", key, pos, "the callback returns %s, which is neither the unmodified result of os.LookupEnv, nor the match, nor a sub-slice of the match: the substituted text is computed (possibly expanded again) or an unset reference is not left as written", c37Describe(l.v))
			}
		}
	}
	// looked-up names come from the match
	n := 0
	for _, f := range kit.WithClosures(fn) {
		for _, c := range kit.Calls(f) {
			if cal := kit.CalleeOf(c); cal.Pkg == "os" && cal.Name == "LookupEnv" {
				n++
				cnt.look++
				r.Decide(f == fn && c37SubOfF(kit.Arg(c, 0), base, 0), "C37.R3", fmt.Sprintf("%s lookup #%d name", name, n), p.Pos(c.Pos()),
					"the looked-up name is a sub-slice of the match",
					"the name handed to os.LookupEnv is not a sub-slice of the matched reference: a reference is replaced by the value of a different variable")
			}
		}
	}
}

func c37Describe(v ssa.Value) string {
	switch x := v.(type) {
	case *ssa.Const:
		return "the constant " + x.String()
	case *ssa.Call:
		return "the result of " + kit.CalleeOf(x).String()
	case *ssa.Extract:
		if c, ok := x.Tuple.(*ssa.Call); ok {
			return fmt.Sprintf("result #%d of %s", x.Index, kit.CalleeOf(c).String())
		}
	case *ssa.BinOp:
		return "a computed string (" + x.Op.String() + ")"
	}
	return "a value of kind " + fmt.Sprintf("%T", v)
}

// c37ReadsEnv: f (with its closures) or a repository function it calls reads the environment.
func c37ReadsEnv(f *ssa.Function, depth int, seen map[*ssa.Function]bool) bool {
	if f == nil || seen[f] || depth > 3 {
		return false
	}
	seen[f] = true
	for _, g := range kit.WithClosures(f) {
		for _, c := range kit.Calls(g) {
			cal := kit.CalleeOf(c)
			if c37IsEnvLookup(cal) {
				return true
			}
			if cal.Static != nil && cal.Static.Blocks != nil && kit.IsRepoPkg(kit.FuncPkgPath(cal.Static)) && c37ReadsEnv(cal.Static, depth+1, seen) {
				return true
			}
		}
	}
	return false
}

// c37NoDollarGuard: the guards establish that text contains no '$' (strings.Contains /
// ContainsRune / IndexByte ... tested on it).
func c37NoDollarGuard(gs []kit.Guard, text ssa.Value) bool {
	for _, g := range gs {
		cond, pol := g.Cond, g.Polarity
		for {
			u, ok := cond.(*ssa.UnOp)
			if !ok || u.Op != token.NOT {
				break
			}
			cond, pol = u.X, !pol
		}
		switch x := cond.(type) {
		case *ssa.Call:
			cal := kit.CalleeOf(x)
			if cal.Pkg == "strings" && (cal.Name == "Contains" || cal.Name == "ContainsRune" || cal.Name == "ContainsAny") && len(x.Call.Args) == 2 && x.Call.Args[0] == text && !pol {
				if sv, ok := kit.ConstString(x.Call.Args[1]); ok && sv == "$" {
					return true
				}
				if k, ok := kit.ConstInt(x.Call.Args[1]); ok && k == '$' {
					return true
				}
			}
		case *ssa.BinOp:
			// strings.IndexByte(s, '$') < 0  /  == -1
			c, ok := x.X.(*ssa.Call)
			if !ok {
				continue
			}
			cal := kit.CalleeOf(c)
			if cal.Pkg != "strings" || (cal.Name != "IndexByte" && cal.Name != "Index" && cal.Name != "IndexRune") || len(c.Call.Args) != 2 || c.Call.Args[0] != text {
				continue
			}
			isDollar := false
			if sv, ok := kit.ConstString(c.Call.Args[1]); ok && sv == "$" {
				isDollar = true
			}
			if k, ok := kit.ConstInt(c.Call.Args[1]); ok && k == '$' {
				isDollar = true
			}
			k, isConst := kit.ConstInt(x.Y)
			if !isDollar || !isConst {
				continue
			}
			op := x.Op
			if !pol {
				switch op {
				case token.LSS:
					op = token.GEQ
				case token.GEQ:
					op = token.LSS
				case token.EQL:
					op = token.NEQ
				case token.NEQ:
					op = token.EQL
				}
			}
			if (op == token.LSS && k == 0) || (op == token.EQL && k == -1) {
				return true
			}
		}
	}
	return false
}

// c37SinglePass decides, once per expander function, that it and its callbacks contain one
// substitution pass and do not re-enter the expander.
func c37SinglePass(p *kit.Program, r *kit.Report, e c37Expander, exps []c37Expander, fname, pos string) {
	isExpander := func(f *ssa.Function) bool {
		for _, x := range exps {
			if x.fn == f {
				return true
			}
		}
		return false
	}
	scope := kit.WithClosures(kit.TopLevel(e.fn))
	if kit.TopLevel(e.callback) != kit.TopLevel(e.fn) {
		scope = append(scope, kit.WithClosures(e.callback)...)
	}
	passes, reenter := 0, ""
	for _, f := range scope {
		for _, c := range kit.Calls(f) {
			cal := kit.CalleeOf(c)
			if c37IsPass(cal) {
				passes++
			}
			if cal.Static != nil && isExpander(cal.Static) {
				reenter = p.Pos(c.Pos())
			}
		}
	}
	r.Decide(passes == 1, "C37.R1", fname+" single pass", pos,
		"one substitution pass (ReplaceAllStringFunc) in the expander and its callback",
		fmt.Sprintf("%d substitution passes (regexp Replace*/os.Expand*) in the expander and its callback: a value substituted by one pass is expanded again by the next", passes))
	r.Decide(reenter == "", "C37.R1", fname+" not re-entered", pos,
		"the expander is not called from itself or its callback",
		"the expander is called again at "+reenter+" from inside the expansion: substituted environment values are expanded again")

}

// c37IsScan: a call that scans text for references (another pass when applied to produced text).
func c37IsScan(cal kit.Callee) bool {
	if c37IsPass(cal) {
		return true
	}
	return cal.Pkg == "regexp" && cal.Recv == "Regexp" && strings.HasPrefix(cal.Name, "Find")
}

// c37Scanner judges a hand-written scanner (regexp Find* over the parameter, output assembled
// with a strings.Builder): what can be decided exactly is decided, the rest is stated as info.
func c37Scanner(p *kit.Program, r *kit.Report, e c37Expander, exps []c37Expander, fname, pos string) {
	fn := e.fn
	param := kit.Arg(e.call, 0)
	// R1: one scan, over the parameter, never over produced text
	scans, reenter, badIn := 0, "", ""
	for _, f := range kit.WithClosures(fn) {
		for _, c := range kit.Calls(f) {
			cal := kit.CalleeOf(c)
			if c37IsScan(cal) {
				scans++
				if a := kit.Arg(c, 0); a != param {
					badIn = p.Pos(c.Pos())
				}
			}
			for _, x := range exps {
				if cal.Static == x.fn {
					reenter = p.Pos(c.Pos())
				}
			}
		}
	}
	r.Decide(scans == 1, "C37.R1", fname+" single pass", pos,
		"one scan for references (regexp Find*) in the expander",
		fmt.Sprintf("%d scanning/substitution calls (regexp Find*/Replace*, os.Expand*) in the expander: text produced by one pass is scanned again by the next", scans))
	r.Decide(reenter == "", "C37.R1", fname+" not re-entered", pos,
		"the expander is not called from itself",
		"the expander is called again at "+reenter+" from inside the expansion: substituted environment values are expanded again")
	r.Decide(badIn == "", "C37.R1", fname+" input", pos,
		"the scan runs over the unmodified parameter",
		"the scan at "+badIn+" runs over text that is not the expander's parameter (e.g. the partially built output): substituted values are scanned and expanded again")
	r.Infof("C37.R1", fname+" result", pos, "hand-written scanner: the segments written to the output are judged one by one (C37.R3); that their concatenation is returned unmodified is not judged")

	// R2: the pattern
	c37Pattern(p, r, e, fname)

	// R3: every segment written to the output is verbatim input text or the outcome of a lookup
	base := func(v ssa.Value) bool { return v == param }
	cnt := &c37Counts{}
	nSeg := 0
	for _, c := range kit.Calls(fn) {
		cal := kit.CalleeOf(c)
		if !(cal.Pkg == "strings" && cal.Recv == "Builder" && cal.Name == "WriteString") {
			continue
		}
		nSeg++
		arg := kit.Arg(c, 0)
		key := fmt.Sprintf("%s output segment #%d", fname, nSeg)
		if c37SubOfF(arg, base, 0) {
			r.OK("C37.R3", key, p.Pos(c.Pos()), "verbatim text of the input")
			continue
		}
		if hc, ok := arg.(*ssa.Call); ok {
			h := kit.CalleeOf(hc).Static
			if h != nil && h.Blocks != nil && kit.IsRepoPkg(kit.FuncPkgPath(h)) && c37ReadsEnv(h, 0, map[*ssa.Function]bool{}) {
				args := hc.Call.Args
				hb := func(v ssa.Value) bool {
					for i, prm := range h.Params {
						if v == ssa.Value(prm) && i < len(args) && c37SubOfF(args[i], base, 0) {
							return true
						}
					}
					return false
				}
				r.OK("C37.R3", key, p.Pos(c.Pos()), "replacement computed by %s, judged below", kit.FuncName(h))
				c37AnalyseReturns(p, r, h, hb, func(ssa.Value) bool { return false }, 1, map[*ssa.Function]bool{}, cnt)
				continue
			}
		}
		r.Violation("C37.R3", key, p.Pos(c.Pos()), "the scanner writes %s to the output, which is neither verbatim input text nor the outcome of an environment lookup on a reference: text without '$' is altered or a substituted value is computed (possibly expanded again)", c37Describe(arg))
	}
	if nSeg == 0 {
		r.Infof("C37.R3", fname+" output segments", pos, "the scanner does not assemble its result with strings.Builder.WriteString; its replacement values are not judged")
	}
	r.Count("scanner_output_segments", nSeg)
	r.Count("callback_returns", cnt.ret)
	r.Count("env_lookups", cnt.look)
}
