package rules

// Round-2 analyses shared by the rule sets of group g4 (C11–C15):
//   - stored route records are replaced as a whole (no partial in-place refresh),
//   - the self-in-path test dominates every table write of the AddRoute methods,
//   - branches that skip the forwarding of a first-seen announcement (after the seen-cache mark)
//     and what their conditions depend on.

import (
	"fmt"
	"go/token"
	"go/types"
	"sort"
	"strings"

	"golang.org/x/tools/go/ssa"

	"mmverify/kit"
)

const g4RoutingPkg = "internal/routing"

// g4IsRouteRecord: n is a struct of internal/routing with NextHop, Metric and Path fields.
func g4IsRouteRecord(n *types.Named) bool {
	return n != nil && n.Obj().Pkg() != nil && n.Obj().Pkg().Path() == kit.PkgPath(g4RoutingPkg) &&
		c11HasField(n, "NextHop") != nil && c11HasField(n, "Metric") != nil && c11HasField(n, "Path") != nil
}

// g4Fresh: v denotes a record created in this function (allocation, clone or other call result),
// a parameter, or nil — i.e. not a record taken out of a table.
func g4Fresh(v ssa.Value) bool {
	for _, l := range kit.PhiLeaves(v) {
		switch x := l.(type) {
		case *ssa.Alloc, *ssa.Call, *ssa.Parameter, *ssa.Const:
		case *ssa.Extract:
			if _, ok := x.Tuple.(*ssa.Call); !ok {
				return false
			}
		default:
			return false
		}
	}
	return true
}

// g4InPlace is one group of field stores into a stored route record.
type g4InPlace struct {
	fn      *ssa.Function
	typ     *types.Named
	base    ssa.Value
	written map[string]bool
	first   ssa.Instruction
	missing []string
	key     string
}

// g4InPlaceUpdates finds, in every function of internal/routing, stores into fields of a route
// record that was taken out of a table (slice element, map value, range variable), and decides
// whether the fields that describe one advertisement (Metric, Sequence, Path, EncPath, and NextHop
// unless the update is guarded by an equal-NextHop test) are written together.
func g4InPlaceUpdates(p *kit.Program) []*g4InPlace {
	var out []*g4InPlace
	coupled := []string{"Metric", "Sequence", "Path", "EncPath"}
	for _, fn := range p.FuncsInPkg(g4RoutingPkg) {
		groups := map[ssa.Value]*g4InPlace{}
		var order []ssa.Value
		kit.Instrs(fn, func(in ssa.Instruction) {
			st, ok := in.(*ssa.Store)
			if !ok {
				return
			}
			fa, ok := st.Addr.(*ssa.FieldAddr)
			if !ok {
				return
			}
			n := c11NamedOf(fa.X.Type())
			if !g4IsRouteRecord(n) || g4Fresh(fa.X) {
				return
			}
			f := kit.FieldOfAddr(fa)
			if f == nil {
				return
			}
			// group by the record value (loads of the same place count as one record)
			var g *g4InPlace
			for b, gg := range groups {
				if b == fa.X || c11SameLoad(b, fa.X) {
					g = gg
				}
			}
			if g == nil {
				g = &g4InPlace{fn: fn, typ: n, base: fa.X, written: map[string]bool{}, first: in}
				groups[fa.X] = g
				order = append(order, fa.X)
			}
			g.written[f.Name()] = true
		})
		ord := 0
		for _, b := range order {
			g := groups[b]
			touches := false
			for _, name := range append([]string{"NextHop"}, coupled...) {
				if g.written[name] {
					touches = true
				}
			}
			if !touches {
				continue // e.g. only LastUpdate refreshed
			}
			ord++
			g.key = fmt.Sprintf("%s in-place update of stored %s #%d", kit.FuncName(fn), g.typ.Obj().Name(), ord)
			for _, name := range coupled {
				if !g.written[name] {
					g.missing = append(g.missing, name)
				}
			}
			if !g.written["NextHop"] && !g4GuardedEqualField(g.first, g.base, "NextHop") {
				g.missing = append(g.missing, "NextHop")
			}
			out = append(out, g)
		}
	}
	return out
}

// g4GuardedEqualField: instruction `in` executes only when base.<field> equals the same field of
// another record.
func g4GuardedEqualField(in ssa.Instruction, base ssa.Value, field string) bool {
	for _, g := range c11Guards(in) {
		b, ok := g.Cond.(*ssa.BinOp)
		if !ok || !((b.Op == token.EQL && g.Polarity) || (b.Op == token.NEQ && !g.Polarity)) {
			continue
		}
		fx, bx := kit.LoadedField(b.X)
		fy, by := kit.LoadedField(b.Y)
		if fx == nil || fy == nil || fx.Name() != field || fy.Name() != field {
			continue
		}
		if (bx == base || c11SameLoad(bx, base)) != (by == base || c11SameLoad(by, base)) {
			return true
		}
	}
	return false
}

// g4ReportInPlace reports the in-place updates under the given rule with a property-specific consequence.
func g4ReportInPlace(p *kit.Program, r *kit.Report, rule, consequence string) {
	ups := g4InPlaceUpdates(p)
	r.Count("in_place_updates_of_stored_routes", len(ups))
	for _, u := range ups {
		var w []string
		for f := range u.written {
			w = append(w, f)
		}
		sort.Strings(w)
		r.Decide(len(u.missing) == 0, rule, u.key, p.Pos(u.first.Pos()),
			"the stored record is rewritten with every field of the new advertisement",
			fmt.Sprintf("a stored route is refreshed in place: %s written, %s kept from the older advertisement: %s", strings.Join(w, ", "), strings.Join(u.missing, ", "), consequence))
	}
	r.OK(rule, "stored route records are replaced as a whole", "-", "%d in-place update(s) of stored route records found in internal/routing, none partial", len(ups))
}

// ---------------------------------------------------------------- self-in-path check

// g4TableWrite is an instruction of an AddRoute method that changes the table.
type g4TableWrite struct {
	in   ssa.Instruction
	what string
}

func g4TableWrites(fn *ssa.Function, depth int) []g4TableWrite {
	var out []g4TableWrite
	kit.Instrs(fn, func(in ssa.Instruction) {
		switch x := in.(type) {
		case *ssa.MapUpdate:
			out = append(out, g4TableWrite{in, "map insert"})
		case *ssa.Store:
			switch a := x.Addr.(type) {
			case *ssa.IndexAddr:
				if n := c11NamedOf(x.Val.Type()); g4IsRouteRecord(n) {
					out = append(out, g4TableWrite{in, "slot replace"})
				}
			case *ssa.FieldAddr:
				if n := c11NamedOf(a.X.Type()); g4IsRouteRecord(n) && !g4Fresh(a.X) {
					if f := kit.FieldOfAddr(a); f != nil && f.Name() != "LastUpdate" {
						out = append(out, g4TableWrite{in, "field " + f.Name() + " of a stored record"})
					}
				}
			}
		case ssa.CallInstruction:
			cal := kit.CalleeOf(x)
			if depth < 2 && cal.Static != nil && cal.Static != fn && cal.Static.Blocks != nil && kit.FuncPkgPath(cal.Static) == kit.PkgPath(g4RoutingPkg) {
				// a helper of the package (method or function) that is handed the record and inserts /
				// replaces; sorting helpers re-store existing slots and take no record
				takes := false
				for i, prm := range cal.Static.Params {
					if i == 0 && cal.Static.Signature.Recv() != nil {
						continue
					}
					if g4IsRouteRecord(c11NamedOf(prm.Type())) {
						takes = true
					}
				}
				if takes {
					for _, w := range g4TableWrites(cal.Static, depth+1) {
						if w.what == "map insert" || w.what == "slot replace" || strings.HasPrefix(w.what, "via ") || strings.HasPrefix(w.what, "field ") {
							out = append(out, g4TableWrite{in, "via " + cal.Name})
							break
						}
					}
				}
			}
		}
	})
	return out
}

func g4BlockReaches(from, to *ssa.BasicBlock) bool {
	seen := map[*ssa.BasicBlock]bool{}
	work := []*ssa.BasicBlock{from}
	for len(work) > 0 {
		b := work[len(work)-1]
		work = work[:len(work)-1]
		if b == to {
			return true
		}
		if seen[b] {
			continue
		}
		seen[b] = true
		work = append(work, b.Succs...)
	}
	return false
}

// g4SelfInPath decides, for every AddRoute method of a routing table type, that each table write is
// preceded on every path by the loop that rejects a route whose Path contains the table's own id.
func g4SelfInPath(p *kit.Program, cx *c11Flood, r *kit.Report, rule string) {
	n := 0
	for _, fn := range p.FuncsInPkg(g4RoutingPkg) {
		if fn.Name() != "AddRoute" || fn.Signature.Recv() == nil || len(fn.Params) != 2 || !g4IsRouteRecord(c11NamedOf(fn.Params[1].Type())) {
			continue
		}
		n++
		fnn := kit.FuncName(fn)
		writes := g4TableWrites(fn, 0)
		if len(writes) == 0 {
			r.Floor("floor: %s has no table write", fnn)
			continue
		}
		// the loop check: elem(route.Path) == recv.<AgentID field>
		var checkIf *ssa.If
		var rejectSucc *ssa.BasicBlock
		callForm := false
		for _, b := range fn.Blocks {
			if len(b.Instrs) == 0 {
				continue
			}
			ifi, ok := b.Instrs[len(b.Instrs)-1].(*ssa.If)
			if !ok {
				continue
			}
			c, pol := c11Norm(ifi.Cond, true)
			isOwnID := func(v ssa.Value) bool {
				f, base := kit.LoadedField(v)
				return f != nil && c12Deref(base) == ssa.Value(fn.Params[0]) && c11IsAgentID(cx, f.Type())
			}
			// membership form: slices.Contains(route.Path, t.localID), slices.Index(...) != -1, a
			// membership helper, or a predicate of the table / the route (t.pathHasLoop(route.Path),
			// route.traverses(t.localID)): the list must be the Path of the route parameter, the
			// element an AgentID field of the receiver
			_ = isOwnID
			if list, elem, chain, memberWhen, isM := c11MemberDesc(c, nil, 0); isM && c11IsAgentID(cx, elem.Type()) {
				ld, ed := c11Desc(list, chain), c11Desc(elem, chain)
				if ld == fnn+"#1.Path" && strings.HasPrefix(ed, fnn+"#0.") && !strings.Contains(ed, "@") {
					checkIf, callForm = ifi, true
					if memberWhen == pol {
						rejectSucc = b.Succs[0]
					} else {
						rejectSucc = b.Succs[1]
					}
					continue
				}
			}
			bo, ok := c.(*ssa.BinOp)
			if !ok || (bo.Op != token.EQL && bo.Op != token.NEQ) {
				continue
			}
			isElem := func(v ssa.Value) bool {
				u, ok := v.(*ssa.UnOp)
				if !ok || u.Op != token.MUL {
					return false
				}
				ia, ok := u.X.(*ssa.IndexAddr)
				if !ok {
					return false
				}
				f, base := kit.LoadedField(ia.X)
				return f != nil && f.Name() == "Path" && c12Deref(base) == ssa.Value(fn.Params[1])
			}
			isOwn := func(v ssa.Value) bool {
				f, base := kit.LoadedField(v)
				return f != nil && c12Deref(base) == ssa.Value(fn.Params[0]) && c11IsAgentID(cx, f.Type())
			}
			if !((isElem(bo.X) && isOwn(bo.Y)) || (isElem(bo.Y) && isOwn(bo.X))) {
				continue
			}
			checkIf, callForm = ifi, false
			equalOnTrue := (bo.Op == token.EQL) == pol
			if equalOnTrue {
				rejectSucc = b.Succs[0]
			} else {
				rejectSucc = b.Succs[1]
			}
		}
		var header *ssa.BasicBlock
		if checkIf != nil && callForm {
			header = checkIf.Block() // the membership call scans the whole path before the branch
		} else if checkIf != nil {
			for d := checkIf.Block(); d != nil && header == nil; d = d.Idom() {
				for _, pr := range d.Preds {
					if d == pr || d.Dominates(pr) {
						header = d
					}
				}
			}
		}
		for i, w := range writes {
			key := fmt.Sprintf("%s table write #%d (%s) after self-in-path check", fnn, i+1, w.what)
			pos := p.Pos(w.in.Pos())
			switch {
			case checkIf == nil || header == nil:
				r.Violation(rule, key, pos, "the method has no loop rejecting a route whose Path contains the table's own id: an announcement that came back to this agent is stored and opens along it loop")
			default:
				ok := header.Dominates(w.in.Block()) && !g4BlockReaches(w.in.Block(), header) && !g4BlockReaches(rejectSucc, w.in.Block())
				r.Decide(ok, rule, key, pos,
					"reached only after the whole path was scanned for the own id",
					"this table write is reachable without the self-in-path scan having run (or on its reject edge): a replayed or re-flooded route whose path passes through this agent replaces/enters the table and forms a forwarding loop")
			}
		}
	}
	r.Count("addroute_methods", n)
	r.Require(n >= 4, "floor: %d AddRoute methods of route tables found in internal/routing, expected at least 4", n)
}

// ---------------------------------------------------------------- skip branches after the seen mark

// g4Skip is a branch, taken after an announcement was recorded as first-seen, one side of which
// can no longer reach any forward call of the entry point.
type g4Skip struct {
	ifi      *ssa.If
	cond     ssa.Value // normalised
	skipOn   bool      // truth value of cond on the skipping edge
	skipSucc *ssa.BasicBlock
	ord      int
	wraps    bool // the continuing edge implies the dedup verdict (an admission helper wrapping the dedup)
}

// g4Cond is a condition a skipping edge depends on.
type g4Cond struct {
	v     ssa.Value
	wraps bool // it implies the dedup verdict: reads of the handler's own seen cache are legitimate
}

// g4InMarkedRegion: block b executes only after the dedup recorded the announcement as new.
func g4InMarkedRegion(d *c11Dedup, b *ssa.BasicBlock) bool {
	if len(b.Instrs) == 0 {
		return false
	}
	if d.call == nil {
		// inline: on the not-found outcome and after the insertion on every such path
		if d.insert.Block() == b {
			return true
		}
		return c11NotFoundGuard(b.Instrs[0], d) && !c11ReachSkippingInsert(d, b.Instrs[0])
	}
	if d.res == nil {
		return false
	}
	return c11FactHolds(b.Instrs[0], d.res, d.newVal)
}

// g4SkipBranches lists the skipping branches of entry point h after the mark (whole=false) or
// anywhere in h except the dedup test itself (whole=true).
func g4SkipBranches(cx *c11Flood, h *ssa.Function, d *c11Dedup, whole bool) []g4Skip {
	var fwd []*ssa.BasicBlock
	for _, s := range c11Sinks(cx, h) {
		if s.kind == "forward" {
			fwd = append(fwd, s.in.Block())
		}
	}
	reachesFwd := func(b *ssa.BasicBlock) bool {
		for _, f := range fwd {
			if g4BlockReaches(b, f) {
				return true
			}
		}
		return false
	}
	var out []g4Skip
	if d.call != nil {
		if _, ok := c11HelperPolarity(d); !ok {
			return nil
		}
		d.newVal, _ = c11HelperPolarity(d)
	}
	for _, b := range h.Blocks {
		if len(b.Instrs) == 0 || (!whole && !g4InMarkedRegion(d, b)) {
			continue
		}
		ifi, ok := b.Instrs[len(b.Instrs)-1].(*ssa.If)
		if !ok || b.Succs[0] == b.Succs[1] {
			continue
		}
		if c0, _ := c11Norm(ifi.Cond, true); d.isFoundTest(c0) || (d.res != nil && c0 == d.res) {
			continue // the dedup test itself
		}
		r0, r1 := reachesFwd(b.Succs[0]), reachesFwd(b.Succs[1])
		if r0 == r1 {
			continue
		}
		c, pol := c11Norm(ifi.Cond, true)
		sk := g4Skip{ifi: ifi, cond: c, ord: len(out) + 1}
		if !r0 {
			sk.skipSucc, sk.skipOn = b.Succs[0], pol
		} else {
			sk.skipSucc, sk.skipOn = b.Succs[1], !pol
		}
		sk.wraps = g4WrapsDedup(d, sk.cond, !sk.skipOn)
		out = append(out, sk)
	}
	return out
}

// g4SkipConds returns the conditions the skipping edge is control-dependent on inside the marked
// region: the branch's own condition and the dominating guards established after the mark
// (short-circuit chains, enclosing ifs), leaving out the self-in-seen-by test.
func g4SkipConds(cx *c11Flood, h *ssa.Function, d *c11Dedup, sk g4Skip, whole bool) []g4Cond {
	out := []g4Cond{{sk.cond, sk.wraps}}
	for _, g := range kit.Guards(sk.ifi.Block()) {
		if !whole && !g4InMarkedRegion(d, g.If.Block()) {
			continue
		}
		c, pol := c11Norm(g.Cond, g.Polarity)
		if g4IsSelfSeenTest(cx, h, c) || d.isFoundTest(c) || (d.res != nil && c == d.res) {
			continue
		}
		out = append(out, g4Cond{c, g4WrapsDedup(d, c, pol)})
	}
	return out
}

// g4SkipPos renders a position for a skipping branch (an If has no position of its own).
func g4SkipPos(p *kit.Program, sk g4Skip) string {
	if sk.ifi.Cond.Pos().IsValid() {
		return p.Pos(sk.ifi.Cond.Pos())
	}
	for _, in := range sk.ifi.Block().Instrs {
		if in.Pos().IsValid() {
			return p.Pos(in.Pos())
		}
	}
	return "-"
}

// g4UndoesMark: the skipping side deletes an entry of a seen cache (the mark is taken back).
func g4UndoesMark(cx *c11Flood, sk g4Skip) bool {
	seen := map[*ssa.BasicBlock]bool{}
	work := []*ssa.BasicBlock{sk.skipSucc}
	for len(work) > 0 {
		b := work[len(work)-1]
		work = work[:len(work)-1]
		if seen[b] {
			continue
		}
		seen[b] = true
		for _, in := range b.Instrs {
			if ci, ok := in.(ssa.CallInstruction); ok && kit.CalleeOf(ci).Built == "delete" {
				if f, _ := kit.LoadedField(ci.Common().Args[0]); f != nil && cx.seenMaps[f] {
					return true
				}
			}
		}
		work = append(work, b.Succs...)
	}
	return false
}

// g4IsSelfSeenTest: cond is the membership test of the local id in the received seen-by list.
func g4IsSelfSeenTest(cx *c11Flood, h *ssa.Function, cond ssa.Value) bool {
	list, elem, chain, _, ok := c11MemberDesc(cond, nil, 0)
	return ok && c11LoadsField(elem, cx.localID) && c11RecvListVia(cx, list, chain, h)
}

// g4Operands walks the expression tree of v (operands, call arguments and receivers, phi edges,
// address bases, stores into local cells) and calls visit for every value; calls are also
// reported through onCall.
func g4Operands(v ssa.Value, visit func(ssa.Value), onCall func(*ssa.Call)) {
	seen := map[ssa.Value]bool{}
	var rec func(v ssa.Value, d int)
	rec = func(v ssa.Value, d int) {
		if v == nil || seen[v] || d > 40 {
			return
		}
		seen[v] = true
		visit(v)
		switch x := v.(type) {
		case *ssa.BinOp:
			rec(x.X, d+1)
			rec(x.Y, d+1)
		case *ssa.UnOp:
			rec(x.X, d+1)
		case *ssa.Phi:
			for _, e := range x.Edges {
				rec(e, d+1)
			}
		case *ssa.Convert:
			rec(x.X, d+1)
		case *ssa.ChangeType:
			rec(x.X, d+1)
		case *ssa.MakeInterface:
			rec(x.X, d+1)
		case *ssa.TypeAssert:
			rec(x.X, d+1)
		case *ssa.Extract:
			rec(x.Tuple, d+1)
		case *ssa.FieldAddr:
			rec(x.X, d+1)
		case *ssa.Field:
			rec(x.X, d+1)
		case *ssa.IndexAddr:
			rec(x.X, d+1)
			rec(x.Index, d+1)
		case *ssa.Index:
			rec(x.X, d+1)
			rec(x.Index, d+1)
		case *ssa.Slice:
			rec(x.X, d+1)
		case *ssa.Lookup:
			rec(x.X, d+1)
			rec(x.Index, d+1)
		case *ssa.Call:
			if onCall != nil {
				onCall(x)
			}
			for _, a := range x.Call.Args {
				rec(a, d+1)
			}
			if x.Call.IsInvoke() {
				rec(x.Call.Value, d+1)
			}
		case *ssa.Alloc:
			if x.Referrers() != nil {
				for _, ref := range *x.Referrers() {
					if st, ok := ref.(*ssa.Store); ok && st.Addr == ssa.Value(x) {
						rec(st.Val, d+1)
					}
				}
			}
		}
	}
	rec(v, 0)
}

// g4PerCopyDeps names the data the condition reads that legitimately differs between copies of
// one announcement: the received seen-by list, the received path, the sending peer.
func g4PerCopyDeps(cx *c11Flood, h *ssa.Function, d *c11Dedup, cond ssa.Value) []string {
	keyAgent, _ := c11KeyDescs(cx, d)
	set := map[string]bool{}
	g4Operands(cond, func(v ssa.Value) {
		switch x := v.(type) {
		case *ssa.Parameter:
			if x.Parent() != h {
				return
			}
			switch {
			case c11IsAgentList(cx, x.Type()):
				set["the received seen-by list ("+x.Name()+")"] = true
			case c11NamedOf(x.Type()) != nil && c11NamedOf(x.Type()).Obj().Name() == "EncryptedData":
				set["the received path ("+x.Name()+")"] = true
			case c11IsAgentID(cx, x.Type()) && c11Desc(x, nil) != keyAgent:
				set["the sending peer ("+x.Name()+")"] = true
			}
		case *ssa.UnOp:
			if f, base := kit.LoadedField(x); f != nil && f.Name() == "SeenBy" {
				if prm, ok := base.(*ssa.Parameter); ok && prm.Parent() == h {
					set["the received seen-by list ("+prm.Name()+".SeenBy)"] = true
				}
			}
		}
	}, nil)
	var out []string
	for s := range set {
		out = append(out, s)
	}
	sort.Strings(out)
	return out
}

// g4MutableFlooderFields: fields of Flooder written (stored, inserted into, deleted from, cleared)
// by some function other than the one that allocates the Flooder.
func g4MutableFlooderFields(cx *c11Flood) map[*types.Var]bool {
	ctor := map[*ssa.Function]bool{}
	for _, fn := range cx.fns {
		kit.Instrs(fn, func(in ssa.Instruction) {
			if a, ok := in.(*ssa.Alloc); ok && c11NamedOf(a.Type()) == cx.flooder {
				ctor[fn] = true
			}
		})
	}
	out := map[*types.Var]bool{}
	for _, f := range kit.StructFields(cx.flooder) {
		if n := c11NamedOf(f.Type()); n != nil && n.Obj().Pkg() != nil && n.Obj().Pkg().Path() == "sync" {
			continue
		}
		for _, acc := range cx.p.FieldAccessesOfKind(f, kit.FieldStore, kit.MapInsert, kit.MapDelete, kit.FieldClear) {
			if !ctor[kit.TopLevel(acc.Fn)] {
				out[f] = true
			}
		}
	}
	return out
}

// g4MutableStateDeps names the mutable Flooder fields the condition reads, directly or inside
// the flood-package functions it calls (two levels).
func g4MutableStateDeps(cx *c11Flood, mutable map[*types.Var]bool, cond ssa.Value, ignore *types.Var) []string {
	set := map[string]bool{}
	note := func(v ssa.Value, via string) {
		if f, _ := kit.LoadedField(v); f != nil && mutable[f] && f != ignore {
			if via != "" {
				set[f.Name()+" (read in "+via+")"] = true
			} else {
				set[f.Name()] = true
			}
		}
	}
	var scan func(fn *ssa.Function, depth int)
	scanned := map[*ssa.Function]bool{}
	scan = func(fn *ssa.Function, depth int) {
		if scanned[fn] || fn.Blocks == nil || kit.FuncPkgPath(fn) != kit.PkgPath(c11FloodPkg) {
			return
		}
		scanned[fn] = true
		kit.Instrs(fn, func(in ssa.Instruction) {
			if v, ok := in.(ssa.Value); ok {
				note(v, fn.Name())
			}
			if ci, ok := in.(ssa.CallInstruction); ok && depth < 2 {
				if cal := kit.CalleeOf(ci); cal.Static != nil {
					scan(cal.Static, depth+1)
				}
			}
		})
	}
	g4Operands(cond, func(v ssa.Value) { note(v, "") }, func(c *ssa.Call) {
		cal := kit.CalleeOf(c)
		if c11IsStoreCall(cal) {
			// whether the tables accepted / changed something is mutable routing-table state
			set["the result of routing.Manager."+cal.Name+" (what the routing tables already hold)"] = true
		}
		if cal.Static != nil {
			scan(cal.Static, 1)
		}
	})
	var out []string
	for s := range set {
		out = append(out, s)
	}
	sort.Strings(out)
	return out
}

// ---------------------------------------------------------------- facts implied by helper verdicts

// c11Fact is a branch condition known to hold (with polarity pol) when control reaches some
// instruction; chain leads from the function of that instruction down to the function cond lives in
// (conditions established inside an admission helper whose verdict guards the instruction).
type c11Fact struct {
	cond  ssa.Value
	pol   bool
	chain []ssa.CallInstruction
}

// c11FactsAt returns the guards of `in` plus, for every guard that is the boolean verdict of a
// flood-package helper, the conditions that hold on every path of the helper returning that
// verdict (recursively, three calls deep): `if !f.admit(...) { return false }` establishes, for
// the code after it, whatever admit() established before returning true.
func c11FactsAt(in ssa.Instruction) []c11Fact {
	return c11FactClosure(c11Guards(in))
}

// c11FactClosure closes a set of (normalised) conditions under "verdict of a helper implies what
// the helper established".
func c11FactClosure(start []kit.Guard) []c11Fact {
	var out []c11Fact
	seen := map[ssa.Value]bool{}
	var add func(cond ssa.Value, pol bool, chain []ssa.CallInstruction, depth int)
	add = func(cond ssa.Value, pol bool, chain []ssa.CallInstruction, depth int) {
		if seen[cond] {
			return
		}
		seen[cond] = true
		out = append(out, c11Fact{cond, pol, chain})
		if depth >= 3 {
			return
		}
		var call *ssa.Call
		idx := 0
		switch x := cond.(type) {
		case *ssa.Call:
			call = x
		case *ssa.Extract:
			if c, ok := x.Tuple.(*ssa.Call); ok {
				call, idx = c, x.Index
			}
		}
		if call == nil {
			return
		}
		cal := kit.CalleeOf(call)
		if cal.Static == nil || cal.Static.Blocks == nil || kit.FuncPkgPath(cal.Static) != kit.PkgPath(c11FloodPkg) {
			return
		}
		nchain := append(append([]ssa.CallInstruction{}, chain...), call)
		for _, f := range c11Implied(cal.Static, idx, pol) {
			add(f.Cond, f.Polarity, nchain, depth+1)
		}
	}
	for _, g := range start {
		add(g.Cond, g.Polarity, nil, 0)
	}
	return out
}

// g4WrapsDedup: the condition having truth value pol implies the dedup's "first sighting" verdict
// (it is the dedup test itself or the verdict of an admission helper that contains it).
func g4WrapsDedup(d *c11Dedup, cond ssa.Value, pol bool) bool {
	for _, f := range c11FactClosure([]kit.Guard{{Cond: cond, Polarity: pol}}) {
		if d.res != nil && f.cond == d.res && f.pol == d.newVal {
			return true
		}
		if d.call == nil {
			if ft, ok := d.foundTruth(f.cond); ok && f.pol != ft {
				return true
			}
		}
	}
	return false
}

// c11Implied: the (normalised) conditions that hold at every return of fn that can yield value v
// for result idx.
func c11Implied(fn *ssa.Function, idx int, v bool) []kit.Guard {
	type key struct {
		c   ssa.Value
		pol bool
	}
	var common map[key]bool
	n := 0
	for _, ret := range kit.Returns(fn) {
		if ret.Block() == fn.Recover || len(ret.Results) <= idx {
			continue
		}
		rv := kit.ReturnResult(ret, idx)
		here := map[key]bool{}
		if b, isC := kit.ConstBool(rv); isC {
			if b != v {
				continue
			}
		} else {
			c, pol := c11Norm(rv, true)
			if _, isPhi := c.(*ssa.Phi); !isPhi {
				here[key{c, v == pol}] = true // returning v means c has this truth value
			}
		}
		for _, g := range c11Guards(ret) {
			here[key{g.Cond, g.Polarity}] = true
		}
		n++
		if common == nil {
			common = here
			continue
		}
		for k := range common {
			if !here[k] {
				delete(common, k)
			}
		}
	}
	var out []kit.Guard
	if n == 0 {
		return nil
	}
	for k := range common {
		out = append(out, kit.Guard{Cond: k.c, Polarity: k.pol})
	}
	return out
}

// c11FactHolds: control reaches `in` only when val has truth value want (directly or through the
// verdict of an admission helper).
func c11FactHolds(in ssa.Instruction, val ssa.Value, want bool) bool {
	for _, f := range c11FactsAt(in) {
		if f.cond == val && f.pol == want {
			return true
		}
	}
	return false
}

// c11RecvListVia: v (a value of the function at the end of chain) denotes the seen-by list
// received by handler h.
func c11RecvListVia(cx *c11Flood, v ssa.Value, chain []ssa.CallInstruction, h *ssa.Function) bool {
	if !c11IsAgentList(cx, v.Type()) {
		return false
	}
	d := c11Desc(v, chain)
	rest := strings.TrimPrefix(d, kit.FuncName(h)+"#")
	if rest == d || strings.Contains(rest, "@") {
		return false
	}
	if i := strings.Index(rest, "."); i >= 0 {
		return rest[i+1:] == "SeenBy"
	}
	return true
}

// ---------------------------------------------------------------- membership, semantically

// c11MemberDesc recognises "elem is a member of list" in any of these shapes and returns the two
// values, the call chain down to the function they live in, and the truth value of cond that means
// "is a member":
//   - slices.Contains(list, elem) / a repository membership function(list, elem);
//   - slices.Index(list, elem) compared with a constant so that -1 and >= 0 are told apart;
//   - a call to a repository predicate whose body is such a test over its own parameters or fields
//     of them (t.pathHasLoop(path), route.traverses(id)): the values are then those inside the
//     predicate and chain gains the call, so that c11Desc maps them back to the caller.
func c11MemberDesc(cond ssa.Value, chain []ssa.CallInstruction, depth int) (list, elem ssa.Value, outChain []ssa.CallInstruction, memberWhen bool, ok bool) {
	c, pol := c11Norm(cond, true)
	if l, e, isM := c11Membership(c); isM {
		return l, e, chain, pol, true
	}
	if bo, isB := c.(*ssa.BinOp); isB {
		var ic *ssa.Call
		var k int64
		var isc, idxLeft bool
		if x, okc := bo.X.(*ssa.Call); okc {
			ic, idxLeft = x, true
			k, isc = kit.ConstInt(bo.Y)
		} else if y, okc := bo.Y.(*ssa.Call); okc {
			ic = y
			k, isc = kit.ConstInt(bo.X)
		}
		if ic != nil && isc && len(ic.Call.Args) == 2 {
			if cal := kit.CalleeOf(ic); cal.Pkg == "slices" && cal.Name == "Index" {
				ev := func(idx int64) bool {
					if idxLeft {
						return c15Cmp(bo.Op, idx, k)
					}
					return c15Cmp(bo.Op, k, idx)
				}
				miss, hit0, hit5 := ev(-1), ev(0), ev(5)
				if hit0 == hit5 && miss != hit0 {
					return ic.Call.Args[0], ic.Call.Args[1], chain, hit0 == pol, true
				}
			}
		}
		return nil, nil, nil, false, false
	}
	call, isCall := c.(*ssa.Call)
	if !isCall || depth >= 2 || call.Call.IsInvoke() {
		return nil, nil, nil, false, false
	}
	cal := kit.CalleeOf(call)
	if cal.Static == nil || cal.Static.Blocks == nil || !kit.IsRepoPkg(kit.FuncPkgPath(cal.Static)) {
		return nil, nil, nil, false, false
	}
	fn := cal.Static
	if rs := fn.Signature.Results(); rs.Len() != 1 || !types.Identical(rs.At(0).Type().Underlying(), types.Typ[types.Bool]) {
		return nil, nil, nil, false, false
	}
	nchain := append(append([]ssa.CallInstruction{}, chain...), call)
	// loop form: `for … { if L[i] == E { return true } } return false`
	var L, E ssa.Value
	nTrue, nFalse, bad := 0, 0, false
	var single ssa.Value
	nRet := 0
	for _, ret := range kit.Returns(fn) {
		if ret.Block() == fn.Recover {
			continue
		}
		nRet++
		rv := kit.ReturnResult(ret, 0)
		b, isConst := kit.ConstBool(rv)
		if !isConst {
			single = rv
			continue
		}
		if !b {
			nFalse++
			continue
		}
		nTrue++
		found := false
		for _, g := range c11Guards(ret) {
			bo, isB := g.Cond.(*ssa.BinOp)
			if !isB || !((bo.Op == token.EQL && g.Polarity) || (bo.Op == token.NEQ && !g.Polarity)) {
				continue
			}
			for _, pr := range [][2]ssa.Value{{bo.X, bo.Y}, {bo.Y, bo.X}} {
				if l := c11ElemList(pr[0]); l != nil {
					if L == nil || (L == l && E == pr[1]) {
						L, E, found = l, pr[1], true
					}
				}
			}
		}
		if !found {
			bad = true
		}
	}
	if single == nil && !bad && nTrue > 0 && nFalse > 0 && L != nil {
		return L, E, nchain, pol, true
	}
	// wrapper form: `return <membership test>`
	if single != nil && nRet == 1 {
		if l, e, ch, mw, isM := c11MemberDesc(single, nchain, depth+1); isM {
			return l, e, ch, mw == pol, true
		}
	}
	return nil, nil, nil, false, false
}

func (d *c11Dedup) isFoundTest(c ssa.Value) bool {
	_, ok := d.foundTruth(c)
	return ok
}

// ---------------------------------------------------------------- split horizon of full-table replays

// g4SplitHorizon: in every flood function outside the forwarding chain that has an AgentID
// parameter (the peer the table is sent to), a stored route record taken from a ranged list and
// appended to what will be sent must be filtered by `record.NextHop != peer` — or the list must
// come from a routing call that is given the peer and makes that comparison itself.
func g4SplitHorizon(p *kit.Program, cx *c11Flood, r *kit.Report, rule string) {
	n := 0
	for _, fn := range cx.fns {
		if cx.reach[fn] {
			continue
		}
		var peers []*ssa.Parameter
		for i, prm := range fn.Params {
			if i == 0 && fn.Signature.Recv() != nil {
				continue
			}
			if c11IsAgentID(cx, prm.Type()) {
				peers = append(peers, prm)
			}
		}
		if len(peers) == 0 {
			continue
		}
		ord := 0
		kit.Instrs(fn, func(in ssa.Instruction) {
			c, ok := in.(*ssa.Call)
			if !ok || kit.CalleeOf(c).Built != "append" || len(c.Call.Args) != 2 {
				return
			}
			sl, ok := c.Call.Args[1].(*ssa.Slice)
			if !ok {
				return
			}
			a, ok := sl.X.(*ssa.Alloc)
			if !ok || a.Referrers() == nil {
				return
			}
			for _, ref := range *a.Referrers() {
				ia, ok := ref.(*ssa.IndexAddr)
				if !ok || ia.Referrers() == nil {
					continue
				}
				for _, r2 := range *ia.Referrers() {
					st, ok := r2.(*ssa.Store)
					if !ok || st.Addr != ssa.Value(ia) {
						continue
					}
					rec := st.Val
					if !g4IsRouteRecord(c11NamedOf(rec.Type())) {
						continue
					}
					list := c11ElemList(rec)
					if list == nil {
						continue // not an element of a ranged list
					}
					ord++
					n++
					key := fmt.Sprintf("%s replayed %s #%d filtered by learned-from peer", kit.FuncName(fn), c11NamedOf(rec.Type()).Obj().Name(), ord)
					ok2 := false
					for _, g := range c11Guards(c) {
						bo, isB := g.Cond.(*ssa.BinOp)
						if !isB || !((bo.Op == token.NEQ && g.Polarity) || (bo.Op == token.EQL && !g.Polarity)) {
							continue
						}
						for _, pr := range [][2]ssa.Value{{bo.X, bo.Y}, {bo.Y, bo.X}} {
							f, base := kit.LoadedField(pr[0])
							if f == nil || f.Name() != "NextHop" || !(base == rec || c11SameLoad(base, rec)) {
								continue
							}
							for _, peer := range peers {
								if v, _ := c11Reduce(pr[1], nil); v == ssa.Value(peer) {
									ok2 = true
								}
							}
						}
					}
					if !ok2 {
						// filter delegated to the routing call that produced the list
						if lc, isCall := c12Deref(list).(*ssa.Call); isCall {
							if cal := kit.CalleeOf(lc); cal.Static != nil && cal.Static.Blocks != nil {
								for i, arg := range lc.Call.Args {
									for _, peer := range peers {
										if v, _ := c11Reduce(arg, nil); v == ssa.Value(peer) && i < len(cal.Static.Params) && g4ComparesNextHop(cal.Static, cal.Static.Params[i]) {
											ok2 = true
										}
									}
								}
							}
						}
					}
					r.Decide(ok2, rule, key, p.Pos(c.Pos()),
						"routes learned from the peer the table is sent to are left out",
						"a stored route is put into the full-table replay without the test `NextHop != peer`: routes go straight back over the link they were learned from, the peer stores them with a path through itself rejected only by its own loop check — or, for routes it originated, accepts a two-hop loop")
				}
			}
		})
	}
	r.Count("replayed_route_selections", n)
}

// g4ComparesNextHop: fn compares the NextHop field of some record with its parameter prm.
func g4ComparesNextHop(fn *ssa.Function, prm *ssa.Parameter) bool {
	found := false
	kit.Instrs(fn, func(in ssa.Instruction) {
		bo, ok := in.(*ssa.BinOp)
		if !ok || (bo.Op != token.EQL && bo.Op != token.NEQ) {
			return
		}
		for _, pr := range [][2]ssa.Value{{bo.X, bo.Y}, {bo.Y, bo.X}} {
			if f, _ := kit.LoadedField(pr[0]); f != nil && f.Name() == "NextHop" {
				if v, _ := c11Reduce(pr[1], nil); v == ssa.Value(prm) {
					found = true
				}
			}
		}
	})
	return found
}
