package rules

// Shared helpers of the C26/C27 rule sets (group g9), round 2: activation analysis for
// parked sanitiser results and separator-awareness of string-prefix containment tests.

import (
	"go/token"

	"golang.org/x/tools/go/ssa"

	"mmverify/kit"
)

// g9Reaches: g is f or is reachable from f over static calls and nested closures (depth-limited).
func g9Reaches(f, g *ssa.Function, memo map[[2]*ssa.Function]bool) bool {
	if f == nil || g == nil {
		return false
	}
	key := [2]*ssa.Function{f, g}
	if v, ok := memo[key]; ok {
		return v
	}
	seen := map[*ssa.Function]bool{f: true}
	level := []*ssa.Function{f}
	found := f == g
	for depth := 0; depth < 8 && !found && len(level) > 0; depth++ {
		var next []*ssa.Function
		for _, x := range level {
			var outs []*ssa.Function
			outs = append(outs, x.AnonFuncs...)
			for _, c := range kit.Calls(x) {
				if t, ok := kit.CallTargets(c); ok {
					outs = append(outs, t...)
				}
			}
			for _, o := range outs {
				if o == g {
					found = true
				}
				if !seen[o] && o.Blocks != nil {
					seen[o] = true
					next = append(next, o)
				}
			}
		}
		level = next
	}
	memo[key] = found
	return found
}

// g9SameActivation decides whether a value written to shared state by instruction write
// is read back by instruction read within one activation of the writing function: later
// in the same function, in a function called (or started with go/defer) after the write,
// or - when the write happens in a callee - after that callee returned to the reader.
// Anything else means the value outlives the call that produced it (it is parked in
// long-lived state and consumed by a later event).
func g9SameActivation(write, read ssa.Instruction, memo map[[2]*ssa.Function]bool) bool {
	f, g := write.Parent(), read.Parent()
	if f == nil || g == nil {
		return false
	}
	if f == g {
		return kit.CanReach(write, read)
	}
	// reader runs below a call made after the write
	for _, k := range kit.Calls(f) {
		if !kit.CanReach(write, k) {
			continue
		}
		if t, ok := kit.CallTargets(k); ok {
			for _, callee := range t {
				if g9Reaches(callee, g, memo) {
					return true
				}
			}
		}
	}
	// a closure of f created after the write
	for _, in := range g9Instrs(f) {
		if mc, ok := in.(*ssa.MakeClosure); ok && kit.CanReach(write, in) {
			if fn, isFn := mc.Fn.(*ssa.Function); isFn && g9Reaches(fn, g, memo) {
				return true
			}
		}
	}
	// writer runs below a call the reader made before reading
	for _, k := range kit.Calls(g) {
		if !kit.CanReach(k, read) {
			continue
		}
		if t, ok := kit.CallTargets(k); ok {
			for _, callee := range t {
				if g9Reaches(callee, f, memo) {
					return true
				}
			}
		}
	}
	return false
}

func g9Instrs(fn *ssa.Function) []ssa.Instruction {
	var out []ssa.Instruction
	kit.Instrs(fn, func(in ssa.Instruction) { out = append(out, in) })
	return out
}

// g9IsSepConst: v is a constant string that ends with a path separator.
func g9IsSepConst(v ssa.Value) bool {
	s, ok := kit.ConstString(v)
	if !ok || s == "" {
		return false
	}
	last := s[len(s)-1]
	return last == '/' || last == '\\'
}

// g9EndsWithSep: the string value provably ends with a path separator: a constant that
// does, x + sep, a phi whose every edge does (an edge also qualifies when it is taken only
// if strings.HasSuffix(x, sep) held for the incoming value x), or the result of a small
// repository function all of whose returns do.
func g9EndsWithSep(v ssa.Value, depth int) bool {
	if depth > 6 {
		return false
	}
	if g9IsSepConst(v) {
		return true
	}
	switch x := v.(type) {
	case *ssa.BinOp:
		if x.Op == token.ADD {
			if s, isConst := kit.ConstString(x.Y); isConst && s == "" {
				return g9EndsWithSep(x.X, depth+1)
			}
			return g9EndsWithSep(x.Y, depth+1)
		}
	case *ssa.Phi:
		for i, e := range x.Edges {
			if g9EndsWithSep(e, depth+1) {
				continue
			}
			if !g9EdgeImpliesSuffix(x.Block().Preds[i], x.Block(), e) {
				return false
			}
		}
		return len(x.Edges) > 0
	case *ssa.Call:
		g := kit.CalleeOf(x).Static
		if g == nil || g.Blocks == nil || !kit.IsRepoPkg(kit.FuncPkgPath(g)) {
			return false
		}
		n := 0
		for _, ret := range kit.Returns(g) {
			if len(ret.Results) == 0 {
				return false
			}
			rv := kit.ReturnResult(ret, 0)
			// if strings.HasSuffix(p, sep) { return p }
			if !g9EndsWithSep(rv, depth+1) && !g9GuardsImplySuffix(kit.Guards(ret.Block()), rv) {
				return false
			}
			n++
		}
		return n > 0
	}
	return false
}

// g9EdgeImpliesSuffix: control takes pred->succ only when strings.HasSuffix(val, <sep>) is true.
func g9EdgeImpliesSuffix(pred, succ *ssa.BasicBlock, val ssa.Value) bool {
	gs := kit.Guards(pred)
	if n := len(pred.Instrs); n > 0 {
		if ifi, isIf := pred.Instrs[n-1].(*ssa.If); isIf && pred.Succs[0] != pred.Succs[1] {
			gs = append(gs, kit.Guard{Cond: ifi.Cond, Polarity: pred.Succs[0] == succ, If: ifi})
		}
	}
	return g9GuardsImplySuffix(gs, val)
}

// g9GuardsImplySuffix: one of the established conditions is strings.HasSuffix(val, <sep>) == true.
func g9GuardsImplySuffix(gs []kit.Guard, val ssa.Value) bool {
	for _, gd := range gs {
		cond, pol := gd.Cond, gd.Polarity
		for {
			u, isNot := cond.(*ssa.UnOp)
			if !isNot || u.Op != token.NOT {
				break
			}
			cond, pol = u.X, !pol
		}
		c, ok := cond.(*ssa.Call)
		if !ok || !pol {
			continue
		}
		cal := kit.CalleeOf(c)
		if cal.Pkg == "strings" && cal.Name == "HasSuffix" && len(c.Call.Args) == 2 && c.Call.Args[0] == val && g9IsSepConst(c.Call.Args[1]) {
			return true
		}
	}
	return false
}

// g9StringRel is one call relating two strings: strings.HasPrefix/HasSuffix/Contains/EqualFold.
type g9StringRel struct {
	call *ssa.Call
	name string
	s, p ssa.Value // subject and prefix/pattern operand
}

// g9StringRels lists the strings.HasPrefix/HasSuffix/Contains/EqualFold calls of fn.
func g9StringRels(fn *ssa.Function) []g9StringRel {
	var out []g9StringRel
	for _, c := range kit.Calls(fn) {
		call, ok := c.(*ssa.Call)
		if !ok || len(call.Call.Args) != 2 {
			continue
		}
		cal := kit.CalleeOf(c)
		if cal.Pkg != "strings" || cal.Recv != "" {
			continue
		}
		switch cal.Name {
		case "HasPrefix", "HasSuffix", "Contains", "EqualFold":
			out = append(out, g9StringRel{call, cal.Name, call.Call.Args[0], call.Call.Args[1]})
		}
	}
	return out
}
