package rules

import (
	"fmt"
	"go/token"
	"go/types"
	"sort"
	"strings"

	"golang.org/x/tools/go/ssa"

	"mmverify/kit"
)

func init() {
	const sl = "internal/sleep/sleep.go"
	const ag = "internal/agent/agent.go"
	register(&Check{
		ID: "C30", Level: "other",
		Explain:   "Decides, for sleep.Manager: for every constant store to the atomic state field, the set of states the manager can be in at that store — computed by abstract evaluation from the acquisition of the state mutex, with every state load of the same critical section fixed to one enumerated state and everything else explored both ways — contains only legal predecessors (awake->sleeping, sleeping->polling, polling->sleeping, sleeping|polling->awake), and the store happens under the write lock; Sleep while sleeping/polling and Wake while awake return a non-nil error without storing or invoking a callback; the OnSleep/OnWake/OnPollEnd callbacks and function parameters are invoked only in their source states under the lock, and the agent's OnPoll callback (which runs unlocked) performs peer disconnects / listener closes only inside a function the manager runs under the lock in state polling (or on the shutdown branch); and every constant state store is followed, before the critical section ends, by the function that writes the state file when persistence is enabled. Timer accuracy, poll generations (wake+sleep+new poll within one poll duration) and what the persisted file contains are not decided.",
		Technique: "typestate per critical section by path-sensitive abstract evaluation over the enumerated state; lock regions; must-pass-through for persistence; call-site classification of the poll callback",
		Run:       runC30,
		SelfTests: []SelfTest{
			{Name: "Poll tail only excludes awake", ExpectRule: "C30.R1", ExpectKey: "Poll", Edits: []Edit{
				{File: sl, Old: "\tif m.state.Load().(State) != StatePolling {\n\t\treturn nil\n\t}\n\n\t// Call poll end callback", New: "\tif m.state.Load().(State) == StateAwake {\n\t\treturn nil\n\t}\n\n\t// Call poll end callback"},
			}},
			{Name: "Poll tail trusts the state read before the wait", ExpectRule: "C30.R1", ExpectKey: "Poll", Edits: []Edit{
				{File: sl, Old: "\tif m.state.Load().(State) != StatePolling {\n\t\treturn nil\n\t}\n\n\t// Call poll end callback", New: "\tif currentState != StateSleeping {\n\t\treturn nil\n\t}\n\n\t// Call poll end callback"},
			}},
			{Name: "Sleep checks the state before taking the lock", ExpectRule: "C30.R1", ExpectKey: "Sleep", Edits: []Edit{
				{File: sl, Old: "\tm.stateMu.Lock()\n\tdefer m.stateMu.Unlock()\n\n\tcurrentState := m.state.Load().(State)\n\tif currentState == StateSleeping || currentState == StatePolling {\n\t\treturn ErrAlreadySleeping\n\t}\n", New: "\tcurrentState := m.state.Load().(State)\n\tif currentState == StateSleeping || currentState == StatePolling {\n\t\treturn ErrAlreadySleeping\n\t}\n\n\tm.stateMu.Lock()\n\tdefer m.stateMu.Unlock()\n"},
			}},
			{Name: "Poll starts from any non-awake state", ExpectRule: "C30.R1", ExpectKey: "Poll", Edits: []Edit{
				{File: sl, Old: "\tif currentState != StateSleeping {\n\t\tm.stateMu.Unlock()\n\t\treturn nil // Silently skip if not sleeping\n\t}", New: "\tif currentState == StateAwake {\n\t\tm.stateMu.Unlock()\n\t\treturn nil // Silently skip if not sleeping\n\t}"},
			}},
			{Name: "Wake state stored under the read lock", ExpectRule: "C30.R1", ExpectKey: "Wake", Edits: []Edit{
				{File: sl, Old: "\tm.stateMu.Lock()\n\tdefer m.stateMu.Unlock()\n\n\tcurrentState := m.state.Load().(State)\n\tif currentState == StateAwake {", New: "\tm.stateMu.RLock()\n\tdefer m.stateMu.RUnlock()\n\n\tcurrentState := m.state.Load().(State)\n\tif currentState == StateAwake {"},
			}},
			{Name: "Sleep while polling allowed", ExpectRule: "C30.R2", ExpectKey: "Sleep", Edits: []Edit{
				{File: sl, Old: "\tif currentState == StateSleeping || currentState == StatePolling {\n\t\treturn ErrAlreadySleeping\n\t}", New: "\tif currentState == StateSleeping {\n\t\treturn ErrAlreadySleeping\n\t}"},
			}},
			{Name: "Wake while awake reports success", ExpectRule: "C30.R2", ExpectKey: "Wake", Edits: []Edit{
				{File: sl, Old: "\tif currentState == StateAwake {\n\t\treturn ErrNotSleeping\n\t}", New: "\tif currentState == StateAwake {\n\t\treturn nil\n\t}"},
			}},
			{Name: "OnPollEnd invoked without the lock", ExpectRule: "C30.R3", ExpectKey: "OnPollEnd", Edits: []Edit{
				{File: sl, Old: "\tm.stateMu.Lock()\n\tdefer m.stateMu.Unlock()\n\n\t// Only the poll that is still current may end:", New: "\tif m.callbacks.OnPollEnd != nil {\n\t\tm.callbacks.OnPollEnd()\n\t}\n\tm.stateMu.Lock()\n\tdefer m.stateMu.Unlock()\n\n\t// Only the poll that is still current may end:"},
			}},
			{Name: "poll callback disconnects on an unsynchronised state read", ExpectRule: "C30.R3", ExpectKey: "DisconnectAll", Edits: []Edit{
				{File: ag, Old: "\ta.sleepMgr.RunIfPolling(func() {\n\t\t// Disconnect again (still sleeping)\n\t\tif err := a.peerMgr.DisconnectAll(); err != nil {\n\t\t\ta.logger.Warn(\"error disconnecting after poll\",\n\t\t\t\tlogging.KeyError, err)\n\t\t}\n\n\t\t// Close poll listeners and remove from agent listeners\n\t\ta.closePollListeners(pollListeners)\n\t})\n", New: "\tif a.sleepMgr.GetState() != sleep.StateAwake {\n\t\tif err := a.peerMgr.DisconnectAll(); err != nil {\n\t\t\ta.logger.Warn(\"error disconnecting after poll\",\n\t\t\t\tlogging.KeyError, err)\n\t\t}\n\t\ta.closePollListeners(pollListeners)\n\t}\n"},
			}},
			{Name: "RunIfPolling runs the function in any sleeping state", ExpectRule: "C30.R3", Edits: []Edit{
				{File: sl, Old: "\tif m.state.Load().(State) != StatePolling {\n\t\treturn false\n\t}\n\tfn()", New: "\tif m.state.Load().(State) == StateAwake {\n\t\treturn false\n\t}\n\tfn()"},
			}},
			{Name: "Polling transition not persisted", ExpectRule: "C30.R4", ExpectKey: "Poll", Edits: []Edit{
				{File: sl, Old: "\tm.lastPollTime = time.Now()\n\tif m.cfg.PersistState {\n\t\tif err := m.persistState(); err != nil {\n\t\t\tm.logger.Debug(\"failed to persist sleep state\", logging.KeyError, err)\n\t\t}\n\t}\n\tm.stateMu.Unlock()\n", New: "\tm.lastPollTime = time.Now()\n\tm.stateMu.Unlock()\n"},
			}},
			{Name: "Wake persists before storing the new state", ExpectRule: "C30.R4", ExpectKey: "Wake", Edits: []Edit{
				{File: sl, Old: "\t// Update state\n\tm.state.Store(StateAwake)\n\tsleepDuration := time.Since(m.sleepStartTime)\n\tm.sleepStartTime = time.Time{}\n\tm.nextPollTime = time.Time{}\n\n\t// Clear queue\n\tm.queue.Clear()\n\n\t// Persist state\n\tif m.cfg.PersistState {\n\t\tif err := m.persistState(); err != nil {\n\t\t\tm.logger.Debug(\"failed to persist sleep state\", logging.KeyError, err)\n\t\t}\n\t}\n", New: "\tif m.cfg.PersistState {\n\t\tif err := m.persistState(); err != nil {\n\t\t\tm.logger.Debug(\"failed to persist sleep state\", logging.KeyError, err)\n\t\t}\n\t}\n\n\t// Update state\n\tm.state.Store(StateAwake)\n\tsleepDuration := time.Since(m.sleepStartTime)\n\tm.sleepStartTime = time.Time{}\n\tm.nextPollTime = time.Time{}\n\n\t// Clear queue\n\tm.queue.Clear()\n"},
			}},
			{Name: "seeded class: stale-poll check moved in front of the state lock", ExpectRule: "C30.R1", ExpectKey: "Poll", Edits: []Edit{
				{File: sl, Old: "\tm.stateMu.Lock()\n\tdefer m.stateMu.Unlock()\n\n\t// Only the poll that is still current may end:", New: "\tif m.GetState() != StatePolling {\n\t\treturn nil\n\t}\n\tm.stateMu.Lock()\n\tdefer m.stateMu.Unlock()\n\tif false {\n\t\treturn nil\n\t}\n\n\t// Only the poll that is still current may end:"},
				{File: sl, Old: "\tif m.state.Load().(State) != StatePolling {\n\t\treturn nil\n\t}\n\n\t// Call poll end callback", New: "\t// Call poll end callback"},
			}},
			{Name: "seeded class: admission by a shared transition table lets Sleep through while polling", ExpectRule: "C30.R2", ExpectKey: "Sleep", Edits: []Edit{
				{File: sl, Old: "\tif currentState == StateSleeping || currentState == StatePolling {\n\t\treturn ErrAlreadySleeping\n\t}", New: "\tif !c30CanTransition(currentState, StateSleeping) {\n\t\treturn ErrAlreadySleeping\n\t}"},
				{File: sl, Old: "// Wake transitions the agent out of sleep mode.\n", New: "var c30Transitions = map[State][]State{\n\tStateAwake:    {StateSleeping},\n\tStateSleeping: {StatePolling, StateAwake},\n\tStatePolling:  {StateSleeping, StateAwake},\n}\n\nfunc c30CanTransition(from, to State) bool {\n\tfor _, next := range c30Transitions[from] {\n\t\tif next == to {\n\t\t\treturn true\n\t\t}\n\t}\n\treturn false\n}\n\n// Wake transitions the agent out of sleep mode.\n"},
			}},
			{Name: "state forced from outside the critical sections by an exported setter", ExpectRule: "C30.R1", Edits: []Edit{
				{File: sl, Old: "// GetState returns the current sleep state.\nfunc (m *Manager) GetState() State {", New: "// ForceAwake marks the manager awake.\nfunc (m *Manager) ForceAwake() {\n\tm.state.Store(StateAwake)\n}\n\n// GetState returns the current sleep state.\nfunc (m *Manager) GetState() State {"},
			}},
			{Name: "rewrite: admission through a per-request predicate helper", Edits: []Edit{
				{File: sl, Old: "\tif currentState == StateSleeping || currentState == StatePolling {\n\t\treturn ErrAlreadySleeping\n\t}", New: "\tif !c30MaySleep(currentState) {\n\t\treturn ErrAlreadySleeping\n\t}"},
				{File: sl, Old: "// Wake transitions the agent out of sleep mode.\n", New: "func c30MaySleep(s State) bool { return s == StateAwake }\n\n// Wake transitions the agent out of sleep mode.\n"},
			}},
			{Name: "rewrite: Wake and Poll admission through constant lookup tables", Edits: []Edit{
				{File: sl, Old: "\tif currentState == StateAwake {\n\t\treturn ErrNotSleeping\n\t}", New: "\tif !c30WakeFrom[currentState] {\n\t\treturn ErrNotSleeping\n\t}"},
				{File: sl, Old: "\tif currentState != StateSleeping {\n\t\tm.stateMu.Unlock()\n\t\treturn nil // Silently skip if not sleeping\n\t}", New: "\tif !c30Allowed(currentState, StatePolling) {\n\t\tm.stateMu.Unlock()\n\t\treturn nil // Silently skip if not sleeping\n\t}"},
				{File: sl, Old: "// Wake transitions the agent out of sleep mode.\n", New: "var c30WakeFrom = map[State]bool{StateSleeping: true, StatePolling: true}\n\nvar c30Edges = map[State][]State{\n\tStateAwake:    {StateSleeping},\n\tStateSleeping: {StatePolling, StateAwake},\n\tStatePolling:  {StateSleeping, StateAwake},\n}\n\nfunc c30Allowed(from, to State) bool {\n\tfor _, next := range c30Edges[from] {\n\t\tif next == to {\n\t\t\treturn true\n\t\t}\n\t}\n\treturn false\n}\n\n// Wake transitions the agent out of sleep mode.\n"},
			}},
			{Name: "poll callback disconnects later from a goroutine", ExpectRule: "C30.R3", ExpectKey: "DisconnectAll", Edits: []Edit{
				{File: ag, Old: "\ta.sleepMgr.RunIfPolling(func() {\n\t\t// Disconnect again (still sleeping)\n\t\tif err := a.peerMgr.DisconnectAll(); err != nil {", New: "\tgo func() {\n\t\ttime.Sleep(a.cfg.Sleep.PollDuration / 10)\n\t\tif a.sleepMgr.IsSleeping() {\n\t\t\ta.peerMgr.DisconnectAll()\n\t\t}\n\t}()\n\ta.sleepMgr.RunIfPolling(func() {\n\t\t// Disconnect again (still sleeping)\n\t\tif err := a.peerMgr.DisconnectAll(); err != nil {"},
			}},
			{Name: "rewrite: persistence split into snapshot/replace helpers and a persist-if-enabled wrapper; restore in a helper", Edits: []Edit{
				{File: sl, Old: "\t// Clear queue\n\tm.queue.Clear()\n\n\t// Persist state\n\tif m.cfg.PersistState {\n\t\tif err := m.persistState(); err != nil {\n\t\t\tm.logger.Debug(\"failed to persist sleep state\", logging.KeyError, err)\n\t\t}\n\t}\n", New: "\t// Clear queue\n\tm.queue.Clear()\n\n\tm.c30PersistIfOn()\n"},
				{File: sl, Old: "\ttmpFile := m.stateFile + \".tmp\"\n\tif err := os.WriteFile(tmpFile, data, 0600); err != nil {\n\t\treturn err\n\t}\n\tif err := os.Rename(tmpFile, m.stateFile); err != nil {\n\t\tos.Remove(tmpFile)\n\t\treturn err\n\t}\n\treturn nil\n}\n", New: "\treturn m.c30ReplaceFile(data)\n}\n\nfunc (m *Manager) c30ReplaceFile(data []byte) error {\n\ttmpFile := m.stateFile + \".tmp\"\n\tif err := os.WriteFile(tmpFile, data, 0600); err != nil {\n\t\treturn err\n\t}\n\tif err := os.Rename(tmpFile, m.stateFile); err != nil {\n\t\tos.Remove(tmpFile)\n\t\treturn err\n\t}\n\treturn nil\n}\n\nfunc (m *Manager) c30PersistIfOn() {\n\tif !m.cfg.PersistState {\n\t\treturn\n\t}\n\tif err := m.persistState(); err != nil {\n\t\tm.logger.Debug(\"failed to persist sleep state\", logging.KeyError, err)\n\t}\n}\n\nfunc (m *Manager) c30Restore(saved PersistedState) {\n\tm.state.Store(saved.State)\n\tm.sleepStartTime = saved.SleepStartTime\n\tm.lastPollTime = saved.LastPollTime\n\tm.commandSeq.Store(saved.CommandSeq)\n}\n"},
				{File: sl, Old: "\tm.state.Store(state.State)\n\tm.sleepStartTime = state.SleepStartTime\n\tm.lastPollTime = state.LastPollTime\n\tm.commandSeq.Store(state.CommandSeq)\n\n\treturn nil\n", New: "\tm.c30Restore(state)\n\treturn nil\n"},
			}},
			{Name: "seeded class: write skipped when the snapshot equals a remembered last-written snapshot", ExpectRule: "C30.R4", ExpectKey: "persistState writes", Edits: []Edit{
				{File: sl, Old: "\tdata, err := json.MarshalIndent(state, \"\", \"  \")\n\tif err != nil {\n\t\treturn err\n\t}\n\n\t// Write to a temporary file", New: "\tif state == c30LastWritten {\n\t\treturn nil\n\t}\n\tdefer func() { c30LastWritten = state }()\n\n\tdata, err := json.MarshalIndent(state, \"\", \"  \")\n\tif err != nil {\n\t\treturn err\n\t}\n\n\t// Write to a temporary file"},
				{File: sl, Old: "// LoadState loads persisted state from disk.\n", New: "var c30LastWritten PersistedState\n\n// LoadState loads persisted state from disk.\n"},
			}},
			{Name: "write skipped while awake (only sleeping states are persisted)", ExpectRule: "C30.R4", ExpectKey: "writes the state file", Edits: []Edit{
				{File: sl, Old: "\tdata, err := json.MarshalIndent(state, \"\", \"  \")\n\tif err != nil {\n\t\treturn err\n\t}\n\n\t// Write to a temporary file", New: "\tif state.State == StateAwake && state.SleepStartTime.IsZero() && m.lastPollTime.IsZero() {\n\t\treturn nil\n\t}\n\n\tdata, err := json.MarshalIndent(state, \"\", \"  \")\n\tif err != nil {\n\t\treturn err\n\t}\n\n\t// Write to a temporary file"},
			}},
			{Name: "rewrite: writer returns early when no state file is configured", Edits: []Edit{
				{File: sl, Old: "\tdata, err := json.MarshalIndent(state, \"\", \"  \")\n\tif err != nil {\n\t\treturn err\n\t}\n\n\t// Write to a temporary file", New: "\tif m.stateFile == \"\" {\n\t\treturn nil\n\t}\n\n\tdata, err := json.MarshalIndent(state, \"\", \"  \")\n\tif err != nil {\n\t\treturn err\n\t}\n\n\t// Write to a temporary file"},
			}},
			{Name: "Wake persists asynchronously", ExpectRule: "C30.R4", ExpectKey: "Wake", Edits: []Edit{
				{File: sl, Old: "\t// Clear queue\n\tm.queue.Clear()\n\n\t// Persist state\n\tif m.cfg.PersistState {\n\t\tif err := m.persistState(); err != nil {\n\t\t\tm.logger.Debug(\"failed to persist sleep state\", logging.KeyError, err)\n\t\t}\n\t}\n", New: "\t// Clear queue\n\tm.queue.Clear()\n\n\t// Persist state\n\tif m.cfg.PersistState {\n\t\tgo m.persistState()\n\t}\n"},
			}},
			{Name: "state written to a side file instead of the restored one", ExpectRule: "C30.R4", ExpectKey: "restore reads", Edits: []Edit{
				{File: sl, Old: "\tif err := os.Rename(tmpFile, m.stateFile); err != nil {", New: "\tif err := os.Rename(tmpFile, m.stateFile+\".new\"); err != nil {"},
			}},
			{Name: "rewrite: Sleep guard as a switch, explicit unlocks", Edits: []Edit{
				{File: sl, Old: "\tcurrentState := m.state.Load().(State)\n\tif currentState == StateSleeping || currentState == StatePolling {\n\t\treturn ErrAlreadySleeping\n\t}", New: "\tswitch m.GetState() {\n\tcase StateAwake:\n\tdefault:\n\t\treturn ErrAlreadySleeping\n\t}"},
			}},
			{Name: "rewrite: Poll tail guard via a negated helper comparison", Edits: []Edit{
				{File: sl, Old: "\tif m.state.Load().(State) != StatePolling {\n\t\treturn nil\n\t}\n\n\t// Call poll end callback", New: "\tif st := m.GetState(); !(st == StatePolling) {\n\t\treturn nil\n\t}\n\n\t// Call poll end callback"},
			}},
			{Name: "rewrite: state store + persist extracted into a locked helper", Edits: []Edit{
				{File: sl, Old: "\t// Update state\n\tm.state.Store(StateAwake)\n\tsleepDuration := time.Since(m.sleepStartTime)\n\tm.sleepStartTime = time.Time{}\n\tm.nextPollTime = time.Time{}\n\n\t// Clear queue\n\tm.queue.Clear()\n\n\t// Persist state\n\tif m.cfg.PersistState {\n\t\tif err := m.persistState(); err != nil {\n\t\t\tm.logger.Debug(\"failed to persist sleep state\", logging.KeyError, err)\n\t\t}\n\t}\n", New: "\tsleepDuration := time.Since(m.sleepStartTime)\n\tm.sleepStartTime = time.Time{}\n\tm.nextPollTime = time.Time{}\n\tm.queue.Clear()\n\tm.c30SetLocked(StateAwake)\n"},
				{File: sl, Old: "// Poll briefly reconnects to receive queued messages.\n", New: "func (m *Manager) c30SetLocked(s State) {\n\tm.state.Store(s)\n\tif m.cfg.PersistState {\n\t\tif err := m.persistState(); err != nil {\n\t\t\tm.logger.Debug(\"failed to persist sleep state\", logging.KeyError, err)\n\t\t}\n\t}\n}\n\n// Poll briefly reconnects to receive queued messages.\n"},
			}},
			{Name: "rewrite: Sleep persists through a deferred helper", Edits: []Edit{
				{File: sl, Old: "\tm.stateMu.Lock()\n\tdefer m.stateMu.Unlock()\n\n\tcurrentState := m.state.Load().(State)\n\tif currentState == StateSleeping || currentState == StatePolling {\n\t\treturn ErrAlreadySleeping\n\t}\n", New: "\tm.stateMu.Lock()\n\tdefer m.stateMu.Unlock()\n\n\tcurrentState := m.state.Load().(State)\n\tif currentState == StateSleeping || currentState == StatePolling {\n\t\treturn ErrAlreadySleeping\n\t}\n\tdefer m.c30PersistIfEnabled()\n"},
				{File: sl, Old: "\t// Schedule first poll\n\tm.schedulePollLocked()\n\n\t// Persist state\n\tif m.cfg.PersistState {\n\t\tif err := m.persistState(); err != nil {\n\t\t\tm.logger.Debug(\"failed to persist sleep state\", logging.KeyError, err)\n\t\t}\n\t}\n", New: "\t// Schedule first poll\n\tm.schedulePollLocked()\n"},
				{File: sl, Old: "// Wake transitions the agent out of sleep mode.\n", New: "func (m *Manager) c30PersistIfEnabled() {\n\tif !m.cfg.PersistState {\n\t\treturn\n\t}\n\tif err := m.persistState(); err != nil {\n\t\tm.logger.Debug(\"failed to persist sleep state\", logging.KeyError, err)\n\t}\n}\n\n// Wake transitions the agent out of sleep mode.\n"},
			}},
			{Name: "rewrite: poll end work registered as OnPollEnd-style method value", Edits: []Edit{
				{File: ag, Old: "\ta.sleepMgr.RunIfPolling(func() {\n\t\t// Disconnect again (still sleeping)\n\t\tif err := a.peerMgr.DisconnectAll(); err != nil {\n\t\t\ta.logger.Warn(\"error disconnecting after poll\",\n\t\t\t\tlogging.KeyError, err)\n\t\t}\n\n\t\t// Close poll listeners and remove from agent listeners\n\t\ta.closePollListeners(pollListeners)\n\t})\n", New: "\tendPoll := func() {\n\t\tif err := a.peerMgr.DisconnectAll(); err != nil {\n\t\t\ta.logger.Warn(\"error disconnecting after poll\",\n\t\t\t\tlogging.KeyError, err)\n\t\t}\n\t\ta.closePollListeners(pollListeners)\n\t}\n\tif !a.sleepMgr.RunIfPolling(endPoll) {\n\t\ta.logger.Debug(\"poll ended while not polling\")\n\t}\n"},
			}},
		},
	})
}

type c30Ctx struct {
	p           *kit.Program
	mgr         *types.Named
	stateF      *types.Var
	mu          *types.Var
	cbField     *types.Var // Manager field of type Callbacks
	fns         []*ssa.Function
	st          [3]int64 // awake, sleeping, polling
	names       map[int64]string
	getters     map[*ssa.Function]bool // small functions that only read the state
	persistF    map[*ssa.Function]bool
	persistMemo map[*ssa.Function]bool
	tables      map[string]map[int64]c30Row // constant package-level tables (map[State]... literals)
}

// c30Row is one entry of a constant table: a slice of constants or a single constant.
type c30Row struct {
	isSlice bool
	elems   []int64
	scalar  kit.PxVal
}

const c30Sleep = "internal/sleep"

func (cx *c30Ctx) isStateAddr(v ssa.Value) bool {
	fa, ok := v.(*ssa.FieldAddr)
	return ok && kit.FieldOfAddr(fa) == cx.stateF
}

// stateStore: call is a write of the state field; returns the constant stored (if constant).
func (cx *c30Ctx) stateStore(c ssa.CallInstruction) (val int64, isConst, ok bool) {
	cal := kit.CalleeOf(c)
	if cal.Pkg != "sync/atomic" || (cal.Name != "Store" && cal.Name != "Swap" && cal.Name != "CompareAndSwap") {
		return 0, false, false
	}
	if !cx.isStateAddr(kit.Receiver(c)) {
		return 0, false, false
	}
	idx := 0
	if cal.Name == "CompareAndSwap" {
		idx = 1
	}
	a := kit.Arg(c, idx)
	if a == nil {
		return 0, false, true
	}
	k, isc := kit.ConstInt(kit.Unwrap(a))
	return k, isc, true
}

func (cx *c30Ctx) stateLoad(c ssa.CallInstruction) bool {
	cal := kit.CalleeOf(c)
	return cal.Pkg == "sync/atomic" && cal.Name == "Load" && cx.isStateAddr(kit.Receiver(c))
}

func (cx *c30Ctx) isMuOp(in ssa.Instruction, names ...string) bool {
	c, ok := in.(*ssa.Call)
	if !ok {
		return false
	}
	cal := kit.CalleeOf(c)
	if cal.Pkg != "sync" {
		return false
	}
	hit := false
	for _, n := range names {
		if cal.Name == n {
			hit = true
		}
	}
	if !hit {
		return false
	}
	fa, ok := kit.Receiver(c).(*ssa.FieldAddr)
	return ok && kit.FieldOfAddr(fa) == cx.mu
}

func c30NewCtx(p *kit.Program, r *kit.Report) *c30Ctx {
	cx := &c30Ctx{p: p, names: map[int64]string{}, getters: map[*ssa.Function]bool{}, persistF: map[*ssa.Function]bool{}, persistMemo: map[*ssa.Function]bool{}}
	cx.mgr = p.NamedType(c30Sleep, "Manager")
	if !r.Require(cx.mgr != nil, "anchor-unresolved: type internal/sleep.Manager") {
		return nil
	}
	for i, n := range []string{"StateAwake", "StateSleeping", "StatePolling"} {
		v, ok := p.ConstValue(c30Sleep, n)
		if !r.Require(ok, "anchor-unresolved: constant sleep.%s", n) {
			return nil
		}
		var k int64
		fmt.Sscan(v, &k)
		cx.st[i] = k
		cx.names[k] = strings.ToUpper(strings.TrimPrefix(n, "State"))
	}
	cx.fns = p.FuncsInPkg(c30Sleep)
	// the state field: the sync/atomic-typed Manager field that receives sleep.State values
	var atomics []*types.Var
	for _, f := range kit.StructFields(cx.mgr) {
		if n, ok := f.Type().(*types.Named); ok && n.Obj().Pkg() != nil && n.Obj().Pkg().Path() == "sync/atomic" {
			atomics = append(atomics, f)
		}
		if n, ok := f.Type().(*types.Named); ok && n.Obj().Name() == "Callbacks" {
			cx.cbField = f
		}
	}
	for _, f := range atomics {
		for _, fn := range cx.fns {
			for _, c := range kit.Calls(fn) {
				cal := kit.CalleeOf(c)
				if cal.Pkg != "sync/atomic" || cal.Name != "Store" {
					continue
				}
				fa, ok := kit.Receiver(c).(*ssa.FieldAddr)
				if !ok || kit.FieldOfAddr(fa) != f {
					continue
				}
				if a := kit.Arg(c, 0); a != nil {
					if n, ok := kit.Unwrap(a).Type().(*types.Named); ok && n.Obj().Name() == "State" {
						cx.stateF = f
					}
				}
			}
		}
	}
	if !r.Require(cx.stateF != nil, "anchor-unresolved: atomic Manager field storing sleep.State values") {
		return nil
	}
	r.Require(cx.cbField != nil, "anchor-unresolved: Manager field of type Callbacks")
	// the state mutex: the mutex write-held at the state store of Sleep (fallback: Wake, Poll)
	for _, name := range []string{"Sleep", "Wake", "Poll"} {
		fn := p.Func(c30Sleep, "Manager", name)
		if !r.Require(fn != nil, "anchor-unresolved: (*sleep.Manager).%s", name) {
			return nil
		}
		if cx.mu != nil {
			continue
		}
		li := kit.Locks(fn)
		for _, c := range kit.Calls(fn) {
			if _, _, ok := cx.stateStore(c); !ok {
				continue
			}
			for _, op := range li.Ops {
				if op.Mutex == nil || !op.Acquire {
					continue
				}
				if _, held := li.HeldAt(c, op.Mutex); held {
					cx.mu, _ = op.Mutex.(*types.Var)
				}
			}
		}
	}
	if !r.Require(cx.mu != nil, "anchor-unresolved: no mutex is held at the state stores of Sleep/Wake/Poll") {
		return nil
	}
	// small state getters (GetState, IsSleeping...): interpreted when called
	for changed := true; changed; {
		changed = false
		for _, fn := range cx.fns {
			if cx.getters[fn] || len(fn.Blocks) == 0 || len(fn.Blocks) > 8 || fn.Parent() != nil {
				continue
			}
			reads, other := false, false
			for _, c := range kit.Calls(fn) {
				cal := kit.CalleeOf(c)
				switch {
				case cx.stateLoad(c):
					reads = true
				case cal.Static != nil && cx.getters[cal.Static]:
					reads = true
				default:
					other = true
				}
			}
			if reads && !other {
				cx.getters[fn] = true
				changed = true
			}
		}
	}
	// pure helpers (admission predicates, transition tables written as code): no stores, no
	// calls except to getters / other pure helpers; interpreted when called
	for changed := true; changed; {
		changed = false
		for _, fn := range cx.fns {
			if cx.getters[fn] || len(fn.Blocks) == 0 || len(fn.Blocks) > 24 || fn.Parent() != nil {
				continue
			}
			pure := true
			kit.Instrs(fn, func(in ssa.Instruction) {
				switch x := in.(type) {
				case *ssa.Store:
					if _, local := x.Addr.(*ssa.Alloc); !local {
						pure = false
					}
				case *ssa.MapUpdate, *ssa.Send, *ssa.Go, *ssa.Defer, *ssa.Panic:
					pure = false
				case *ssa.Call:
					cal := kit.CalleeOf(x)
					if cal.Built == "len" || cal.Built == "cap" {
						return
					}
					if cal.Static == nil || !(cx.getters[cal.Static]) {
						pure = false
					}
				}
			})
			if pure {
				cx.getters[fn] = true
				changed = true
			}
		}
	}
	cx.tables = c30ConstTables(p, cx.fns)
	// persist functions: write a file; plus one level of wrappers
	for _, fn := range cx.fns {
		for _, c := range kit.Calls(fn) {
			cal := kit.CalleeOf(c)
			if cal.Pkg == "os" && (cal.Name == "WriteFile" || cal.Name == "Rename" || cal.Name == "Create" || cal.Name == "OpenFile") {
				cx.persistF[kit.TopLevel(fn)] = true
			}
		}
	}
	r.Require(len(cx.persistF) >= 1, "anchor-unresolved: no function of internal/sleep writes a file (state persistence)")
	if len(r.Floors) > 0 {
		return nil
	}
	return cx
}

// pxConfig builds the abstract-evaluation configuration with every state load yielding s
// (s < 0: unknown).
func (cx *c30Ctx) pxConfig(s int64) *kit.PxConfig {
	rowOf := func(sym string) (c30Row, bool) { // "tblrow:NAME:KEY"
		parts := strings.Split(sym, ":")
		if len(parts) != 3 || parts[0] != "tblrow" {
			return c30Row{}, false
		}
		var k int64
		if _, err := fmt.Sscan(parts[2], &k); err != nil {
			return c30Row{isSlice: true}, true // missing key: empty row
		}
		return cx.tables[parts[1]][k], true
	}
	return &kit.PxConfig{
		MaxVisits: 8,
		Call: func(fr *kit.PxFrame, c ssa.CallInstruction, a []kit.PxVal) ([]kit.PxVal, bool) {
			if cx.stateLoad(c) {
				if s < 0 {
					return []kit.PxVal{{}}, true
				}
				return []kit.PxVal{kit.PxI(s)}, true
			}
			if cal := kit.CalleeOf(c); cal.Built == "len" && len(a) == 1 && a[0].K == kit.PxSym {
				if row, ok := rowOf(a[0].Sym); ok {
					return []kit.PxVal{kit.PxI(int64(len(row.elems)))}, true
				}
			}
			return nil, false
		},
		Compute: func(fr *kit.PxFrame, v ssa.Value) ([]kit.PxVal, bool) {
			switch x := v.(type) {
			case *ssa.Lookup:
				m, ok1 := fr.Value(x.X)
				k, ok2 := fr.Value(x.Index)
				if !ok1 || m.K != kit.PxSym || !strings.HasPrefix(m.Sym, "tbl:") {
					return nil, false
				}
				name := strings.TrimPrefix(m.Sym, "tbl:")
				if !ok2 || k.K != kit.PxInt {
					return nil, false
				}
				row, present := cx.tables[name][k.I]
				var val kit.PxVal
				switch {
				case !present:
					if _, isSl := x.Type().Underlying().(*types.Slice); isSl || x.CommaOk {
						val = kit.PxS("tblrow:" + name + ":none")
					}
					if tb, isB := x.Type().Underlying().(*types.Basic); isB {
						if tb.Info()&types.IsBoolean != 0 {
							val = kit.PxB(false)
						} else if tb.Info()&types.IsInteger != 0 {
							val = kit.PxI(0)
						}
					}
				case row.isSlice:
					val = kit.PxS(fmt.Sprintf("tblrow:%s:%d", name, k.I))
				default:
					val = row.scalar
				}
				if x.CommaOk {
					if !present {
						// the zero value of the element type
						if tup, ok := x.Type().(*types.Tuple); ok {
							if tb, isB := tup.At(0).Type().Underlying().(*types.Basic); isB {
								if tb.Info()&types.IsBoolean != 0 {
									val = kit.PxB(false)
								} else if tb.Info()&types.IsInteger != 0 {
									val = kit.PxI(0)
								}
							}
						}
					}
					return []kit.PxVal{val, kit.PxB(present)}, true
				}
				return []kit.PxVal{val}, true
			case *ssa.IndexAddr:
				base, ok1 := fr.Value(x.X)
				idx, ok2 := fr.Value(x.Index)
				if ok1 && ok2 && base.K == kit.PxSym && idx.K == kit.PxInt {
					if _, ok := rowOf(base.Sym); ok {
						return []kit.PxVal{kit.PxS(fmt.Sprintf("tblelem:%s:%d", strings.TrimPrefix(base.Sym, "tblrow:"), idx.I))}, true
					}
				}
			}
			return nil, false
		},
		Load: func(fr *kit.PxFrame, sym string, at ssa.Instruction) (kit.PxVal, bool) {
			switch {
			case strings.HasSuffix(sym, ".cfg.Enabled"), strings.HasSuffix(sym, ".cfg.PersistState"):
				return kit.PxB(true), true
			case strings.HasPrefix(sym, "tblelem:"): // tblelem:NAME:KEY:IDX
				parts := strings.Split(sym, ":")
				if len(parts) == 4 {
					if row, ok := rowOf("tblrow:" + parts[1] + ":" + parts[2]); ok {
						var i int
						if _, err := fmt.Sscan(parts[3], &i); err == nil && i >= 0 && i < len(row.elems) {
							return kit.PxI(row.elems[i]), true
						}
					}
				}
			case strings.HasPrefix(sym, "global:") && cx.tables[strings.TrimPrefix(sym, "global:")] != nil:
				return kit.PxS("tbl:" + strings.TrimPrefix(sym, "global:")), true
			case strings.HasPrefix(sym, "global:"):
				if v, ok := at.(ssa.Value); ok && kit.IsErrorType(v.Type()) {
					return kit.PxS(sym), true
				}
			}
			return kit.PxVal{}, false
		},
		Missing: func(fr *kit.PxFrame, v ssa.Value) (kit.PxVal, bool) {
			if prm, ok := v.(*ssa.Parameter); ok && fr.Fn.Signature.Recv() != nil && len(fr.Fn.Params) > 0 && prm == fr.Fn.Params[0] {
				return kit.PxS("recv"), true
			}
			return kit.PxVal{}, false
		},
		Descend: func(c ssa.CallInstruction, callee *ssa.Function) bool { return cx.getters[callee] },
	}
}

// c30ConstTables finds package-level maps that are built once in the package initialiser from
// constant keys and constant (or slice-of-constant) values and never written afterwards: "state
// machine as data" tables, which the abstract evaluation can then consult exactly.
func c30ConstTables(p *kit.Program, fns []*ssa.Function) map[string]map[int64]c30Row {
	out := map[string]map[int64]c30Row{}
	sp := p.SSAPkg(c30Sleep)
	if sp == nil {
		return out
	}
	initFn := sp.Func("init")
	if initFn == nil {
		return out
	}
	kit.Instrs(initFn, func(in ssa.Instruction) {
		st, ok := in.(*ssa.Store)
		if !ok {
			return
		}
		g, ok := st.Addr.(*ssa.Global)
		if !ok {
			return
		}
		mm, ok := st.Val.(*ssa.MakeMap)
		if !ok || mm.Referrers() == nil {
			return
		}
		tbl := map[int64]c30Row{}
		valid := true
		for _, ref := range *mm.Referrers() {
			switch u := ref.(type) {
			case *ssa.MapUpdate:
				k, isc := kit.ConstInt(u.Key)
				if !isc {
					valid = false
					continue
				}
				if sl, isSl := u.Value.(*ssa.Slice); isSl {
					arr, isA := sl.X.(*ssa.Alloc)
					if !isA || arr.Referrers() == nil || sl.Low != nil || sl.High != nil {
						valid = false
						continue
					}
					at, isArr := arr.Type().(*types.Pointer).Elem().Underlying().(*types.Array)
					if !isArr {
						valid = false
						continue
					}
					elems := make([]int64, at.Len())
					set := make([]bool, at.Len())
					for _, ar := range *arr.Referrers() {
						ia, isIA := ar.(*ssa.IndexAddr)
						if !isIA || ia.Referrers() == nil {
							continue
						}
						i, isc := kit.ConstInt(ia.Index)
						if !isc || i < 0 || i >= at.Len() {
							valid = false
							continue
						}
						for _, sr := range *ia.Referrers() {
							if es, isSt := sr.(*ssa.Store); isSt && es.Addr == ssa.Value(ia) {
								if v, isc := kit.ConstInt(es.Val); isc {
									elems[i], set[i] = v, true
								} else {
									valid = false
								}
							}
						}
					}
					for _, b := range set {
						if !b {
							valid = false
						}
					}
					tbl[k] = c30Row{isSlice: true, elems: elems}
				} else if c, isC := u.Value.(*ssa.Const); isC {
					if b, isB := kit.ConstBool(c); isB {
						tbl[k] = c30Row{scalar: kit.PxB(b)}
					} else if v, isI := kit.ConstInt(c); isI {
						tbl[k] = c30Row{scalar: kit.PxI(v)}
					} else {
						valid = false
					}
				} else {
					valid = false
				}
			case *ssa.Store:
				if u.Val != ssa.Value(mm) {
					valid = false
				}
			case *ssa.DebugRef:
			default:
				valid = false
			}
		}
		if valid {
			out[g.Name()] = tbl
		}
	})
	// any write outside the initialiser invalidates a table
	for _, fn := range fns {
		kit.Instrs(fn, func(in ssa.Instruction) {
			inval := func(v ssa.Value) {
				for _, leaf := range kit.PhiLeaves(v) {
					if u, ok := leaf.(*ssa.UnOp); ok {
						if g, ok := u.X.(*ssa.Global); ok {
							delete(out, g.Name())
						}
					}
				}
			}
			switch x := in.(type) {
			case *ssa.MapUpdate:
				inval(x.Map)
			case *ssa.Store:
				if g, ok := x.Addr.(*ssa.Global); ok {
					delete(out, g.Name())
				}
			case ssa.CallInstruction:
				if b := kit.CalleeOf(x).Built; (b == "delete" || b == "clear") && len(x.Common().Args) > 0 {
					inval(x.Common().Args[0])
				}
			}
		})
	}
	return out
}

// statesAt computes the set of states under which `site` is reachable from the lock acquisition
// `acq` without leaving the critical section.
func (cx *c30Ctx) statesAt(acq, site ssa.Instruction) (map[int64]bool, bool) {
	out := map[int64]bool{}
	for _, s := range cx.st {
		hit := false
		cfg := cx.pxConfig(s)
		cfg.Visit = func(fr *kit.PxFrame, in ssa.Instruction) bool {
			if in == site {
				hit = true
				return false
			}
			if fr.Depth == 0 && cx.isMuOp(in, "Unlock", "RUnlock") {
				return false
			}
			return true
		}
		run := kit.PathxExploreFrom(acq, cfg)
		if run.Truncated {
			return nil, false
		}
		if hit {
			out[s] = true
		}
	}
	return out, true
}

func (cx *c30Ctx) setString(m map[int64]bool) string {
	var ks []int64
	for k := range m {
		ks = append(ks, k)
	}
	sort.Slice(ks, func(i, j int) bool { return ks[i] < ks[j] })
	var ss []string
	for _, k := range ks {
		ss = append(ss, cx.names[k])
	}
	return "{" + strings.Join(ss, ",") + "}"
}

// writeAcq returns the write-lock acquisition of the state mutex held at `at`.
func (cx *c30Ctx) writeAcq(at ssa.Instruction) (ssa.Instruction, string) {
	li := kit.Locks(at.Parent())
	acq, held := li.HeldAt(at, cx.mu)
	if !held {
		return nil, "the state mutex is not held"
	}
	if acq == nil {
		return nil, "the state mutex is held through different acquisitions on different paths"
	}
	if !cx.isMuOp(acq, "Lock") {
		return nil, "only the read lock of the state mutex is held"
	}
	return acq, ""
}

type c30StoreSite struct {
	site  ssa.Instruction // the store, or the call of the storing helper
	val   int64
	fn    *ssa.Function
	label string
}

func runC30(p *kit.Program, r *kit.Report) {
	r.Rule("C30.R1", "every constant store to the Manager's state happens under the write lock of the state mutex, and the states possible at the store (from state loads in the same critical section) are legal predecessors of the stored state")
	r.Rule("C30.R2", "Sleep in state sleeping/polling and Wake in state awake return a non-nil error, store no state and invoke no callback")
	r.Rule("C30.R3", "OnSleep/OnWake/OnPollEnd and function parameters of Manager methods are invoked under the write lock in their source states only; the agent's OnPoll callback disconnects peers / closes listeners only inside a function the Manager runs under the lock in state polling, or on its shutdown branch")
	r.Rule("C30.R4", "every constant state store is followed, before the critical section ends, by the state-file writer (persistence enabled); the writer and its wrappers return success only after the file write has executed — a success return that skips the write is allowed only under a guard on immutable configuration, never on remembered state")
	cx := c30NewCtx(p, r)
	if cx == nil {
		return
	}
	awake, sleeping, polling := cx.st[0], cx.st[1], cx.st[2]
	pred := map[int64]map[int64]bool{
		awake:    {sleeping: true, polling: true},
		sleeping: {awake: true, polling: true},
		polling:  {sleeping: true},
	}

	// ---- collect store sites
	var sites []c30StoreSite
	nInit, nRestore := 0, 0
	ordinal := map[string]int{}
	addSite := func(site ssa.Instruction, val int64) {
		fn := site.Parent()
		base := fmt.Sprintf("%s stores %s", kit.FuncName(fn), cx.names[val])
		ordinal[base]++
		sites = append(sites, c30StoreSite{site, val, fn, fmt.Sprintf("%s #%d", base, ordinal[base])})
	}
	for _, fn := range cx.fns {
		for _, c := range kit.Calls(fn) {
			val, isConst, ok := cx.stateStore(c)
			if !ok {
				continue
			}
			if _, fresh := c28Root(kit.Receiver(c).(*ssa.FieldAddr).X).(*ssa.Alloc); fresh {
				nInit++ // construction of a new Manager
				continue
			}
			if !isConst {
				// parameterised helper: resolve the constant at each call site (one level)
				if prm, isPrm := kit.Unwrap(kit.Arg(c, 0)).(*ssa.Parameter); isPrm && fn.Parent() == nil {
					idx := -1
					for i, q := range fn.Params {
						if q == prm {
							idx = i
						}
					}
					callers := p.StaticCallers(fn)
					allConst := len(callers) > 0 && idx >= 0
					for _, cs := range callers {
						if idx >= len(cs.Common().Args) {
							allConst = false
							continue
						}
						if _, isc := kit.ConstInt(kit.Unwrap(cs.Common().Args[idx])); !isc {
							allConst = false
						}
					}
					if allConst {
						for _, cs := range callers {
							k, _ := kit.ConstInt(kit.Unwrap(cs.Common().Args[idx]))
							addSite(cs, k)
						}
						continue
					}
				}
				if c30Restores(p, kit.TopLevel(fn), 2) {
					nRestore++
					continue
				}
				r.Violation("C30.R1", kit.FuncName(fn)+" stores a computed state", p.Pos(c.Pos()),
					"the state is set to a non-constant value outside the start-up restore: the transition cannot be one of the four legal ones for every value")
				continue
			}
			// constant store: in a helper that does not take the lock itself, judge the callers
			if _, why := cx.writeAcq(c); why != "" && fn.Parent() == nil {
				callers := p.StaticCallers(fn)
				if len(callers) > 0 && !fn.Object().Exported() {
					for _, cs := range callers {
						addSite(cs, val)
					}
					continue
				}
			}
			addSite(c, val)
		}
	}
	r.Count("state_store_sites", len(sites))
	r.Count("state_stores_at_construction", nInit)
	r.Count("state_stores_restoring_persisted_state", nRestore)
	if !r.Require(len(sites) >= 4, "floor: expected >= 4 constant state stores (Sleep, Wake, Poll x2), found %d", len(sites)) {
		return
	}

	// ---- R1 and R4 per store site
	for _, s := range sites {
		pos := p.Pos(s.site.Pos())
		acq, why := cx.writeAcq(s.site)
		if acq == nil {
			r.Violation("C30.R1", s.label, pos, "%s at this state store: concurrent transitions interleave (two Sleep calls both pass the check, a Wake slips between a check and its store)", why)
			continue
		}
		set, ok := cx.statesAt(acq, s.site)
		if !ok {
			r.Floor("checker: abstract evaluation of %s exceeded its step budget", kit.FuncName(s.fn))
			continue
		}
		var illegal []string
		for st := range set {
			if !pred[s.val][st] {
				illegal = append(illegal, cx.names[st])
			}
		}
		sort.Strings(illegal)
		r.Decide(len(illegal) == 0 && len(set) > 0, "C30.R1", s.label, pos,
			"possible current states "+cx.setString(set)+" are all legal predecessors of "+cx.names[s.val],
			fmt.Sprintf("the store of %s is reachable in state(s) %v within its critical section (possible: %s): the transition %v->%s is not in the state machine (the state re-read under the lock does not exclude it)", cx.names[s.val], illegal, cx.setString(set), illegal, cx.names[s.val]))

		// R4: must pass the persist function before the region ends
		bad := ""
		cfg := cx.pxConfig(-1)
		cfg.Visit = func(fr *kit.PxFrame, in ssa.Instruction) bool {
			if fr.Depth > 0 {
				return true
			}
			if c, isCall := in.(ssa.CallInstruction); isCall {
				if cal := kit.CalleeOf(c); cal.Static != nil && cx.persists(cal.Static, 3) {
					if _, isPlain := in.(*ssa.Call); isPlain {
						return false // satisfied on this path (a `go` or `defer` is not: it runs later)
					}
				}
			}
			if cx.isMuOp(in, "Unlock", "RUnlock") {
				bad = "the state mutex is released at " + p.Pos(in.Pos())
				return false
			}
			return true
		}
		cfg.Return = func(fr *kit.PxFrame, ret *ssa.Return, res []kit.PxVal) {
			if ret.Block() != s.fn.Recover {
				bad = "the function returns at " + p.Pos(ret.Pos())
			}
		}
		start := s.site
		if cs, isCall := s.site.(ssa.CallInstruction); isCall {
			if cal := kit.CalleeOf(cs); cal.Static != nil && cal.Pkg != "sync/atomic" && cx.persists(cal.Static, 3) {
				start = nil // the storing helper persists itself
			}
		}
		// a persist call deferred before the store runs when the function returns, still
		// inside the critical section when it was deferred after the unlock was
		if start != nil {
			kit.Instrs(s.fn, func(in ssa.Instruction) {
				if d, ok := in.(*ssa.Defer); ok && start != nil {
					if cal := kit.CalleeOf(d); cal.Static != nil && cx.persists(cal.Static, 3) && kit.Precedes(d, s.site) {
						if _, held := kit.Locks(s.fn).HeldAt(d, cx.mu); held {
							start = nil
						}
					}
				}
			})
		}
		if start != nil {
			run := kit.PathxExploreFrom(start, cfg)
			if run.Truncated {
				r.Floor("checker: abstract evaluation of %s exceeded its step budget", kit.FuncName(s.fn))
				continue
			}
		}
		r.Decide(bad == "", "C30.R4", s.label, pos,
			"the state-file writer is called on every path before the critical section ends",
			"after this state store "+bad+" without the state file having been written: after a crash the persisted state differs from the state of the completed transition")
	}

	// ---- R4 (writer side): success implies written
	var writers []*ssa.Function
	for _, fn := range cx.fns {
		if fn.Parent() == nil && cx.persists(fn, 3) {
			writers = append(writers, fn)
		}
	}
	r.Count("state_file_writer_functions", len(writers))
	for _, fn := range writers {
		bad, pos := cx.skipsWrite(fn)
		if pos == "" {
			pos = p.Pos(fn.Pos())
		}
		r.Decide(bad == "", "C30.R4", kit.FuncName(fn)+" writes the state file on every successful path", pos,
			"every path that returns success has executed the file write (or a writer that has)",
			bad+": the transition completes and reports success although the state file was not written; the condition is not immutable configuration, so what is remembered can differ from what is on disk (restart restores from the file, failed rename, external change) and the persisted state no longer matches the state after the transition")
	}

	// ---- R4 (writer side): what is written, and where, is what the restore reads
	var restoreField *types.Var
	for _, fn := range cx.fns {
		for _, c := range kit.Calls(fn) {
			if cal := kit.CalleeOf(c); cal.Pkg == "os" && cal.Name == "ReadFile" && len(c.Common().Args) > 0 {
				kit.Slice(c.Common().Args[0], kit.SliceOpts{Prog: p, Visit: func(v ssa.Value) {
					if f, _ := kit.LoadedField(v); f != nil && c28FieldOwner(f, cx.mgr) {
						restoreField = f
					}
				}})
			}
		}
	}
	for _, fn := range writers {
		if !cx.persistF[fn] {
			continue
		}
		// destination of the completing file operation
		var dest ssa.Value
		var destPos string
		for _, c := range kit.Calls(fn) {
			cal := kit.CalleeOf(c)
			if cal.Pkg != "os" {
				continue
			}
			switch {
			case cal.Name == "Rename" && len(c.Common().Args) == 2:
				dest, destPos = c.Common().Args[1], p.Pos(c.Pos())
			case (cal.Name == "WriteFile" || cal.Name == "Create" || cal.Name == "OpenFile") && dest == nil && len(c.Common().Args) > 0:
				dest, destPos = c.Common().Args[0], p.Pos(c.Pos())
			}
		}
		if dest != nil && restoreField != nil {
			f, _ := kit.LoadedField(dest)
			r.Decide(f == restoreField, "C30.R4", kit.FuncName(fn)+" writes the file the restore reads", destPos,
				"the completing file operation targets exactly Manager."+restoreField.Name(),
				"the state is written to a path that is not exactly Manager."+restoreField.Name()+", the file the start-up restore reads: after a restart the agent restores an older state than the one of the last completed transition")
		}
	}
	for _, fn := range writers {
		// the marshalled snapshot reads the state inside the writer chain
		for _, c := range kit.Calls(fn) {
			cal := kit.CalleeOf(c)
			if cal.Pkg != "encoding/json" || !strings.HasPrefix(cal.Name, "Marshal") || len(c.Common().Args) == 0 {
				continue
			}
			fresh := false
			for _, src := range kit.Slice(c.Common().Args[0], kit.SliceOpts{Prog: p, FollowCall: func(cc ssa.CallInstruction) bool {
				cl := kit.CalleeOf(cc)
				return cl.Static != nil && kit.FuncPkgPath(cl.Static) == kit.PkgPath(c30Sleep)
			}}) {
				if src.Kind == kit.SrcCall && cx.stateLoad(src.Call) {
					fresh = true
				}
			}
			r.Decide(fresh, "C30.R4", kit.FuncName(fn)+" snapshots the current state", p.Pos(c.Pos()),
				"the marshalled snapshot takes the state from a load of the state field inside the writer",
				"the marshalled snapshot does not read the Manager's state itself (a value captured earlier or passed in is written): the file can carry the state from before the transition")
		}
	}

	// ---- R2 refusals
	type refusal struct {
		method string
		state  int64
	}
	for _, rf := range []refusal{{"Sleep", sleeping}, {"Sleep", polling}, {"Wake", awake}} {
		fn := p.Func(c30Sleep, "Manager", rf.method)
		key := fmt.Sprintf("%s in state %s is refused", kit.FuncName(fn), cx.names[rf.state])
		bad := ""
		cfg := cx.pxConfig(rf.state)
		cfg.Visit = func(fr *kit.PxFrame, in ssa.Instruction) bool {
			c, ok := in.(ssa.CallInstruction)
			if !ok {
				return true
			}
			if _, _, isStore := cx.stateStore(c); isStore {
				bad = "a state store at " + p.Pos(in.Pos()) + " is reached"
			}
			if c30DynamicFuncCall(c) {
				bad = "a callback is invoked at " + p.Pos(in.Pos())
			}
			return true
		}
		nRet := 0
		cfg.Return = func(fr *kit.PxFrame, ret *ssa.Return, res []kit.PxVal) {
			if ret.Block() == fn.Recover || len(res) == 0 {
				return
			}
			nRet++
			if v := res[len(res)-1]; v.K != kit.PxNonNil && v.K != kit.PxSym {
				bad = "the return at " + p.Pos(ret.Pos()) + " does not yield a non-nil error"
			}
		}
		run := kit.PathxExplore(fn, []kit.PxVal{kit.PxS("recv")}, cfg)
		if run.Truncated {
			r.Floor("checker: abstract evaluation of %s exceeded its step budget", kit.FuncName(fn))
			continue
		}
		r.Require(nRet > 0, "checker: abstract evaluation of %s in state %s reaches no return (model does not fit the code)", kit.FuncName(fn), cx.names[rf.state])
		r.Decide(bad == "", "C30.R2", key, p.Pos(fn.Pos()),
			"every path returns a non-nil error without a state store or callback",
			bad+": the request is not refused (a second OnSleep/OnWake runs, or the caller is told the transition happened)")
	}

	// ---- R3a: callbacks and function parameters invoked by the Manager
	allowed := map[string]map[int64]bool{
		"OnSleep":   {awake: true},
		"OnWake":    {sleeping: true, polling: true},
		"OnPollEnd": {polling: true},
	}
	type pkey struct {
		fn  *ssa.Function
		idx int
	}
	guardedParam := map[pkey]bool{}
	paramSeen := map[pkey]bool{}
	nCB := 0
	for _, fn := range cx.fns {
		ord := map[string]int{}
		for _, c := range kit.Calls(fn) {
			if !c30DynamicFuncCall(c) {
				continue
			}
			val := c.Common().Value
			name, want := "", map[int64]bool(nil)
			var pk *pkey
			if f, base := kit.LoadedField(val); f != nil {
				if bf, ok := base.(*ssa.FieldAddr); ok && kit.FieldOfAddr(bf) == cx.cbField {
					name = f.Name()
					want = allowed[name]
				}
			} else if prm, ok := val.(*ssa.Parameter); ok && fn.Parent() == nil {
				for i, q := range fn.Params {
					if q == prm {
						pk = &pkey{fn, i}
					}
				}
				name = "parameter " + prm.Name()
				want = map[int64]bool{polling: true}
			}
			if name == "" || (want == nil && pk == nil) {
				continue // OnPoll (runs unlocked by design) and unrelated function values
			}
			nCB++
			ord[name]++
			key := fmt.Sprintf("%s invokes %s #%d", kit.FuncName(fn), name, ord[name])
			pos := p.Pos(c.Pos())
			acq, why := cx.writeAcq(c)
			okSite, msg := false, ""
			if acq == nil {
				msg = why + " when " + name + " is invoked"
			} else {
				set, ok := cx.statesAt(acq, c)
				if !ok {
					r.Floor("checker: abstract evaluation of %s exceeded its step budget", kit.FuncName(fn))
					continue
				}
				var illegal []string
				for st := range set {
					if !want[st] {
						illegal = append(illegal, cx.names[st])
					}
				}
				sort.Strings(illegal)
				if len(illegal) == 0 && len(set) > 0 {
					okSite = true
				} else {
					msg = fmt.Sprintf("%s is invoked in state(s) %v (possible: %s)", name, illegal, cx.setString(set))
				}
			}
			if pk != nil {
				if !paramSeen[*pk] {
					paramSeen[*pk] = true
					guardedParam[*pk] = okSite
				} else if !okSite {
					guardedParam[*pk] = false
				}
				if !okSite {
					// a function parameter run in other states is not by itself a defect; it
					// just is no polling-guarded entry. Report as information.
					r.Infof("C30.R3", key, pos, "not a polling-guarded invocation: %s", msg)
					continue
				}
			}
			r.Decide(okSite, "C30.R3", key, pos, "invoked under the write lock in its source state(s) only",
				msg+": connectivity is torn down (or restored) on behalf of a poll/transition that is no longer current, e.g. a disconnect after a completed wake")
		}
	}
	r.Count("manager_callback_invocations", nCB)

	// ---- R3b: the agent's OnPoll callback
	c30PollCallback(cx, r, func(fn *ssa.Function, idx int) bool { return guardedParam[pkey{fn, idx}] })
}

// persists: fn writes the state file, directly or through at most depth static callees in the package.
func (cx *c30Ctx) persists(fn *ssa.Function, depth int) bool {
	if cx.persistF[fn] {
		return true
	}
	if depth == 0 || kit.FuncPkgPath(fn) != kit.PkgPath(c30Sleep) || len(fn.Blocks) == 0 {
		return false
	}
	if v, ok := cx.persistMemo[fn]; ok {
		return v
	}
	cx.persistMemo[fn] = false // cycles
	// a wrapper: with persistence enabled every path from its entry calls a persisting function,
	// except paths that fail before (return a non-nil error, e.g. marshalling failed)
	ok := true
	found := false
	errRes := false
	if res := fn.Signature.Results(); res.Len() > 0 && kit.IsErrorType(res.At(res.Len()-1).Type()) {
		errRes = true
	}
	cfg := cx.pxConfig(-1)
	cfg.Visit = func(fr *kit.PxFrame, in ssa.Instruction) bool {
		if fr.Depth > 0 {
			return true
		}
		if c, isCall := in.(*ssa.Call); isCall {
			if cal := kit.CalleeOf(c); cal.Static != nil && cal.Static != fn && cx.persists(cal.Static, depth-1) {
				found = true
				return false
			}
		}
		return true
	}
	cfg.Return = func(fr *kit.PxFrame, ret *ssa.Return, res []kit.PxVal) {
		if ret.Block() == fn.Recover {
			return
		}
		if errRes && len(res) > 0 && res[len(res)-1].NonNilLike() {
			return // failed before it could persist
		}
		ok = false
	}
	args := []kit.PxVal{}
	if fn.Signature.Recv() != nil {
		args = append(args, kit.PxS("recv"))
	}
	run := kit.PathxExplore(fn, args, cfg)
	v := ok && found && !run.Truncated
	cx.persistMemo[fn] = v
	return v
}

// skipsWrite explores a state-file writer (or a wrapper of one) with persistence enabled and
// reports a return that signals success (nil error / plain return) on a path that executed
// neither the final file operation of fn nor a call of another writer. Such a return is
// tolerated only under a guard that reads nothing but immutable configuration of the Manager.
func (cx *c30Ctx) skipsWrite(fn *ssa.Function) (string, string) {
	p := cx.p
	// the file operation that completes the write in fn: Rename if there is one, else the
	// last-listed write/create call
	var final ssa.Instruction
	for _, c := range kit.Calls(fn) {
		cal := kit.CalleeOf(c)
		if cal.Pkg != "os" {
			continue
		}
		switch cal.Name {
		case "Rename":
			final = c
		case "WriteFile", "Create", "OpenFile":
			if final == nil || kit.CalleeOf(final.(ssa.CallInstruction)).Name != "Rename" {
				final = c
			}
		}
	}
	errRes := false
	if res := fn.Signature.Results(); res.Len() > 0 && kit.IsErrorType(res.At(res.Len()-1).Type()) {
		errRes = true
	}
	bad, badPos := "", ""
	cfg := cx.pxConfig(-1)
	cfg.Visit = func(fr *kit.PxFrame, in ssa.Instruction) bool {
		if fr.Depth > 0 {
			return true
		}
		if in == final {
			return false // written (its own error handling follows)
		}
		if c, isCall := in.(*ssa.Call); isCall {
			if cal := kit.CalleeOf(c); cal.Static != nil && cal.Static != fn && cx.persists(cal.Static, 3) {
				return false // delegated to another writer, judged on its own
			}
		}
		return true
	}
	cfg.Return = func(fr *kit.PxFrame, ret *ssa.Return, res []kit.PxVal) {
		if ret.Block() == fn.Recover {
			return
		}
		if errRes && len(res) > 0 && res[len(res)-1].NonNilLike() {
			return // a failure is reported
		}
		if cx.configOnlyGuard(ret) {
			return
		}
		bad, badPos = "the return at "+p.Pos(ret.Pos())+" is reached without the file write", p.Pos(ret.Pos())
	}
	args := []kit.PxVal{}
	if fn.Signature.Recv() != nil {
		args = append(args, kit.PxS("recv"))
	}
	if run := kit.PathxExplore(fn, args, cfg); run.Truncated {
		return "", ""
	}
	return bad, badPos
}

// configOnlyGuard: the instruction is dominated by a branch whose condition reads at least one
// field and only fields that are never stored outside the construction of their struct
// (persistence switched off, no state file configured) — not remembered, mutable state.
func (cx *c30Ctx) configOnlyGuard(in ssa.Instruction) bool {
	p := cx.p
	for _, g := range kit.GuardsOf(in) {
		nFields, mutable := 0, false
		kit.Slice(g.Cond, kit.SliceOpts{Prog: p, Visit: func(v ssa.Value) {
			f, _ := kit.LoadedField(v)
			if f == nil {
				if c, ok := v.(*ssa.Call); ok {
					if cal := kit.CalleeOf(c); cal.Pkg == "sync/atomic" || cal.Static != nil && kit.IsRepoPkg(cal.Pkg) {
						mutable = true // atomics and repository calls may read mutable state
					}
				}
				return
			}
			nFields++
			for _, acc := range p.FieldAccessesOfKind(f, kit.FieldStore, kit.FieldAddrUse) {
				if _, fresh := c28Root(acc.Base).(*ssa.Alloc); !fresh {
					mutable = true
				}
			}
		}})
		if nFields > 0 && !mutable {
			return true
		}
	}
	return false
}

// c30Restores: fn reads the persisted state (os.ReadFile / json.Unmarshal), or is a helper all of
// whose static callers do (the start-up restore split into load + apply).
func c30Restores(p *kit.Program, fn *ssa.Function, depth int) bool {
	for _, c := range kit.Calls(fn) {
		cal := kit.CalleeOf(c)
		if (cal.Pkg == "os" && cal.Name == "ReadFile") || (cal.Pkg == "encoding/json" && (cal.Name == "Unmarshal" || cal.Name == "NewDecoder")) {
			return true
		}
	}
	if depth == 0 {
		return false
	}
	callers := p.StaticCallers(fn)
	if len(callers) == 0 {
		return false
	}
	for _, cs := range callers {
		if !c30Restores(p, kit.TopLevel(cs.Parent()), depth-1) {
			return false
		}
	}
	return true
}

// c30DynamicFuncCall: a call through a function value (callback field, parameter, local).
func c30DynamicFuncCall(c ssa.CallInstruction) bool {
	cc := c.Common()
	if cc.IsInvoke() {
		return false
	}
	switch cc.Value.(type) {
	case *ssa.Function, *ssa.Builtin, *ssa.MakeClosure:
		return false
	}
	return true
}

// c30PollCallback checks the function(s) registered as Callbacks.OnPoll.
func c30PollCallback(cx *c30Ctx, r *kit.Report, guarded func(fn *ssa.Function, idx int) bool) {
	p := cx.p
	onPoll := p.Field(c30Sleep, "Callbacks", "OnPoll")
	onPollEnd := p.Field(c30Sleep, "Callbacks", "OnPollEnd")
	if !r.Require(onPoll != nil, "anchor-unresolved: sleep.Callbacks.OnPoll") {
		return
	}
	resolve := func(v ssa.Value) *ssa.Function {
		switch x := v.(type) {
		case *ssa.MakeClosure:
			f, _ := x.Fn.(*ssa.Function)
			if f != nil && f.Synthetic != "" {
				for _, c := range kit.Calls(f) {
					if cal := kit.CalleeOf(c); cal.Static != nil {
						return cal.Static
					}
				}
			}
			return f
		case *ssa.Function:
			return x
		}
		return nil
	}
	var pollFns []*ssa.Function
	for _, acc := range p.FieldAccessesOfKind(onPoll, kit.FieldStore) {
		if kit.FuncPkgPath(acc.Fn) == kit.PkgPath(c30Sleep) {
			continue
		}
		if f := resolve(acc.Val); f != nil {
			pollFns = append(pollFns, f)
		}
	}
	r.Count("onpoll_callbacks_registered", len(pollFns))
	if !r.Require(len(pollFns) >= 1, "floor: no function is registered as sleep.Callbacks.OnPoll outside internal/sleep") {
		return
	}
	// functions that reduce connectivity: peer.Manager.DisconnectAll, and functions of the
	// callback's package that directly call Close on a transport.Listener
	isListenerClose := func(c ssa.CallInstruction) bool {
		cal := kit.CalleeOf(c)
		return cal.Iface && cal.Name == "Close" && cal.Recv == "Listener"
	}
	reducerFn := func(f *ssa.Function) string {
		if f == nil {
			return ""
		}
		cal := kit.Callee{Pkg: kit.FuncPkgPath(f), Name: f.Name()}
		if cal.Name == "DisconnectAll" && strings.HasSuffix(cal.Pkg, "/internal/peer") {
			return "DisconnectAll"
		}
		if len(f.Blocks) > 0 && kit.IsRepoPkg(cal.Pkg) {
			// closes listeners and rewrites a registered-listeners field: it takes listeners
			// away from the agent (a constructor closing its own half-built listener does not)
			closes, unregisters := false, false
			for _, c := range kit.Calls(f) {
				if isListenerClose(c) {
					closes = true
				}
			}
			kit.Instrs(f, func(in ssa.Instruction) {
				if st, ok := in.(*ssa.Store); ok {
					if fa, ok := st.Addr.(*ssa.FieldAddr); ok {
						if fld := kit.FieldOfAddr(fa); fld != nil && c30IsListenerSlice(fld.Type()) {
							unregisters = true
						}
					}
				}
			})
			if closes && unregisters {
				return f.Name()
			}
		}
		return ""
	}
	// a function value handed to a polling-guarded Manager entry (parameter or OnPollEnd)
	guardedValue := func(v ssa.Value) bool {
		if v.Referrers() == nil {
			return false
		}
		for _, ref := range *v.Referrers() {
			switch rr := ref.(type) {
			case ssa.CallInstruction:
				cal := kit.CalleeOf(rr)
				if cal.Static == nil {
					continue
				}
				for i, a := range rr.Common().Args {
					if a == v && guarded(cal.Static, i) {
						return true
					}
				}
			case *ssa.Store:
				if fa, ok := rr.Addr.(*ssa.FieldAddr); ok && onPollEnd != nil && kit.FieldOfAddr(fa) == onPollEnd {
					return true
				}
			}
		}
		return false
	}
	for _, root := range pollFns {
		pkg := kit.FuncPkgPath(root)
		seen := map[*ssa.Function]bool{}
		var order []*ssa.Function
		var walk func(f *ssa.Function, d int)
		walk = func(f *ssa.Function, d int) {
			if f == nil || seen[f] || d > 3 || len(f.Blocks) == 0 {
				return
			}
			seen[f] = true
			order = append(order, f)
			kit.Instrs(f, func(in ssa.Instruction) {
				switch x := in.(type) {
				case *ssa.MakeClosure:
					g, _ := x.Fn.(*ssa.Function)
					if g == nil || guardedValue(x) {
						return
					}
					walk(g, d+1)
				case *ssa.Call, *ssa.Defer, *ssa.Go:
					c := in.(ssa.CallInstruction)
					if cal := kit.CalleeOf(c); cal.Static != nil && kit.FuncPkgPath(cal.Static) == pkg && reducerFn(cal.Static) == "" {
						walk(cal.Static, d+1)
					}
				}
			})
		}
		walk(root, 0)
		nSites := 0
		for _, f := range order {
			ord := map[string]int{}
			for _, c := range kit.Calls(f) {
				what := ""
				if isListenerClose(c) {
					what = "Listener.Close"
				} else if cal := kit.CalleeOf(c); cal.Static != nil {
					what = reducerFn(cal.Static)
				}
				if what == "" {
					continue
				}
				nSites++
				ord[what]++
				key := fmt.Sprintf("%s calls %s #%d", kit.FuncName(f), what, ord[what])
				ok := c30OnShutdownBranch(c)
				r.Decide(ok, "C30.R3", key, p.Pos(c.Pos()),
					"only on the shutdown branch (select case on the stop channel)",
					"the OnPoll callback runs without the Manager's lock; this disconnect/close is decided on an unsynchronised view of the sleep state, so a wake that completes in between is followed by a disconnect (the agent is awake but has no peers / listeners)")
			}
		}
		r.Count("poll_callback_functions_scanned", len(order))
		r.Count("poll_callback_unlocked_reducer_sites", nSites)
	}
}

func c30IsListenerSlice(t types.Type) bool {
	sl, ok := t.Underlying().(*types.Slice)
	if !ok {
		return false
	}
	n, ok := sl.Elem().(*types.Named)
	return ok && n.Obj().Name() == "Listener"
}

// c30OnShutdownBranch: the call is dominated by the select case that received from a channel
// loaded from a field named stopCh (closed on shutdown).
func c30OnShutdownBranch(c ssa.CallInstruction) bool {
	for _, g := range kit.GuardsOf(c) {
		cond, pol := c28StripBool(g.Cond, g.Polarity)
		b, ok := cond.(*ssa.BinOp)
		if !ok || b.Op != token.EQL || !pol {
			continue
		}
		ex, ok := b.X.(*ssa.Extract)
		k, isc := kit.ConstInt(b.Y)
		if !ok || !isc || ex.Index != 0 {
			continue
		}
		sel, ok := ex.Tuple.(*ssa.Select)
		if !ok || int(k) >= len(sel.States) {
			continue
		}
		if f, _ := kit.LoadedField(sel.States[k].Chan); f != nil && f.Name() == "stopCh" {
			return true
		}
	}
	return false
}
