package rules

import (
	"fmt"
	"go/token"
	"go/types"
	"sort"
	"strings"

	"golang.org/x/tools/go/ssa"

	"mmverify/kit"
)

func init() {
	register(&Check{
		ID: "C05", Level: "other", Patterns: []string{"./internal/protocol"},
		Technique: "codec schema extraction from go/ssa (structured CFG walk of writer/reader cursor calls), linear forms of size expressions, dominating-guard prover for raw indexing and allocation sizes",
		Explain:   "Extracts, for every message of internal/protocol that is encoded through the writer cursor and decoded through the reader cursor, the ordered token sequence (width, repetition structure, nested messages, associated struct field) of both sides from the SSA control-flow graph and decides that they agree. Decides that a decoder which parses a nested message from the unread tail advances its cursor by exactly the nested encoder's size expression (linear forms over len(field)), that every allocation on the decode side is sized by a constant, a length, an at-most-16-bit wire integer or a value guarded against the input length or a constant, that raw index/slice expressions on input buffers are dominated by a length guard that covers their upper bound, and that the reader cursor's offset only grows under such a guard. Value-level round-trip equality, lower bounds of slice expressions and lenient skipping of malformed nested entries are not covered.",
		Run:       runC05,
		SelfTests: append(append([]SelfTest{}, c05SelfTests...), c05MoreSelfTests...),
	})
}

// ---------- anchors ----------

type c05ctx struct {
	p *kit.Program
	r *kit.Report

	wT, rT       *types.Named // writer / reader cursor types
	wNew, rNew   *ssa.Function
	rBuf, rOff   *types.Var // reader cursor fields
	wMeth, rMeth map[*ssa.Function]bool
	encoders     map[string]*ssa.Function // message type -> encoder
	decoders     map[string]*ssa.Function // message type -> decoder
	decSet       map[*ssa.Function]string
	encSet       map[*ssa.Function]string
	decodeSide   map[*ssa.Function]bool
	funcs        []*ssa.Function
	encWrap      map[*ssa.Function]*ssa.Function // encoder wrapper -> the encoder whose bytes it returns
	decWrap      map[*ssa.Function]*ssa.Function // decoder wrapper -> the decoder it hands its input to
	fieldRep     map[*types.Var]*types.Var       // field -> representative of its copy-equivalence class
}

func c05isByteSlice(t types.Type) bool {
	s, ok := t.Underlying().(*types.Slice)
	if !ok {
		return false
	}
	b, ok := s.Elem().Underlying().(*types.Basic)
	return ok && b.Kind() == types.Uint8
}

func c05basicKind(t types.Type) types.BasicKind {
	if b, ok := t.Underlying().(*types.Basic); ok {
		return b.Kind()
	}
	return types.Invalid
}

// c05msgType names the message a codec function handles: the receiver / first parameter of an
// encoder, the first result of a decoder (pointers removed).
func c05msgType(t types.Type) string {
	if p, ok := t.(*types.Pointer); ok {
		t = p.Elem()
	}
	if n, ok := t.(*types.Named); ok {
		return n.Obj().Name()
	}
	return types.TypeString(t, func(p *types.Package) string { return p.Name() })
}

func newC05ctx(p *kit.Program, r *kit.Report) *c05ctx {
	cx := &c05ctx{p: p, r: r, wMeth: map[*ssa.Function]bool{}, rMeth: map[*ssa.Function]bool{},
		encoders: map[string]*ssa.Function{}, decoders: map[string]*ssa.Function{},
		decSet: map[*ssa.Function]string{}, encSet: map[*ssa.Function]string{}, decodeSide: map[*ssa.Function]bool{},
		encWrap: map[*ssa.Function]*ssa.Function{}, decWrap: map[*ssa.Function]*ssa.Function{}, fieldRep: map[*types.Var]*types.Var{}}
	pk := p.Package("internal/protocol")
	if !r.Require(pk != nil, "anchor-unresolved: package internal/protocol") {
		return nil
	}
	cx.funcs = p.FuncsInPkg("internal/protocol")
	// cursor types: named structs with a []byte and an int field; the writer has a method
	// func(uint16), the reader a method func() uint16
	scope := pk.Types.Scope()
	for _, name := range scope.Names() {
		tn, ok := scope.Lookup(name).(*types.TypeName)
		if !ok {
			continue
		}
		named, ok := tn.Type().(*types.Named)
		if !ok {
			continue
		}
		st, ok := named.Underlying().(*types.Struct)
		if !ok {
			continue
		}
		var bufF, intF *types.Var
		nInt := 0
		for i := 0; i < st.NumFields(); i++ {
			f := st.Field(i)
			if c05isByteSlice(f.Type()) {
				bufF = f
			}
			if c05basicKind(f.Type()) == types.Int {
				intF = f
				nInt++
			}
		}
		if bufF == nil || intF == nil || nInt != 1 {
			continue
		}
		isW, isR := false, false
		for i := 0; i < named.NumMethods(); i++ {
			sig := named.Method(i).Type().(*types.Signature)
			if sig.Params().Len() == 1 && sig.Results().Len() == 0 && c05basicKind(sig.Params().At(0).Type()) == types.Uint16 {
				isW = true
			}
			if sig.Params().Len() == 0 && sig.Results().Len() == 1 && c05basicKind(sig.Results().At(0).Type()) == types.Uint16 {
				isR = true
			}
		}
		if isW && !isR {
			cx.wT = named
		}
		if isR && !isW {
			cx.rT, cx.rBuf, cx.rOff = named, bufF, intF
		}
	}
	if !r.Require(cx.wT != nil, "anchor-unresolved: writer cursor type (struct{[]byte; int} with a method func(uint16))") ||
		!r.Require(cx.rT != nil, "anchor-unresolved: reader cursor type (struct{[]byte; int} with a method func() uint16)") {
		return nil
	}
	for _, m := range p.Methods("internal/protocol", cx.wT.Obj().Name()) {
		cx.wMeth[m] = true
	}
	for _, m := range p.Methods("internal/protocol", cx.rT.Obj().Name()) {
		cx.rMeth[m] = true
	}
	isPtrTo := func(t types.Type, n *types.Named) bool {
		pt, ok := t.(*types.Pointer)
		return ok && types.Identical(pt.Elem(), n)
	}
	for _, fn := range cx.funcs {
		if fn.Parent() != nil || fn.Signature.Recv() != nil {
			continue
		}
		res := fn.Signature.Results()
		if res.Len() == 1 && isPtrTo(res.At(0).Type(), cx.wT) {
			cx.wNew = fn
		}
		if res.Len() == 1 && isPtrTo(res.At(0).Type(), cx.rT) {
			cx.rNew = fn
		}
	}
	if !r.Require(cx.wNew != nil && cx.rNew != nil, "anchor-unresolved: constructors of the writer/reader cursor types") {
		return nil
	}
	// encoders / decoders
	for _, fn := range cx.funcs {
		if fn.Parent() != nil || cx.wMeth[fn] || cx.rMeth[fn] || fn == cx.wNew || fn == cx.rNew {
			continue
		}
		sig := fn.Signature
		callsW, callsR := false, false
		for _, c := range kit.Calls(fn) {
			if st := kit.CalleeOf(c).Static; st == cx.wNew {
				callsW = true
			} else if st == cx.rNew {
				callsR = true
			}
		}
		if callsW && sig.Results().Len() >= 1 && c05isByteSlice(sig.Results().At(0).Type()) {
			var t types.Type
			if sig.Recv() != nil {
				t = sig.Recv().Type()
			} else if sig.Params().Len() >= 1 {
				t = sig.Params().At(0).Type()
			}
			if t != nil {
				mt := c05msgType(t)
				// helper encoders of a part of a message (e.g. the signed prefix) lose against the
				// encoder of the whole: prefer methods/functions named by the codec convention only
				// as a tie-break on the larger writer size; keep the first otherwise
				if old, dup := cx.encoders[mt]; dup {
					if c05countCursorCalls(cx, fn) <= c05countCursorCalls(cx, old) {
						cx.encSet[fn] = mt + " (partial)"
						continue
					}
					cx.encSet[old] = mt + " (partial)"
				}
				cx.encoders[mt] = fn
				cx.encSet[fn] = mt
			}
		}
		if callsR && sig.Params().Len() >= 1 && c05isByteSlice(sig.Params().At(0).Type()) && sig.Results().Len() >= 2 &&
			kit.IsErrorType(sig.Results().At(sig.Results().Len()-1).Type()) {
			mt := c05msgType(sig.Results().At(0).Type())
			cx.decoders[mt] = fn
			cx.decSet[fn] = mt
		}
	}
	cx.findWrappers()
	cx.buildFieldClasses()
	// decode side: functions with a []byte parameter or the reader cursor as receiver, functions that
	// call io.ReadFull, and everything they call statically inside the package - minus the encode side
	var work []*ssa.Function
	add := func(fn *ssa.Function) {
		if fn != nil && !cx.decodeSide[fn] && kit.FuncPkgPath(fn) == kit.PkgPath("internal/protocol") {
			if cx.wMeth[fn] || fn == cx.wNew {
				return
			}
			if _, isEnc := cx.encSet[fn]; isEnc {
				return
			}
			cx.decodeSide[fn] = true
			work = append(work, fn)
		}
	}
	for _, fn := range cx.funcs {
		if fn.Parent() != nil {
			continue
		}
		if cx.rMeth[fn] || fn == cx.rNew {
			add(fn)
			continue
		}
		callsW := false
		readFull := false
		for _, c := range kit.Calls(fn) {
			cal := kit.CalleeOf(c)
			if cal.Static == cx.wNew {
				callsW = true
			}
			if cal.Pkg == "io" && cal.Name == "ReadFull" {
				readFull = true
			}
		}
		if callsW {
			continue
		}
		if readFull {
			add(fn)
			continue
		}
		for i := 0; i < fn.Signature.Params().Len(); i++ {
			if c05isByteSlice(fn.Signature.Params().At(i).Type()) && fn.Signature.Results().Len() > 0 {
				// a []byte consumer that returns something: a decoder of some kind
				if fn.Signature.Recv() == nil || !c05isWriterLike(fn) {
					add(fn)
				}
			}
		}
	}
	for len(work) > 0 {
		fn := work[len(work)-1]
		work = work[:len(work)-1]
		for _, c := range kit.Calls(fn) {
			add(kit.CalleeOf(c).Static)
		}
		for _, a := range fn.AnonFuncs {
			add(a)
		}
	}
	r.Count("encoders", len(cx.encoders))
	r.Count("decoders", len(cx.decoders))
	r.Count("decode_side_functions", len(cx.decodeSide))
	return cx
}

// c05isWriterLike: methods that take bytes to send them (FrameWriter.WriteFrame): they return only an error.
func c05isWriterLike(fn *ssa.Function) bool {
	res := fn.Signature.Results()
	return res.Len() == 1 && kit.IsErrorType(res.At(0).Type())
}

func c05countCursorCalls(cx *c05ctx, fn *ssa.Function) int {
	n := 0
	for _, c := range kit.Calls(fn) {
		if st := kit.CalleeOf(c).Static; st != nil && (cx.wMeth[st] || cx.rMeth[st]) {
			n++
		}
	}
	return n
}

func runC05(p *kit.Program, r *kit.Report) {
	r.Rule("C05.R1", "for every message with a cursor-based encoder and decoder the written token sequence (widths, loops, nested messages, associated fields) equals the sequence read")
	r.Rule("C05.R2", "a decoder that parses a nested message from the unread tail advances its offset by the nested encoder's size expression; a decoder's consumed-bytes result equals its encoder's size expression")
	r.Rule("C05.R3", "every make on the decode side is sized by constants, lengths, at-most-16-bit wire integers, or values guarded against the input length or a constant")
	r.Rule("C05.R4", "raw index/slice expressions on input buffers are dominated by a length guard covering their upper bound; the reader cursor's offset is only advanced under such a guard or past a successfully decoded nested message")
	cx := newC05ctx(p, r)
	if cx == nil {
		return
	}
	cx.ruleR1()
	cx.ruleR2()
	cx.ruleR3()
	cx.ruleR4()
	cx.ruleR5()
	cx.ruleR6()
	kit.DumpObs(r)
}

// ---------- linear forms (K9) ----------

type c05sym struct {
	kind string // "lenf": len of a value loaded from field f; "fld": load of field f of base v; "len": len(v); "val": opaque value v
	f    *types.Var
	v    ssa.Value
}

type c05lin struct {
	c int64
	t map[c05sym]int64
}

func (a c05lin) add(b c05lin, k int64) c05lin {
	out := c05lin{c: a.c + k*b.c, t: map[c05sym]int64{}}
	for s, n := range a.t {
		out.t[s] += n
	}
	for s, n := range b.t {
		out.t[s] += k * n
	}
	for s, n := range out.t {
		if n == 0 {
			delete(out.t, s)
		}
	}
	return out
}

func (a c05lin) String() string {
	var parts []string
	for s, n := range a.t {
		name := ""
		switch s.kind {
		case "lenf":
			name = "len(" + s.f.Name() + ")"
		case "fld":
			name = s.f.Name()
		case "len":
			name = "len(" + s.v.Name() + ")"
		default:
			name = s.v.Name()
		}
		if n == 1 {
			parts = append(parts, name)
		} else {
			parts = append(parts, fmt.Sprintf("%d*%s", n, name))
		}
	}
	sort.Strings(parts)
	if a.c != 0 || len(parts) == 0 {
		parts = append([]string{fmt.Sprint(a.c)}, parts...)
	}
	return strings.Join(parts, " + ")
}

func (a c05lin) equal(b c05lin) bool {
	d := a.add(b, -1)
	return d.c == 0 && len(d.t) == 0
}

// lin normalises an integer SSA expression to c0 + sum ci*sym. countField maps a wire-integer
// value (reader cursor result) to the field whose length it carries, when known.
func (cx *c05ctx) lin(v ssa.Value, depth int) (c05lin, bool) {
	if depth > 12 {
		return c05lin{}, false
	}
	if c, ok := kit.ConstInt(v); ok {
		return c05lin{c: c}, true
	}
	one := func(s c05sym) (c05lin, bool) { return c05lin{t: map[c05sym]int64{s: 1}}, true }
	switch x := v.(type) {
	case *ssa.Convert:
		return cx.lin(x.X, depth+1)
	case *ssa.ChangeType:
		return cx.lin(x.X, depth+1)
	case *ssa.BinOp:
		switch x.Op {
		case token.ADD, token.SUB:
			a, ok1 := cx.lin(x.X, depth+1)
			b, ok2 := cx.lin(x.Y, depth+1)
			if !ok1 || !ok2 {
				return c05lin{}, false
			}
			if x.Op == token.ADD {
				return a.add(b, 1), true
			}
			return a.add(b, -1), true
		case token.MUL:
			if k, ok := kit.ConstInt(x.Y); ok {
				if a, ok := cx.lin(x.X, depth+1); ok {
					return c05lin{}.add(a, k), true
				}
			}
			if k, ok := kit.ConstInt(x.X); ok {
				if a, ok := cx.lin(x.Y, depth+1); ok {
					return c05lin{}.add(a, k), true
				}
			}
		}
		return one(c05sym{kind: "val", v: v})
	case *ssa.Call:
		if kit.CalleeOf(x).Built == "len" && len(x.Call.Args) == 1 {
			arg := x.Call.Args[0]
			if f, _ := kit.LoadedField(arg); f != nil {
				return one(c05sym{kind: "lenf", f: cx.rep(f)})
			}
			return one(c05sym{kind: "len", v: arg})
		}
		// a wire integer that carries the length of a field
		if f := cx.countField(x); f != nil {
			return one(c05sym{kind: "lenf", f: cx.rep(f)})
		}
		return one(c05sym{kind: "val", v: v})
	case *ssa.UnOp:
		if x.Op == token.MUL {
			if fa, ok := x.X.(*ssa.FieldAddr); ok {
				if f := kit.FieldOfAddr(fa); f != nil {
					return one(c05sym{kind: "fld", f: f, v: fa.X})
				}
			}
		}
		return one(c05sym{kind: "val", v: v})
	case *ssa.Phi:
		return c05lin{}, false
	}
	return one(c05sym{kind: "val", v: v})
}

// countField: c is a reader-cursor call whose integer result is (after conversions) the size
// argument of another reader-cursor call whose result is stored into struct field F.
func (cx *c05ctx) countField(c *ssa.Call) *types.Var {
	st := kit.CalleeOf(c).Static
	if st == nil || !cx.rMeth[st] {
		return nil
	}
	var found *types.Var
	seen := map[ssa.Value]bool{}
	var follow func(v ssa.Value, d int)
	follow = func(v ssa.Value, d int) {
		if d > 4 || seen[v] || v.Referrers() == nil {
			return
		}
		seen[v] = true
		for _, ref := range *v.Referrers() {
			switch t := ref.(type) {
			case *ssa.Convert:
				follow(t, d+1)
			case *ssa.Call:
				if s2 := kit.CalleeOf(t).Static; s2 != nil && cx.rMeth[s2] && c05isByteSlice(t.Type()) {
					for _, f := range cx.storedFields(t) {
						found = f
					}
				}
			}
		}
	}
	follow(c, 0)
	return found
}

// storedFields: struct fields that value v is stored into (directly, through conversions, or as the
// source of a copy into a slice of the field).
func (cx *c05ctx) storedFields(v ssa.Value) []*types.Var {
	var out []*types.Var
	seen := map[ssa.Value]bool{}
	var follow func(x ssa.Value, d int)
	follow = func(x ssa.Value, d int) {
		if d > 6 || seen[x] || x.Referrers() == nil {
			return
		}
		seen[x] = true
		for _, ref := range *x.Referrers() {
			switch t := ref.(type) {
			case *ssa.Store:
				if t.Val != x {
					continue
				}
				if f := c05fieldOfAddr(t.Addr); f != nil {
					out = append(out, f)
				} else if a, ok := t.Addr.(*ssa.Alloc); ok {
					// local variable: follow its loads
					if a.Referrers() != nil {
						for _, r2 := range *a.Referrers() {
							if ld, ok := r2.(*ssa.UnOp); ok && ld.Op == token.MUL {
								follow(ld, d+1)
							}
						}
					}
				} else if ia, ok := t.Addr.(*ssa.IndexAddr); ok {
					// element of a varargs array that feeds append(field, ...)
					if a, ok := ia.X.(*ssa.Alloc); ok {
						follow(a, d+1)
					}
				}
			case *ssa.Convert:
				follow(t, d+1)
			case *ssa.ChangeType:
				follow(t, d+1)
			case *ssa.Phi:
				follow(t, d+1)
			case *ssa.Slice:
				follow(t, d+1)
			case *ssa.MakeSlice:
				follow(t, d+1)
			case *ssa.Extract:
				if t.Index == 0 {
					follow(t, d+1)
				}
			case *ssa.UnOp:
				if t.Op == token.MUL {
					follow(t, d+1) // *ptr of a decoded message copied into a field
				}
			case *ssa.Call:
				cal := kit.CalleeOf(t)
				if cal.Static != nil && cx.rMeth[cal.Static] {
					// a count handed to another cursor read: associated with what that read fills
					for _, a := range t.Call.Args[1:] {
						if a == x {
							follow(t, d+1)
						}
					}
					continue
				}
				switch cal.Built {
				case "copy":
					if len(t.Call.Args) == 2 && t.Call.Args[1] == x {
						if f := c05fieldOfAddr(t.Call.Args[0]); f != nil {
							out = append(out, f)
						}
					}
				case "append":
					follow(t, d+1)
				}
			}
		}
	}
	follow(v, 0)
	return out
}

// c05fieldOfAddr resolves an address (or slice) expression to the struct field it lies in:
// &x.f, &x.f[i], x.f[a:b], &(*&x.f)[i].
func c05fieldOfAddr(a ssa.Value) *types.Var {
	for i := 0; i < 8; i++ {
		switch x := a.(type) {
		case *ssa.FieldAddr:
			return kit.FieldOfAddr(x)
		case *ssa.IndexAddr:
			a = x.X
		case *ssa.Slice:
			a = x.X
		case *ssa.UnOp:
			if x.Op != token.MUL {
				return nil
			}
			a = x.X
		default:
			return nil
		}
	}
	return nil
}

// ---------- R2 ----------

// tailCall: c passes the unread tail of the cursor's buffer (buf[offset:]) as its first argument.
func (cx *c05ctx) tailArg(c ssa.CallInstruction) (cursor ssa.Value, ok bool) {
	args := c.Common().Args
	if len(args) == 0 {
		return nil, false
	}
	s, isSlice := args[0].(*ssa.Slice)
	if !isSlice || s.Low == nil || s.High != nil {
		return nil, false
	}
	f, base := kit.LoadedField(s.Low)
	if f != cx.rOff {
		return nil, false
	}
	return base, true
}

func (cx *c05ctx) sizeForm(mt string) (c05lin, bool, string) {
	enc := cx.encoders[mt]
	if enc == nil {
		return c05lin{}, false, "no cursor-based encoder for " + mt
	}
	// a wrapper's encoder is entered with the wrapper's arguments: remember what its parameters stand for
	bind := map[ssa.Value]ssa.Value{}
	for i := 0; i < 4 && cx.encWrap[enc] != nil; i++ {
		inner := cx.encWrap[enc]
		for _, c := range kit.Calls(enc) {
			if kit.CalleeOf(c).Static == inner {
				for j, a := range c.Common().Args {
					if j < len(inner.Params) {
						if prev, ok := bind[a]; ok {
							a = prev
						}
						bind[inner.Params[j]] = a
					}
				}
			}
		}
		enc = inner
	}
	for _, c := range kit.Calls(enc) {
		if kit.CalleeOf(c).Static == cx.wNew {
			l, ok := cx.lin(kit.Arg(c, 0), 0)
			if !ok {
				return c05lin{}, false, "encoded size of " + mt + " is not a linear expression"
			}
			// substitute bound parameters
			out := c05lin{c: l.c, t: map[c05sym]int64{}}
			for sy, n := range l.t {
				if a, bound := bind[sy.v]; bound && (sy.kind == "len" || sy.kind == "val") {
					if sy.kind == "len" {
						if f, _ := kit.LoadedField(a); f != nil {
							out.t[c05sym{kind: "lenf", f: cx.rep(f)}] += n
							continue
						}
						out.t[c05sym{kind: "len", v: a}] += n
						continue
					}
					if sub, ok := cx.lin(a, 0); ok {
						out = out.add(sub, n)
						continue
					}
				}
				out.t[sy] += n
			}
			return out, true, ""
		}
	}
	return c05lin{}, false, "no writer construction in the encoder of " + mt
}

func (cx *c05ctx) ruleR2() {
	p, r := cx.p, cx.r
	nNested := 0
	for _, fn := range cx.funcs {
		if !cx.decodeSide[fn] {
			continue
		}
		fname := kit.FuncName(fn)
		// nested tail calls in fn
		type nested struct {
			call   *ssa.Call
			cursor ssa.Value
			mt     string
		}
		var ns []nested
		for _, c := range kit.Calls(fn) {
			call, ok := c.(*ssa.Call)
			if !ok {
				continue
			}
			st := kit.CalleeOf(c).Static
			mt, isDec := cx.decSet[st]
			if st == nil || !isDec {
				continue
			}
			if cur, ok := cx.tailArg(c); ok {
				ns = append(ns, nested{call, cur, mt})
			}
		}
		if len(ns) == 0 {
			continue
		}
		// stores to the cursor offset in fn
		var offStores []*ssa.Store
		kit.Instrs(fn, func(in ssa.Instruction) {
			if st, ok := in.(*ssa.Store); ok {
				if fa, ok := st.Addr.(*ssa.FieldAddr); ok && kit.FieldOfAddr(fa) == cx.rOff {
					offStores = append(offStores, st)
				}
			}
		})
		ord := map[string]int{}
		for _, n := range ns {
			nNested++
			ord[n.mt]++
			key := fmt.Sprintf("%s nested %s #%d", fname, n.mt, ord[n.mt])
			pos := p.Pos(n.call.Pos())
			// the advance attributed to this call: offset stores dominated by it and by no later nested call
			var adv []*ssa.Store
			for _, st := range offStores {
				if !kit.Precedes(n.call, st) {
					continue
				}
				closest := true
				for _, m := range ns {
					if m.call != n.call && kit.Precedes(n.call, m.call) && kit.Precedes(m.call, st) {
						closest = false
					}
				}
				if closest {
					adv = append(adv, st)
				}
			}
			if len(adv) == 0 {
				// nothing may be read from the cursor afterwards
				later := ""
				for _, c := range kit.Calls(fn) {
					ci, _ := c.(ssa.Instruction)
					if ci == nil || c == ssa.CallInstruction(n.call) {
						continue
					}
					st := kit.CalleeOf(c).Static
					_, isTail := cx.tailArg(c)
					if (st != nil && cx.rMeth[st] && len(st.Params) > 0 && c05tokenKind(cx, st) != "") || isTail {
						if kit.CanReachAvoiding(n.call, ci, nil) && !c05backEdgeOnly(n.call, ci) {
							later = p.Pos(c.Pos())
						}
					}
				}
				r.Decide(later == "", "C05.R2", key, pos,
					"nested message is the last element read; no advance needed",
					"the cursor is not advanced past the nested "+n.mt+" but reading continues at "+later+": the following fields are read from inside the nested message")
				continue
			}
			want, okW, why := cx.sizeForm(n.mt)
			for i, st := range adv {
				k := key
				if i > 0 {
					k = fmt.Sprintf("%s advance #%d", key, i+1)
				}
				e := c05advanceAmount(st, cx.rOff)
				if e == nil {
					r.Violation("C05.R2", k, p.Pos(st.Pos()), "after the nested %s the offset is overwritten rather than advanced", n.mt)
					continue
				}
				// advance by the callee's own consumed count
				if call, idx, isRes := kit.ResultOf(g2stripConv(e)); isRes && call == n.call && idx > 0 {
					r.OK("C05.R2", k, p.Pos(st.Pos()), "advances by the consumed-bytes result of the nested decoder (checked at the decoder)")
					continue
				}
				got, okG := cx.lin(e, 0)
				if !okW || !okG {
					r.Infof("C05.R2", k, p.Pos(st.Pos()), "advance not comparable: %s", why)
					continue
				}
				r.Decide(got.equal(want), "C05.R2", k, p.Pos(st.Pos()),
					fmt.Sprintf("advance %s equals the encoded size of %s", got, n.mt),
					fmt.Sprintf("after the nested %s the offset advances by %s but its encoder writes %s bytes: the fields that follow are read from the wrong position (lost or garbled)", n.mt, got, want))
			}
		}
	}
	r.Count("nested_tail_decodes", nNested)
	_ = nNested // nested tail decodes may legitimately disappear (length-prefixed nesting): no floor

	// consumed-bytes results
	nCons := 0
	var names []string
	for mt := range cx.decoders {
		names = append(names, mt)
	}
	sort.Strings(names)
	for _, mt := range names {
		dec := cx.decoders[mt]
		res := dec.Signature.Results()
		if res.Len() != 3 || c05basicKind(res.At(1).Type()) != types.Int {
			continue
		}
		nCons++
		want, okW, why := cx.sizeForm(mt)
		key := kit.FuncName(dec) + " consumed result"
		okAll, detail := true, ""
		n := 0
		for _, ret := range kit.Returns(dec) {
			if ret.Block() == dec.Recover || !kit.ReturnsNilError(ret) {
				continue
			}
			n++
			got, okG := cx.lin(kit.ReturnResult(ret, 1), 0)
			if !okW || !okG {
				okAll, detail = false, "not comparable: "+why
				continue
			}
			if !got.equal(want) {
				okAll = false
				detail = fmt.Sprintf("returns %s consumed bytes but the encoder writes %s", got, want)
			}
		}
		r.Decide(okAll && n > 0, "C05.R2", key, p.Pos(dec.Pos()),
			"consumed-bytes result equals the encoded size "+want.String(),
			"the decoder "+detail+": callers advance to the wrong position and garble the following fields")
	}
	r.Count("consumed_result_decoders", nCons)
}

// c05backEdgeOnly: b is reachable from a only by going round a loop that re-executes a first
// (b textually precedes a inside the same loop): not "later" in the sense of the wire order.
func c05backEdgeOnly(a, b ssa.Instruction) bool {
	return kit.Precedes(b, a)
}

// c05advanceAmount: st stores load(off)+E into off; returns E.
func c05advanceAmount(st *ssa.Store, off *types.Var) ssa.Value {
	b, ok := st.Val.(*ssa.BinOp)
	if !ok || b.Op != token.ADD {
		return nil
	}
	if f, _ := kit.LoadedField(b.X); f == off {
		return b.Y
	}
	if f, _ := kit.LoadedField(b.Y); f == off {
		return b.X
	}
	return nil
}

// ---------- R3 ----------

const c05huge = int64(1) << 40

// sizeLeaves collects the non-constant leaves a size expression is computed from.
func c05sizeLeaves(v ssa.Value) []ssa.Value {
	var out []ssa.Value
	seen := map[ssa.Value]bool{}
	var rec func(x ssa.Value)
	rec = func(x ssa.Value) {
		if x == nil || seen[x] {
			return
		}
		seen[x] = true
		if _, ok := kit.ConstInt(x); ok {
			return
		}
		switch t := x.(type) {
		case *ssa.Convert:
			// the operand's type bounds the value when it is narrow
			rec(t.X)
		case *ssa.ChangeType:
			rec(t.X)
		case *ssa.Phi:
			for _, e := range t.Edges {
				rec(e)
			}
		case *ssa.BinOp:
			switch t.Op {
			case token.ADD, token.SUB, token.MUL:
				rec(t.X)
				rec(t.Y)
				return
			}
			out = append(out, x)
		case *ssa.Call:
			switch kit.CalleeOf(t).Built {
			case "min", "max":
				for _, a := range t.Call.Args {
					rec(a)
				}
				return
			}
			out = append(out, x)
		default:
			out = append(out, x)
		}
	}
	rec(v)
	return out
}

func c05narrow(t types.Type) bool {
	switch c05basicKind(t) {
	case types.Uint8, types.Uint16, types.Bool:
		return true
	}
	return false
}

// leafBounded: leaf L, used at instruction at, is harmless as an allocation size.
func (cx *c05ctx) leafBounded(l ssa.Value, at ssa.Instruction, depth int) (bool, string) {
	if c05narrow(l.Type()) {
		return true, "at most 16 bits wide"
	}
	if c, ok := l.(*ssa.Call); ok {
		switch kit.CalleeOf(c).Built {
		case "len", "cap":
			return true, "a length of existing memory"
		}
	}
	// a dominating guard that fails when the leaf is huge (directly, through a predicate helper, or
	// through a validating call whose success implies the bound)
	for _, g := range kit.GuardsOf(at) {
		if cx.condExcludesHuge(g.Cond, g.Polarity, l, 0) {
			return true, "guarded at " + cx.p.Pos(g.Cond.Pos())
		}
		if cx.boundedViaValidator(g, l, depth) {
			return true, "validated by the call checked at " + cx.p.Pos(g.Cond.Pos())
		}
	}
	if prm, ok := g2stripConv(l).(*ssa.Parameter); ok {
		if ok, why := cx.boundedAtCallers(prm, depth); ok {
			return true, why
		}
	}
	// result of a package function: bounded inside the callee on its success returns
	if call, idx, isRes := kit.ResultOf(l); isRes && depth < 3 {
		st := kit.CalleeOf(call).Static
		if st != nil && st.Blocks != nil && kit.FuncPkgPath(st) == kit.PkgPath("internal/protocol") {
			if e := kit.ErrResultOf(call); e != nil && !kit.ErrNilOn(kit.GuardsOf(at), e) {
				return false, "used without checking the error of " + kit.FuncName(st)
			}
			n := 0
			for _, ret := range kit.Returns(st) {
				if ret.Block() == st.Recover || idx >= len(ret.Results) {
					continue
				}
				if kit.ErrResultOf(call) != nil && !kit.ReturnsNilError(ret) {
					continue
				}
				n++
				for _, l2 := range c05sizeLeaves(kit.ReturnResult(ret, idx)) {
					if ok, _ := cx.leafBounded(l2, ret, depth+1); !ok {
						return false, "unbounded result of " + kit.FuncName(st)
					}
				}
			}
			if n > 0 {
				return true, "bounded inside " + kit.FuncName(st)
			}
		}
	}
	return false, "a wire/caller-controlled integer wider than 16 bits with no dominating upper-bound guard"
}

// guardExcludesHuge: with leaf l = 2^40 and every other quantity 0 the guard does not let control through.
func (cx *c05ctx) guardExcludesHuge(g kit.Guard, l ssa.Value) bool {
	cond, pol := g.Cond, g.Polarity
	for {
		u, ok := cond.(*ssa.UnOp)
		if !ok || u.Op != token.NOT {
			break
		}
		cond, pol = u.X, !pol
	}
	b, ok := cond.(*ssa.BinOp)
	if !ok {
		return false
	}
	switch b.Op {
	case token.LSS, token.LEQ, token.GTR, token.GEQ:
	default:
		return false
	}
	la, ok1 := cx.lin(b.X, 0)
	lb, ok2 := cx.lin(b.Y, 0)
	if !ok1 || !ok2 {
		return false
	}
	leaf := g2stripConv(l)
	mentions := false
	eval := func(f c05lin) (int64, bool) {
		v := f.c
		for s, n := range f.t {
			switch {
			case s.kind == "val" && (s.v == leaf || s.v == l):
				mentions = true
				v += n * c05huge
			case s.kind == "lenf" && cx.countFieldIs(leaf, s.f):
				mentions = true
				v += n * c05huge
			case s.kind == "len" || s.kind == "lenf" || s.kind == "fld":
				// lengths and cursor positions: finite, taken as 0
			default:
				return 0, false // another unknown quantity: not an upper bound on the leaf alone
			}
		}
		return v, true
	}
	a, okA := eval(la)
	bb, okB := eval(lb)
	if !okA || !okB || !mentions {
		return false
	}
	return c07evalCmpInt(b.Op, a, bb) != pol
}

func (cx *c05ctx) countFieldIs(leaf ssa.Value, f *types.Var) bool {
	c, ok := leaf.(*ssa.Call)
	return ok && cx.countField(c) == f
}

func c07evalCmpInt(op token.Token, x, y int64) bool { return g2evalCmp(op, x, y) }

func (cx *c05ctx) ruleR3() {
	p, r := cx.p, cx.r
	n := 0
	for _, fn := range cx.funcs {
		if !cx.decodeSide[fn] {
			continue
		}
		fname := kit.FuncName(fn)
		k := 0
		kit.Instrs(fn, func(in ssa.Instruction) {
			ms, ok := in.(*ssa.MakeSlice)
			if !ok {
				return
			}
			k++
			n++
			key := fmt.Sprintf("%s make #%d", fname, k)
			bad, good := "", ""
			for _, sz := range []ssa.Value{ms.Len, ms.Cap} {
				for _, l := range c05sizeLeaves(sz) {
					ok, why := cx.leafBounded(l, ms, 0)
					if !ok {
						bad = why
					} else {
						good = why
					}
				}
			}
			if good == "" {
				good = "constant size"
			}
			r.Decide(bad == "", "C05.R3", key, p.Pos(ms.Pos()),
				"allocation size is bounded: "+good,
				"the allocation is sized by "+bad+": a few input bytes can demand an allocation out of proportion to the input")
		})
	}
	r.Count("decode_side_makes", n)
	r.Require(n >= 1, "floor: no make site found on the decode side")
}

// ---------- R4 ----------

// inputBase classifies the base of an index/slice expression: a []byte parameter or the reader
// cursor's buffer. Returns a key identifying the buffer (parameter, or cursor pointer value).
func (cx *c05ctx) inputBase(fn *ssa.Function, x ssa.Value) (ssa.Value, bool) {
	if !c05isByteSlice(x.Type()) {
		return nil, false
	}
	switch t := x.(type) {
	case *ssa.Parameter:
		return cx.alias(fn, t), true
	case *ssa.UnOp:
		if f, base := kit.LoadedField(t); f == cx.rBuf {
			return cx.alias(fn, base), true
		}
	}
	return nil, false
}

// alias maps a cursor constructed in fn from parameter b to b itself, so that buf and rd.buf name
// the same buffer.
func (cx *c05ctx) alias(fn *ssa.Function, v ssa.Value) ssa.Value {
	if c, ok := v.(*ssa.Call); ok && kit.CalleeOf(c).Static == cx.rNew {
		if p, ok := kit.Arg(c, 0).(*ssa.Parameter); ok {
			return p
		}
	}
	return v
}

// lenOfBase: v is len(X) with X the given input buffer.
func (cx *c05ctx) lenOfBase(fn *ssa.Function, v ssa.Value, base ssa.Value) bool {
	c, ok := g2stripConv(v).(*ssa.Call)
	if !ok || kit.CalleeOf(c).Built != "len" || len(c.Call.Args) != 1 {
		return false
	}
	b, ok := cx.inputBase(fn, c.Call.Args[0])
	return ok && b == base
}

// guardLower derives from guard g a linear form G with G <= len(base) when control passes.
func (cx *c05ctx) guardLower(fn *ssa.Function, g kit.Guard, base ssa.Value) (c05lin, bool) {
	cond, pol := g.Cond, g.Polarity
	for {
		u, ok := cond.(*ssa.UnOp)
		if !ok || u.Op != token.NOT {
			break
		}
		cond, pol = u.X, !pol
	}
	b, ok := cond.(*ssa.BinOp)
	if !ok {
		return c05lin{}, false
	}
	op := b.Op
	var e ssa.Value
	switch {
	case cx.lenOfBase(fn, b.X, base):
		e = b.Y
	case cx.lenOfBase(fn, b.Y, base):
		e = b.X
		op = flipCmp(op)
	default:
		return c05lin{}, false
	}
	// now: "len OP e" has truth value pol
	if !pol {
		switch op {
		case token.LSS:
			op = token.GEQ
		case token.LEQ:
			op = token.GTR
		case token.GTR:
			op = token.LEQ
		case token.GEQ:
			op = token.LSS
		case token.EQL:
			op = token.NEQ
		case token.NEQ:
			op = token.EQL
		}
	}
	le, ok := cx.lin(e, 0)
	if !ok {
		return c05lin{}, false
	}
	switch op {
	case token.GEQ, token.EQL: // len >= e
		return le, true
	case token.GTR: // len > e  => len >= e+1
		return le.add(c05lin{c: 1}, 1), true
	}
	return c05lin{}, false
}

// covered: some guard dominating `at` proves upper <= len(base), and no store to a cursor field used
// in the proof happens between the guard and the access.
func (cx *c05ctx) covered(fn *ssa.Function, at ssa.Instruction, base ssa.Value, upper c05lin) (bool, string) {
	for _, g := range kit.GuardsOf(at) {
		lo, ok := cx.guardLower(fn, g, base)
		if !ok {
			continue
		}
		d := lo.add(upper, -1)
		if len(d.t) != 0 || d.c < 0 {
			continue
		}
		// kill check for field symbols
		killed := false
		for s := range upper.t {
			if s.kind != "fld" {
				continue
			}
			kit.Instrs(fn, func(in ssa.Instruction) {
				if in == at || killed {
					return
				}
				isKiller := false
				switch t := in.(type) {
				case *ssa.Store:
					if fa, ok := t.Addr.(*ssa.FieldAddr); ok && kit.FieldOfAddr(fa) == s.f {
						isKiller = true
					}
				case ssa.CallInstruction:
					for _, a := range t.Common().Args {
						if a == s.v {
							isKiller = true
						}
					}
				}
				if !isKiller {
					return
				}
				avoid := map[ssa.Instruction]bool{g.If: true}
				if kit.CanReachAvoiding(g.If, in, avoid) && kit.CanReachAvoiding(in, at, avoid) {
					killed = true
				}
			})
		}
		if !killed {
			return true, cx.p.Pos(g.Cond.Pos())
		}
	}
	return false, ""
}

func (cx *c05ctx) ruleR4() {
	p, r := cx.p, cx.r
	nAcc, nTail := 0, 0
	for _, fn := range cx.funcs {
		if !cx.decodeSide[fn] {
			continue
		}
		fname := kit.FuncName(fn)
		k := 0
		kit.Instrs(fn, func(in ssa.Instruction) {
			var base ssa.Value
			var upper c05lin
			var okU bool
			what := ""
			switch t := in.(type) {
			case *ssa.IndexAddr:
				b, ok := cx.inputBase(fn, t.X)
				if !ok {
					return
				}
				base = b
				if l, ok := cx.lin(t.Index, 0); ok {
					upper, okU = l.add(c05lin{c: 1}, 1), true
				}
				what = "index"
			case *ssa.Slice:
				b, ok := cx.inputBase(fn, t.X)
				if !ok {
					return
				}
				base = b
				switch {
				case t.High != nil:
					upper, okU = cx.lin(t.High, 0)
				case t.Low != nil:
					// bytes needed by a fixed-width read of the tail
					need := int64(0)
					if t.Referrers() != nil {
						for _, ref := range *t.Referrers() {
							if c, ok := ref.(ssa.CallInstruction); ok {
								if cal := kit.CalleeOf(c); cal.Pkg == "encoding/binary" {
									if n := map[string]int64{"Uint16": 2, "Uint32": 4, "Uint64": 8}[cal.Name]; n > need {
										need = n
									}
								}
							}
						}
					}
					// open tail at the cursor position handed on as a whole: safe by the cursor
					// invariant offset <= len(buf) (decided on the offset stores below)
					if f, cur := kit.LoadedField(t.Low); need == 0 && f == cx.rOff && cx.alias(fn, cur) == base {
						nTail++
						return
					}
					upper, okU = cx.lin(t.Low, 0)
					if okU {
						upper = upper.add(c05lin{c: need}, 1)
					}
				default:
					return
				}
				what = "slice"
			default:
				return
			}
			k++
			nAcc++
			key := fmt.Sprintf("%s raw %s #%d", fname, what, k)
			if !okU {
				r.Violation("C05.R4", key, p.Pos(in.Pos()), "the bound of this raw access on the input buffer is not a linear expression a length guard could cover: an out-of-range input panics")
				return
			}
			ok, where := cx.covered(fn, in, base, upper)
			// cursor methods: the tail slice needs width bytes after the offset
			r.Decide(ok, "C05.R4", key, p.Pos(in.Pos()),
				fmt.Sprintf("upper bound %s <= len(buffer) by the guard at %s", upper, where),
				fmt.Sprintf("no dominating length guard proves %s <= len(buffer) for this raw access on input bytes: a short or crafted input makes the decoder panic", upper))
		})
	}
	r.Count("raw_input_accesses", nAcc)
	r.Count("cursor_tail_slices", nTail)
	r.Require(nAcc >= 1, "floor: no raw access on an input buffer found")

	// offset stores of the reader cursor
	nSt := 0
	ord := map[string]int{}
	for _, fn := range cx.funcs {
		kit.Instrs(fn, func(in ssa.Instruction) {
			st, ok := in.(*ssa.Store)
			if !ok {
				return
			}
			fa, ok := st.Addr.(*ssa.FieldAddr)
			if !ok || kit.FieldOfAddr(fa) != cx.rOff {
				return
			}
			if c, isc := kit.ConstInt(st.Val); isc && c == 0 {
				return
			}
			nSt++
			fname := kit.FuncName(fn)
			ord[fname]++
			key := fmt.Sprintf("%s offset store #%d", fname, ord[fname])
			e := c05advanceAmount(st, cx.rOff)
			if e == nil {
				r.Violation("C05.R4", key, p.Pos(st.Pos()), "the reader offset is assigned a value that is not offset+n: the bounds invariant offset <= len(buf) is lost and later tail slices can panic")
				return
			}
			// (a) advance past a successfully decoded nested message
			for _, c := range kit.Calls(fn) {
				call, isCall := c.(*ssa.Call)
				if !isCall {
					continue
				}
				if _, isDec := cx.decSet[kit.CalleeOf(c).Static]; !isDec {
					continue
				}
				if cur, ok := cx.tailArg(c); ok && cur == fa.X && kit.Precedes(call, st) {
					if errV := kit.ErrResultOf(call); errV != nil && kit.ErrNilOn(kit.GuardsOf(st), errV) {
						r.OK("C05.R4", key, p.Pos(st.Pos()), "advance past a nested message that was decoded successfully from the tail (amount decided by R2)")
						return
					}
				}
			}
			// (b) guarded increment
			upper, okU := cx.lin(st.Val, 0)
			ok2, where := false, ""
			if okU {
				ok2, where = cx.covered(fn, st, cx.alias(fn, fa.X), upper)
			}
			r.Decide(ok2, "C05.R4", key, p.Pos(st.Pos()),
				"offset grows to "+upper.String()+" <= len(buf) by the guard at "+where,
				"the reader offset is advanced without a dominating guard that keeps it within the buffer: the next read slices past the end and panics")
		})
	}
	r.Count("reader_offset_stores", nSt)
	r.Require(nSt >= 1, "floor: no store to the reader offset found")
}

// ---------- token kinds of the cursor primitives ----------

// c05typeKind maps the value type moved by a cursor primitive to a wire token kind.
func c05typeKind(t types.Type) string {
	switch c05basicKind(t) {
	case types.Uint8, types.Bool:
		return "u8"
	case types.Uint16:
		return "u16"
	case types.Uint32:
		return "u32"
	case types.Uint64:
		return "u64"
	case types.String:
		return "str8"
	}
	switch u := t.Underlying().(type) {
	case *types.Array:
		if c05basicKind(u.Elem()) == types.Uint8 {
			return fmt.Sprintf("fixed%d", u.Len())
		}
	case *types.Slice:
		if c05basicKind(u.Elem()) == types.Uint8 {
			return "bytes"
		}
		if a, ok := u.Elem().Underlying().(*types.Array); ok && c05basicKind(a.Elem()) == types.Uint8 {
			return fmt.Sprintf("list8[fixed%d]", a.Len())
		}
	}
	return ""
}

// c05tokenKind: the wire token a cursor method writes/reads ("" = not a primitive).
func c05tokenKind(cx *c05ctx, m *ssa.Function) string {
	sig := m.Signature
	switch {
	case cx.wMeth[m]:
		if sig.Params().Len() == 1 && sig.Results().Len() == 0 {
			return c05typeKind(sig.Params().At(0).Type())
		}
	case cx.rMeth[m]:
		if sig.Results().Len() != 1 {
			return ""
		}
		k := c05typeKind(sig.Results().At(0).Type())
		if sig.Params().Len() == 0 {
			return k
		}
		if sig.Params().Len() == 1 && c05basicKind(sig.Params().At(0).Type()) == types.Int && k == "bytes" {
			return k
		}
	}
	return ""
}

var c05SelfTests = []SelfTest{
	{Name: "bound port written as 16 bits, read as 8", ExpectRule: "C05.R1", ExpectKey: "StreamOpenAck", Edits: []Edit{
		{File: "internal/protocol/frame.go", Old: "\ts.BoundAddr = r.readBytes(addrLen)\n\ts.BoundPort = r.readUint16()\n\ts.EphemeralPubKey = r.readEphemeralKey()\n", New: "\ts.BoundAddr = r.readBytes(addrLen)\n\ts.BoundPort = uint16(r.readUint8())\n\ts.EphemeralPubKey = r.readEphemeralKey()\n"},
	}},
	{Name: "command id and timestamp swapped in the sleep command decoder", ExpectRule: "C05.R1", ExpectKey: "SleepCommand", Edits: []Edit{
		{File: "internal/protocol/frame.go", Old: "\ts := &SleepCommand{\n\t\tOriginAgent: r.readAgentID(),\n\t\tCommandID:   r.readUint64(),\n\t\tTimestamp:   r.readUint64(),\n\t}", New: "\ts := &SleepCommand{\n\t\tOriginAgent: r.readAgentID(),\n\t\tTimestamp:   r.readUint64(),\n\t\tCommandID:   r.readUint64(),\n\t}"},
	}},
	{Name: "withdraw count read with the wrong width", ExpectRule: "C05.R1", ExpectKey: "QueuedState", Edits: []Edit{
		{File: "internal/protocol/frame.go", Old: "\twithdrawCount := int(r.readUint16())\n", New: "\twithdrawCount := int(r.readUint8())\n"},
	}},
	{Name: "metric read before the prefix inside the route loop", ExpectRule: "C05.R1", ExpectKey: "RouteWithdraw", Edits: []Edit{
		{File: "internal/protocol/frame.go", Old: "\t\tpLen := prefixLength(route.AddressFamily, 0)\n\t\troute.Prefix = rd.readBytes(pLen)\n\t\troute.Metric = rd.readUint16()\n", New: "\t\tpLen := prefixLength(route.AddressFamily, 0)\n\t\troute.Metric = rd.readUint16()\n\t\troute.Prefix = rd.readBytes(pLen)\n"},
	}},
	{Name: "wake signature read as 32 bytes", ExpectRule: "C05.R1", ExpectKey: "WakeCommand", Edits: []Edit{
		{File: "internal/protocol/frame.go", Old: "\tsigBytes := r.readBytes(SignatureSize)\n\tif r.err != nil {\n\t\treturn nil, r.err\n\t}\n\tcopy(w.Signature[:], sigBytes)", New: "\tsigBytes := r.readBytes(32)\n\tif r.err != nil {\n\t\treturn nil, r.err\n\t}\n\tcopy(w.Signature[:], sigBytes)"},
	}},
	{Name: "encoder forgets the is-reply flag", ExpectRule: "C05.R1", ExpectKey: "ICMPEcho", Edits: []Edit{
		{File: "internal/protocol/frame.go", Old: "\tw.writeUint16(i.Sequence)\n\tw.writeBool(i.IsReply)\n", New: "\tw.writeUint16(i.Sequence)\n"},
	}},
	{Name: "seen-by list decoded before the encrypted node info", ExpectRule: "C05.R1", ExpectKey: "NodeInfoAdvertise", Edits: []Edit{
		{File: "internal/protocol/frame.go", Old: "\t\tOriginAgent: r.readAgentID(),\n\t\tSequence:    r.readUint64(),\n\t}\n\n\t// EncryptedData (uses offset directly due to consumed bytes return)\n", New: "\t\tOriginAgent: r.readAgentID(),\n\t\tSequence:    r.readUint64(),\n\t}\n\tn.SeenBy = r.readAgentIDs()\n\n\t// EncryptedData (uses offset directly due to consumed bytes return)\n"},
	}},
	{Name: "queued-state advance without the signature", ExpectRule: "C05.R2", ExpectKey: "SleepCommand", Edits: []Edit{
		{File: "internal/protocol/frame.go", Old: "\t\t\tr.offset += 16 + 8 + 8 + SignatureSize + 1 + len(sleepCmd.SeenBy)*16\n", New: "\t\t\tr.offset += 16 + 8 + 8 + 1 + len(sleepCmd.SeenBy)*16\n"},
	}},
	{Name: "queued-state cursor not advanced at all", ExpectRule: "C05.R2", ExpectKey: "SleepCommand", Edits: []Edit{
		{File: "internal/protocol/frame.go", Old: "\t\t\tr.offset += 16 + 8 + 8 + SignatureSize + 1 + len(sleepCmd.SeenBy)*16\n", New: ""},
	}},
	{Name: "consumed count of EncryptedData one short", ExpectRule: "C05.R2", ExpectKey: "DecodeEncryptedData", Edits: []Edit{
		{File: "internal/protocol/frame.go", Old: "\treturn e, 3 + dataLen, nil\n", New: "\treturn e, 2 + dataLen, nil\n"},
	}},
	{Name: "seen-by entries counted as 8 bytes", ExpectRule: "C05.R2", ExpectKey: "SleepCommand", Edits: []Edit{
		{File: "internal/protocol/frame.go", Old: "\t\t\tr.offset += 16 + 8 + 8 + SignatureSize + 1 + len(sleepCmd.SeenBy)*16\n", New: "\t\t\tr.offset += 16 + 8 + 8 + SignatureSize + 1 + len(sleepCmd.SeenBy)*8\n"},
	}},
	{Name: "control data allocated from the 32-bit wire length", ExpectRule: "C05.R3", ExpectKey: "DecodeControlRequest", Edits: []Edit{
		{File: "internal/protocol/frame.go", Old: "\tif dataLen > 0 {\n\t\tc.Data = r.readBytes(dataLen)\n\t}", New: "\tif dataLen > 0 {\n\t\tc.Data = make([]byte, dataLen)\n\t\tcopy(c.Data, r.readBytes(dataLen))\n\t}"},
	}},
	{Name: "readBytes allocates before checking the remaining input", ExpectRule: "C05.R3", ExpectKey: "readBytes", Edits: []Edit{
		{File: "internal/protocol/frame.go", Old: "\tif r.err != nil || r.offset+n > len(r.buf) {\n\t\tr.setError(\"truncated\")\n\t\treturn nil\n\t}\n\tdata := make([]byte, n)", New: "\tif r.err != nil {\n\t\tr.setError(\"truncated\")\n\t\treturn nil\n\t}\n\tdata := make([]byte, n)"},
	}},
	{Name: "header length limit dropped", ExpectRule: "C05.R3", ExpectKey: "FrameReader", Edits: []Edit{
		{File: "internal/protocol/frame.go", Old: "\tif length > MaxPayloadSize {\n\t\treturn 0, 0, 0, 0, ErrFrameTooLarge\n\t}\n\n\treturn\n", New: "\treturn\n"},
	}},
	{Name: "domain prefix peeked without a length check", ExpectRule: "C05.R4", ExpectKey: "DecodeRouteAdvertise", Edits: []Edit{
		{File: "internal/protocol/frame.go", Old: "\t\t\tif rd.offset >= len(buf) {\n\t\t\t\trd.setError(\"prefix length missing\")\n\t\t\t\tbreak\n\t\t\t}\n\t\t\tpLen = 1 + int(buf[rd.offset])", New: "\t\t\tpLen = 1 + int(buf[rd.offset])"},
	}},
	{Name: "forward target length guard off by one", ExpectRule: "C05.R4", ExpectKey: "DecodeRouteAdvertise", Edits: []Edit{
		{File: "internal/protocol/frame.go", Old: "\t\t\tif targetLenOffset >= len(buf) {", New: "\t\t\tif targetLenOffset > len(buf) {"},
	}},
	{Name: "header guard shorter than the header", ExpectRule: "C05.R4", ExpectKey: "DecodeHeader", Edits: []Edit{
		{File: "internal/protocol/frame.go", Old: "\tif len(buf) < HeaderSize {\n\t\treturn 0, 0, 0, 0, fmt.Errorf(\"%w: header too short\", ErrInvalidFrame)", New: "\tif len(buf) < 6 {\n\t\treturn 0, 0, 0, 0, fmt.Errorf(\"%w: header too short\", ErrInvalidFrame)"},
	}},
	{Name: "16-bit read guarded for one byte only", ExpectRule: "C05.R4", ExpectKey: "readUint16", Edits: []Edit{
		{File: "internal/protocol/frame.go", Old: "\tif r.err != nil || r.offset+2 > len(r.buf) {", New: "\tif r.err != nil || r.offset+1 > len(r.buf) {"},
	}},
	{Name: "string read advances past an unchecked length", ExpectRule: "C05.R4", ExpectKey: "readString", Edits: []Edit{
		{File: "internal/protocol/frame.go", Old: "\tif r.offset+length > len(r.buf) {\n\t\tr.setError(\"string truncated\")\n\t\treturn \"\"\n\t}\n", New: ""},
	}},
	{Name: "forward key decoded past the prefix", ExpectRule: "C05.R4", ExpectKey: "DecodeForwardKey", Edits: []Edit{
		{File: "internal/protocol/frame.go", Old: "\tkeyLen := int(prefix[0])\n\tif len(prefix) < 1+keyLen {\n\t\treturn \"\"\n\t}\n\treturn string(prefix[1 : 1+keyLen])", New: "\tkeyLen := int(prefix[0])\n\tif len(prefix) < keyLen {\n\t\treturn \"\"\n\t}\n\treturn string(prefix[1 : 1+keyLen])"},
	}},
	{Name: "rewrite: route loop body in a reader helper, range loop with break", Edits: []Edit{
		{File: "internal/protocol/frame.go", Old: "\tfor i := 0; i < routeCount && rd.err == nil; i++ {\n\t\troute := &rw.Routes[i]\n\t\troute.AddressFamily = rd.readUint8()\n\t\troute.PrefixLength = rd.readUint8()\n\t\tpLen := prefixLength(route.AddressFamily, 0)\n\t\troute.Prefix = rd.readBytes(pLen)\n\t\troute.Metric = rd.readUint16()\n\t}\n", New: "\tfor i := range rw.Routes {\n\t\tif rd.err != nil {\n\t\t\tbreak\n\t\t}\n\t\treadWithdrawRoute(rd, &rw.Routes[i])\n\t}\n"},
		{File: "internal/protocol/frame.go", Old: "// DecodeRouteWithdraw deserializes RouteWithdraw from bytes.\n", New: "func readWithdrawRoute(rd *bufferReader, route *Route) {\n\tfamily := rd.readUint8()\n\troute.AddressFamily = family\n\troute.PrefixLength = rd.readUint8()\n\troute.Prefix = rd.readBytes(prefixLength(family, 0))\n\troute.Metric = rd.readUint16()\n}\n\n// DecodeRouteWithdraw deserializes RouteWithdraw from bytes.\n"},
	}},
	{Name: "reader helper consumes an extra byte per route", ExpectRule: "C05.R1", ExpectKey: "RouteWithdraw", Edits: []Edit{
		{File: "internal/protocol/frame.go", Old: "\tfor i := 0; i < routeCount && rd.err == nil; i++ {\n\t\troute := &rw.Routes[i]\n\t\troute.AddressFamily = rd.readUint8()\n\t\troute.PrefixLength = rd.readUint8()\n\t\tpLen := prefixLength(route.AddressFamily, 0)\n\t\troute.Prefix = rd.readBytes(pLen)\n\t\troute.Metric = rd.readUint16()\n\t}\n", New: "\tfor i := range rw.Routes {\n\t\tif rd.err != nil {\n\t\t\tbreak\n\t\t}\n\t\treadWithdrawRoute(rd, &rw.Routes[i])\n\t}\n"},
		{File: "internal/protocol/frame.go", Old: "// DecodeRouteWithdraw deserializes RouteWithdraw from bytes.\n", New: "func readWithdrawRoute(rd *bufferReader, route *Route) {\n\tfamily := rd.readUint8()\n\troute.AddressFamily = family\n\troute.PrefixLength = rd.readUint8()\n\troute.PrefixLength = rd.readUint8()\n\troute.Prefix = rd.readBytes(prefixLength(family, 0))\n\troute.Metric = rd.readUint16()\n}\n\n// DecodeRouteWithdraw deserializes RouteWithdraw from bytes.\n"},
	}},
	{Name: "rewrite: decoder fills fields by assignment", Edits: []Edit{
		{File: "internal/protocol/frame.go", Old: "\tr := newBufferReader(buf, \"StreamOpenErr\")\n\ts := &StreamOpenErr{\n\t\tRequestID: r.readUint64(),\n\t\tErrorCode: r.readUint16(),\n\t\tMessage:   r.readString(),\n\t}\n", New: "\tr := newBufferReader(buf, \"StreamOpenErr\")\n\ts := new(StreamOpenErr)\n\ts.RequestID = r.readUint64()\n\tcode := r.readUint16()\n\ts.ErrorCode = code\n\tmsg := r.readString()\n\ts.Message = msg\n"},
	}},
	{Name: "rewrite: route written by a cursor helper, index loop", Edits: []Edit{
		{File: "internal/protocol/frame.go", Old: "\tfor _, route := range r.Routes {\n\t\tw.writeUint8(route.AddressFamily)\n\t\tw.writeUint8(route.PrefixLength)\n\t\tw.writeBytes(route.Prefix)\n\t\tw.writeUint16(route.Metric)\n\t}\n\n\tw.writeBytes(encPathBytes)", New: "\tfor i := 0; i < len(r.Routes); i++ {\n\t\tw.writeRoute(&r.Routes[i])\n\t}\n\n\tw.writeBytes(encPathBytes)"},
		{File: "internal/protocol/frame.go", Old: "func (w *bufferWriter) bytes() []byte {", New: "func (w *bufferWriter) writeRoute(route *Route) {\n\tw.writeUint8(route.AddressFamily)\n\tw.writeUint8(route.PrefixLength)\n\tw.writeBytes(route.Prefix)\n\tw.writeUint16(route.Metric)\n}\n\nfunc (w *bufferWriter) bytes() []byte {"},
	}},
	{Name: "rewrite: string written as explicit length byte and bytes", Edits: []Edit{
		{File: "internal/protocol/frame.go", Old: "\tw.writeUint16(s.ErrorCode)\n\tw.writeString(msg)\n\n\treturn w.bytes()\n}\n\n// DecodeStreamOpenErr", New: "\tw.writeUint16(s.ErrorCode)\n\tw.writeUint8(uint8(len(msg)))\n\tw.writeBytes([]byte(msg))\n\n\treturn w.bytes()\n}\n\n// DecodeStreamOpenErr"},
	}},
	{Name: "rewrite: guards negated and operands swapped", Edits: []Edit{
		{File: "internal/protocol/frame.go", Old: "\tif len(buf) < HeaderSize {\n\t\treturn 0, 0, 0, 0, fmt.Errorf(\"%w: header too short\", ErrInvalidFrame)", New: "\tif !(HeaderSize <= len(buf)) {\n\t\treturn 0, 0, 0, 0, fmt.Errorf(\"%w: header too short\", ErrInvalidFrame)"},
		{File: "internal/protocol/frame.go", Old: "\tif r.err != nil || r.offset+n > len(r.buf) {\n\t\tr.setError(\"truncated\")\n\t\treturn nil\n\t}\n\tdata := make([]byte, n)", New: "\tif r.err != nil || len(r.buf) < r.offset+n {\n\t\tr.setError(\"truncated\")\n\t\treturn nil\n\t}\n\tdata := make([]byte, n)"},
	}},
	{Name: "rewrite: queued-state advance by the re-encoded length", Edits: []Edit{
		{File: "internal/protocol/frame.go", Old: "\t\t\tr.offset += 16 + 8 + 8 + SignatureSize + 1 + len(sleepCmd.SeenBy)*16\n", New: "\t\t\tr.offset += 97 + 16*len(sleepCmd.SeenBy)\n"},
	}},
	{Name: "rewrite: switch on the address type instead of if/else", Edits: []Edit{
		{File: "internal/protocol/frame.go", Old: "\tvar addrLen int\n\tif s.AddressType == AddrTypeDomain {\n\t\tif r.offset >= len(buf) {\n\t\t\treturn nil, fmt.Errorf(\"%w: StreamOpen domain length missing\", ErrInvalidFrame)\n\t\t}\n\t\taddrLen = 1 + int(buf[r.offset])\n\t} else {\n\t\tvar err error\n\t\taddrLen, err = addressLength(s.AddressType, 0)\n\t\tif err != nil {\n\t\t\treturn nil, err\n\t\t}\n\t}\n", New: "\tvar addrLen int\n\tswitch s.AddressType {\n\tcase AddrTypeDomain:\n\t\tif len(buf) <= r.offset {\n\t\t\treturn nil, fmt.Errorf(\"%w: StreamOpen domain length missing\", ErrInvalidFrame)\n\t\t}\n\t\taddrLen = 1 + int(buf[r.offset])\n\tdefault:\n\t\tvar err error\n\t\taddrLen, err = addressLength(s.AddressType, 0)\n\t\tif err != nil {\n\t\t\treturn nil, err\n\t\t}\n\t}\n"},
	}},
}

// ---------- R1: schema extraction (K12) ----------

// c05node is one element of a codec schema: a token, a loop or an alternative.
type c05node struct {
	kind   string // u8 u16 u32 u64 bytes fixedN nested loop alt
	msg    string // nested message type (nested / bytes carrying an encoded message)
	body   []c05node
	alts   [][]c05node
	fields map[*types.Var]bool
	pos    token.Pos
}

func c05render(seq []c05node) string {
	var parts []string
	for _, n := range seq {
		switch n.kind {
		case "loop":
			parts = append(parts, "loop{"+c05render(n.body)+"}")
		case "alt":
			var as []string
			for _, a := range n.alts {
				as = append(as, c05render(a))
			}
			parts = append(parts, "alt{"+strings.Join(as, " | ")+"}")
		default:
			s := n.kind
			if n.msg != "" {
				s += "(" + n.msg + ")"
			}
			var fs []string
			for f := range n.fields {
				fs = append(fs, f.Name())
			}
			sort.Strings(fs)
			if len(fs) > 0 {
				s += ":" + strings.Join(fs, "/")
			}
			parts = append(parts, s)
		}
	}
	return strings.Join(parts, " ")
}

type c05walker struct {
	cx    *c05ctx
	fn    *ssa.Function
	loops map[*ssa.BasicBlock]map[*ssa.BasicBlock]bool
	rpo   map[*ssa.BasicBlock]int
	depth int
	bad   string // set when the CFG is outside the structured forms handled
	stack map[*ssa.Function]bool
}

func c05newWalker(cx *c05ctx, fn *ssa.Function, stack map[*ssa.Function]bool) *c05walker {
	w := &c05walker{cx: cx, fn: fn, loops: map[*ssa.BasicBlock]map[*ssa.BasicBlock]bool{}, rpo: map[*ssa.BasicBlock]int{}, stack: stack}
	// natural loops
	for _, n := range fn.Blocks {
		for _, h := range n.Succs {
			if !h.Dominates(n) {
				continue
			}
			body := w.loops[h]
			if body == nil {
				body = map[*ssa.BasicBlock]bool{h: true}
				w.loops[h] = body
			}
			work := []*ssa.BasicBlock{n}
			for len(work) > 0 {
				x := work[len(work)-1]
				work = work[:len(work)-1]
				if body[x] {
					continue
				}
				body[x] = true
				work = append(work, x.Preds...)
			}
		}
	}
	// reverse post-order over forward edges
	seen := map[*ssa.BasicBlock]bool{}
	var post []*ssa.BasicBlock
	var dfs func(b *ssa.BasicBlock)
	dfs = func(b *ssa.BasicBlock) {
		seen[b] = true
		for _, s := range b.Succs {
			if !seen[s] && !s.Dominates(b) {
				dfs(s)
			}
		}
		post = append(post, b)
	}
	if len(fn.Blocks) > 0 {
		dfs(fn.Blocks[0])
	}
	for i, b := range post {
		w.rpo[b] = len(post) - i
	}
	return w
}

// forward: blocks reachable from b over forward edges without entering stopped blocks.
func (w *c05walker) forward(b *ssa.BasicBlock, stop func(*ssa.BasicBlock) bool) map[*ssa.BasicBlock]bool {
	out := map[*ssa.BasicBlock]bool{}
	if b == nil || stop(b) {
		return out
	}
	work := []*ssa.BasicBlock{b}
	out[b] = true
	for len(work) > 0 {
		x := work[len(work)-1]
		work = work[:len(work)-1]
		for _, s := range x.Succs {
			if s.Dominates(x) || out[s] || stop(s) {
				continue
			}
			out[s] = true
			work = append(work, s)
		}
	}
	return out
}

func (w *c05walker) join(t, f *ssa.BasicBlock, stop func(*ssa.BasicBlock) bool) *ssa.BasicBlock {
	rt, rf := w.forward(t, stop), w.forward(f, stop)
	var best *ssa.BasicBlock
	for b := range rt {
		if rf[b] && (best == nil || w.rpo[b] < w.rpo[best]) {
			best = b
		}
	}
	return best
}

// region walks the CFG from start until a stopped block, producing the structured schema.
func (w *c05walker) region(start *ssa.BasicBlock, stop func(*ssa.BasicBlock) bool, firstPlain bool) []c05node {
	w.depth++
	defer func() { w.depth-- }()
	if w.depth > 60 {
		w.bad = "control flow nested too deeply"
		return nil
	}
	var out []c05node
	b := start
	first := true
	steps := 0
	for b != nil {
		steps++
		if steps > 400 {
			w.bad = "unstructured control flow"
			return out
		}
		plain := first && firstPlain
		first = false
		if stop(b) && !plain {
			break
		}
		if body, isHdr := w.loops[b]; isHdr && !plain {
			hdr := b
			inner := w.region(hdr, func(x *ssa.BasicBlock) bool { return !body[x] || x == hdr || stop(x) }, true)
			if n, fixed := c05tripCount(hdr, body); fixed && len(inner) > 0 {
				for i := int64(0); i < n; i++ {
					out = append(out, inner...)
				}
			} else if len(inner) > 0 {
				out = append(out, c05node{kind: "loop", body: inner})
			}
			b = w.loopExit(hdr, body, stop)
			continue
		}
		out = append(out, w.tokens(b)...)
		if len(b.Instrs) == 0 {
			break
		}
		switch term := b.Instrs[len(b.Instrs)-1].(type) {
		case *ssa.Jump:
			b = b.Succs[0]
		case *ssa.If:
			_ = term
			t, f := b.Succs[0], b.Succs[1]
			j := w.join(t, f, stop)
			stopJ := func(x *ssa.BasicBlock) bool { return stop(x) || x == j }
			a1 := w.region(t, stopJ, false)
			a2 := w.region(f, stopJ, false)
			out = append(out, c05mkAlt(a1, a2)...)
			b = j
		default:
			b = nil
		}
	}
	return out
}

func (w *c05walker) loopExit(h *ssa.BasicBlock, body map[*ssa.BasicBlock]bool, stop func(*ssa.BasicBlock) bool) *ssa.BasicBlock {
	var cands []*ssa.BasicBlock
	seen := map[*ssa.BasicBlock]bool{}
	for x := range body {
		for _, s := range x.Succs {
			if !body[s] && !seen[s] {
				seen[s] = true
				cands = append(cands, s)
			}
		}
	}
	sort.Slice(cands, func(i, j int) bool { return w.rpo[cands[i]] < w.rpo[cands[j]] })
	// the exit taken when the loop condition fails: a successor of the header's condition chain
	for _, s := range h.Succs {
		if !body[s] {
			return s
		}
	}
	for _, c := range cands {
		for _, p := range c.Preds {
			if body[p] && len(p.Preds) == 1 && p.Preds[0] == h {
				return c // "i < n && cond": exit of the second half of the header condition
			}
		}
	}
	// otherwise the exit from which most of the function continues
	var best *ssa.BasicBlock
	bestN := -1
	for _, c := range cands {
		if n := len(w.forward(c, stop)); n > bestN {
			best, bestN = c, n
		}
	}
	return best
}

func c05kinds(seq []c05node) []string {
	var out []string
	for _, n := range seq {
		out = append(out, n.kind)
	}
	return out
}

func c05isPrefix(a, b []c05node) bool {
	if len(a) > len(b) {
		return false
	}
	for i := range a {
		if !c05compatKinds(a[i], b[i]) {
			return false
		}
	}
	return true
}

// c05mkAlt merges the two arms of a branch: an empty arm or an arm that is a prefix of the other is
// an optional tail (kept as the longer arm); otherwise a genuine alternative.
func c05mkAlt(a, b []c05node) []c05node {
	switch {
	case len(a) == 0:
		return b
	case len(b) == 0:
		return a
	case c05isPrefix(a, b):
		return b
	case c05isPrefix(b, a):
		return a
	}
	return []c05node{{kind: "alt", alts: [][]c05node{a, b}}}
}

func c05compatKinds(a, b c05node) bool {
	if a.kind == b.kind {
		return a.msg == "" || b.msg == "" || a.msg == b.msg
	}
	isBlob := func(n c05node) bool {
		return n.kind == "bytes" || n.kind == "nested" || strings.HasPrefix(n.kind, "fixed")
	}
	if isBlob(a) && isBlob(b) {
		if strings.HasPrefix(a.kind, "fixed") && strings.HasPrefix(b.kind, "fixed") {
			return false // different fixed widths
		}
		return a.msg == "" || b.msg == "" || a.msg == b.msg
	}
	return false
}

// expand turns a primitive's kind into canonical tokens.
func c05expand(kind string, fields map[*types.Var]bool, pos token.Pos) []c05node {
	switch {
	case kind == "str8":
		return []c05node{{kind: "u8", fields: fields, pos: pos}, {kind: "bytes", fields: fields, pos: pos}}
	case strings.HasPrefix(kind, "list8["):
		elem := strings.TrimSuffix(strings.TrimPrefix(kind, "list8["), "]")
		return []c05node{{kind: "u8", fields: fields, pos: pos}, {kind: "loop", body: []c05node{{kind: elem, fields: fields, pos: pos}}}}
	}
	return []c05node{{kind: kind, fields: fields, pos: pos}}
}

func (w *c05walker) cursorArg(c ssa.CallInstruction) bool {
	for _, a := range c.Common().Args {
		if pt, ok := a.Type().(*types.Pointer); ok {
			if types.Identical(pt.Elem(), w.cx.wT) || types.Identical(pt.Elem(), w.cx.rT) {
				return true
			}
		}
	}
	return false
}

// tokens of one block, in instruction order.
func (w *c05walker) tokens(b *ssa.BasicBlock) []c05node {
	cx := w.cx
	var out []c05node
	for _, in := range b.Instrs {
		c, ok := in.(*ssa.Call)
		if !ok {
			continue
		}
		st := kit.CalleeOf(c).Static
		if st == nil {
			continue
		}
		if kind := c05tokenKind(cx, st); kind != "" {
			if cx.wMeth[st] {
				arg := c.Call.Args[1]
				fields := cx.sourceFields(arg)
				if kind == "bytes" {
					if n, ok := c05sliceOfArray(arg); ok {
						kind = fmt.Sprintf("fixed%d", n)
					} else if mt := cx.encoderOf(arg, 0); mt != "" {
						out = append(out, c05node{kind: "nested", msg: mt, fields: fields, pos: c.Pos()})
						continue
					}
				}
				out = append(out, c05expand(kind, fields, c.Pos())...)
			} else {
				fields := map[*types.Var]bool{}
				for _, f := range cx.storedFields(c) {
					fields[f] = true
				}
				msg := ""
				if kind == "bytes" {
					if n, ok := kit.ConstInt(c.Call.Args[1]); ok {
						kind = fmt.Sprintf("fixed%d", n)
					}
					msg = cx.decodedAs(c)
				}
				ns := c05expand(kind, fields, c.Pos())
				ns[len(ns)-1].msg = msg
				out = append(out, ns...)
			}
			continue
		}
		// nested decode from the unread tail
		if mt, isDec := cx.decSet[st]; isDec {
			if _, ok := cx.tailArg(c); ok {
				fields := map[*types.Var]bool{}
				for _, f := range cx.storedFields(c) {
					fields[f] = true
				}
				out = append(out, c05node{kind: "nested", msg: mt, fields: fields, pos: c.Pos()})
			}
			continue
		}
		// helper that receives the cursor: its schema is spliced in
		if kit.FuncPkgPath(st) == kit.PkgPath("internal/protocol") && st.Blocks != nil && w.cursorArg(c) && st != cx.wNew && st != cx.rNew {
			if w.stack[st] {
				w.bad = "recursive codec helper " + kit.FuncName(st)
				continue
			}
			w.stack[st] = true
			sub := c05newWalker(cx, st, w.stack)
			out = append(out, sub.region(st.Blocks[0], func(*ssa.BasicBlock) bool { return false }, false)...)
			if sub.bad != "" {
				w.bad = sub.bad
			}
			delete(w.stack, st)
		}
	}
	return out
}

func c05sliceOfArray(v ssa.Value) (int64, bool) {
	s, ok := v.(*ssa.Slice)
	if !ok || s.Low != nil || s.High != nil {
		return 0, false
	}
	if pt, ok := s.X.Type().Underlying().(*types.Pointer); ok {
		if a, ok := pt.Elem().Underlying().(*types.Array); ok {
			return a.Len(), true
		}
	}
	return 0, false
}

// sourceFields: the struct fields a written value is read from.
func (cx *c05ctx) sourceFields(v ssa.Value) map[*types.Var]bool {
	out := map[*types.Var]bool{}
	seen := map[ssa.Value]bool{}
	var rec func(x ssa.Value, d int)
	rec = func(x ssa.Value, d int) {
		if x == nil || d > 8 || seen[x] {
			return
		}
		seen[x] = true
		switch t := x.(type) {
		case *ssa.Convert:
			rec(t.X, d+1)
		case *ssa.ChangeType:
			rec(t.X, d+1)
		case *ssa.Phi:
			for _, e := range t.Edges {
				rec(e, d+1)
			}
		case *ssa.Slice:
			rec(t.X, d+1)
		case *ssa.FieldAddr:
			if f := kit.FieldOfAddr(t); f != nil {
				out[f] = true
			}
		case *ssa.Field:
			if f := kit.FieldOfAddr(t); f != nil {
				out[f] = true
			}
		case *ssa.IndexAddr:
			rec(t.X, d+1)
		case *ssa.Index:
			rec(t.X, d+1)
		case *ssa.UnOp:
			if t.Op == token.MUL {
				if a, ok := t.X.(*ssa.Alloc); ok {
					// local copy: what was stored into it
					if a.Referrers() != nil {
						for _, ref := range *a.Referrers() {
							if st, ok := ref.(*ssa.Store); ok && st.Addr == a {
								rec(st.Val, d+1)
							}
						}
					}
					return
				}
				rec(t.X, d+1)
			}
		case *ssa.Call:
			cal := kit.CalleeOf(t)
			if cal.Built == "len" || cal.Built == "min" {
				for _, a := range t.Call.Args {
					rec(a, d+1)
				}
				return
			}
			if cal.Static != nil {
				if _, isEnc := cx.encSet[cal.Static]; isEnc {
					for _, a := range t.Call.Args {
						rec(a, d+1)
					}
				}
			}
		}
	}
	rec(v, 0)
	return out
}

// encoderOf: the written bytes are (on some path) the result of the encoder of message type T.
func (cx *c05ctx) encoderOf(v ssa.Value, d int) string {
	if d > 6 || v == nil {
		return ""
	}
	switch t := v.(type) {
	case *ssa.Call:
		if st := kit.CalleeOf(t).Static; st != nil {
			if mt, ok := cx.encSet[st]; ok && !strings.HasSuffix(mt, "(partial)") {
				return mt
			}
		}
	case *ssa.Phi:
		for _, e := range t.Edges {
			if mt := cx.encoderOf(e, d+1); mt != "" {
				return mt
			}
		}
	case *ssa.UnOp:
		if t.Op != token.MUL {
			return ""
		}
		switch a := t.X.(type) {
		case *ssa.Alloc:
			if a.Referrers() != nil {
				for _, ref := range *a.Referrers() {
					if st, ok := ref.(*ssa.Store); ok && st.Addr == a {
						if mt := cx.encoderOf(st.Val, d+1); mt != "" {
							return mt
						}
					}
				}
			}
		case *ssa.IndexAddr:
			// element of a local slice: what is stored into its elements
			if a.X.Referrers() != nil {
				for _, ref := range *a.X.Referrers() {
					if ia, ok := ref.(*ssa.IndexAddr); ok && ia.Referrers() != nil {
						for _, r2 := range *ia.Referrers() {
							if st, ok := r2.(*ssa.Store); ok && st.Addr == ia {
								if mt := cx.encoderOf(st.Val, d+1); mt != "" {
									return mt
								}
							}
						}
					}
				}
			}
		}
	}
	return ""
}

// decodedAs: the bytes read by call c are handed to the decoder of message type T.
func (cx *c05ctx) decodedAs(c *ssa.Call) string {
	if c.Referrers() == nil {
		return ""
	}
	for _, ref := range *c.Referrers() {
		if call, ok := ref.(*ssa.Call); ok {
			if mt, isDec := cx.decSet[kit.CalleeOf(call).Static]; isDec && len(call.Call.Args) > 0 && call.Call.Args[0] == ssa.Value(c) {
				return mt
			}
		}
	}
	return ""
}

// c05compare: "" = equal; otherwise a description. incomparable=true when a construct outside the
// comparable forms was met (not a mismatch).
func c05compare(w, r []c05node, path string) (diff string, incomparable bool) {
	n := len(w)
	if len(r) < n {
		n = len(r)
	}
	for i := 0; i < n; i++ {
		a, b := w[i], r[i]
		at := fmt.Sprintf("%s[%d]", path, i)
		if a.kind == "alt" || b.kind == "alt" {
			if a.kind != b.kind || len(a.alts) != len(b.alts) {
				return at + ": branch-dependent layout on one side only", true
			}
			for k := range a.alts {
				if d, inc := c05compare(a.alts[k], b.alts[k], at+".alt"); d != "" {
					return d, inc
				}
			}
			continue
		}
		if a.kind == "loop" || b.kind == "loop" {
			if a.kind != b.kind {
				return fmt.Sprintf("%s: writer has %s where the reader has %s", at, c05render([]c05node{a}), c05render([]c05node{b})), false
			}
			if d, inc := c05compare(a.body, b.body, at+".loop"); d != "" {
				return d, inc
			}
			continue
		}
		if !c05compatKinds(a, b) {
			return fmt.Sprintf("%s: writer emits %s, reader consumes %s", at, c05render([]c05node{a}), c05render([]c05node{b})), false
		}
		if len(a.fields) > 0 && len(b.fields) > 0 {
			common := false
			for f := range a.fields {
				if b.fields[f] {
					common = true
				}
			}
			if !common {
				return fmt.Sprintf("%s: writer encodes %s, reader stores it as %s", at, c05render([]c05node{a}), c05render([]c05node{b})), false
			}
		}
	}
	if len(w) != len(r) {
		return fmt.Sprintf("%s: writer emits %d elements, reader consumes %d (writer: %s | reader: %s)", path, len(w), len(r), c05render(w), c05render(r)), false
	}
	return "", false
}

func (cx *c05ctx) schema(fn *ssa.Function) ([]c05node, string) {
	for i := 0; i < 4; i++ {
		if inner := cx.encWrap[fn]; inner != nil {
			fn = inner
		} else if inner := cx.decWrap[fn]; inner != nil {
			fn = inner
		} else {
			break
		}
	}
	w := c05newWalker(cx, fn, map[*ssa.Function]bool{fn: true})
	seq := w.region(fn.Blocks[0], func(*ssa.BasicBlock) bool { return false }, false)
	return seq, w.bad
}

func (cx *c05ctx) ruleR1() {
	p, r := cx.p, cx.r
	var names []string
	for mt := range cx.encoders {
		names = append(names, mt)
	}
	sort.Strings(names)
	decided := 0
	for _, mt := range names {
		enc := cx.encoders[mt]
		dec := cx.decoders[mt]
		if dec == nil {
			r.Infof("C05.R1", mt+" (no decoder)", p.Pos(enc.Pos()), "encoder %s has no cursor-based decoder; not compared", kit.FuncName(enc))
			continue
		}
		ws, wbad := cx.schema(enc)
		rs, rbad := cx.schema(dec)
		key := "schema of " + mt
		if wbad != "" || rbad != "" {
			r.Infof("C05.R1", key, p.Pos(enc.Pos()), "not in structured form (%s%s); not compared", wbad, rbad)
			continue
		}
		diff, inc := c05compare(ws, rs, mt)
		if inc {
			r.Infof("C05.R1", key, p.Pos(enc.Pos()), "schema-undecided: %s (writer: %s | reader: %s)", diff, c05render(ws), c05render(rs))
			continue
		}
		decided++
		r.Decide(diff == "", "C05.R1", key, p.Pos(dec.Pos()),
			"writer and reader agree: "+c05render(ws),
			diff+": a message written by "+kit.FuncName(enc)+" is decoded into different field values (or fails to decode)")
	}
	for mt, dec := range cx.decoders {
		if cx.encoders[mt] == nil {
			r.Infof("C05.R1", mt+" (no encoder)", p.Pos(dec.Pos()), "decoder %s has no cursor-based encoder; not compared", kit.FuncName(dec))
		}
	}
	r.Count("messages_schema_decided", decided)
	r.Require(decided >= 1, "floor: no message schema could be decided")
}
