package rules

import (
	"fmt"
	"go/token"
	"go/types"
	"strings"

	"golang.org/x/tools/go/ssa"

	"mmverify/kit"
)

func init() {
	const kp = "internal/identity/keypair.go"
	const idf = "internal/identity/identity.go"
	const sl = "internal/sleep/sleep.go"
	register(&Check{
		ID: "C34", Level: "other", Patterns: []string{"./internal/identity", "./internal/sleep"},
		Technique: "who-may-call + path provenance + must-pass-through + constant error-text evaluation over go/ssa",
		Explain: "Decides for internal/identity and internal/sleep: R1 every file write (os.WriteFile/Create/OpenFile for writing) targets a temporary name (final path + constant suffix, or os.CreateTemp), every success return after it passes through os.Rename(temp, final), and the final path is not removed before that rename; R2 in each load-or-create function the branch that generates and stores a new identity is taken only for load errors that cannot be produced once the primary file (private key / agent id) has been read successfully: the classifier (substring of Error(), errors.Is sentinel, os.IsNotExist, or plain err != nil) is evaluated against the constant text, sentinels and wrapped OS errors of every error the loader constructs after that read; R3 every keypair a loader returns has a public key that is derived from the private key or was compared with the derived one; R4 the sleep-state loader does not modify the manager before its last fallible step succeeded and its caller does not return on a load error. " +
			"Not decided: fsync/power loss, directory durability, error texts that depend on run-time values (paths, wrapped library errors), the order of the two renames (either order is healed once R2 and R3 hold).",
		Run: runC34,
		SelfTests: []SelfTest{
			{Name: "sleep state written in place", ExpectRule: "C34.R1", ExpectKey: "persistState", Edits: []Edit{
				{File: sl, Old: "\ttmpFile := m.stateFile + \".tmp\"\n\tif err := os.WriteFile(tmpFile, data, 0600); err != nil {\n\t\treturn err\n\t}\n\tif err := os.Rename(tmpFile, m.stateFile); err != nil {\n\t\tos.Remove(tmpFile)\n\t\treturn err\n\t}\n\treturn nil\n", New: "\treturn os.WriteFile(m.stateFile, data, 0600)\n"},
			}},
			{Name: "sleep state file removed before the rename", ExpectRule: "C34.R1", ExpectKey: "persistState", Edits: []Edit{
				{File: sl, Old: "\tif err := os.Rename(tmpFile, m.stateFile); err != nil {", New: "\tos.Remove(m.stateFile)\n\tif err := os.Rename(tmpFile, m.stateFile); err != nil {"},
			}},
			{Name: "private key written directly to its final path", ExpectRule: "C34.R1", ExpectKey: "Keypair", Edits: []Edit{
				{File: kp, Old: "if err := os.WriteFile(privTempPath, []byte(KeyToString(kp.PrivateKey)+\"\\n\"), 0600); err != nil {", New: "if err := os.WriteFile(privPath, []byte(KeyToString(kp.PrivateKey)+\"\\n\"), 0600); err != nil {"},
			}},
			{Name: "public key temp file renamed over the private key", ExpectRule: "C34.R1", ExpectKey: "Keypair", Edits: []Edit{
				{File: kp, Old: "if err := os.Rename(pubTempPath, pubPath); err != nil {", New: "if err := os.Rename(pubTempPath, privPath); err != nil {"},
			}},
			{Name: "agent id rename skipped on one path", ExpectRule: "C34.R1", ExpectKey: "AgentID", Edits: []Edit{
				{File: idf, Old: "\tif err := os.Rename(tempPath, filePath); err != nil {", New: "\tif len(dataDir) > 64 {\n\t\treturn nil\n\t}\n\tif err := os.Rename(tempPath, filePath); err != nil {"},
			}},
			{Name: "missing public key reported as not found (stored private key replaced)", ExpectRule: "C34.R2", ExpectKey: "LoadOrCreateKeypair", Edits: []Edit{
				{File: kp, Old: "\t\t\treturn &Keypair{\n\t\t\t\tPrivateKey: privateKey,\n\t\t\t\tPublicKey:  DerivePublicKey(privateKey),\n\t\t\t}, nil\n\t\t}\n\t\treturn nil, fmt.Errorf(\"failed to read public key: %w\", err)", New: "\t\t\treturn nil, fmt.Errorf(\"public key not found at %s\", pubPath)\n\t\t}\n\t\treturn nil, fmt.Errorf(\"failed to read public key: %w\", err)"},
			}},
			{Name: "every keypair load error regenerates", ExpectRule: "C34.R2", ExpectKey: "LoadOrCreateKeypair", Edits: []Edit{
				{File: kp, Old: "\tif !strings.Contains(err.Error(), \"not found\") {\n\t\treturn nil, false, err // Some other error\n\t}\n\n\t// Generate new keypair", New: "\tif strings.Contains(err.Error(), \"permission\") {\n\t\treturn nil, false, err // Some other error\n\t}\n\n\t// Generate new keypair"},
			}},
			{Name: "classifier widened to a substring of a parse error", ExpectRule: "C34.R2", ExpectKey: "LoadOrCreate ", Edits: []Edit{
				{File: idf, Old: "\tif !strings.Contains(err.Error(), \"not found\") {\n\t\treturn ZeroID, false, err // Some other error\n\t}", New: "\tif !strings.Contains(err.Error(), \"agent ID\") {\n\t\treturn ZeroID, false, err // Some other error\n\t}"},
			}},
			{Name: "not-exist classifier with a wrapped second read", ExpectRule: "C34.R2", ExpectKey: "LoadOrCreateKeypair", Edits: []Edit{
				{File: kp, Old: "\tif !strings.Contains(err.Error(), \"not found\") {\n\t\treturn nil, false, err // Some other error\n\t}\n\n\t// Generate new keypair", New: "\tif !errors.Is(err, os.ErrNotExist) {\n\t\treturn nil, false, err // Some other error\n\t}\n\n\t// Generate new keypair"},
				{File: kp, Old: "\t\tif os.IsNotExist(err) {\n\t\t\treturn nil, fmt.Errorf(\"keypair not found at %s\", dataDir)\n\t\t}\n\t\treturn nil, fmt.Errorf(\"failed to read private key: %w\", err)", New: "\t\treturn nil, fmt.Errorf(\"failed to read private key: %w\", err)"},
				{File: kp, Old: "\t\t\treturn &Keypair{\n\t\t\t\tPrivateKey: privateKey,\n\t\t\t\tPublicKey:  DerivePublicKey(privateKey),\n\t\t\t}, nil\n\t\t}\n\t\treturn nil, fmt.Errorf(\"failed to read public key: %w\", err)", New: "\t\t\t_ = pubPath\n\t\t}\n\t\treturn nil, fmt.Errorf(\"failed to read public key: %w\", err)"},
			}},
			{Name: "public key no longer verified against the private key", ExpectRule: "C34.R3", Edits: []Edit{
				{File: kp, Old: "\tif derivedPub != publicKey {\n\t\treturn nil, errors.New(\"public key does not match private key\")\n\t}", New: "\tif derivedPub == ZeroKey {\n\t\treturn nil, errors.New(\"public key does not match private key\")\n\t}"},
			}},
			{Name: "sleep state applied before it is fully decoded", ExpectRule: "C34.R4", ExpectKey: "LoadState", Edits: []Edit{
				{File: sl, Old: "\tvar state PersistedState\n\tif err := json.Unmarshal(data, &state); err != nil {\n\t\treturn err\n\t}\n", New: "\tvar state PersistedState\n\tm.state.Store(StateSleeping)\n\tif err := json.Unmarshal(data, &state); err != nil {\n\t\treturn err\n\t}\n"},
			}},
			{Name: "start aborts on an unreadable sleep state", ExpectRule: "C34.R4", ExpectKey: "Start", Edits: []Edit{
				{File: sl, Old: "\t\t\tm.logger.Debug(\"no persisted sleep state\", logging.KeyError, err)\n", New: "\t\t\tm.logger.Debug(\"no persisted sleep state\", logging.KeyError, err)\n\t\t\treturn err\n"},
			}},
			// round 2
			{Name: "regeneration decided by a both-files-exist predicate", ExpectRule: "C34.R2", ExpectKey: "LoadOrCreateKeypair regeneration guard", Edits: []Edit{
				{File: kp, Old: "\tkp, err := LoadKeypair(dataDir)\n\tif err == nil {\n\t\treturn kp, false, nil // Loaded existing keypair\n\t}\n\n\t// Check if it's a \"not found\" error\n\tif !strings.Contains(err.Error(), \"not found\") {\n\t\treturn nil, false, err // Some other error\n\t}\n\n\t// Generate new keypair\n\tkp, err = NewKeypair()", New: "\tif KeypairExists(dataDir) {\n\t\tkp, err := LoadKeypair(dataDir)\n\t\tif err != nil {\n\t\t\treturn nil, false, err\n\t\t}\n\t\treturn kp, false, nil\n\t}\n\n\t// Generate new keypair\n\tkp, err := NewKeypair()"},
			}},
			{Name: "regeneration decided by the existence of the public key file", ExpectRule: "C34.R2", ExpectKey: "LoadOrCreateKeypair regeneration guard", Edits: []Edit{
				{File: kp, Old: "\tkp, err := LoadKeypair(dataDir)\n\tif err == nil {\n\t\treturn kp, false, nil // Loaded existing keypair\n\t}\n\n\t// Check if it's a \"not found\" error\n\tif !strings.Contains(err.Error(), \"not found\") {\n\t\treturn nil, false, err // Some other error\n\t}\n\n\t// Generate new keypair\n\tkp, err = NewKeypair()", New: "\tif _, serr := os.Stat(filepath.Join(dataDir, pubKeyFileName)); !os.IsNotExist(serr) {\n\t\tkp, err := LoadKeypair(dataDir)\n\t\tif err != nil {\n\t\t\treturn nil, false, err\n\t\t}\n\t\treturn kp, false, nil\n\t}\n\n\t// Generate new keypair\n\tkp, err := NewKeypair()"},
			}},
			{Name: "new identity stored unconditionally", ExpectRule: "C34.R2", ExpectKey: "LoadOrCreate regeneration guard", Edits: []Edit{
				{File: idf, Old: "\tid, err := Load(dataDir)\n\tif err == nil {\n\t\treturn id, false, nil // Loaded existing ID\n\t}\n\n\t// Check if it's a \"not found\" error\n\tif !strings.Contains(err.Error(), \"not found\") {\n\t\treturn ZeroID, false, err // Some other error\n\t}\n\n\t// Generate new ID\n\tid, err = NewAgentID()", New: "\tid, err := NewAgentID()"},
			}},
			{Name: "temporary file opened without O_TRUNC", ExpectRule: "C34.R1", ExpectKey: "writeFileSync", Edits: []Edit{
				{File: sl, Old: "\tif err := os.WriteFile(tmpFile, data, 0600); err != nil {\n\t\treturn err\n\t}\n\tif err := os.Rename(tmpFile, m.stateFile); err != nil {", New: "\tif err := writeFileSync(tmpFile, data, 0600); err != nil {\n\t\treturn err\n\t}\n\tif err := os.Rename(tmpFile, m.stateFile); err != nil {"},
				{File: sl, Old: "// LoadState loads persisted state from disk.", New: "func writeFileSync(name string, data []byte, perm os.FileMode) error {\n\tf, err := os.OpenFile(name, os.O_WRONLY|os.O_CREATE, perm)\n\tif err != nil {\n\t\treturn err\n\t}\n\tif _, err := f.Write(data); err != nil {\n\t\tf.Close()\n\t\treturn err\n\t}\n\tif err := f.Sync(); err != nil {\n\t\tf.Close()\n\t\treturn err\n\t}\n\treturn f.Close()\n}\n\n// LoadState loads persisted state from disk."},
			}},
			{Name: "synced writer handed the final path", ExpectRule: "C34.R1", ExpectKey: "writeFileSync", Edits: []Edit{
				{File: sl, Old: "\tif err := os.WriteFile(tmpFile, data, 0600); err != nil {\n\t\treturn err\n\t}\n\tif err := os.Rename(tmpFile, m.stateFile); err != nil {", New: "\tif err := writeFileSync(m.stateFile, data, 0600); err != nil {\n\t\treturn err\n\t}\n\tif err := os.Rename(tmpFile, m.stateFile); err != nil {"},
				{File: sl, Old: "// LoadState loads persisted state from disk.", New: "func writeFileSync(name string, data []byte, perm os.FileMode) error {\n\tf, err := os.OpenFile(name, os.O_WRONLY|os.O_CREATE|os.O_TRUNC, perm)\n\tif err != nil {\n\t\treturn err\n\t}\n\tif _, err := f.Write(data); err != nil {\n\t\tf.Close()\n\t\treturn err\n\t}\n\tif err := f.Sync(); err != nil {\n\t\tf.Close()\n\t\treturn err\n\t}\n\treturn f.Close()\n}\n\n// LoadState loads persisted state from disk."},
			}},
			{Name: "rewrite: agent id decided by its single-file existence predicate", Edits: []Edit{
				{File: idf, Old: "\tid, err := Load(dataDir)\n\tif err == nil {\n\t\treturn id, false, nil // Loaded existing ID\n\t}\n\n\t// Check if it's a \"not found\" error\n\tif !strings.Contains(err.Error(), \"not found\") {\n\t\treturn ZeroID, false, err // Some other error\n\t}\n\n\t// Generate new ID\n\tid, err = NewAgentID()", New: "\tif Exists(dataDir) {\n\t\tid, err := Load(dataDir)\n\t\tif err != nil {\n\t\t\treturn ZeroID, false, err\n\t\t}\n\t\treturn id, false, nil\n\t}\n\n\t// Generate new ID\n\tid, err := NewAgentID()"},
			}},
			{Name: "rewrite: regeneration decided by Stat of the private key file", Edits: []Edit{
				{File: kp, Old: "\tkp, err := LoadKeypair(dataDir)\n\tif err == nil {\n\t\treturn kp, false, nil // Loaded existing keypair\n\t}\n\n\t// Check if it's a \"not found\" error\n\tif !strings.Contains(err.Error(), \"not found\") {\n\t\treturn nil, false, err // Some other error\n\t}\n\n\t// Generate new keypair\n\tkp, err = NewKeypair()", New: "\tif _, serr := os.Stat(filepath.Join(dataDir, keyFileName)); !os.IsNotExist(serr) {\n\t\tkp, err := LoadKeypair(dataDir)\n\t\tif err != nil {\n\t\t\treturn nil, false, err\n\t\t}\n\t\treturn kp, false, nil\n\t}\n\n\t// Generate new keypair\n\tkp, err := NewKeypair()"},
			}},
			{Name: "rewrite: temporary file written by a syncing helper that truncates", Edits: []Edit{
				{File: sl, Old: "\tif err := os.WriteFile(tmpFile, data, 0600); err != nil {\n\t\treturn err\n\t}\n\tif err := os.Rename(tmpFile, m.stateFile); err != nil {", New: "\tif err := writeFileSync(tmpFile, data, 0600); err != nil {\n\t\treturn err\n\t}\n\tif err := os.Rename(tmpFile, m.stateFile); err != nil {"},
				{File: sl, Old: "// LoadState loads persisted state from disk.", New: "func writeFileSync(name string, data []byte, perm os.FileMode) error {\n\tf, err := os.OpenFile(name, os.O_WRONLY|os.O_CREATE|os.O_TRUNC, perm)\n\tif err != nil {\n\t\treturn err\n\t}\n\tif _, err := f.Write(data); err != nil {\n\t\tf.Close()\n\t\treturn err\n\t}\n\tif err := f.Sync(); err != nil {\n\t\tf.Close()\n\t\treturn err\n\t}\n\treturn f.Close()\n}\n\n// LoadState loads persisted state from disk."},
			}},
			// round 3: refactoring classes
			{Name: "rewrite: identity files written through a shared write-then-rename helper", Edits: []Edit{
				{File: idf, Old: "\ttempPath := filePath + \".tmp\"\n\tif err := os.WriteFile(tempPath, []byte(id.String()+\"\\n\"), 0600); err != nil {\n\t\treturn fmt.Errorf(\"failed to write agent ID: %w\", err)\n\t}\n\n\tif err := os.Rename(tempPath, filePath); err != nil {\n\t\tos.Remove(tempPath) // Clean up temp file\n\t\treturn fmt.Errorf(\"failed to persist agent ID: %w\", err)\n\t}\n\n\treturn nil\n}", New: "\treturn writeLineAtomic(filePath, id.String(), 0600, \"agent ID\")\n}\n\nfunc writeLineAtomic(path, value string, perm os.FileMode, what string) error {\n\tstaging := path + \".tmp\"\n\tif err := os.WriteFile(staging, []byte(value+\"\\n\"), perm); err != nil {\n\t\treturn fmt.Errorf(\"failed to write %s: %w\", what, err)\n\t}\n\terr := os.Rename(staging, path)\n\tif err == nil {\n\t\treturn nil\n\t}\n\tos.Remove(staging)\n\treturn fmt.Errorf(\"failed to persist %s: %w\", what, err)\n}"},
			}},
			{Name: "rewrite: generate-and-store moved to a createAndStore helper", Edits: []Edit{
				{File: idf, Old: "\t// Generate new ID\n\tid, err = NewAgentID()\n\tif err != nil {\n\t\treturn ZeroID, false, err\n\t}\n\n\t// Persist it\n\tif err := id.Store(dataDir); err != nil {\n\t\treturn ZeroID, false, err\n\t}\n\n\treturn id, true, nil // Created new ID\n}", New: "\treturn createAndStore(dataDir)\n}\n\nfunc createAndStore(dataDir string) (AgentID, bool, error) {\n\tid, err := NewAgentID()\n\tif err != nil {\n\t\treturn ZeroID, false, err\n\t}\n\tif err := id.Store(dataDir); err != nil {\n\t\treturn ZeroID, false, err\n\t}\n\treturn id, true, nil\n}"},
			}},
			{Name: "createAndStore helper called for every load error", ExpectRule: "C34.R2", ExpectKey: "LoadOrCreate ", Edits: []Edit{
				{File: idf, Old: "\t// Check if it's a \"not found\" error\n\tif !strings.Contains(err.Error(), \"not found\") {\n\t\treturn ZeroID, false, err // Some other error\n\t}\n\n\t// Generate new ID\n\tid, err = NewAgentID()\n\tif err != nil {\n\t\treturn ZeroID, false, err\n\t}\n\n\t// Persist it\n\tif err := id.Store(dataDir); err != nil {\n\t\treturn ZeroID, false, err\n\t}\n\n\treturn id, true, nil // Created new ID\n}", New: "\treturn createAndStore(dataDir)\n}\n\nvar _ = strings.Contains\n\nfunc createAndStore(dataDir string) (AgentID, bool, error) {\n\tid, err := NewAgentID()\n\tif err != nil {\n\t\treturn ZeroID, false, err\n\t}\n\tif err := id.Store(dataDir); err != nil {\n\t\treturn ZeroID, false, err\n\t}\n\treturn id, true, nil\n}"},
			}},
			{Name: "rewrite: loaded sleep state applied by a restore(saved) helper", Edits: []Edit{
				{File: sl, Old: "\tm.state.Store(state.State)\n\tm.sleepStartTime = state.SleepStartTime\n\tm.lastPollTime = state.LastPollTime\n\tm.commandSeq.Store(state.CommandSeq)\n\n\treturn nil\n}", New: "\tm.restore(state)\n\treturn nil\n}\n\nfunc (m *Manager) restore(saved PersistedState) {\n\tm.state.Store(saved.State)\n\tm.sleepStartTime = saved.SleepStartTime\n\tm.lastPollTime = saved.LastPollTime\n\tm.commandSeq.Store(saved.CommandSeq)\n}"},
			}},
			{Name: "restore helper called before the state is decoded", ExpectRule: "C34.R4", ExpectKey: "LoadState", Edits: []Edit{
				{File: sl, Old: "\tvar state PersistedState\n\tif err := json.Unmarshal(data, &state); err != nil {\n\t\treturn err\n\t}\n\n\tm.state.Store(state.State)\n\tm.sleepStartTime = state.SleepStartTime\n\tm.lastPollTime = state.LastPollTime\n\tm.commandSeq.Store(state.CommandSeq)\n\n\treturn nil\n}", New: "\tvar state PersistedState\n\tm.restore(state)\n\tif err := json.Unmarshal(data, &state); err != nil {\n\t\treturn err\n\t}\n\tm.restore(state)\n\treturn nil\n}\n\nfunc (m *Manager) restore(saved PersistedState) {\n\tm.state.Store(saved.State)\n\tm.sleepStartTime = saved.SleepStartTime\n\tm.lastPollTime = saved.LastPollTime\n\tm.commandSeq.Store(saved.CommandSeq)\n}"},
			}},
			// rewrites
			{Name: "rewrite: sentinel error and errors.Is classifier", Edits: []Edit{
				{File: kp, Old: "\t\t\treturn nil, fmt.Errorf(\"keypair not found at %s\", dataDir)", New: "\t\t\treturn nil, fmt.Errorf(\"%w at %s\", errNoKeypairStored, dataDir)"},
				{File: kp, Old: "\tif !strings.Contains(err.Error(), \"not found\") {\n\t\treturn nil, false, err // Some other error\n\t}\n\n\t// Generate new keypair", New: "\tif !errors.Is(err, errNoKeypairStored) {\n\t\treturn nil, false, err // Some other error\n\t}\n\n\t// Generate new keypair"},
				{File: kp, Old: "// Keypair represents an X25519 key pair for end-to-end encryption.", New: "var errNoKeypairStored = errors.New(\"keypair not found\")\n\n// Keypair represents an X25519 key pair for end-to-end encryption."},
			}},
			{Name: "rewrite: classifier in a helper, switch instead of if", Edits: []Edit{
				{File: idf, Old: "\tif !strings.Contains(err.Error(), \"not found\") {\n\t\treturn ZeroID, false, err // Some other error\n\t}", New: "\tswitch {\n\tcase isMissing(err):\n\tdefault:\n\t\treturn ZeroID, false, err // Some other error\n\t}"},
				{File: idf, Old: "// Exists checks if an AgentID file exists in the data directory.", New: "func isMissing(err error) bool { return strings.Contains(err.Error(), \"not found\") }\n\n// Exists checks if an AgentID file exists in the data directory."},
			}},
			{Name: "rewrite: sleep state through os.CreateTemp and rename", Edits: []Edit{
				{File: sl, Old: "\ttmpFile := m.stateFile + \".tmp\"\n\tif err := os.WriteFile(tmpFile, data, 0600); err != nil {\n\t\treturn err\n\t}\n", New: "\ttf, err := os.CreateTemp(m.dataDir, \"sleep_state-*.tmp\")\n\tif err != nil {\n\t\treturn err\n\t}\n\ttmpFile := tf.Name()\n\tif _, err := tf.Write(data); err != nil {\n\t\ttf.Close()\n\t\tos.Remove(tmpFile)\n\t\treturn err\n\t}\n\tif err := tf.Close(); err != nil {\n\t\tos.Remove(tmpFile)\n\t\treturn err\n\t}\n"},
			}},
			{Name: "rewrite: atomic write extracted into a helper", Edits: []Edit{
				{File: sl, Old: "\ttmpFile := m.stateFile + \".tmp\"\n\tif err := os.WriteFile(tmpFile, data, 0600); err != nil {\n\t\treturn err\n\t}\n\tif err := os.Rename(tmpFile, m.stateFile); err != nil {\n\t\tos.Remove(tmpFile)\n\t\treturn err\n\t}\n\treturn nil\n", New: "\treturn writeFileAtomic(m.stateFile, data, 0600)\n"},
				{File: sl, Old: "// LoadState loads persisted state from disk.", New: "func writeFileAtomic(path string, data []byte, perm os.FileMode) error {\n\ttmp := path + \".tmp\"\n\tif err := os.WriteFile(tmp, data, perm); err != nil {\n\t\treturn err\n\t}\n\tif err := os.Rename(tmp, path); err != nil {\n\t\tos.Remove(tmp)\n\t\treturn err\n\t}\n\treturn nil\n}\n\n// LoadState loads persisted state from disk."},
			}},
			{Name: "rewrite: verification with bytes-style comparison swapped, early success", Edits: []Edit{
				{File: kp, Old: "\tif derivedPub != publicKey {\n\t\treturn nil, errors.New(\"public key does not match private key\")\n\t}", New: "\tif !(publicKey == derivedPub) {\n\t\treturn nil, errors.New(\"public key does not match private key\")\n\t}"},
			}},
		},
	})
}

type c34ctx struct {
	p *kit.Program
	r *kit.Report
}

func c34IsOS(c ssa.CallInstruction, names ...string) bool {
	cal := kit.CalleeOf(c)
	if cal.Pkg != "os" && cal.Pkg != "io/ioutil" {
		return false
	}
	if cal.Recv != "" {
		return false
	}
	for _, n := range names {
		if cal.Name == n {
			return true
		}
	}
	return false
}

// c34SameStr: two string values denote the same path.
func c34SameStr(a, b ssa.Value) bool {
	if a == b {
		return true
	}
	fa, ba := kit.LoadedField(a)
	fb, bb := kit.LoadedField(b)
	if fa != nil && fa == fb {
		if ba == bb {
			return true
		}
		// receiver spilled to a local: both bases are loads of the same alloc
		la, ok1 := ba.(*ssa.UnOp)
		lb, ok2 := bb.(*ssa.UnOp)
		return ok1 && ok2 && la.Op == token.MUL && lb.Op == token.MUL && la.X == lb.X
	}
	return false
}

// c34TempOf: if path is `base + "<const suffix>"` returns base.
func c34TempOf(path ssa.Value) (ssa.Value, bool) {
	b, ok := path.(*ssa.BinOp)
	if !ok || b.Op != token.ADD {
		return nil, false
	}
	if s, ok := kit.ConstString(b.Y); ok && s != "" {
		return b.X, true
	}
	return nil, false
}

func runC34(p *kit.Program, r *kit.Report) {
	r.Rule("C34.R1", "in internal/identity and internal/sleep every file write targets a temporary name (final path + constant suffix, or os.CreateTemp); every return of a nil error after the write passes through os.Rename(temp, final); the final path is not removed before the rename")
	r.Rule("C34.R2", "a load-or-create function generates and stores a new identity only for load errors that cannot arise after the primary file (private key / agent id) was read successfully: classifier evaluated against every error the loader constructs")
	r.Rule("C34.R3", "every keypair returned by a loader carries a public key derived from the private key, or one compared (equal edge) with the derived key")
	r.Rule("C34.R4", "the sleep-state loader modifies the manager only after its last fallible step succeeded (no error return is reachable after a modification); its caller has no return that is reached only on the load-error edge")
	cx := &c34ctx{p: p, r: r}
	var fns []*ssa.Function
	fns = append(fns, p.FuncsInPkg("internal/identity")...)
	fns = append(fns, p.FuncsInPkg("internal/sleep")...)
	// helpers in other repository packages that these packages call (an extracted
	// "write file atomically" helper must not move the writes out of sight)
	seen := map[*ssa.Function]bool{}
	for _, f := range fns {
		seen[f] = true
	}
	frontier := fns
	for depth := 0; depth < 2; depth++ {
		var next []*ssa.Function
		for _, f := range frontier {
			for _, c := range kit.Calls(f) {
				cal := kit.CalleeOf(c)
				if cal.Static == nil || cal.Static.Blocks == nil || !kit.IsRepoPkg(cal.Pkg) || seen[cal.Static] {
					continue
				}
				takesString := false
				for _, a := range c.Common().Args {
					if b, ok := a.Type().Underlying().(*types.Basic); ok && b.Kind() == types.String {
						takesString = true
					}
				}
				if !takesString {
					continue
				}
				seen[cal.Static] = true
				next = append(next, cal.Static)
			}
		}
		fns = append(fns, next...)
		frontier = next
	}
	r.Count("functions_analysed", len(fns))
	cx.ruleAtomic(fns)
	cx.ruleRegenerate()
	cx.rulePair()
	cx.ruleSleepLoad()
}

// ---------------- R1

func (cx *c34ctx) ruleAtomic(fns []*ssa.Function) {
	p, r := cx.p, cx.r
	nWrites := 0
	ord := map[string]int{}
	inScope := map[*ssa.Function]bool{}
	for _, fn := range fns {
		inScope[fn] = true
	}
	for _, fn := range fns {
		for _, c := range kit.Calls(fn) {
			path, what, isWrite := c34WriteSite(c)
			if !isWrite {
				continue
			}
			nWrites++
			fname := kit.FuncName(fn)
			ord[fname]++
			key := fmt.Sprintf("%s file write #%d (%s)", fname, ord[fname], what)
			pos := p.Pos(c.Pos())
			// a fixed-name temporary file must be truncated when it is opened: a leftover of an
			// interrupted save would otherwise survive behind shorter new content
			if what == "OpenFile" {
				fl, isConst := kit.ConstInt(kit.Arg(c, 1))
				const oExcl, oTrunc, oAppend = 0x80, 0x200, 0x400 // linux values; the checker loads GOOS=linux
				if isConst && (fl&oAppend != 0 || (fl&oTrunc == 0 && fl&oExcl == 0)) {
					r.Violation("C34.R1", key, pos, "the file is opened for writing without O_TRUNC (or O_EXCL): what an interrupted earlier save left in a same-named temporary file stays behind the new, shorter content and is renamed over the persistent file, which then fails to parse")
					continue
				}
			}
			ok, msg := cx.judgeWrite(fn, c, path, what, inScope, 0)
			if ok {
				r.OK("C34.R1", key, pos, "%s", msg)
			} else {
				r.Violation("C34.R1", key, pos, "%s", msg)
			}
		}
	}
	r.Count("file_write_sites", nWrites)
	r.Require(nWrites >= 1, "floor: no persistent-file write found in internal/identity + internal/sleep and the helpers they call (agent_id, agent_key, agent_key.pub, sleep_state.json are written somewhere), found %d", nWrites)
}

// c34WriteSite classifies a call that creates or writes a file.
func c34WriteSite(c ssa.CallInstruction) (path ssa.Value, what string, ok bool) {
	switch {
	case c34IsOS(c, "WriteFile"), c34IsOS(c, "Create"):
		return kit.Arg(c, 0), kit.CalleeOf(c).Name, true
	case c34IsOS(c, "OpenFile"):
		if fl, isC := kit.ConstInt(kit.Arg(c, 1)); isC && fl&0x3 == 0 { // O_RDONLY
			return nil, "", false
		}
		return kit.Arg(c, 0), "OpenFile", true
	case c34IsOS(c, "CreateTemp"):
		return nil, "CreateTemp", true
	}
	return nil, "", false
}

// judgeWrite decides the atomic-replace discipline for the write at `site` in fn whose target is
// `path`. When path is a parameter of fn (a "write this file" helper) the discipline is decided
// at every call site of fn instead.
func (cx *c34ctx) judgeWrite(fn *ssa.Function, site ssa.CallInstruction, path ssa.Value, what string, inScope map[*ssa.Function]bool, depth int) (bool, string) {
	p := cx.p
	var renames, removes []ssa.CallInstruction
	for _, c := range kit.Calls(fn) {
		if c34IsOS(c, "Rename") {
			renames = append(renames, c)
		}
		if c34IsOS(c, "Remove", "RemoveAll", "Truncate") {
			removes = append(removes, c)
		}
	}
	var tmp, final ssa.Value
	if what == "CreateTemp" {
		call, _ := site.(*ssa.Call)
		var fileVal ssa.Value
		if call != nil {
			fileVal = kit.ExtractOf(call, 0)
		}
		for _, c2 := range kit.Calls(fn) {
			if cal := kit.CalleeOf(c2); cal.Pkg == "os" && cal.Recv == "File" && cal.Name == "Name" && kit.Receiver(c2) == fileVal && fileVal != nil {
				tmp = kit.CallValue(c2)
			}
		}
		if tmp == nil {
			return false, "a temporary file is created but its name is never taken: it cannot be renamed over the persistent file"
		}
	} else {
		base, isTmp := c34TempOf(path)
		if !isTmp {
			// helper that writes the path it is given: the caller owns the temp+rename discipline
			if prm, isParam := path.(*ssa.Parameter); isParam && depth < 2 && fn.Parent() == nil {
				idx := -1
				for i, q := range fn.Params {
					if q == prm {
						idx = i
					}
				}
				callers := p.StaticCallers(fn)
				if idx >= 0 && len(callers) > 0 {
					for _, c := range callers {
						if idx >= len(c.Common().Args) {
							return false, "called with too few arguments"
						}
						if ok, why := cx.judgeWrite(c.Parent(), c, c.Common().Args[idx], "call of "+fn.Name(), inScope, depth+1); !ok {
							return false, "via " + kit.FuncName(c.Parent()) + " at " + p.Pos(c.Pos()) + ": " + why
						}
					}
					return true, fmt.Sprintf("writes the path it is given; each of its %d caller(s) passes a temporary name and renames it into place", len(callers))
				}
			}
			return false, "the file is written in place on its final path: a crash during the write leaves a truncated file (identity unreadable / sleep state lost, the agent comes up awake)"
		}
		tmp, final = path, base
	}
	var ren ssa.CallInstruction
	for _, rn := range renames {
		if kit.Arg(rn, 0) == tmp && kit.CanReach(site, rn) && (final == nil || c34SameStr(kit.Arg(rn, 1), final)) {
			ren = rn
		}
	}
	if ren == nil {
		return false, "the temporary file is not renamed over the final path it was derived from: the persistent file is never (or wrongly) replaced"
	}
	for _, ret := range kit.Returns(fn) {
		if ret.Block() == fn.Recover || !kit.ReturnsNilError(ret) || !kit.CanReach(site, ret) {
			continue
		}
		if kit.CanReachAvoiding(site, ret, map[ssa.Instruction]bool{ren: true}) {
			return false, "success is returned at " + p.Pos(ret.Pos()) + " without renaming the temporary file into place: the caller believes the state was saved"
		}
	}
	dest := kit.Arg(ren, 1)
	for _, rm := range removes {
		if c34SameStr(kit.Arg(rm, 0), dest) && kit.CanReach(rm, ren) {
			return false, "the final path is removed at " + p.Pos(rm.Pos()) + " before the rename: a crash in between leaves no file at all"
		}
	}
	return true, "written to a temporary name and renamed into place on every success path (rename at " + p.Pos(ren.Pos()) + ")"
}

// ---------------- error text evaluation (R2)

type c34err struct {
	texts     []string      // constant fragments of the message
	sentinels []*ssa.Global // package-level error variables wrapped / returned
	osErrs    []ssa.Value   // raw errors of os read/open/stat calls that are wrapped / returned
	dynamic   bool          // contains text not known statically
}

// fmtConst returns the constant fragments of a format string (verbs removed).
func c34FmtConst(f string) []string {
	var out []string
	var cur strings.Builder
	for i := 0; i < len(f); i++ {
		if f[i] != '%' {
			cur.WriteByte(f[i])
			continue
		}
		if i+1 < len(f) && f[i+1] == '%' {
			cur.WriteByte('%')
			i++
			continue
		}
		out = append(out, cur.String())
		cur.Reset()
		i++
		for i < len(f) && strings.ContainsRune("+-# 0123456789.*[]", rune(f[i])) {
			i++
		}
	}
	out = append(out, cur.String())
	return out
}

func (cx *c34ctx) sentinelText(g *ssa.Global) (string, bool) {
	pkg := g.Pkg
	if pkg == nil {
		return "", false
	}
	initFn := pkg.Func("init")
	if initFn == nil {
		return "", false
	}
	txt, ok := "", false
	kit.Instrs(initFn, func(in ssa.Instruction) {
		if st, isSt := in.(*ssa.Store); isSt && st.Addr == ssa.Value(g) {
			if c, isCall := st.Val.(*ssa.Call); isCall {
				if cal := kit.CalleeOf(c); cal.Pkg == "errors" && cal.Name == "New" {
					if s, isC := kit.ConstString(kit.Arg(c, 0)); isC {
						txt, ok = s, true
					}
				}
			}
		}
	})
	return txt, ok
}

// describe collects what is statically known about error value v.
func (cx *c34ctx) describe(v ssa.Value, out *c34err, depth int) {
	if depth > 4 || v == nil {
		out.dynamic = true
		return
	}
	switch x := v.(type) {
	case *ssa.Const:
		return // nil
	case *ssa.Phi:
		for _, e := range x.Edges {
			cx.describe(e, out, depth+1)
		}
		return
	case *ssa.ChangeInterface:
		cx.describe(x.X, out, depth)
		return
	case *ssa.MakeInterface:
		if s, ok := kit.ConstString(x.X); ok {
			out.texts = append(out.texts, s)
			return
		}
		if kit.IsErrorType(x.X.Type()) {
			cx.describe(x.X, out, depth)
			return
		}
		out.dynamic = true
		return
	case *ssa.UnOp:
		if g, ok := x.X.(*ssa.Global); ok && x.Op == token.MUL {
			out.sentinels = append(out.sentinels, g)
			if t, ok := cx.sentinelText(g); ok {
				out.texts = append(out.texts, t)
			} else {
				out.dynamic = true
			}
			return
		}
	}
	call, idx, ok := kit.ResultOf(v)
	if !ok {
		out.dynamic = true
		return
	}
	cal := kit.CalleeOf(call)
	switch {
	case cal.Pkg == "errors" && cal.Name == "New":
		if s, ok := kit.ConstString(kit.Arg(call, 0)); ok {
			out.texts = append(out.texts, s)
		} else {
			out.dynamic = true
		}
	case cal.Pkg == "fmt" && cal.Name == "Errorf":
		if s, ok := kit.ConstString(kit.Arg(call, 0)); ok {
			out.texts = append(out.texts, c34FmtConst(s)...)
		} else {
			out.dynamic = true
		}
		// operands: stores into the varargs backing array
		if len(call.Call.Args) >= 2 {
			if sl, ok := call.Call.Args[1].(*ssa.Slice); ok {
				if refs := sl.X.Referrers(); refs != nil {
					for _, rf := range *refs {
						ia, ok := rf.(*ssa.IndexAddr)
						if !ok || ia.Referrers() == nil {
							continue
						}
						for _, rr := range *ia.Referrers() {
							if st, ok := rr.(*ssa.Store); ok && st.Addr == ssa.Value(ia) {
								cx.describe(st.Val, out, depth+1)
							}
						}
					}
				}
			}
		}
	case cal.Pkg == "os" && cal.Recv == "":
		out.osErrs = append(out.osErrs, v)
		out.dynamic = true
	case cal.Static != nil && cal.Static.Blocks != nil && kit.IsRepoPkg(cal.Pkg):
		for _, ret := range kit.Returns(cal.Static) {
			if ret.Block() == cal.Static.Recover || idx >= len(ret.Results) {
				continue
			}
			cx.describe(kit.ReturnResult(ret, idx), out, depth+1)
		}
	default:
		out.dynamic = true
	}
}

type c34classifier struct {
	kind     string // "substring" | "sentinel" | "notexist" | "any" | "unknown"
	substr   string
	sentinel *ssa.Global
	desc     string
}

// classifierOf interprets one guard over the loader's error value errVal.
func (cx *c34ctx) classifierOf(cond ssa.Value, pol bool, errVal ssa.Value, depth int) (c34classifier, bool) {
	for {
		u, ok := cond.(*ssa.UnOp)
		if !ok || u.Op != token.NOT {
			break
		}
		cond, pol = u.X, !pol
	}
	c, ok := cond.(*ssa.Call)
	if !ok {
		return c34classifier{}, false
	}
	cal := kit.CalleeOf(c)
	isErr := func(v ssa.Value) bool { return v == errVal }
	isErrText := func(v ssa.Value) bool {
		ic, ok := v.(*ssa.Call)
		return ok && ic.Call.IsInvoke() && ic.Call.Method.Name() == "Error" && ic.Call.Value == errVal
	}
	switch {
	case cal.Pkg == "strings" && cal.Name == "Contains" && isErrText(kit.Arg(c, 0)):
		s, isC := kit.ConstString(kit.Arg(c, 1))
		if !isC || !pol {
			return c34classifier{kind: "unknown", desc: "substring test with a computed pattern or taken on its false edge"}, true
		}
		return c34classifier{kind: "substring", substr: s, desc: fmt.Sprintf("Error() contains %q", s)}, true
	case cal.Pkg == "errors" && cal.Name == "Is" && isErr(kit.Arg(c, 0)):
		if !pol {
			return c34classifier{kind: "unknown", desc: "errors.Is taken on its false edge"}, true
		}
		t := kit.Arg(c, 1)
		if ld, ok := t.(*ssa.UnOp); ok && ld.Op == token.MUL {
			if g, ok := ld.X.(*ssa.Global); ok {
				if g.Pkg != nil && !kit.IsRepoPkg(g.Pkg.Pkg.Path()) && strings.Contains(g.Name(), "NotExist") {
					return c34classifier{kind: "notexist", desc: "errors.Is(err, " + g.Name() + ")"}, true
				}
				return c34classifier{kind: "sentinel", sentinel: g, desc: "errors.Is(err, " + g.Name() + ")"}, true
			}
		}
		return c34classifier{kind: "unknown", desc: "errors.Is with a computed target"}, true
	case cal.Pkg == "os" && cal.Name == "IsNotExist" && isErr(kit.Arg(c, 0)):
		if !pol {
			return c34classifier{kind: "unknown", desc: "os.IsNotExist taken on its false edge"}, true
		}
		return c34classifier{kind: "notexist", desc: "os.IsNotExist(err)"}, true
	case cal.Static != nil && cal.Static.Blocks != nil && kit.IsRepoPkg(cal.Pkg) && depth < 1:
		// helper func(err) bool: single parameter bound to errVal, every return is a classifier on it
		h := cal.Static
		pi := -1
		for i, a := range c.Call.Args {
			if a == errVal {
				pi = i
			}
		}
		if pi < 0 || pi >= len(h.Params) || h.Signature.Results().Len() != 1 {
			return c34classifier{}, false
		}
		var res c34classifier
		n := 0
		for _, ret := range kit.Returns(h) {
			if ret.Block() == h.Recover {
				continue
			}
			cl, ok := cx.classifierOf(kit.ReturnResult(ret, 0), pol, h.Params[pi], depth+1)
			if !ok {
				return c34classifier{kind: "unknown", desc: "helper " + h.Name() + " is not a recognised classifier"}, true
			}
			res = cl
			n++
		}
		if n == 1 {
			res.desc = h.Name() + ": " + res.desc
			return res, true
		}
		return c34classifier{kind: "unknown", desc: "helper " + h.Name() + " has several results"}, true
	}
	return c34classifier{}, false
}

func (cl c34classifier) matches(e *c34err, primaryErr ssa.Value) (bool, string) {
	switch cl.kind {
	case "substring":
		for _, t := range e.texts {
			if strings.Contains(t, cl.substr) {
				return true, fmt.Sprintf("its message contains %q (%q)", cl.substr, t)
			}
		}
	case "sentinel":
		for _, g := range e.sentinels {
			if g == cl.sentinel {
				return true, "it wraps " + g.Name()
			}
		}
	case "notexist":
		for _, o := range e.osErrs {
			if o != primaryErr {
				return true, "it wraps the error of a later file operation, which is a not-exist error when that file is missing"
			}
		}
	case "any", "unknown":
		return true, "the classifier does not distinguish it"
	}
	return false, ""
}

func (cx *c34ctx) ruleRegenerate() {
	p, r := cx.p, cx.r
	// roles, decided transitively so that extracted helpers (writeLineAtomic, createAndStore,
	// storePrivateKey ...) do not hide them:
	//   writer    - reaches a file write / rename
	//   generator - reaches a read of crypto/rand (a new identity is made)
	reaches := func(pred func(c ssa.CallInstruction) bool) func(fn *ssa.Function) bool {
		memo := map[*ssa.Function]int{} // 1 = yes, 2 = no
		var rec func(fn *ssa.Function, depth int) bool
		rec = func(fn *ssa.Function, depth int) bool {
			if fn == nil || fn.Blocks == nil || depth > 3 {
				return false
			}
			if v := memo[fn]; v != 0 && depth == 0 {
				return v == 1
			}
			res := false
			for _, c := range kit.Calls(fn) {
				if pred(c) {
					res = true
					break
				}
				if cal := kit.CalleeOf(c); cal.Static != nil && cal.Static != fn && kit.IsRepoPkg(cal.Pkg) && rec(cal.Static, depth+1) {
					res = true
					break
				}
			}
			if depth == 0 {
				if res {
					memo[fn] = 1
				} else {
					memo[fn] = 2
				}
			}
			return res
		}
		return func(fn *ssa.Function) bool { return rec(fn, 0) }
	}
	isWriter := reaches(func(c ssa.CallInstruction) bool {
		_, _, w := c34WriteSite(c)
		return w || c34IsOS(c, "Rename")
	})
	isGenerator := reaches(func(c ssa.CallInstruction) bool {
		cal := kit.CalleeOf(c)
		if cal.Pkg == "crypto/rand" {
			return true
		}
		for _, a := range c.Common().Args {
			if mi, ok := a.(*ssa.MakeInterface); ok {
				a = mi.X
			}
			if ld, ok := a.(*ssa.UnOp); ok && ld.Op == token.MUL {
				if g, ok := ld.X.(*ssa.Global); ok && g.Pkg != nil && g.Pkg.Pkg.Path() == "crypto/rand" {
					return true
				}
			}
		}
		return false
	})
	// creators: the outermost functions of the package that both make and store an identity
	idFns := p.FuncsInPkg("internal/identity")
	both := map[*ssa.Function]bool{}
	for _, fn := range idFns {
		if fn.Parent() == nil && isWriter(fn) && isGenerator(fn) {
			both[fn] = true
		}
	}
	inner := map[*ssa.Function]bool{}
	for fn := range both {
		for _, c := range kit.Calls(fn) {
			if cal := kit.CalleeOf(c); cal.Static != nil && cal.Static != fn && both[cal.Static] {
				inner[cal.Static] = true
			}
		}
	}
	nCreators := 0
	for _, fn := range idFns {
		if !both[fn] || inner[fn] {
			continue
		}
		// the call that stores: first call of a function that reaches a file write
		var storeCall ssa.CallInstruction
		for _, c := range kit.Calls(fn) {
			if cal := kit.CalleeOf(c); storeCall == nil && cal.Static != nil && kit.IsRepoPkg(cal.Pkg) && isWriter(cal.Static) {
				storeCall = c
			}
		}
		if storeCall == nil {
			continue
		}
		var loadCall *ssa.Call
		for _, c := range kit.Calls(fn) {
			call, ok := c.(*ssa.Call)
			if !ok || !kit.Precedes(call, storeCall) {
				continue
			}
			cal := kit.CalleeOf(call)
			if cal.Static == nil || cal.Static.Blocks == nil || !kit.IsRepoPkg(cal.Pkg) || kit.ErrResultOf(call) == nil {
				continue
			}
			reads := false
			for _, c2 := range kit.Calls(cal.Static) {
				if c34IsOS(c2, "ReadFile", "Open", "OpenFile") {
					reads = true
				}
			}
			if reads && loadCall == nil {
				loadCall = call
			}
		}
		if loadCall == nil {
			// the store is not governed by a loader's error: existence-predicate form
			nCreators++
			cx.regenerateByExistence(fn, storeCall)
			continue
		}
		nCreators++
		loader := kit.CalleeOf(loadCall).Static
		errVal := kit.ErrResultOf(loadCall)
		fname := kit.FuncName(fn)
		// classifier = the guards of the store that talk about the load error
		cl := c34classifier{kind: "any", desc: "any load error"}
		for _, g := range kit.GuardsOf(storeCall) {
			if c, ok := cx.classifierOf(g.Cond, g.Polarity, errVal, 0); ok {
				cl = c
				break
			}
		}
		r.Infof("C34.R2", fname+" classifier", p.Pos(storeCall.Pos()), "a new identity is generated when the error of %s satisfies: %s", kit.FuncName(loader), cl.desc)
		// primary read of the loader: the os read that dominates every other one
		var reads []*ssa.Call
		for _, c := range kit.Calls(loader) {
			if call, ok := c.(*ssa.Call); ok && c34IsOS(c, "ReadFile", "Open", "OpenFile") {
				reads = append(reads, call)
			}
		}
		var primary *ssa.Call
		for _, a := range reads {
			dom := true
			for _, b := range reads {
				if a != b && !kit.Precedes(a, b) {
					dom = false
				}
			}
			if dom {
				primary = a
			}
		}
		if !r.Require(primary != nil, "anchor-unresolved: %s has no file read that precedes all others", kit.FuncName(loader)) {
			continue
		}
		primaryErr := kit.ErrResultOf(primary)
		nSites, nAfter, nBefore := 0, 0, 0
		for _, ret := range kit.Returns(loader) {
			if ret.Block() == loader.Recover || kit.ReturnsNilError(ret) {
				continue
			}
			nSites++
			key := fmt.Sprintf("%s regenerates on %s error #%d", fname, kit.FuncName(loader), nSites)
			pos := p.Pos(ret.Pos())
			var e c34err
			cx.describe(kit.ReturnResult(ret, len(ret.Results)-1), &e, 0)
			m, why := cl.matches(&e, primaryErr)
			after := primaryErr != nil && kit.ErrNilOn(kit.GuardsOf(ret), primaryErr)
			if !after {
				if m {
					nBefore++
				}
				r.OK("C34.R2", key, pos, "raised before the primary file was read (matches classifier: %v)", m)
				continue
			}
			nAfter++
			r.Decide(!m, "C34.R2", key, pos, "raised after the primary file was read; not classified as missing",
				"this error is raised after the stored primary file (private key / agent id) was read successfully, and "+why+": the load-or-create function generates a new identity and overwrites the stored one")
		}
		r.Count("loader_error_sites", nSites)
		r.Count("loader_error_sites_after_primary_read", nAfter)
		_ = nBefore
	}
	r.Count("load_or_create_functions", nCreators)
	r.Require(nCreators >= 2, "floor: expected the agent-id and the keypair load-or-create functions, found %d", nCreators)
}

// c34PathName returns the constant last path element of a path expression
// (filepath.Join(dir, "name") or dir + "/name").
func c34PathName(v ssa.Value) (string, bool) {
	switch x := v.(type) {
	case *ssa.BinOp:
		if x.Op == token.ADD {
			if s, ok := kit.ConstString(x.Y); ok {
				if i := strings.LastIndexAny(s, "/\\"); i >= 0 {
					s = s[i+1:]
				}
				return s, s != ""
			}
		}
	case *ssa.Extract:
		if call, ok := x.Tuple.(*ssa.Call); ok {
			return c34HelperPathName(call, x.Index)
		}
	case *ssa.Call:
		cal := kit.CalleeOf(x)
		if cal.Static != nil && cal.Static.Blocks != nil && kit.IsRepoPkg(cal.Pkg) {
			return c34HelperPathName(x, 0) // idFilePath(dataDir)
		}
		if cal.Pkg != "path/filepath" && cal.Pkg != "path" || cal.Name != "Join" || len(x.Call.Args) != 1 {
			return "", false
		}
		sl, ok := x.Call.Args[0].(*ssa.Slice)
		if !ok || sl.X.Referrers() == nil {
			return "", false
		}
		best, name := int64(-1), ""
		for _, rf := range *sl.X.Referrers() {
			ia, ok := rf.(*ssa.IndexAddr)
			if !ok || ia.Referrers() == nil {
				continue
			}
			idx, ok := kit.ConstInt(ia.Index)
			if !ok {
				continue
			}
			for _, rr := range *ia.Referrers() {
				if st, ok := rr.(*ssa.Store); ok && st.Addr == ssa.Value(ia) {
					if idx > best {
						best = idx
						name, _ = kit.ConstString(st.Val)
					}
				}
			}
		}
		return name, name != ""
	}
	return "", false
}

// c34HelperPathName: the path is built by a small repository helper; every return must give
// the same constant name.
func c34HelperPathName(call *ssa.Call, idx int) (string, bool) {
	h := kit.CalleeOf(call).Static
	if h == nil || h.Blocks == nil {
		return "", false
	}
	name := ""
	for _, ret := range kit.Returns(h) {
		if ret.Block() == h.Recover || idx >= len(ret.Results) {
			continue
		}
		if _, isCall := kit.ReturnResult(ret, idx).(*ssa.Call); isCall {
			if c := kit.CalleeOf(kit.ReturnResult(ret, idx).(*ssa.Call)); c.Static == h {
				return "", false
			}
		}
		n, ok := c34PathName(kit.ReturnResult(ret, idx))
		if !ok || (name != "" && n != name) {
			return "", false
		}
		name = n
	}
	return name, name != ""
}

// c34Probes lists the constant file names a function probes (Stat/Lstat/Open/ReadFile), looking
// one level into repository callees. unknown=true if a probed path has no constant name.
func c34Probes(fn *ssa.Function, depth int) (names []string, unknown bool) {
	for _, c := range kit.Calls(fn) {
		if c34IsOS(c, "Stat", "Lstat", "Open", "ReadFile", "OpenFile") {
			if n, ok := c34PathName(kit.Arg(c, 0)); ok {
				names = append(names, n)
			} else {
				unknown = true
			}
			continue
		}
		if cal := kit.CalleeOf(c); depth < 1 && cal.Static != nil && cal.Static.Blocks != nil && kit.IsRepoPkg(cal.Pkg) {
			n2, u2 := c34Probes(cal.Static, depth+1)
			names = append(names, n2...)
			unknown = unknown || u2
		}
	}
	return
}

// regenerateByExistence decides R2 for a load-or-create function whose generate-and-store branch
// is selected by an existence test instead of the loader's error.
func (cx *c34ctx) regenerateByExistence(fn *ssa.Function, storeCall ssa.CallInstruction) {
	p, r := cx.p, cx.r
	fname := kit.FuncName(fn)
	key := fname + " regeneration guard"
	pos := p.Pos(storeCall.Pos())
	// the loader of the same identity: called here, or the package function with the same result type
	readsFiles := func(f *ssa.Function) bool {
		for _, c := range kit.Calls(f) {
			if c34IsOS(c, "ReadFile", "Open", "OpenFile") {
				return true
			}
		}
		return false
	}
	var loader *ssa.Function
	for _, c := range kit.Calls(fn) {
		if cal := kit.CalleeOf(c); cal.Static != nil && cal.Static.Blocks != nil && kit.IsRepoPkg(cal.Pkg) && cal.Static.Signature.Recv() == nil && readsFiles(cal.Static) {
			if call, ok := c.(*ssa.Call); ok && kit.ErrResultOf(call) != nil {
				loader = cal.Static
			}
		}
	}
	if loader == nil && fn.Signature.Results().Len() > 0 {
		for _, f := range p.FuncsInPkg(kit.FuncPkgPath(fn)) {
			if f != fn && f.Parent() == nil && f.Signature.Recv() == nil && f.Signature.Results().Len() == 2 && readsFiles(f) &&
				types.Identical(f.Signature.Results().At(0).Type(), fn.Signature.Results().At(0).Type()) {
				loader = f
			}
		}
	}
	if loader == nil {
		r.Violation("C34.R2", key, pos, "a new identity is generated and stored without consulting what is stored: an existing private key / agent id is replaced")
		return
	}
	// primary file of the loader
	var reads []*ssa.Call
	for _, c := range kit.Calls(loader) {
		if call, ok := c.(*ssa.Call); ok && c34IsOS(c, "ReadFile", "Open", "OpenFile") {
			reads = append(reads, call)
		}
	}
	primary := ""
	for _, a := range reads {
		dom := true
		for _, b := range reads {
			if a != b && !kit.Precedes(a, b) {
				dom = false
			}
		}
		if dom {
			primary, _ = c34PathName(kit.Arg(a, 0))
		}
	}
	if !r.Require(primary != "", "anchor-unresolved: constant name of the primary file read by %s", kit.FuncName(loader)) {
		return
	}
	decided := false
	for _, g := range kit.GuardsOf(storeCall) {
		cond, pol := g.Cond, g.Polarity
		for {
			u, ok := cond.(*ssa.UnOp)
			if !ok || u.Op != token.NOT {
				break
			}
			cond, pol = u.X, !pol
		}
		// (a) existence predicate of the package
		if c, ok := cond.(*ssa.Call); ok {
			cal := kit.CalleeOf(c)
			if cal.Static != nil && cal.Static.Blocks != nil && kit.IsRepoPkg(cal.Pkg) {
				names, unknown := c34Probes(cal.Static, 0)
				if len(names) == 0 && !unknown {
					continue
				}
				decided = true
				if pol {
					r.Violation("C34.R2", key, pos, "a new identity is generated when %s reports that files exist: the stored identity is replaced", cal.Static.Name())
					return
				}
				extra := ""
				hasPrimary := false
				for _, n := range names {
					if n == primary {
						hasPrimary = true
					} else {
						extra = n
					}
				}
				switch {
				case unknown || !hasPrimary:
					r.Violation("C34.R2", key, pos, "a new identity is generated when %s is false, but that predicate does not test the primary file %q that %s reads: a stored identity is replaced", cal.Static.Name(), primary, loader.Name())
				case extra != "":
					r.Violation("C34.R2", key, pos, "a new identity is generated when %s is false, and that predicate also requires %q: after a crash that left only the primary file %q (the stored private key) the predicate is false and a new identity is stored over it", cal.Static.Name(), extra, primary)
				default:
					r.OK("C34.R2", key, pos, "a new identity is generated only when %s finds the primary file %q absent", cal.Static.Name(), primary)
				}
				return
			}
			// (b) inline classification of a Stat error
			var statErr ssa.Value
			switch {
			case cal.Pkg == "os" && cal.Name == "IsNotExist":
				statErr = kit.Arg(c, 0)
			case cal.Pkg == "errors" && cal.Name == "Is":
				statErr = kit.Arg(c, 0)
			}
			if statErr != nil {
				if sc, _, ok := kit.ResultOf(statErr); ok && c34IsOS(sc, "Stat", "Lstat") {
					decided = true
					n, _ := c34PathName(kit.Arg(sc, 0))
					r.Decide(pol && n == primary, "C34.R2", key, pos,
						fmt.Sprintf("a new identity is generated only when the primary file %q does not exist", primary),
						fmt.Sprintf("a new identity is generated depending on the existence of %q, not of the primary file %q: a stored identity is replaced when only the primary file survived a crash", n, primary))
					return
				}
			}
		}
		if x, trueMeansNil, ok := kit.IsErrNilCheck(cond); ok {
			if sc, _, ok2 := kit.ResultOf(x); ok2 && c34IsOS(sc, "Stat", "Lstat") {
				decided = true
				n, _ := c34PathName(kit.Arg(sc, 0))
				r.Decide(trueMeansNil != pol && n == primary, "C34.R2", key, pos,
					fmt.Sprintf("a new identity is generated only when probing the primary file %q fails", primary),
					fmt.Sprintf("a new identity is generated depending on a probe of %q, not of the primary file %q (or on its success)", n, primary))
				return
			}
		}
	}
	if !decided {
		r.Violation("C34.R2", key, pos, "the branch that generates and stores a new identity is not limited to \"primary file %q absent\" by a recognised test (loader error classifier, existence predicate, Stat): a stored identity can be replaced", primary)
	}
}

// ---------------- R3

func (cx *c34ctx) rulePair() {
	p, r := cx.p, cx.r
	kpT := p.NamedType("internal/identity", "Keypair")
	priv := p.Field("internal/identity", "Keypair", "PrivateKey")
	pub := p.Field("internal/identity", "Keypair", "PublicKey")
	if !r.Require(kpT != nil && priv != nil && pub != nil, "anchor-unresolved: identity.Keypair{PrivateKey, PublicKey}") {
		return
	}
	callsCurve := func(fn *ssa.Function) bool {
		if fn == nil {
			return false
		}
		for _, c := range kit.Calls(fn) {
			if strings.HasPrefix(kit.CalleeOf(c).Pkg, "golang.org/x/crypto/curve25519") || kit.CalleeOf(c).Pkg == "crypto/ecdh" {
				return true
			}
		}
		return false
	}
	// derivedFrom: v is the public key computed from private key memory/value pk
	derivedFrom := func(fn *ssa.Function, v ssa.Value, pk ssa.Value) bool {
		// direct: DerivePublicKey(load pk)
		if c, ok := v.(*ssa.Call); ok {
			if cal := kit.CalleeOf(c); cal.Static != nil && callsCurve(cal.Static) {
				for _, a := range c.Call.Args {
					if a == pk || c34SameMem(a, pk) {
						return true
					}
				}
			}
		}
		// load of a local written by a curve25519 call that also received the private key
		if ld, ok := v.(*ssa.UnOp); ok && ld.Op == token.MUL {
			for _, c := range kit.Calls(fn) {
				if !strings.HasPrefix(kit.CalleeOf(c).Pkg, "golang.org/x/crypto/curve25519") {
					continue
				}
				hasOut, hasPriv := false, false
				for _, a := range c.Common().Args {
					if a == ld.X {
						hasOut = true
					}
					if a == pk || c34SameMem(a, pk) {
						hasPriv = true
					}
					if pl, ok := pk.(*ssa.UnOp); ok && pl.Op == token.MUL && a == pl.X {
						hasPriv = true
					}
				}
				if hasOut && hasPriv {
					return true
				}
			}
		}
		return false
	}
	n := 0
	for _, fn := range p.FuncsInPkg("internal/identity") {
		// loaders: functions that read a file and return *Keypair
		if fn.Parent() != nil || fn.Signature.Results().Len() < 1 {
			continue
		}
		rt, ok := fn.Signature.Results().At(0).Type().(*types.Pointer)
		if !ok || !types.Identical(rt.Elem(), kpT) {
			continue
		}
		reads := false
		for _, c := range kit.Calls(fn) {
			if c34IsOS(c, "ReadFile", "Open", "OpenFile") {
				reads = true
			}
		}
		if !reads {
			continue
		}
		for _, ret := range kit.Returns(fn) {
			al, ok := kit.ReturnResult(ret, 0).(*ssa.Alloc)
			if !ok {
				continue // nil or forwarded
			}
			n++
			key := fmt.Sprintf("%s returned keypair #%d", kit.FuncName(fn), n)
			pos := p.Pos(ret.Pos())
			var pubVal, privVal ssa.Value
			kit.Instrs(fn, func(in ssa.Instruction) {
				if st, ok := in.(*ssa.Store); ok {
					if fa, ok := st.Addr.(*ssa.FieldAddr); ok && fa.X == ssa.Value(al) {
						switch kit.FieldOfAddr(fa) {
						case pub:
							pubVal = st.Val
						case priv:
							privVal = st.Val
						}
					}
				}
			})
			if pubVal == nil || privVal == nil {
				r.Violation("C34.R3", key, pos, "a keypair is returned without both keys set")
				continue
			}
			okPair := derivedFrom(fn, pubVal, privVal)
			how := "public key derived from the private key"
			if !okPair {
				for _, g := range kit.GuardsOf(ret) {
					b, isB := g.Cond.(*ssa.BinOp)
					if !isB || (b.Op != token.EQL && b.Op != token.NEQ) || (b.Op == token.EQL) != g.Polarity {
						continue
					}
					for _, pr := range [][2]ssa.Value{{b.X, b.Y}, {b.Y, b.X}} {
						if pr[0] == pubVal && derivedFrom(fn, pr[1], privVal) {
							okPair, how = true, "stored public key compared (equal edge) with the key derived from the private key"
						}
					}
				}
			}
			r.Decide(okPair, "C34.R3", key, pos, how,
				"the returned public key is neither derived from the private key nor compared with the derived key: after an interrupted or mixed-up save the agent runs with a public key that does not match its private key")
		}
	}
	r.Count("returned_keypairs_checked", n)
	r.Require(n >= 1, "floor: no keypair-returning loader found in internal/identity")
}

// c34SameMem: both values are loads of the same local.
func c34SameMem(a, b ssa.Value) bool {
	la, ok1 := a.(*ssa.UnOp)
	lb, ok2 := b.(*ssa.UnOp)
	return ok1 && ok2 && la.Op == token.MUL && lb.Op == token.MUL && la.X == lb.X
}

// ---------------- R4

func (cx *c34ctx) ruleSleepLoad() {
	p, r := cx.p, cx.r
	stateFile := p.Field("internal/sleep", "Manager", "stateFile")
	if !r.Require(stateFile != nil, "anchor-unresolved: field sleep.Manager.stateFile") {
		return
	}
	var loaders []*ssa.Function
	for _, m := range p.Methods("internal/sleep", "Manager") {
		for _, c := range kit.Calls(m) {
			if c34IsOS(c, "ReadFile", "Open") && kit.IsLoadOfField(kit.Arg(c, 0), stateFile) {
				loaders = append(loaders, m)
			}
		}
	}
	if !r.Require(len(loaders) >= 1, "anchor-unresolved: sleep.Manager method reading stateFile") {
		return
	}
	// isRecv / isRecvField: v is the receiver of fn (possibly spilled to a local) / the address of
	// one of its fields
	isRecv := func(fn *ssa.Function, v ssa.Value) bool {
		recv := ssa.Value(fn.Params[0])
		if v == recv {
			return true
		}
		l, ok := v.(*ssa.UnOp)
		if ok && l.Op == token.MUL {
			if a, ok := l.X.(*ssa.Alloc); ok && a.Referrers() != nil {
				for _, rf := range *a.Referrers() {
					if st, ok := rf.(*ssa.Store); ok && st.Addr == ssa.Value(a) && st.Val == recv {
						return true
					}
				}
			}
		}
		return false
	}
	isRecvFieldOf := func(fn *ssa.Function, v ssa.Value) bool {
		fa, ok := v.(*ssa.FieldAddr)
		return ok && isRecv(fn, fa.X)
	}
	// mutates: instruction in of fn modifies the manager (directly, or by calling a Manager
	// method on the same receiver that does - restore(saved))
	var mutates func(fn *ssa.Function, in ssa.Instruction, depth int) bool
	mutates = func(fn *ssa.Function, in ssa.Instruction, depth int) bool {
		switch x := in.(type) {
		case *ssa.Store:
			return isRecvFieldOf(fn, x.Addr)
		case ssa.CallInstruction:
			cal := kit.CalleeOf(x)
			for i, a := range x.Common().Args {
				if isRecvFieldOf(fn, a) {
					// method on the field: reads are Load/RLock-like
					if i == 0 && (cal.Name == "Load" || cal.Name == "RLock" || cal.Name == "RUnlock" || cal.Name == "Lock" || cal.Name == "Unlock") {
						continue
					}
					return true
				}
			}
			if depth < 2 && cal.Static != nil && cal.Static.Blocks != nil && cal.Static.Signature.Recv() != nil && kit.IsRepoPkg(cal.Pkg) && len(x.Common().Args) > 0 && isRecv(fn, x.Common().Args[0]) {
				found := false
				kit.Instrs(cal.Static, func(in2 ssa.Instruction) {
					if !found && mutates(cal.Static, in2, depth+1) {
						found = true
					}
				})
				return found
			}
		}
		return false
	}
	for _, ld := range loaders {
		n := 0
		kit.Instrs(ld, func(in ssa.Instruction) {
			if !mutates(ld, in, 0) {
				return
			}
			n++
			key := fmt.Sprintf("%s manager modification #%d", kit.FuncName(ld), n)
			bad := ""
			for _, ret := range kit.Returns(ld) {
				if ret.Block() != ld.Recover && kit.CanReach(in, ret) && !kit.ReturnsNilError(ret) {
					bad = p.Pos(ret.Pos())
				}
			}
			r.Decide(bad == "", "C34.R4", key, p.Pos(in.Pos()), "no error return is reachable after this modification",
				"an error return at "+bad+" is reachable after the manager was modified: a truncated or corrupt state file leaves a half-applied sleep state instead of the initial one")
		})
		r.Count("sleep_loader_modifications", n)
		r.Require(n >= 1, "floor: %s does not apply anything to the manager", kit.FuncName(ld))
		// callers: no return reached only on the error edge
		callers := p.StaticCallers(ld)
		r.Require(len(callers) >= 1, "floor: %s has no caller", kit.FuncName(ld))
		for i, c := range callers {
			call, ok := c.(*ssa.Call)
			key := fmt.Sprintf("%s call of %s #%d", kit.FuncName(c.Parent()), ld.Name(), i+1)
			if !ok {
				r.OK("C34.R4", key, p.Pos(c.Pos()), "result not inspected (go/defer)")
				continue
			}
			errVal := kit.ErrResultOf(call)
			bad := ""
			for _, ret := range kit.Returns(c.Parent()) {
				if ret.Block() == c.Parent().Recover {
					continue
				}
				onErrEdge := false
				for _, g := range kit.GuardsOf(ret) {
					if x, trueMeansNil, ok := kit.IsErrNilCheck(g.Cond); ok && x == errVal && trueMeansNil != g.Polarity {
						onErrEdge = true
					}
				}
				if onErrEdge {
					bad = p.Pos(ret.Pos())
				}
				if res := kit.ReturnResult(ret, len(ret.Results)-1); res != nil && errVal != nil && kit.DependsOn(res, errVal) {
					bad = p.Pos(ret.Pos())
				}
			}
			r.Decide(bad == "", "C34.R4", key, p.Pos(c.Pos()), "a load error is not propagated and no return is reached only on the error edge",
				"the return at "+bad+" is taken only when the sleep state cannot be loaded: after a crash that damaged the state file the sleep manager does not start")
		}
	}
}
