package rules

import (
	"fmt"
	"go/constant"
	"go/token"
	"go/types"
	"sort"
	"strings"

	"golang.org/x/tools/go/ssa"

	"mmverify/kit"
)

func init() {
	register(&Check{
		ID: "C12", Level: "other", Patterns: []string{"./internal/agent"},
		Technique: "value provenance across call sites, structural matching of path construction idioms, constant sets of frame types",
		Explain: "Decides the path-integrity clauses that make a learned route a chain of real links: the NextHop of every route record built from an announcement is the peer id handed to the frame dispatcher; origin announcements carry the path [local id], forwarded ones the received path with the local id prepended once (as-is only for absent/encrypted legacy paths), replays the stored path with the local id prepended; every stream/UDP/ICMP open is sent to the route's NextHop with the stored path after that hop (relays: to RemainingPath[0] with RemainingPath[1:]); and every frame type some code sends is compared in the frame dispatcher or in internal/peer. " +
			"Convergence (every agent learns every route), quiescence and link reliability are liveness statements and are not decided.",
		Run: runC12,
		SelfTests: []SelfTest{
			{Name: "next hop recorded as the origin", ExpectRule: "C12.R1", ExpectKey: "ProcessDomainRouteAdvertise", Edits: []Edit{
				{File: "internal/routing/manager.go", Old: "\t\t\tBaseDomain:  baseDomain,\n\t\t\tNextHop:     fromPeer,", New: "\t\t\tBaseDomain:  baseDomain,\n\t\t\tNextHop:     originAgent,"},
			}},
			{Name: "recorded path drops its first hop", ExpectRule: "C12.R1", ExpectKey: "ProcessForwardRouteAdvertise ForwardRoute literal #1 Path", Edits: []Edit{
				{File: "internal/routing/manager.go", Old: "\t\t\tMetric:      entry.Metric + 1, // Increment metric\n\t\t\tPath:        path,\n\t\t\tEncPath:     encPath,\n\t\t\tSequence:    sequence,\n\t\t}\n\n\t\tif m.forwardTable.AddRoute(route) {", New: "\t\t\tMetric:      entry.Metric + 1, // Increment metric\n\t\t\tPath:        path[1:],\n\t\t\tEncPath:     encPath,\n\t\t\tSequence:    sequence,\n\t\t}\n\n\t\tif m.forwardTable.AddRoute(route) {"},
			}},
			{Name: "handler records the path with the sender prepended again", ExpectRule: "C12.R1", ExpectKey: "Path", Edits: []Edit{
				{File: "internal/flood/flood.go", Old: "\t\tf.routeMgr.ProcessRouteAdvertise(fromPeer, originAgent, sequence, cidrEntries, path, encPath)", New: "\t\tf.routeMgr.ProcessRouteAdvertise(fromPeer, originAgent, sequence, cidrEntries, append([]identity.AgentID{fromPeer}, path...), encPath)"},
			}},
			{Name: "dispatcher hands the advertised origin as sender", ExpectRule: "C12.R1", Edits: []Edit{
				{File: "internal/agent/agent.go", Old: "\ta.flooder.HandleRouteAdvertise(peerID, adv.OriginAgent, adv.OriginDisplayName, adv.Sequence, adv.Routes, adv.EncPath, adv.SeenBy)\n}", New: "\ta.flooder.HandleRouteAdvertise(adv.OriginAgent, adv.OriginAgent, adv.OriginDisplayName, adv.Sequence, adv.Routes, adv.EncPath, adv.SeenBy)\n}"},
			}},
			{Name: "forwarded path not extended", ExpectRule: "C12.R2", ExpectKey: "floodAdvertisementEncrypted", Edits: []Edit{
				{File: "internal/flood/flood.go", Old: "\tif encPath != nil && !encPath.Encrypted {\n\t\t// Decode existing path, prepend our ID, re-encode", New: "\tif encPath != nil && !encPath.Encrypted && len(seenBy) == 0 {\n\t\t// Decode existing path, prepend our ID, re-encode"},
			}},
			{Name: "forwarded path prepends the sender instead of the local id", ExpectRule: "C12.R2", ExpectKey: "floodAdvertisementEncrypted", Edits: []Edit{
				{File: "internal/flood/flood.go", Old: "\t\tnewPath[0] = f.localID\n", New: "\t\tnewPath[0] = fromPeer\n"},
			}},
			{Name: "forwarded path drops the previous hop", ExpectRule: "C12.R2", ExpectKey: "floodAdvertisementEncrypted", Edits: []Edit{
				{File: "internal/flood/flood.go", Old: "\t\tnewPath := make([]identity.AgentID, len(existingPath)+1)\n\t\tnewPath[0] = f.localID\n\t\tcopy(newPath[1:], existingPath)", New: "\t\tnewPath := make([]identity.AgentID, len(existingPath)+1)\n\t\tnewPath[0] = f.localID\n\t\tcopy(newPath[1:], existingPath[1:])"},
			}},
			{Name: "replayed path without the replaying agent", ExpectRule: "C12.R2", ExpectKey: "SendFullTable", Edits: []Edit{
				{File: "internal/flood/flood.go", Old: "\t\t\tpath = append([]identity.AgentID{f.localID}, forwardOriginRoutes[0].Path...)", New: "\t\t\tpath = forwardOriginRoutes[0].Path"},
			}},
			{Name: "origin announces an empty path", ExpectRule: "C12.R2", ExpectKey: "AnnounceLocalRoutes", Edits: []Edit{
				{File: "internal/flood/flood.go", Old: "\tpath := []identity.AgentID{f.localID}\n\tpathBytes := protocol.EncodePath(path)", New: "\tpath := []identity.AgentID{}\n\tpathBytes := protocol.EncodePath(path)"},
			}},
			{Name: "ICMP open sent to the origin instead of the next hop", ExpectRule: "C12.R3", ExpectKey: "CreateICMPSession", Edits: []Edit{
				{File: "internal/agent/icmp.go", Old: "\tnextHop := route.NextHop\n", New: "\tnextHop := route.OriginAgent\n"},
			}},
			{Name: "remaining path keeps the next hop", ExpectRule: "C12.R3", ExpectKey: "UploadFile", Edits: []Edit{
				{File: "internal/agent/agent.go", Old: "\t\t\t\tremainingPath = make([]identity.AgentID, len(agentRoute.Path)-1)\n\t\t\t\tcopy(remainingPath, agentRoute.Path[1:])", New: "\t\t\t\tremainingPath = make([]identity.AgentID, len(agentRoute.Path)-1)\n\t\t\t\tcopy(remainingPath, agentRoute.Path[0:])"},
			}},
			{Name: "relay forwards the whole remaining path", ExpectRule: "C12.R3", ExpectKey: "handleStreamOpen", Edits: []Edit{
				{File: "internal/agent/agent.go", Old: "\t// Update remaining path (remove the next hop)\n\tnewPath := open.RemainingPath[1:]\n", New: "\t// Update remaining path (remove the next hop)\n\tnewPath := open.RemainingPath[0:]\n"},
			}},
			{Name: "UDP open skips one hop too many", ExpectRule: "C12.R3", ExpectKey: "createDestAssociation", Edits: []Edit{
				{File: "internal/agent/udp.go", Old: "\t\t\tremainingPath = make([]identity.AgentID, len(rPath)-i-1)\n\t\t\tcopy(remainingPath, rPath[i+1:])", New: "\t\t\tremainingPath = make([]identity.AgentID, len(rPath)-i-1)\n\t\t\tcopy(remainingPath, rPath[i+2:])"},
			}},
			{Name: "node-info frames no longer dispatched", ExpectRule: "C12.R4", ExpectKey: "FrameNodeInfoAdvertise", Edits: []Edit{
				{File: "internal/agent/agent.go", Old: "\tcase protocol.FrameNodeInfoAdvertise:\n\t\ta.handleNodeInfoAdvertise(peerID, frame)\n", New: ""},
			}},
			{Name: "UDP datagrams no longer dispatched", ExpectRule: "C12.R4", ExpectKey: "FrameUDPDatagram", Edits: []Edit{
				{File: "internal/agent/agent.go", Old: "\tcase protocol.FrameUDPDatagram:\n\t\ta.handleUDPDatagram(peerID, frame)\n", New: ""},
			}},
			{Name: "hop-limit test moved behind the seen-cache mark (seed C12-a)", ExpectRule: "C12.R6", ExpectKey: "HandleRouteAdvertise", Edits: []Edit{
				{File: "internal/flood/flood.go", Old: "\tif f.cfg.MaxHops > 0 && hops > f.cfg.MaxHops {\n\t\treturn false\n\t}\n", New: "\ttooFar := f.cfg.MaxHops > 0 && hops > f.cfg.MaxHops\n"},
				{File: "internal/flood/flood.go", Old: "\t// Check if we're in the seen-by list (loop detection)\n\tif containsAgent(seenBy, f.localID) {\n\t\treturn false\n\t}\n\n\t// Convert protocol routes", New: "\t// Check if we're in the seen-by list (loop detection)\n\tif containsAgent(seenBy, f.localID) || tooFar {\n\t\treturn false\n\t}\n\n\t// Convert protocol routes"},
			}},
			{Name: "announcements from the origin itself preferred after the mark", ExpectRule: "C12.R6", ExpectKey: "HandleRouteAdvertise", Edits: []Edit{
				{File: "internal/flood/flood.go", Old: "\t// Check if we're in the seen-by list (loop detection)\n\tif containsAgent(seenBy, f.localID) {\n\t\treturn false\n\t}\n\n\t// Convert protocol routes", New: "\t// Check if we're in the seen-by list (loop detection)\n\tif containsAgent(seenBy, f.localID) {\n\t\treturn false\n\t}\n\tif len(seenBy) > 1 && fromPeer != originAgent && len(routes) == 0 {\n\t\treturn false\n\t}\n\n\t// Convert protocol routes"},
			}},
			{Name: "node info without a plaintext path dropped after the mark", ExpectRule: "C12.R6", ExpectKey: "HandleNodeInfoAdvertise", Edits: []Edit{
				{File: "internal/flood/flood.go", Old: "\t// Store the node info in the routing manager (handles decryption if possible)\n", New: "\tif len(seenBy) > 8 {\n\t\treturn false\n\t}\n\t// Store the node info in the routing manager (handles decryption if possible)\n"},
			}},
			{Name: "agent-presence entry refreshed in place keeps its path (seed C12-b)", ExpectRule: "C12.R5", ExpectKey: "(*routing.AgentTable).AddRoute", Edits: []Edit{
				{File: "internal/routing/agent.go", Old: "\t\t\t\tcloned := route.Clone()\n\t\t\t\tcloned.LastUpdate = time.Now()\n\t\t\t\tt.routes[key][i] = cloned\n", New: "\t\t\t\t_ = i\n\t\t\t\tr.Metric = route.Metric\n\t\t\t\tr.Sequence = route.Sequence\n\t\t\t\tr.LastUpdate = time.Now()\n"},
			}},
			{Name: "domain entry refreshed in place, path updated but not the encoded path", ExpectRule: "C12.R5", ExpectKey: "(*routing.DomainTable).AddRoute", Edits: []Edit{
				{File: "internal/routing/domain.go", Old: "\t\t\t\tcloned := route.Clone()\n\t\t\t\tcloned.LastUpdate = time.Now()\n\t\t\t\ttargetMap[key][i] = cloned\n", New: "\t\t\t\t_ = i\n\t\t\t\tr.Metric, r.Sequence, r.Path, r.NextHop = route.Metric, route.Sequence, route.Path, route.NextHop\n\t\t\t\tr.LastUpdate = time.Now()\n"},
			}},
			{Name: "rewrite: hop limit after the mark but the mark is taken back", Edits: []Edit{
				{File: "internal/flood/flood.go", Old: "\tif f.cfg.MaxHops > 0 && hops > f.cfg.MaxHops {\n\t\treturn false\n\t}\n", New: "\ttooFar := f.cfg.MaxHops > 0 && hops > f.cfg.MaxHops\n"},
				{File: "internal/flood/flood.go", Old: "\t// Check if we're in the seen-by list (loop detection)\n\tif containsAgent(seenBy, f.localID) {\n\t\treturn false\n\t}\n\n\t// Convert protocol routes", New: "\t// Check if we're in the seen-by list (loop detection)\n\tif containsAgent(seenBy, f.localID) {\n\t\treturn false\n\t}\n\tif tooFar {\n\t\tf.mu.Lock()\n\t\tdelete(f.seenCache, key)\n\t\tf.mu.Unlock()\n\t\treturn false\n\t}\n\n\t// Convert protocol routes"},
			}},
			{Name: "rewrite: stored entry refreshed in place with every field of the advertisement", Edits: []Edit{
				{File: "internal/routing/forward.go", Old: "\t\t\t\tcloned := route.Clone()\n\t\t\t\tcloned.LastUpdate = time.Now()\n\t\t\t\tt.routes[key][i] = cloned\n", New: "\t\t\t\t_ = i\n\t\t\t\tfresh := route.Clone()\n\t\t\t\tr.Target, r.NextHop, r.Metric, r.Sequence = fresh.Target, fresh.NextHop, fresh.Metric, fresh.Sequence\n\t\t\t\tr.Path, r.EncPath = fresh.Path, fresh.EncPath\n\t\t\t\tr.LastUpdate = time.Now()\n"},
			}},
			{Name: "rewrite: path extension in a helper with early return, make(…,1,cap)+append", Edits: []Edit{
				{File: "internal/flood/flood.go", Old: "\tfwdEncPath := encPath\n\tif encPath != nil && !encPath.Encrypted {\n\t\t// Decode existing path, prepend our ID, re-encode\n\t\texistingPath, _ := protocol.DecodePath(encPath.Data)\n\t\tnewPath := make([]identity.AgentID, len(existingPath)+1)\n\t\tnewPath[0] = f.localID\n\t\tcopy(newPath[1:], existingPath)\n\t\tfwdEncPath = &protocol.EncryptedData{\n\t\t\tEncrypted: false,\n\t\t\tData:      protocol.EncodePath(newPath),\n\t\t}\n\t}\n", New: "\tfwdEncPath := f.extendForwardedPath(encPath)\n"},
				{File: "internal/flood/flood.go", Old: "// floodWithdrawal sends a route withdrawal to all peers except the source.", New: "func (f *Flooder) extendForwardedPath(encPath *protocol.EncryptedData) *protocol.EncryptedData {\n\tif encPath == nil || encPath.Encrypted {\n\t\treturn encPath\n\t}\n\tupstream, _ := protocol.DecodePath(encPath.Data)\n\tvia := make([]identity.AgentID, 1, 1+len(upstream))\n\tvia[0] = f.localID\n\tvia = append(via, upstream...)\n\treturn &protocol.EncryptedData{Encrypted: false, Data: protocol.EncodePath(via)}\n}\n\n// floodWithdrawal sends a route withdrawal to all peers except the source."},
			}},
			{Name: "path-extension helper also returns a present plaintext path unchanged", ExpectRule: "C12.R2", ExpectKey: "floodAdvertisementEncrypted", Edits: []Edit{
				{File: "internal/flood/flood.go", Old: "\tfwdEncPath := encPath\n\tif encPath != nil && !encPath.Encrypted {\n\t\t// Decode existing path, prepend our ID, re-encode\n\t\texistingPath, _ := protocol.DecodePath(encPath.Data)\n\t\tnewPath := make([]identity.AgentID, len(existingPath)+1)\n\t\tnewPath[0] = f.localID\n\t\tcopy(newPath[1:], existingPath)\n\t\tfwdEncPath = &protocol.EncryptedData{\n\t\t\tEncrypted: false,\n\t\t\tData:      protocol.EncodePath(newPath),\n\t\t}\n\t}\n", New: "\tfwdEncPath := f.extendForwardedPath(encPath, len(seenBy))\n"},
				{File: "internal/flood/flood.go", Old: "// floodWithdrawal sends a route withdrawal to all peers except the source.", New: "func (f *Flooder) extendForwardedPath(encPath *protocol.EncryptedData, hops int) *protocol.EncryptedData {\n\tif encPath == nil || encPath.Encrypted || hops > 64 {\n\t\treturn encPath\n\t}\n\tupstream, _ := protocol.DecodePath(encPath.Data)\n\tvia := append([]identity.AgentID{f.localID}, upstream...)\n\treturn &protocol.EncryptedData{Encrypted: false, Data: protocol.EncodePath(via)}\n}\n\n// floodWithdrawal sends a route withdrawal to all peers except the source."},
			}},
			{Name: "rewrite: received path decoded by a helper with early returns", Edits: []Edit{
				{File: "internal/flood/flood.go", Old: "\tvar path []identity.AgentID\n\tif encPath != nil {\n\t\tif encPath.Encrypted {\n\t\t\t// Legacy: try to decrypt if we have the private key\n\t\t\t// (for backwards compatibility with old encrypted paths)\n\t\t\tif f.sealedBox != nil && f.sealedBox.CanDecrypt() {\n\t\t\t\tdecrypted, err := f.sealedBox.Open(encPath.Data)\n\t\t\t\tif err == nil {\n\t\t\t\t\tpath, _ = protocol.DecodePath(decrypted)\n\t\t\t\t}\n\t\t\t}\n\t\t\t// If we can't decrypt, path remains nil (routing will fail)\n\t\t} else {\n\t\t\t// Plaintext - decode directly (normal case)\n\t\t\tpath, _ = protocol.DecodePath(encPath.Data)\n\t\t}\n\t}\n", New: "\tpath := f.decodeAdvertisedPath(encPath)\n"},
				{File: "internal/flood/flood.go", Old: "// floodWithdrawal sends a route withdrawal to all peers except the source.", New: "func (f *Flooder) decodeAdvertisedPath(encPath *protocol.EncryptedData) []identity.AgentID {\n\tif encPath == nil {\n\t\treturn nil\n\t}\n\tif !encPath.Encrypted {\n\t\tdecoded, _ := protocol.DecodePath(encPath.Data)\n\t\treturn decoded\n\t}\n\tif f.sealedBox == nil || !f.sealedBox.CanDecrypt() {\n\t\treturn nil\n\t}\n\tplain, err := f.sealedBox.Open(encPath.Data)\n\tif err != nil {\n\t\treturn nil\n\t}\n\tdecoded, _ := protocol.DecodePath(plain)\n\treturn decoded\n}\n\n// floodWithdrawal sends a route withdrawal to all peers except the source."},
			}},
			{Name: "rewrite: path after the next hop by slices.Index + slices.Clone in a helper", Edits: []Edit{
				{File: "internal/agent/icmp.go", Old: "\tvar remainingPath []identity.AgentID\n\trPath := route.Path\n\tfor i, id := range rPath {\n\t\tif id == nextHop && i+1 < len(rPath) {\n\t\t\tremainingPath = make([]identity.AgentID, len(rPath)-i-1)\n\t\t\tcopy(remainingPath, rPath[i+1:])\n\t\t\tbreak\n\t\t}\n\t}\n\n\tstreamID := conn.NextStreamID()\n\trequestID := generateICMPRequestID()\n\n\tephPriv, ephPub, err := crypto.GenerateEphemeralKeypair()\n\tif err != nil {\n\t\treturn 0, err\n\t}\n", New: "\trPath := route.Path\n\tremainingPath := pathBeyond(rPath, nextHop)\n\n\tstreamID := conn.NextStreamID()\n\trequestID := generateICMPRequestID()\n\n\tephPriv, ephPub, err := crypto.GenerateEphemeralKeypair()\n\tif err != nil {\n\t\treturn 0, err\n\t}\n"},
				{File: "internal/agent/icmp.go", Old: "\t\"net\"\n\t\"sync\"\n", New: "\t\"net\"\n\t\"slices\"\n\t\"sync\"\n"},
				{File: "internal/agent/icmp.go", Old: "// CreateICMPSession implements socks5.ICMPHandler.", New: "func pathBeyond(path []identity.AgentID, nextHop identity.AgentID) []identity.AgentID {\n\ti := slices.Index(path, nextHop)\n\tif i < 0 || i+1 >= len(path) {\n\t\treturn nil\n\t}\n\treturn slices.Clone(path[i+1:])\n}\n\n// CreateICMPSession implements socks5.ICMPHandler."},
			}},
			{Name: "path helper slices after a next hop that may not be in the path", ExpectRule: "C12.R3", ExpectKey: "CreateICMPSession", Edits: []Edit{
				{File: "internal/agent/icmp.go", Old: "\tvar remainingPath []identity.AgentID\n\trPath := route.Path\n\tfor i, id := range rPath {\n\t\tif id == nextHop && i+1 < len(rPath) {\n\t\t\tremainingPath = make([]identity.AgentID, len(rPath)-i-1)\n\t\t\tcopy(remainingPath, rPath[i+1:])\n\t\t\tbreak\n\t\t}\n\t}\n\n\tstreamID := conn.NextStreamID()\n\trequestID := generateICMPRequestID()\n\n\tephPriv, ephPub, err := crypto.GenerateEphemeralKeypair()\n\tif err != nil {\n\t\treturn 0, err\n\t}\n", New: "\trPath := route.Path\n\tremainingPath := pathBeyond(rPath, nextHop)\n\n\tstreamID := conn.NextStreamID()\n\trequestID := generateICMPRequestID()\n\n\tephPriv, ephPub, err := crypto.GenerateEphemeralKeypair()\n\tif err != nil {\n\t\treturn 0, err\n\t}\n"},
				{File: "internal/agent/icmp.go", Old: "\t\"net\"\n\t\"sync\"\n", New: "\t\"net\"\n\t\"slices\"\n\t\"sync\"\n"},
				{File: "internal/agent/icmp.go", Old: "// CreateICMPSession implements socks5.ICMPHandler.", New: "func pathBeyond(path []identity.AgentID, nextHop identity.AgentID) []identity.AgentID {\n\ti := slices.Index(path, nextHop)\n\tif i+1 >= len(path) {\n\t\treturn nil\n\t}\n\treturn slices.Clone(path[i+1:])\n}\n\n// CreateICMPSession implements socks5.ICMPHandler."},
			}},
			{Name: "first-seen advertisement dropped when older than the newest sequence remembered for its origin (seed C12-e)", ExpectRule: "C12.R6", ExpectKey: "HandleRouteAdvertise", Edits: []Edit{
				{File: "internal/flood/flood.go", Old: "\tseenCache map[AdvertisementKey]*SeenAdvertisement\n", New: "\tseenCache map[AdvertisementKey]*SeenAdvertisement\n\tnewestSeen map[identity.AgentID]uint64\n"},
				{File: "internal/flood/flood.go", Old: "\tcacheSize := len(f.seenCache)\n\tf.mu.Unlock()\n", New: "\tcacheSize := len(f.seenCache)\n\tif f.newestSeen == nil {\n\t\tf.newestSeen = map[identity.AgentID]uint64{}\n\t}\n\tstale := sequence < f.newestSeen[originAgent]\n\tif !stale {\n\t\tf.newestSeen[originAgent] = sequence\n\t}\n\tf.mu.Unlock()\n\tif stale {\n\t\treturn false\n\t}\n"},
			}},
			{Name: "rewrite: if-chain dispatch entry, swapped comparison", Edits: []Edit{
				{File: "internal/agent/agent.go", Old: "func (a *Agent) processFrame(peerID identity.AgentID, frame *protocol.Frame) {\n\tswitch frame.Type {\n\tcase protocol.FrameStreamOpen:\n\t\ta.handleStreamOpen(peerID, frame)\n", New: "func (a *Agent) processFrame(peerID identity.AgentID, frame *protocol.Frame) {\n\tif protocol.FrameStreamOpen == frame.Type {\n\t\ta.handleStreamOpen(peerID, frame)\n\t\treturn\n\t}\n\tswitch frame.Type {\n"},
			}},
			{Name: "rewrite: remaining path computed by a helper taking the route", Edits: []Edit{
				{File: "internal/agent/agent.go", Old: "\tvar remainingPath []identity.AgentID\n\tif len(route.Path) > 1 {\n\t\tremainingPath = make([]identity.AgentID, len(route.Path)-1)\n\t\tcopy(remainingPath, route.Path[1:])\n\t}\n\n\t// Generate stream ID\n\tstreamID := conn.NextStreamID()\n\n\t// Build forward address", New: "\tremainingPath := pathAfterNextHop(route.Path)\n\n\t// Generate stream ID\n\tstreamID := conn.NextStreamID()\n\n\t// Build forward address"},
				{File: "internal/agent/agent.go", Old: "// addressToString converts address bytes to a string representation.", New: "func pathAfterNextHop(stored []identity.AgentID) []identity.AgentID {\n\tif len(stored) <= 1 {\n\t\treturn nil\n\t}\n\treturn append([]identity.AgentID(nil), stored[1:]...)\n}\n\n// addressToString converts address bytes to a string representation."},
			}},
			{Name: "rewrite: forwarded path built with append, next hop in a local", Edits: []Edit{
				{File: "internal/flood/flood.go", Old: "\t\tnewPath := make([]identity.AgentID, len(existingPath)+1)\n\t\tnewPath[0] = f.localID\n\t\tcopy(newPath[1:], existingPath)", New: "\t\tnewPath := append([]identity.AgentID{f.localID}, existingPath...)"},
				{File: "internal/agent/agent.go", Old: "\t// Forward to next hop\n\tnextHop := open.RemainingPath[0]\n\n\t// Get connection to next hop\n\tconn := a.peerMgr.GetPeer(nextHop)\n\tif conn == nil {\n\t\t// No route to next hop, send error back\n\t\terrPayload := &protocol.StreamOpenErr{\n\t\t\tRequestID: open.RequestID,\n\t\t\tErrorCode: protocol.ErrHostUnreachable,\n\t\t\tMessage:   \"no route to next hop\",", New: "\t// Forward to next hop\n\trest := open.RemainingPath\n\tnextHop := rest[0]\n\n\t// Get connection to next hop\n\tconn := a.peerMgr.GetPeer(nextHop)\n\tif conn == nil {\n\t\t// No route to next hop, send error back\n\t\terrPayload := &protocol.StreamOpenErr{\n\t\t\tRequestID: open.RequestID,\n\t\t\tErrorCode: protocol.ErrHostUnreachable,\n\t\t\tMessage:   \"no route to next hop\","},
			}},
		},
	})
}

// ---------------------------------------------------------------- alternatives

// c12Alt is one possible value of an expression together with the branch conditions under which
// it is chosen (phi edges, returns of a helper) and the call chain to the function it lives in.
type c12Alt struct {
	v     ssa.Value
	conds []kit.Guard
	chain []ssa.CallInstruction
	site  *c12Site // where this alternative is chosen (innermost phi edge or helper return); nil = unconditional
}

// c12Site is a phi edge (from -> to) or a return of a helper.
type c12Site struct {
	fn       *ssa.Function
	from, to *ssa.BasicBlock
	ret      *ssa.Return
}

// c12SiteReachable: can the site be reached when every received *EncryptedData (a parameter of
// that type) is present (non-nil) and not encrypted? Conditions on anything else are left open.
func c12SiteReachable(cx *c11Flood, st *c12Site) bool {
	if st == nil {
		return true
	}
	fn := st.fn
	if len(fn.Blocks) == 0 {
		return true
	}
	seenB := map[*ssa.BasicBlock]bool{}
	edge := map[[2]*ssa.BasicBlock]bool{}
	work := []*ssa.BasicBlock{fn.Blocks[0]}
	for len(work) > 0 {
		b := work[len(work)-1]
		work = work[:len(work)-1]
		if seenB[b] {
			continue
		}
		seenB[b] = true
		follow := func(sc *ssa.BasicBlock) {
			edge[[2]*ssa.BasicBlock{b, sc}] = true
			work = append(work, sc)
		}
		if n := len(b.Instrs); n > 0 {
			if ifi, ok := b.Instrs[n-1].(*ssa.If); ok {
				c, pol := c11Norm(ifi.Cond, true)
				val, known := false, false
				if bo, ok := c.(*ssa.BinOp); ok && (bo.Op == token.EQL || bo.Op == token.NEQ) {
					if (kit.IsNilConst(bo.Y) && c12IsReceivedEnc(cx, bo.X)) || (kit.IsNilConst(bo.X) && c12IsReceivedEnc(cx, bo.Y)) {
						val, known = bo.Op == token.NEQ, true
					}
				}
				if f, base := kit.LoadedField(c); f != nil && f.Name() == "Encrypted" && c12IsReceivedEnc(cx, base) {
					val, known = false, true
				}
				if known {
					if val == pol {
						follow(b.Succs[0])
					} else {
						follow(b.Succs[1])
					}
					continue
				}
			}
		}
		for _, sc := range b.Succs {
			follow(sc)
		}
	}
	if st.ret != nil {
		return seenB[st.ret.Block()]
	}
	return edge[[2]*ssa.BasicBlock{st.from, st.to}]
}

// c12EdgeConds returns the normalised conditions that hold when control flows pred -> succ.
func c12EdgeConds(pred, succ *ssa.BasicBlock) []kit.Guard {
	var out []kit.Guard
	for _, g := range kit.Guards(pred) {
		c, pol := c11Norm(g.Cond, g.Polarity)
		out = append(out, kit.Guard{Cond: c, Polarity: pol, If: g.If})
	}
	if n := len(pred.Instrs); n > 0 {
		if ifi, ok := pred.Instrs[n-1].(*ssa.If); ok && pred.Succs[0] != pred.Succs[1] {
			c, pol := c11Norm(ifi.Cond, pred.Succs[0] == succ)
			out = append(out, kit.Guard{Cond: c, Polarity: pol, If: ifi})
		}
	}
	return out
}

// c12Alts expands v through phis and through calls to single-result repository helpers.
func c12Alts(v ssa.Value, chain []ssa.CallInstruction) []c12Alt {
	var out []c12Alt
	seen := map[ssa.Value]bool{}
	var rec func(v ssa.Value, conds []kit.Guard, chain []ssa.CallInstruction, depth int, site *c12Site)
	rec = func(v ssa.Value, conds []kit.Guard, chain []ssa.CallInstruction, depth int, site *c12Site) {
		if depth > 6 {
			return
		}
		switch x := v.(type) {
		case *ssa.ChangeType:
			rec(x.X, conds, chain, depth, site)
			return
		case *ssa.Phi:
			if seen[v] {
				return // loop-carried phi
			}
			seen[v] = true
			for i, e := range x.Edges {
				ec := append(append([]kit.Guard{}, conds...), c12EdgeConds(x.Block().Preds[i], x.Block())...)
				rec(e, ec, chain, depth+1, &c12Site{fn: x.Parent(), from: x.Block().Preds[i], to: x.Block()})
			}
			return
		case *ssa.Call:
			cal := kit.CalleeOf(x)
			if cal.Static != nil && c12IsPathHelper(cal.Static) {
				for _, ret := range kit.Returns(cal.Static) {
					if ret.Block() == cal.Static.Recover {
						continue
					}
					rc := append(append([]kit.Guard{}, conds...), c11Guards(ret)...)
					rec(kit.ReturnResult(ret, 0), rc, append(append([]ssa.CallInstruction{}, chain...), x), depth+1, &c12Site{fn: cal.Static, ret: ret})
				}
				return
			}
		}
		out = append(out, c12Alt{v, conds, chain, site})
	}
	rec(v, nil, chain, 0, nil)
	return out
}

// c12IsPathHelper: a repository function with one result of type *protocol.EncryptedData or
// []identity.AgentID and a body (a path-building helper a refactor may introduce).
func c12IsPathHelper(fn *ssa.Function) bool {
	if fn.Blocks == nil || !kit.IsRepoPkg(kit.FuncPkgPath(fn)) || kit.FuncPkgPath(fn) != kit.PkgPath(c11FloodPkg) {
		return false
	}
	rs := fn.Signature.Results()
	if rs.Len() != 1 {
		return false
	}
	if n := c11NamedOf(rs.At(0).Type()); n != nil && n.Obj().Name() == "EncryptedData" {
		return true
	}
	if s, ok := rs.At(0).Type().Underlying().(*types.Slice); ok {
		if n := c11NamedOf(s.Elem()); n != nil && n.Obj().Name() == "AgentID" {
			return true
		}
	}
	return false
}

// ---------------------------------------------------------------- prepend idioms

// c12OneLocal: v is a one-element agent-id slice holding the local id ([]AgentID{f.localID}).
func c12OneLocal(cx *c11Flood, v ssa.Value) bool {
	sl, ok := v.(*ssa.Slice)
	if !ok || sl.Low != nil || sl.High != nil {
		return false
	}
	a, ok := sl.X.(*ssa.Alloc)
	if !ok {
		return false
	}
	arr, ok := a.Type().(*types.Pointer).Elem().Underlying().(*types.Array)
	if !ok || arr.Len() != 1 {
		return false
	}
	n, good := 0, 0
	if a.Referrers() != nil {
		for _, ref := range *a.Referrers() {
			ia, ok := ref.(*ssa.IndexAddr)
			if !ok || ia.Referrers() == nil {
				continue
			}
			for _, r2 := range *ia.Referrers() {
				if st, ok := r2.(*ssa.Store); ok && st.Addr == ssa.Value(ia) {
					n++
					if c11LoadsField(st.Val, cx.localID) {
						good++
					}
				}
			}
		}
	}
	return n == 1 && good == 1
}

// c12OneLocalMake: v is make([]AgentID, 1, …) whose only element is set to the local id and which is
// used by nothing else than the given append (as its first argument) and len/cap.
func c12OneLocalMake(cx *c11Flood, v ssa.Value, user *ssa.Call) bool {
	m, ok := v.(*ssa.MakeSlice)
	if !ok || m.Referrers() == nil {
		return false
	}
	if k, isc := kit.ConstInt(m.Len); !isc || k != 1 {
		return false
	}
	head := 0
	for _, ref := range *m.Referrers() {
		switch y := ref.(type) {
		case *ssa.IndexAddr:
			idx, isc := kit.ConstInt(y.Index)
			if y.Referrers() == nil {
				continue
			}
			for _, r2 := range *y.Referrers() {
				if st, ok := r2.(*ssa.Store); ok && st.Addr == ssa.Value(y) {
					if isc && idx == 0 && c11LoadsField(st.Val, cx.localID) {
						head++
					} else {
						return false
					}
				}
			}
		case *ssa.Call:
			if y == user && y.Call.Args[0] == v {
				continue
			}
			if b := kit.CalleeOf(y).Built; b == "len" || b == "cap" {
				continue
			}
			return false
		default:
			return false
		}
	}
	return head == 1
}

// c12OneLocalAppend: v is append(<empty list>, local id) — an empty list being nil, a list
// literal without elements, or make([]AgentID, 0, …) that is written nowhere else.
func c12OneLocalAppend(cx *c11Flood, v ssa.Value) bool {
	c, ok := v.(*ssa.Call)
	if !ok || kit.CalleeOf(c).Built != "append" || len(c.Call.Args) != 2 || !c12OneLocal(cx, c.Call.Args[1]) {
		return false
	}
	switch e := c.Call.Args[0].(type) {
	case *ssa.Const:
		return e.Value == nil
	case *ssa.MakeSlice:
		if k, isc := kit.ConstInt(e.Len); !isc || k != 0 || e.Referrers() == nil {
			return false
		}
		for _, ref := range *e.Referrers() {
			switch y := ref.(type) {
			case *ssa.Call:
				if y == c {
					continue
				}
				if b := kit.CalleeOf(y).Built; b == "len" || b == "cap" {
					continue
				}
				return false
			case *ssa.DebugRef:
			default:
				return false
			}
		}
		return true
	case *ssa.Slice:
		// []AgentID{} literal: slice of a zero-length array
		if a, ok := e.X.(*ssa.Alloc); ok {
			if arr, ok := a.Type().(*types.Pointer).Elem().Underlying().(*types.Array); ok && arr.Len() == 0 {
				return true
			}
		}
	}
	return false
}

// c12Prepend recognises "local id followed by tail": append([]AgentID{local}, tail...), or
// make + p[0]=local + copy(p[1:], tail), or the bare []AgentID{local} (tail == nil, empty=true).
func c12Prepend(cx *c11Flood, v ssa.Value) (tail ssa.Value, empty bool, ok bool) {
	switch x := v.(type) {
	case *ssa.Call:
		if kit.CalleeOf(x).Built == "append" && len(x.Call.Args) == 2 && (c12OneLocal(cx, x.Call.Args[0]) || c12OneLocalMake(cx, x.Call.Args[0], x) || c12OneLocalAppend(cx, x.Call.Args[0])) {
			return x.Call.Args[1], false, true
		}
		if c12OneLocalAppend(cx, x) {
			return nil, true, true
		}
	case *ssa.Slice:
		if c12OneLocal(cx, x) {
			return nil, true, true
		}
	case *ssa.MakeSlice:
		if x.Referrers() == nil {
			return nil, false, false
		}
		head, copies, other := 0, 0, 0
		for _, ref := range *x.Referrers() {
			switch y := ref.(type) {
			case *ssa.IndexAddr:
				idx, isc := kit.ConstInt(y.Index)
				if y.Referrers() == nil {
					continue
				}
				for _, r2 := range *y.Referrers() {
					if st, ok := r2.(*ssa.Store); ok && st.Addr == ssa.Value(y) {
						if isc && idx == 0 && c11LoadsField(st.Val, cx.localID) {
							head++
						} else {
							other++
						}
					}
				}
			case *ssa.Slice:
				lo, isc := int64(0), true
				if y.Low != nil {
					lo, isc = kit.ConstInt(y.Low)
				}
				if y.Referrers() == nil {
					continue
				}
				for _, r2 := range *y.Referrers() {
					ci, ok := r2.(ssa.CallInstruction)
					if !ok {
						continue
					}
					if kit.CalleeOf(ci).Built == "copy" && ci.Common().Args[0] == ssa.Value(y) {
						if isc && lo == 1 && y.High == nil {
							copies++
							tail = ci.Common().Args[1]
						} else {
							other++
						}
					}
				}
			case ssa.CallInstruction:
				if kit.CalleeOf(y).Built == "copy" && y.Common().Args[0] == ssa.Value(x) {
					other++ // copy over the head
				}
			}
		}
		if head == 1 && copies == 1 && other == 0 {
			return tail, false, true
		}
	}
	return nil, false, false
}

// c12EncodedPath: v is &EncryptedData{Encrypted:false, Data: EncodePath(P)} (a fresh literal) — returns P.
func c12EncodedPath(v ssa.Value) (ssa.Value, bool) {
	a, ok := v.(*ssa.Alloc)
	if !ok {
		return nil, false
	}
	n := c11NamedOf(a.Type())
	if n == nil || n.Obj().Name() != "EncryptedData" {
		return nil, false
	}
	vals, _ := c11FieldStores(a)
	if enc, has := vals["Encrypted"]; has {
		if b, isc := kit.ConstBool(enc); !isc || b {
			return nil, false
		}
	}
	d, ok := vals["Data"].(*ssa.Call)
	if !ok || kit.CalleeOf(d).Name != "EncodePath" || len(d.Call.Args) != 1 {
		return nil, false
	}
	return d.Call.Args[0], true
}

// ---------------------------------------------------------------- R3 helpers

// c12Tail describes where a RemainingPath value comes from.
type c12Tail struct {
	empty  bool
	base   ssa.Value // the record whose Path / RemainingPath field is sliced
	field  string
	slice  *ssa.Slice // the slicing instruction (nil: the whole list)
	bad    string
	pathOf ssa.Value // the loaded list value that is sliced
	off    []string  // problems of the slice offset (Path tails), judged where the slice is made
}

// c12Tails walks a RemainingPath value back to the slices of stored paths it is copied from.
func c12Tails(v ssa.Value) []c12Tail {
	var out []c12Tail
	seen := map[ssa.Value]bool{}
	bind := map[*ssa.Parameter]ssa.Value{}
	var rec func(v ssa.Value, sl *ssa.Slice, depth int)
	rec = func(v ssa.Value, sl *ssa.Slice, depth int) {
		if depth > 8 {
			out = append(out, c12Tail{bad: "path expression too deep"})
			return
		}
		if d := c12Deref(v); d != v {
			v = d
		}
		if seen[v] && sl == nil {
			return
		}
		seen[v] = true
		switch x := v.(type) {
		case *ssa.Parameter:
			if b, ok := bind[x]; ok {
				rec(b, sl, depth+1)
				return
			}
		case *ssa.Const:
			if x.Value == nil {
				out = append(out, c12Tail{empty: true})
				return
			}
		case *ssa.Phi:
			for _, e := range x.Edges {
				rec(e, sl, depth+1)
			}
			return
		case *ssa.ChangeType:
			rec(x.X, sl, depth)
			return
		case *ssa.MakeSlice:
			n := 0
			if x.Referrers() != nil {
				for _, ref := range *x.Referrers() {
					switch y := ref.(type) {
					case ssa.CallInstruction:
						if kit.CalleeOf(y).Built == "copy" && y.Common().Args[0] == ssa.Value(x) {
							n++
							rec(y.Common().Args[1], nil, depth+1)
						}
					case *ssa.IndexAddr:
						out = append(out, c12Tail{bad: "remaining path is filled element by element"})
						n++
					case *ssa.Slice:
						if y.Referrers() != nil {
							for _, r2 := range *y.Referrers() {
								if ci, ok := r2.(ssa.CallInstruction); ok && kit.CalleeOf(ci).Built == "copy" && ci.Common().Args[0] == ssa.Value(y) {
									out = append(out, c12Tail{bad: "remaining path is filled through a sub-slice"})
									n++
								}
							}
						}
					}
				}
			}
			if n == 0 {
				out = append(out, c12Tail{bad: "remaining path is allocated but never filled from a stored path"})
			}
			return
		case *ssa.Slice:
			if sl != nil {
				out = append(out, c12Tail{bad: "remaining path is sliced twice"})
				return
			}
			rec(x.X, x, depth+1)
			return
		case *ssa.Call:
			cal := kit.CalleeOf(x)
			if cal.Pkg == "slices" && cal.Name == "Clone" && len(x.Call.Args) == 1 {
				rec(x.Call.Args[0], sl, depth+1) // a copy of its argument
				return
			}
			if cal.Built == "append" && len(x.Call.Args) == 2 {
				// append([]T(nil), tail...) style copy
				if c, ok := x.Call.Args[0].(*ssa.Const); ok && c.Value == nil {
					rec(x.Call.Args[1], sl, depth+1)
					return
				}
			}
			// a helper of the same package returning the remaining path of a route it is given
			if cal.Static != nil && cal.Static.Blocks != nil && sl == nil && kit.FuncPkgPath(cal.Static) == kit.FuncPkgPath(x.Parent()) &&
				cal.Static.Signature.Results().Len() == 1 {
				before := len(out)
				for i, prm := range cal.Static.Params {
					if i < len(x.Call.Args) {
						bind[prm] = x.Call.Args[i]
					}
				}
				for _, ret := range kit.Returns(cal.Static) {
					if ret.Block() != cal.Static.Recover {
						rec(kit.ReturnResult(ret, 0), nil, depth+1)
					}
				}
				for i := before; i < len(out); i++ {
					if prm, ok := out[i].base.(*ssa.Parameter); ok && prm.Parent() == cal.Static {
						if idx := c11ParamIndex(prm); idx < len(x.Call.Args) {
							out[i].base = x.Call.Args[idx]
						}
					}
				}
				return
			}
		case *ssa.UnOp:
			if x.Op == token.MUL {
				if fa, ok := x.X.(*ssa.FieldAddr); ok {
					if f := kit.FieldOfAddr(fa); f != nil && (f.Name() == "Path" || f.Name() == "RemainingPath") {
						t := c12Tail{base: fa.X, field: f.Name(), slice: sl, pathOf: x}
						if t.field == "Path" {
							t.off = c12OffsetAfterNextHop(t, func(v ssa.Value) ssa.Value {
								for i := 0; i < 4; i++ {
									prm, ok := v.(*ssa.Parameter)
									if !ok {
										break
									}
									b, ok := bind[prm]
									if !ok {
										break
									}
									v = b
								}
								return v
							})
						}
						out = append(out, t)
						return
					}
				}
			}
		}
		out = append(out, c12Tail{bad: fmt.Sprintf("remaining path comes from %s, not from a stored Path / received RemainingPath", c12Short(v))})
	}
	rec(v, nil, 0)
	return out
}

func c12Short(v ssa.Value) string {
	s := v.String()
	s = strings.ReplaceAll(s, kit.Module+"/internal/", "")
	if len(s) > 70 {
		s = s[:70] + "…"
	}
	return s
}

// c12Leaves expands a destination value through phis.
func c12Leaves(v ssa.Value) []ssa.Value {
	var out []ssa.Value
	for _, l := range kit.PhiLeaves(v) {
		if ct, ok := l.(*ssa.ChangeType); ok {
			l = ct.X
		}
		if d := c12Deref(l); d != l {
			out = append(out, c12Leaves(d)...)
			continue
		}
		out = append(out, l)
	}
	return out
}

// c12SameBase: two record values are the same SSA value (or loads of the same place).
func c12SameBase(a, b ssa.Value) bool { return a == b || c11SameLoad(a, b) }

// c12IsNextHopOf: v is a load of field NextHop of record base.
func c12IsNextHopOf(v ssa.Value, base ssa.Value) bool {
	f, b := kit.LoadedField(v)
	return f != nil && f.Name() == "NextHop" && c12SameBase(b, base)
}

// c12Deref looks through a local variable cell (captured by a closure, hence heap-allocated) that
// is assigned exactly once: *cell -> the stored value.
func c12Deref(v ssa.Value) ssa.Value {
	for i := 0; i < 4; i++ {
		u, ok := v.(*ssa.UnOp)
		if !ok || u.Op != token.MUL {
			return v
		}
		a, ok := u.X.(*ssa.Alloc)
		if !ok || a.Referrers() == nil {
			return v
		}
		var st *ssa.Store
		n := 0
		for _, ref := range *a.Referrers() {
			if s, ok := ref.(*ssa.Store); ok && s.Addr == ssa.Value(a) {
				st = s
				n++
			}
		}
		if n != 1 {
			return v
		}
		v = st.Val
	}
	return v
}

// c12CheckOpen verifies one (remaining path, destination) pair; returns problems.
func c12CheckOpen(p *kit.Program, V, D ssa.Value, depth int) []string {
	if depth > 4 {
		return []string{"path/destination pair too deep to follow"}
	}
	V, D = c12Deref(V), c12Deref(D)
	// both results of one helper call: pair them per return
	if ev, ok := V.(*ssa.Extract); ok {
		if ed, ok := D.(*ssa.Extract); ok && ev.Tuple == ed.Tuple {
			if c, ok := ev.Tuple.(*ssa.Call); ok {
				if cal := kit.CalleeOf(c); cal.Static != nil && cal.Static.Blocks != nil {
					var probs []string
					for _, ret := range kit.Returns(cal.Static) {
						if ret.Block() == cal.Static.Recover || len(ret.Results) <= ev.Index || len(ret.Results) <= ed.Index {
							continue
						}
						// error returns carry zero values; skip returns whose error result is non-nil
						if n := len(ret.Results); n > 0 && kit.IsErrorType(ret.Results[n-1].Type()) && !kit.IsNilConst(kit.ReturnResult(ret, n-1)) {
							continue
						}
						for _, pr := range c12CheckOpen(p, kit.ReturnResult(ret, ev.Index), kit.ReturnResult(ret, ed.Index), depth+1) {
							probs = append(probs, kit.FuncName(cal.Static)+": "+pr)
						}
					}
					return probs
				}
			}
		}
	}
	// both parameters of one function: pair them per call site
	if pv, ok := V.(*ssa.Parameter); ok {
		if pd, ok := D.(*ssa.Parameter); ok && pv.Parent() == pd.Parent() {
			sites := p.StaticCallers(pv.Parent())
			if len(sites) > 0 {
				var probs []string
				iv, id := c11ParamIndex(pv), c11ParamIndex(pd)
				for _, s := range sites {
					probs = append(probs, c12CheckOpen(p, s.Common().Args[iv], s.Common().Args[id], depth+1)...)
				}
				return probs
			}
		}
	}
	var probs []string
	tails := c12Tails(V)
	dl := c12Leaves(D)
	anyEmpty := false
	for _, t := range tails {
		switch {
		case t.bad != "":
			probs = append(probs, t.bad)
		case t.empty:
			anyEmpty = true
		case t.field == "Path":
			// destination must be this record's NextHop
			found := false
			for _, d := range dl {
				if c12IsNextHopOf(d, t.base) {
					found = true
				}
			}
			if !found {
				probs = append(probs, "the remaining path is taken from a route record whose NextHop is not the destination of the frame")
			}
			probs = append(probs, t.off...)
		case t.field == "RemainingPath":
			// relay: destination RemainingPath[0], forwarded RemainingPath[1:]
			found := false
			for _, d := range dl {
				if u, ok := d.(*ssa.UnOp); ok && u.Op == token.MUL {
					if ia, ok := u.X.(*ssa.IndexAddr); ok {
						if k, isc := kit.ConstInt(ia.Index); isc && k == 0 {
							if f, b := kit.LoadedField(ia.X); f != nil && f.Name() == "RemainingPath" && c12SameBase(b, t.base) {
								found = true
							}
						}
					}
				}
			}
			if !found {
				probs = append(probs, "the relayed open is not sent to RemainingPath[0] of the received open")
			}
			if t.slice == nil || t.slice.High != nil {
				probs = append(probs, "the relayed remaining path is not RemainingPath[1:]")
			} else if lo, isc := kit.ConstInt(t.slice.Low); t.slice.Low == nil || !isc || lo != 1 {
				probs = append(probs, "the relayed remaining path is not RemainingPath[1:] (the relay's own next hop must be removed, nothing else)")
			}
		}
	}
	// destinations
	for _, d := range dl {
		if f, _ := kit.LoadedField(d); f != nil {
			if f.Name() != "NextHop" {
				probs = append(probs, "the frame is sent to field "+f.Name()+" of the route, not to its NextHop")
			} else {
				ok := false
				_, b := kit.LoadedField(d)
				for _, t := range tails {
					if t.empty || (t.field == "Path" && c12SameBase(t.base, b)) {
						ok = true
					}
				}
				if !ok {
					probs = append(probs, "the frame is sent to the NextHop of a route whose Path is not the one used for the remaining path")
				}
			}
			continue
		}
		if u, ok := d.(*ssa.UnOp); ok && u.Op == token.MUL {
			if _, ok := u.X.(*ssa.IndexAddr); ok {
				continue // judged with the RemainingPath tail
			}
		}
		// direct peer (parameter / other id): only with an empty remaining path
		if !anyEmpty {
			probs = append(probs, "the frame is sent to "+c12Short(d)+" while the remaining path is taken from a route record")
		}
	}
	return probs
}

// c12OffsetAfterNextHop: the slice of the stored path starts right after the next hop:
// Path[1:] (the next hop is Path[0] by construction of stored paths), or Path[i+1:] under a guard
// Path[i] == NextHop of the same record.
func c12OffsetAfterNextHop(t c12Tail, res func(ssa.Value) ssa.Value) []string {
	if t.slice == nil {
		return []string{"the whole stored path is sent as remaining path (the next hop itself must be dropped): the next hop finds itself as the next relay and fails the open"}
	}
	if t.slice.High != nil {
		return []string{"the remaining path is cut at the end"}
	}
	if t.slice.Low == nil {
		return []string{"the stored path is sent from index 0 (the next hop itself must be dropped): the next hop finds itself as the next relay and fails the open"}
	}
	if k, isc := kit.ConstInt(t.slice.Low); isc {
		if k == 1 {
			return nil
		}
		return []string{fmt.Sprintf("the remaining path starts at index %d of the stored path instead of 1: a hop is kept twice or skipped", k)}
	}
	// i+1 under Path[i] == NextHop
	b, ok := t.slice.Low.(*ssa.BinOp)
	if !ok || b.Op != token.ADD {
		return []string{"the remaining path starts at a computed index that is not (index of the next hop)+1"}
	}
	var idx ssa.Value
	if k, isc := kit.ConstInt(b.Y); isc && k == 1 {
		idx = b.X
	} else if k, isc := kit.ConstInt(b.X); isc && k == 1 {
		idx = b.Y
	}
	if idx == nil {
		return []string{"the remaining path does not start right after the next hop (index+1 expected)"}
	}
	samePath := func(v ssa.Value) bool {
		v = res(v)
		return v == t.pathOf || c11SameLoad(v, t.pathOf)
	}
	// i = slices.Index(Path, NextHop) with i == -1 excluded
	if ic, ok := idx.(*ssa.Call); ok && len(ic.Call.Args) == 2 {
		if cal := kit.CalleeOf(ic); cal.Pkg == "slices" && cal.Name == "Index" {
			if !samePath(ic.Call.Args[0]) || !samePath(t.slice.X) {
				return []string{"the index of the next hop is searched in another list than the stored path that is sliced"}
			}
			if !c12IsNextHopOf(res(ic.Call.Args[1]), t.base) {
				return []string{"the stored path is cut after the position of a value that is not the NextHop of the same route"}
			}
			for _, g := range c11Guards(t.slice) {
				bo, ok := g.Cond.(*ssa.BinOp)
				if !ok {
					continue
				}
				var k int64
				var isc, idxLeft bool
				if bo.X == idx {
					k, isc = kit.ConstInt(bo.Y)
					idxLeft = true
				} else if bo.Y == idx {
					k, isc = kit.ConstInt(bo.X)
				}
				if !isc {
					continue
				}
				a, b := int64(-1), k
				if !idxLeft {
					a, b = k, int64(-1)
				}
				if c15Cmp(bo.Op, a, b) != g.Polarity {
					return nil // "not found" (-1) cannot reach the slice
				}
			}
			return []string{"the slice Path[i+1:] is reachable with i == -1 (next hop not found in the stored path): the whole path would be sent"}
		}
	}
	for _, g := range c11Guards(t.slice) {
		bo, ok := g.Cond.(*ssa.BinOp)
		if !ok || !((bo.Op == token.EQL && g.Polarity) || (bo.Op == token.NEQ && !g.Polarity)) {
			continue
		}
		for _, pair := range [][2]ssa.Value{{bo.X, bo.Y}, {bo.Y, bo.X}} {
			el, other := pair[0], pair[1]
			u, ok := el.(*ssa.UnOp)
			if !ok || u.Op != token.MUL {
				continue
			}
			ia, ok := u.X.(*ssa.IndexAddr)
			if !ok || ia.Index != idx || !samePath(ia.X) {
				continue
			}
			if c12IsNextHopOf(res(other), t.base) {
				return nil
			}
		}
	}
	return []string{"the slice Path[i+1:] is not guarded by Path[i] == NextHop of the same route"}
}

// ---------------------------------------------------------------- frame type constants

func c12FrameConsts(p *kit.Program) map[int64]string {
	out := map[int64]string{}
	pk := p.Package("internal/protocol")
	if pk == nil {
		return out
	}
	sc := pk.Types.Scope()
	for _, name := range sc.Names() {
		c, ok := sc.Lookup(name).(*types.Const)
		if !ok || !strings.HasPrefix(name, "Frame") || c.Val().Kind() != constant.Int {
			continue
		}
		if b, ok := c.Type().Underlying().(*types.Basic); !ok || b.Kind() != types.Uint8 {
			continue
		}
		if v, exact := constant.Int64Val(c.Val()); exact {
			out[v] = name
		}
	}
	return out
}

func runC12(p *kit.Program, r *kit.Report) {
	r.Rule("C12.R1", "the NextHop of every route record built from an announcement derives only from the peer-id parameter of the frame dispatcher (the peer the frame arrived from)")
	r.Rule("C12.R2", "announced paths: origin = [local id]; forwarded = local id prepended once to the received path (unchanged only when the path is absent or encrypted); replayed = local id prepended once to the stored path")
	r.Rule("C12.R3", "every open (stream, UDP, ICMP) is sent to the NextHop of the route whose stored Path, after that hop, is the RemainingPath; relays send to RemainingPath[0] and forward RemainingPath[1:]")
	r.Rule("C12.R5", "a stored route record is never refreshed in place with some fields of a newer advertisement while Path/EncPath (or Metric, Sequence, NextHop) keep the older advertisement's values")
	r.Rule("C12.R6", "after an announcement has been recorded in the seen cache, no branch that gives up storing/forwarding it may depend on data that differs between copies of the same announcement (received path, seen-by list, sending peer) — except the self-in-seen-by test, or unless the branch removes the seen-cache entry again")
	r.Rule("C12.R4", "every Frame* type constant stored into a protocol.Frame is compared against frame.Type in the frame dispatcher; types built only inside internal/peer (handshake, keepalive) may be compared in internal/peer instead")
	cx := newC11Flood(p, r)
	if cx == nil {
		return
	}
	frameT := p.NamedType("internal/protocol", "Frame")
	if !r.Require(frameT != nil, "anchor-unresolved: type internal/protocol.Frame") {
		return
	}
	typeFld := c11HasField(frameT, "Type")
	if !r.Require(typeFld != nil, "anchor-unresolved: field protocol.Frame.Type") {
		return
	}

	// ---------------- dispatcher (role: most distinct Frame* constants compared with a Frame.Type load)
	names := c12FrameConsts(p)
	handledBy := map[*ssa.Function]map[int64]bool{}
	for _, acc := range p.FieldAccessesOfKind(typeFld, kit.FieldLoad) {
		v, ok := acc.Instr.(ssa.Value)
		if !ok || v.Referrers() == nil {
			continue
		}
		for _, ref := range *v.Referrers() {
			b, ok := ref.(*ssa.BinOp)
			if !ok || (b.Op != token.EQL && b.Op != token.NEQ) {
				continue
			}
			var k int64
			var isc bool
			if b.X == v {
				k, isc = kit.ConstInt(b.Y)
			} else {
				k, isc = kit.ConstInt(b.X)
			}
			if !isc {
				continue
			}
			fn := kit.TopLevel(acc.Fn)
			if handledBy[fn] == nil {
				handledBy[fn] = map[int64]bool{}
			}
			handledBy[fn][k] = true
		}
	}
	var dispatch *ssa.Function
	for fn, set := range handledBy {
		if kit.FuncPkgPath(fn) != kit.PkgPath("internal/agent") {
			continue
		}
		if dispatch == nil || len(set) > len(handledBy[dispatch]) || (len(set) == len(handledBy[dispatch]) && kit.FuncName(fn) < kit.FuncName(dispatch)) {
			dispatch = fn
		}
	}
	if !r.Require(dispatch != nil && len(handledBy[dispatch]) >= 12, "anchor-unresolved: frame dispatcher (function of internal/agent comparing frame.Type with at least 12 Frame* constants)") {
		return
	}
	r.Count("dispatcher_cases", len(handledBy[dispatch]))

	// ---------------- R1
	nLearned := 0
	for _, l := range c13RouteLits(p) {
		nh := l.vals["NextHop"]
		if nh == nil {
			continue
		}
		if _, isParam := nh.(*ssa.Parameter); !isParam {
			if kit.FuncPkgPath(l.fn) == kit.PkgPath("internal/routing") && c12IsManagerMethod(l.fn) && !c12LocalOrCopy(nh) {
				r.Violation("C12.R1", l.key()+" NextHop", p.Pos(l.pos), "the route record's next hop is neither the sending peer nor the local id: streams opened along the route are handed to an agent that need not be a neighbour")
			}
			continue
		}
		nLearned++
		bad := ""
		nLeaves := 0
		for _, s := range kit.Slice(nh, kit.SliceOpts{Prog: p, FollowParams: true, ParamDepth: 6}) {
			nLeaves++
			if s.Kind == kit.SrcParam && s.Fn == dispatch && c11IsAgentID(cx, s.Value.Type()) {
				continue
			}
			if bad == "" {
				bad = s.String()
				if s.Value != nil {
					if in, ok := s.Value.(ssa.Instruction); ok && in.Parent() != nil {
						bad += " in " + kit.FuncName(in.Parent())
					}
				}
			}
		}
		r.Decide(bad == "" && nLeaves > 0, "C12.R1", l.key()+" NextHop", p.Pos(l.pos),
			"next hop is the peer id the dispatcher received the frame from",
			"the recorded next hop also derives from "+bad+", not only from the peer the frame arrived from: the route points at an agent that is not the neighbour which announced it, and opens along it are mis-delivered")
	}
	// R1 (path): the Path recorded with a learned route is the received path, unchanged
	for _, l := range c13RouteLits(p) {
		if _, isParam := l.vals["NextHop"].(*ssa.Parameter); !isParam {
			continue
		}
		pv := l.vals["Path"]
		if pv == nil {
			r.Violation("C12.R1", l.key()+" Path", p.Pos(l.pos), "the learned route is recorded without its path: opens along it carry no relay list and stop at the next hop")
			continue
		}
		var bad []string
		var leaves []ssa.Value
		for _, res := range c11Resolve(p, pv) {
			for _, a := range c12Alts(c12Deref(res), nil) { // phis and path-decoding helpers of package flood
				leaves = append(leaves, a.v)
			}
		}
		for _, alt := range leaves {
			alt = c12Deref(alt)
			if c, ok := alt.(*ssa.Const); ok && c.Value == nil {
				continue // path absent / undecryptable
			}
			if ex, ok := alt.(*ssa.Extract); ok && ex.Index == 0 {
				if c, ok := ex.Tuple.(*ssa.Call); ok && kit.CalleeOf(c).Name == "DecodePath" {
					continue
				}
			}
			bad = append(bad, c12Short(alt))
		}
		r.Decide(len(bad) == 0, "C12.R1", l.key()+" Path", p.Pos(l.pos),
			"the recorded path is the decoded received path",
			"the recorded path is "+strings.Join(c12Uniq(bad), " / ")+" rather than the received path as decoded: the stored chain of links is shifted or altered, so RemainingPath built from it names the wrong relays")
	}
	r.Count("learned_route_records", nLearned)
	r.Require(nLearned >= 4, "floor: %d learned route records, expected at least 4", nLearned)

	// ---------------- R2
	nPath := 0
	for _, l := range cx.lits {
		if l.typ.Obj().Name() != "RouteAdvertise" {
			continue
		}
		nPath++
		key := l.key() + " path"
		pos := p.Pos(l.alloc.Pos())
		oa := l.vals["OriginAgent"]
		isOrigin := oa != nil && c11LoadsField(oa, cx.localID)
		switch {
		case cx.reach[l.fn] || (!isOrigin && c12FromHandler(cx, l)):
			// forwarded
			probs := c12ForwardedPath(cx, l)
			r.Decide(len(probs) == 0, "C12.R2", key, pos, "the received path is forwarded with the local id prepended once (as-is only when absent or encrypted)",
				strings.Join(probs, "; ")+": downstream agents record a path that is not the chain of links the announcement travelled, so opens along it are relayed to the wrong agent or dropped")
		case isOrigin:
			probs := c12OriginPath(cx, l)
			r.Decide(len(probs) == 0, "C12.R2", key, pos, "the origin announces the path [local id]",
				strings.Join(probs, "; ")+": neighbours record a path that does not start at the origin, and every path derived from it is shifted")
		default:
			probs := c12ReplayPath(cx, l)
			r.Decide(len(probs) == 0, "C12.R2", key, pos, "the replay sends the stored path with the local id prepended once (own routes: [local id])",
				strings.Join(probs, "; ")+": the receiver of the replay records a path that lacks the replaying agent or is not the stored chain of links")
		}
	}
	r.Count("route_advertise_literals", nPath)
	r.Require(nPath >= 3, "floor: %d RouteAdvertise literals, expected at least 3 (origin, forward, replay)", nPath)

	// ---------------- R3
	nOpen := 0
	ords := map[string]int{}
	for _, fn := range p.FuncsInPkg("internal/agent") {
		kit.Instrs(fn, func(in ssa.Instruction) {
			a, ok := in.(*ssa.Alloc)
			if !ok {
				return
			}
			n := c11NamedIn(a.Type(), "internal/protocol")
			if n == nil || c11HasField(n, "RemainingPath") == nil {
				return
			}
			vals, _ := c11FieldStores(a)
			if len(vals) == 0 {
				return
			}
			k := kit.FuncName(fn) + "|" + n.Obj().Name()
			ords[k]++
			key := fmt.Sprintf("%s %s #%d follows path", kit.FuncName(fn), n.Obj().Name(), ords[k])
			pos := p.Pos(a.Pos())
			dests := c12SendDests(a)
			if len(dests) == 0 {
				r.Floor("floor: %s: cannot find the SendToPeer that sends this open", key)
				return
			}
			nOpen++
			V := vals["RemainingPath"]
			var probs []string
			if V == nil {
				V = ssa.NewConst(nil, types.NewSlice(cx.agentID))
			}
			for _, D := range dests {
				probs = append(probs, c12CheckOpen(p, V, D, 0)...)
			}
			probs = c12Uniq(probs)
			r.Decide(len(probs) == 0, "C12.R3", key, pos,
				"sent to the route's next hop with the stored path after that hop",
				strings.Join(probs, "; ")+": the open does not travel the recorded chain of links and does not reach the advertising agent")
		})
	}
	r.Count("open_literals", nOpen)
	r.Require(nOpen >= 5, "floor: %d open literals with a RemainingPath matched to their SendToPeer, expected at least 5", nOpen)

	// ---------------- R4
	sent := map[int64]string{}
	linkOnly := map[int64]bool{} // types built only inside internal/peer (handshake, keepalive)
	for _, acc := range p.FieldAccessesOfKind(typeFld, kit.FieldStore) {
		k, isc := kit.ConstInt(acc.Val)
		if !isc {
			continue
		}
		inPeer := kit.FuncPkgPath(acc.Fn) == kit.PkgPath("internal/peer")
		// a link-level type is one internal/peer itself builds (handshake, keepalive); other
		// packages (probe / load-test tools speaking the same handshake) may build it too
		if _, have := sent[k]; !have {
			sent[k] = p.Pos(acc.Instr.Pos())
		}
		if inPeer {
			linkOnly[k] = true
		}
	}
	peerHandled := map[int64]bool{}
	for fn, set := range handledBy {
		if kit.FuncPkgPath(fn) == kit.PkgPath("internal/peer") {
			for k := range set {
				peerHandled[k] = true
			}
		}
	}
	var ks []int64
	for k := range sent {
		ks = append(ks, k)
	}
	sort.Slice(ks, func(i, j int) bool { return ks[i] < ks[j] })
	for _, k := range ks {
		name := names[k]
		if name == "" {
			name = "unnamed"
		}
		ok := handledBy[dispatch][k] || (linkOnly[k] && peerHandled[k])
		r.Decide(ok, "C12.R4", fmt.Sprintf("frame type 0x%02x %s", k, name), sent[k],
			"dispatched", "frames of this type are built and sent but the receiving side never compares frame.Type with it where such frames arrive (dispatcher; internal/peer for link-level frames): they are silently dropped and the exchange they belong to never completes")
	}
	r.Count("frame_types_sent", len(sent))
	r.Require(len(sent) >= 12, "floor: %d distinct frame types sent, expected at least 12", len(sent))

	// ---------------- R5
	g4ReportInPlace(p, r, "C12.R5", "the entry keeps a path recorded from an earlier advertisement while staying fresh, so when the topology behind the next hop changes, opens along the recorded path are relayed to a link that no longer exists")

	// ---------------- R6
	nSkip := 0
	mutableFlds := g4MutableFlooderFields(cx)
	for _, h := range cx.handlers {
		d := c11FindDedup(cx, h)
		if d == nil {
			continue // C11.R1 reports the missing dedup
		}
		hn := kit.FuncName(h)
		for _, sk := range g4SkipBranches(cx, h, d, false) {
			nSkip++
			key := fmt.Sprintf("%s give-up branch #%d after the seen mark", hn, sk.ord)
			pos := g4SkipPos(p, sk)
			if g4IsSelfSeenTest(cx, h, sk.cond) {
				r.OK("C12.R6", key, pos, "the self-in-seen-by test (a copy that already passed through this agent)")
				continue
			}
			var deps []string
			for _, c := range g4SkipConds(cx, h, d, sk, false) {
				deps = append(deps, g4PerCopyDeps(cx, h, d, c.v)...)
			}
			// remembered state other than this handler's (origin, number) seen cache — e.g. a per-origin
			// high-water mark of sequences — is set by OTHER advertisements (replays are numbered from
			// foreign counters: C14.R1), so giving up on a first-seen advertisement because of it
			// starves late joiners
			for _, c := range g4SkipConds(cx, h, d, sk, false) {
				for _, m := range g4MutableStateDeps(cx, mutableFlds, c.v, d.field) {
					deps = append(deps, "remembered flooder state "+m)
				}
			}
			deps = c12Uniq(deps)
			ok := len(deps) == 0 || g4UndoesMark(cx, sk)
			r.Decide(ok, "C12.R6", key, pos,
				"does not depend on per-copy data or remembered state (or takes the seen mark back)",
				"an announcement already recorded as seen is dropped depending on "+strings.Join(deps, ", ")+": a copy that fails this test marks the (origin, sequence) as seen, and the copy that would pass it arrives later and is discarded as a duplicate — the route is never learned although a valid path exists")
		}
	}
	r.Count("give_up_branches_after_seen_mark", nSkip)
}

func c12Uniq(in []string) []string {
	seen := map[string]bool{}
	var out []string
	for _, s := range in {
		if !seen[s] {
			seen[s] = true
			out = append(out, s)
		}
	}
	sort.Strings(out)
	return out
}

func c12IsManagerMethod(fn *ssa.Function) bool {
	return fn.Signature.Recv() != nil && c11NamedOf(fn.Signature.Recv().Type()) != nil && c11NamedOf(fn.Signature.Recv().Type()).Obj().Name() == "Manager"
}

// c12LocalOrCopy: a NextHop value that is the table owner's own id or copied from another record.
func c12LocalOrCopy(v ssa.Value) bool {
	f, _ := kit.LoadedField(v)
	return f != nil && (f.Name() == "localID" || f.Name() == "NextHop")
}

// c12FromHandler: literal l lives in a helper called on the forwarding chain of a handler.
func c12FromHandler(cx *c11Flood, l *c11Lit) bool {
	for _, h := range cx.handlers {
		for _, la := range c11ForwardedLits(cx, h) {
			if la.lit == l {
				return true
			}
		}
	}
	return false
}

// c12SendDests finds the destinations of the SendToPeer calls that send the frame whose payload
// is open.Encode().
func c12SendDests(open *ssa.Alloc) []ssa.Value {
	var out []ssa.Value
	if open.Referrers() == nil {
		return nil
	}
	for _, ref := range *open.Referrers() {
		c, ok := ref.(*ssa.Call)
		if !ok || kit.CalleeOf(c).Name != "Encode" || c.Referrers() == nil {
			continue
		}
		for _, r2 := range *c.Referrers() {
			st, ok := r2.(*ssa.Store)
			if !ok || st.Val != ssa.Value(c) {
				continue
			}
			fa, ok := st.Addr.(*ssa.FieldAddr)
			if !ok {
				continue
			}
			frame, ok := fa.X.(*ssa.Alloc)
			if !ok || frame.Referrers() == nil {
				continue
			}
			for _, r3 := range *frame.Referrers() {
				if ci, ok := r3.(ssa.CallInstruction); ok && c11IsSend(ci) && kit.Arg(ci, 1) == ssa.Value(frame) {
					out = append(out, kit.Arg(ci, 0))
				}
			}
		}
	}
	return out
}

// c12PathValue returns the alternatives of the path a RouteAdvertise literal announces: through
// EncPath (a fresh EncryptedData literal wrapping EncodePath(P) yields P) or, when EncPath is not
// set, the Path field.
func c12OriginPath(cx *c11Flood, l *c11Lit) []string {
	var probs []string
	n := 0
	check := func(pv ssa.Value) {
		for _, a := range c12Alts(pv, nil) {
			n++
			_, empty, ok := c12Prepend(cx, a.v)
			if !ok || !empty {
				probs = append(probs, "the announced path is not exactly [local id]")
			}
		}
	}
	if ep := l.vals["EncPath"]; ep != nil {
		for _, a := range c12Alts(ep, nil) {
			pv, ok := c12EncodedPath(a.v)
			if !ok {
				probs = append(probs, "EncPath is not a plaintext encoding of a path built here")
				continue
			}
			check(pv)
		}
	}
	if pv := l.vals["Path"]; pv != nil {
		check(pv)
	}
	if n == 0 && len(probs) == 0 {
		probs = append(probs, "the origin announcement carries no path")
	}
	return c12Uniq(probs)
}

func c12ReplayPath(cx *c11Flood, l *c11Lit) []string {
	var probs []string
	n := 0
	check := func(pv ssa.Value) {
		for _, a := range c12Alts(pv, nil) {
			n++
			tail, empty, ok := c12Prepend(cx, a.v)
			switch {
			case !ok:
				probs = append(probs, "a replayed path is not the local id prepended to a stored path ("+c12Short(a.v)+")")
			case empty:
			default:
				// the tail may be chosen among several stored routes (switch / if-chain): every
				// choice must be the Path of a stored route, or nothing
				for _, leaf := range kit.PhiLeaves(tail) {
					leaf = c12Deref(leaf)
					if c, isC := leaf.(*ssa.Const); isC && c.Value == nil {
						continue
					}
					if f, _ := kit.LoadedField(leaf); f == nil || f.Name() != "Path" {
						probs = append(probs, "the tail of a replayed path is not the Path field of a stored route")
					}
				}
			}
		}
	}
	if ep := l.vals["EncPath"]; ep != nil {
		for _, a := range c12Alts(ep, nil) {
			pv, ok := c12EncodedPath(a.v)
			if !ok {
				probs = append(probs, "EncPath is not a plaintext encoding of a path built here")
				continue
			}
			check(pv)
		}
	}
	if pv := l.vals["Path"]; pv != nil {
		check(pv)
	}
	if n == 0 && len(probs) == 0 {
		probs = append(probs, "the replayed advertisement carries no path")
	}
	return c12Uniq(probs)
}

// c12ForwardedPath checks the EncPath of a forwarded RouteAdvertise literal.
func c12ForwardedPath(cx *c11Flood, l *c11Lit) []string {
	var probs []string
	ep := l.vals["EncPath"]
	if ep == nil {
		// Path field form
		pv := l.vals["Path"]
		if pv == nil {
			return []string{"the forwarded advertisement carries no path"}
		}
		for _, a := range c12Alts(pv, nil) {
			tail, empty, ok := c12Prepend(cx, a.v)
			if !ok || empty || !c12IsReceivedPath(cx, tail) {
				probs = append(probs, "the forwarded path is not the local id prepended to the received path")
			}
		}
		return c12Uniq(probs)
	}
	for _, a := range c12Alts(ep, nil) {
		// the received *EncryptedData itself, unchanged
		if c12IsReceivedEnc(cx, a.v) || kit.IsNilConst(a.v) { // nil: "no path", same as handing the absent path on
			// unchanged forwarding is right only where the path is absent or encrypted: the place where
			// this alternative is chosen must be unreachable for a present plaintext path
			okRaw := !c12SiteReachable(cx, a.site)
			if !okRaw {
				probs = append(probs, "the received path is forwarded unchanged (local id not prepended) on a branch where it is present and not encrypted")
			}
			continue
		}
		pv, ok := c12EncodedPath(a.v)
		if !ok {
			probs = append(probs, "the forwarded EncPath is neither the received one nor a fresh plaintext encoding ("+c12Short(a.v)+")")
			continue
		}
		for _, pa := range c12Alts(pv, a.chain) {
			tail, empty, ok := c12Prepend(cx, pa.v)
			switch {
			case !ok:
				probs = append(probs, "the forwarded path is not the local id prepended to the received path ("+c12Short(pa.v)+")")
			case empty:
				probs = append(probs, "the forwarded path is [local id] only: the received path is dropped")
			case !c12IsReceivedPath(cx, tail):
				probs = append(probs, "the tail of the forwarded path is not the decoded received path ("+c12Short(tail)+")")
			}
		}
	}
	return c12Uniq(probs)
}

// c12IsReceivedEnc: v is the *EncryptedData received by a handler (a parameter of that type,
// followed one or two calls up into the entry point).
func c12IsReceivedEnc(cx *c11Flood, v ssa.Value) bool {
	prm, ok := v.(*ssa.Parameter)
	if !ok {
		return false
	}
	n := c11NamedOf(prm.Type())
	return n != nil && n.Obj().Name() == "EncryptedData"
}

// c12IsReceivedPath: v is the decoded received path: DecodePath(enc.Data)#0 with enc received, or
// a []AgentID parameter (already decoded by the caller).
func c12IsReceivedPath(cx *c11Flood, v ssa.Value) bool {
	switch x := v.(type) {
	case *ssa.Extract:
		c, ok := x.Tuple.(*ssa.Call)
		if !ok || x.Index != 0 || kit.CalleeOf(c).Name != "DecodePath" || len(c.Call.Args) != 1 {
			return false
		}
		f, base := kit.LoadedField(c.Call.Args[0])
		return f != nil && f.Name() == "Data" && c12IsReceivedEnc(cx, base)
	case *ssa.Parameter:
		return c11IsAgentList(cx, x.Type())
	}
	return false
}
