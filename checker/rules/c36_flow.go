package rules

// Flow engine of C36: where the raw 64-bit footer length travels (values, struct fields,
// parameters and results of package functions) and which range facts hold about it at a use,
// including facts established by predicate helpers (l.fits()) and by the callers of a helper
// that receives the length or the struct holding it.

import (
	"fmt"
	"go/token"
	"go/types"
	"sort"

	"golang.org/x/tools/go/ssa"

	"mmverify/kit"
)

type c36Class struct {
	key     string
	fn      *ssa.Function
	members map[ssa.Value]bool
	// how the class got its value
	param  *ssa.Parameter // the length arrives as a parameter
	obj    ssa.Value      // the length is field `field` of this object (Alloc / Parameter / value)
	field  *types.Var
	result *ssa.Call // the length is result #resIdx of this package call
	resIdx int
}

type c36Cx struct {
	p          *kit.Program
	fns        []*ssa.Function
	inPkg      map[*ssa.Function]bool
	valClass   map[ssa.Value]*c36Class
	classes    map[string]*c36Class
	fieldTaint map[*types.Var]bool
	sizeFieldM map[*types.Var]int
	symVal     map[string]ssa.Value
}

func newC36Cx(p *kit.Program, fns []*ssa.Function) *c36Cx {
	cx := &c36Cx{p: p, fns: fns, inPkg: map[*ssa.Function]bool{}, valClass: map[ssa.Value]*c36Class{}, classes: map[string]*c36Class{},
		fieldTaint: map[*types.Var]bool{}, sizeFieldM: map[*types.Var]int{}, symVal: map[string]ssa.Value{}}
	for _, f := range fns {
		cx.inPkg[f] = true
	}
	return cx
}

func (cx *c36Cx) tainted(v ssa.Value) bool { return cx.valClass[v] != nil }

// canonObj resolves the object a field is selected from: an Alloc that merely spills a
// parameter stands for that parameter.
func c36CanonObj(v ssa.Value) ssa.Value {
	for i := 0; i < 8; i++ {
		switch x := v.(type) {
		case *ssa.UnOp:
			if x.Op == token.MUL {
				v = x.X
				continue
			}
		case *ssa.FieldAddr:
			v = x.X
			continue
		case *ssa.Alloc:
			var spill ssa.Value
			n := 0
			if refs := x.Referrers(); refs != nil {
				for _, r := range *refs {
					if st, ok := r.(*ssa.Store); ok && st.Addr == ssa.Value(x) {
						n++
						if prm, isP := st.Val.(*ssa.Parameter); isP {
							spill = prm
						}
					}
				}
			}
			if spill != nil && n == 1 {
				return spill
			}
			return x
		}
		break
	}
	return v
}

// fieldLoad: v reads struct field f of some object.
func c36FieldLoad(v ssa.Value) (*types.Var, ssa.Value) {
	switch x := v.(type) {
	case *ssa.UnOp:
		if x.Op == token.MUL {
			if fa, ok := x.X.(*ssa.FieldAddr); ok {
				return kit.FieldOfAddr(fa), c36CanonObj(fa.X)
			}
		}
	case *ssa.Field:
		return kit.FieldOfAddr(x), c36CanonObj(x.X)
	}
	return nil, nil
}

func (cx *c36Cx) class(key string, fn *ssa.Function) *c36Class {
	c := cx.classes[key]
	if c == nil {
		c = &c36Class{key: key, fn: fn, members: map[ssa.Value]bool{}}
		cx.classes[key] = c
	}
	return c
}

// add puts v (and its integer conversions) into class c; reports whether anything was new.
func (cx *c36Cx) add(c *c36Class, v ssa.Value) bool {
	if cx.valClass[v] != nil {
		return false
	}
	cx.valClass[v] = c
	c.members[v] = true
	if refs := v.Referrers(); refs != nil {
		for _, r := range *refs {
			switch x := r.(type) {
			case *ssa.Convert:
				cx.add(c, x)
			case *ssa.ChangeType:
				cx.add(c, x)
			}
		}
	}
	return true
}

// propagate computes the taint: from the decode calls through conversions, struct fields,
// parameters and results of package functions, to a fixpoint.
func (cx *c36Cx) propagate(decodes []*ssa.Call) {
	for _, d := range decodes {
		cx.add(cx.class(fmt.Sprintf("decode:%p", d), d.Parent()), d)
	}
	for round := 0; round < 8; round++ {
		changed := false
		for _, fn := range cx.fns {
			kit.Instrs(fn, func(in ssa.Instruction) {
				switch x := in.(type) {
				case *ssa.Store:
					if cx.tainted(x.Val) {
						if fa, ok := x.Addr.(*ssa.FieldAddr); ok {
							if f := kit.FieldOfAddr(fa); f != nil && !cx.fieldTaint[f] {
								cx.fieldTaint[f] = true
								changed = true
							}
						}
					}
				case *ssa.Return:
					for i := range x.Results {
						v := kit.ReturnResult(x, i)
						if !cx.tainted(v) && !cx.tainted(x.Results[i]) {
							continue
						}
						for _, site := range cx.p.StaticCallers(fn) {
							call, ok := site.(*ssa.Call)
							if !ok || !cx.inPkg[site.Parent()] {
								continue
							}
							var root ssa.Value = call
							if fn.Signature.Results().Len() > 1 {
								root = kit.ExtractOf(call, i)
							}
							if root == nil {
								continue
							}
							c := cx.class(fmt.Sprintf("result:%p/%d", call, i), site.Parent())
							c.result, c.resIdx = call, i
							if cx.add(c, root) {
								changed = true
							}
						}
					}
				case ssa.CallInstruction:
					cal := kit.CalleeOf(x)
					if cal.Static == nil || !cx.inPkg[cal.Static] {
						return
					}
					for i, a := range x.Common().Args {
						if cx.tainted(a) && i < len(cal.Static.Params) {
							prm := cal.Static.Params[i]
							c := cx.class(fmt.Sprintf("param:%p", prm), cal.Static)
							c.param = prm
							if cx.add(c, prm) {
								changed = true
							}
						}
					}
				}
				// loads of tainted fields
				if v, ok := in.(ssa.Value); ok {
					if f, obj := c36FieldLoad(v); f != nil && cx.fieldTaint[f] {
						c := cx.class(fmt.Sprintf("field:%p/%p/%s", fn, obj, f.Name()), fn)
						c.obj, c.field = obj, f
						if cx.add(c, v) {
							changed = true
						}
					}
				}
			})
		}
		if !changed {
			break
		}
	}
}

// ---------- canonical linear forms

type c36Canon struct {
	terms map[string]int64
	konst int64
}

func (a c36Canon) sameTerms(b c36Canon) bool {
	if len(a.terms) != len(b.terms) {
		return false
	}
	for k, v := range a.terms {
		if b.terms[k] != v {
			return false
		}
	}
	return true
}

// canon normalises an integer expression to c0 + sum(ci*key): the raw length is "L", a file
// size is "size()", a struct field is "field:<name>", results of small package helpers are
// replaced by the expression they return.
func (cx *c36Cx) canon(v ssa.Value) c36Canon { return cx.canonD(v, 0) }

func (cx *c36Cx) canonD(v ssa.Value, depth int) c36Canon {
	out := c36Canon{terms: map[string]int64{}}
	l := kit.LinearOf(v)
	out.konst = l.Const
	for s, k := range l.Terms {
		if cx.tainted(s) {
			out.terms["L"] += k
			continue
		}
		if call, idx, ok := kit.ResultOf(s); ok && depth < 3 {
			cal := kit.CalleeOf(call)
			if f := cal.Static; f != nil && cx.inPkg[f] && f.Blocks != nil {
				var rets []*ssa.Return
				for _, ret := range kit.Returns(f) {
					if ret.Block() != f.Recover && idx < len(ret.Results) {
						rets = append(rets, ret)
					}
				}
				if len(rets) == 1 && c36IntLike(rets[0].Results[idx].Type()) {
					sub := cx.canonD(kit.ReturnResult(rets[0], idx), depth+1)
					for kk, vv := range sub.terms {
						out.terms[kk] += k * vv
					}
					out.konst += k * sub.konst
					continue
				}
			}
		}
		key := ""
		if f, _ := c36FieldLoad(s); f != nil {
			key = "field:" + f.Name() + "@" + cx.p.Pos(f.Pos())
			cx.symVal[key] = s
			out.terms[key] += k
			continue
		}
		if c, ok := s.(*ssa.Call); ok {
			cal := kit.CalleeOf(c)
			switch {
			case cal.Built == "len":
				key = fmt.Sprintf("len:%p", c.Call.Args[0])
			case cal.Name == "Size" && len(c.Call.Args) <= 1 && (cal.Iface || cal.Pkg == "os" || cal.Pkg == "io/fs"):
				key = "size()"
			}
		}
		if key == "" {
			key = fmt.Sprintf("v:%p", s)
		}
		cx.symVal[key] = s
		out.terms[key] += k
	}
	for k, v := range out.terms {
		if v == 0 {
			delete(out.terms, k)
		}
	}
	return out
}

// sizeField: every store to the field in the package is a file size / len (or zero).
func (cx *c36Cx) sizeField(f *types.Var) bool {
	if m := cx.sizeFieldM[f]; m != 0 {
		return m == 1
	}
	cx.sizeFieldM[f] = 2
	n := 0
	for _, acc := range cx.p.FieldAccessesOfKind(f, kit.FieldStore, kit.FieldAddrUse) {
		if acc.Kind == kit.FieldAddrUse {
			return false
		}
		c := cx.canon(acc.Val)
		if len(c.terms) == 0 && c.konst == 0 {
			continue
		}
		if len(c.terms) != 1 || c.konst != 0 {
			return false
		}
		for k, coef := range c.terms {
			if coef != 1 || !cx.sizeKey(k) {
				return false
			}
		}
		n++
	}
	if n > 0 {
		cx.sizeFieldM[f] = 1
	}
	return n > 0
}

func (cx *c36Cx) sizeKey(key string) bool {
	switch {
	case key == "size()":
		return true
	case len(key) > 4 && key[:4] == "len:":
		return true
	case len(key) > 6 && key[:6] == "field:":
		if f, _ := c36FieldLoad(cx.symVal[key]); f != nil {
			return cx.sizeField(f)
		}
	default:
		if v := cx.symVal[key]; v != nil {
			return c36SizeSource(cx.p, v)
		}
	}
	return false
}

// boundCanon: the canonical form of a bound.
func (cx *c36Cx) boundCanon(b c36Bound) c36Canon {
	if b.cn != nil {
		return *b.cn
	}
	return cx.canon(b.x)
}

// goodBound: a small constant, or (file size | len) minus a non-negative constant.
func (cx *c36Cx) goodBound(b c36Bound) bool {
	c := cx.boundCanon(b)
	if len(c.terms) == 0 {
		return c.konst >= 0 && c.konst <= 1<<40
	}
	if len(c.terms) != 1 || c.konst > 0 {
		return false
	}
	for k, coef := range c.terms {
		if coef != 1 || !cx.sizeKey(k) {
			return false
		}
	}
	return true
}

// ---------- facts

// c36FactSets: one fact set per calling context; a property must hold in all of them.
type c36FactSets []c36Facts

func (cx *c36Cx) soundOne(f c36Facts) (bool, string) {
	why := "no dominating comparison bounds the footer length"
	for _, b := range f.upper {
		if !cx.goodBound(b) {
			why = "the bound at " + b.at + " is not derived from the file size (or a small constant)"
			continue
		}
		if b.unsigned {
			return true, "unsigned comparison at " + b.at
		}
		if f.nonNeg {
			return true, "signed comparison at " + b.at + " together with a non-negativity test"
		}
		why = "the comparison at " + b.at + " is made on the signed conversion of the length without a non-negativity test: lengths >= 2^63 are negative and pass"
	}
	return false, why
}

func (cx *c36Cx) sound(sets c36FactSets) (bool, string) {
	why := "no dominating comparison bounds the footer length"
	for _, f := range sets {
		ok, w := cx.soundOne(f)
		if !ok {
			return false, w
		}
		why = w
	}
	return len(sets) > 0, why
}

func (cx *c36Cx) tight(sets c36FactSets, rest c36Canon) bool {
	for _, f := range sets {
		ok := false
		for _, b := range f.upper {
			if !cx.goodBound(b) || (!b.unsigned && !f.nonNeg) {
				continue
			}
			x := cx.boundCanon(b)
			slack := int64(0)
			if b.strict {
				slack = 1
			}
			if x.sameTerms(rest) && x.konst-rest.konst <= slack {
				ok = true
			}
		}
		if !ok {
			return false
		}
	}
	return len(sets) > 0
}

func c36Merge(a, b c36Facts) c36Facts {
	return c36Facts{p: a.p, upper: append(append([]c36Bound{}, a.upper...), b.upper...), nonNeg: a.nonNeg || b.nonNeg}
}

// localFacts: what the guards at in establish about class c: direct comparisons and calls of
// predicate helpers on the length or on the object that holds it.
func (cx *c36Cx) localFacts(c *c36Class, gs []kit.Guard) c36Facts {
	f := c36FactsAt(cx.p, gs, c.members)
	for _, g := range gs {
		cond, pol := g.Cond, g.Polarity
		for {
			u, ok := cond.(*ssa.UnOp)
			if !ok || u.Op != token.NOT {
				break
			}
			cond, pol = u.X, !pol
		}
		call, ok := cond.(*ssa.Call)
		if !ok {
			continue
		}
		pf, ok := cx.predicate(call, c, pol, 0)
		if ok {
			f = c36Merge(f, pf)
		}
	}
	return f
}

// calleeClass: the class inside callee that corresponds to class c of the caller at call.
func (cx *c36Cx) calleeClass(call ssa.CallInstruction, c *c36Class) *c36Class {
	cal := kit.CalleeOf(call)
	f := cal.Static
	if f == nil || !cx.inPkg[f] {
		return nil
	}
	for i, a := range call.Common().Args {
		if i >= len(f.Params) {
			break
		}
		if c.members[a] {
			if k := cx.classes[fmt.Sprintf("param:%p", f.Params[i])]; k != nil {
				return k
			}
		}
		if c.obj != nil && c36CanonObj(a) == c.obj {
			key := fmt.Sprintf("field:%p/%p/%s", f, ssa.Value(f.Params[i]), c.field.Name())
			if k := cx.classes[key]; k != nil {
				return k
			}
		}
	}
	return nil
}

// predicate: the facts about class c that hold when call (a bool helper of the package)
// returned val.
func (cx *c36Cx) predicate(call *ssa.Call, c *c36Class, val bool, depth int) (c36Facts, bool) {
	cal := kit.CalleeOf(call)
	f := cal.Static
	if f == nil || !cx.inPkg[f] || f.Blocks == nil || depth > 2 {
		return c36Facts{}, false
	}
	res := f.Signature.Results()
	if res.Len() != 1 {
		return c36Facts{}, false
	}
	if b, ok := res.At(0).Type().Underlying().(*types.Basic); !ok || b.Kind() != types.Bool {
		return c36Facts{}, false
	}
	cc := cx.calleeClass(call, c)
	if cc == nil {
		return c36Facts{}, false
	}
	var out c36Facts
	n := 0
	for _, ret := range kit.Returns(f) {
		if ret.Block() == f.Recover {
			continue
		}
		for _, l := range kit.GuardedLeaves(kit.ReturnResult(ret, 0), ret) {
			if k, isConst := kit.ConstBool(l.V); isConst {
				if k != val {
					continue // this return cannot produce val
				}
				n++
				out = cx.localFacts(cc, l.Guards)
				continue
			}
			n++
			gs := append(append([]kit.Guard{}, l.Guards...), kit.Guard{Cond: l.V, Polarity: val})
			out = cx.localFacts(cc, gs)
		}
	}
	if n != 1 {
		return c36Facts{}, false
	}
	// express the bounds in the caller's terms: the helper's parameters become the arguments
	for i := range out.upper {
		cn := cx.boundCanon(out.upper[i])
		tr := c36Canon{terms: map[string]int64{}, konst: cn.konst}
		for key, coef := range cn.terms {
			replaced := false
			for j, prm := range f.Params {
				if key == fmt.Sprintf("v:%p", ssa.Value(prm)) && j < len(call.Call.Args) {
					sub := cx.canon(call.Call.Args[j])
					for k2, v2 := range sub.terms {
						tr.terms[k2] += coef * v2
					}
					tr.konst += coef * sub.konst
					replaced = true
				}
			}
			if !replaced {
				tr.terms[key] += coef
			}
		}
		out.upper[i].cn = &tr
	}
	return out, true
}

// factsAt: the fact sets that hold about class c when instruction in executes. If the local
// guards do not bound the length and it arrived from outside (parameter, field of a parameter
// object, result of a package helper), the facts of every caller / of the helper's returns
// are added.
func (cx *c36Cx) factsAt(c *c36Class, in ssa.Instruction, depth int) c36FactSets {
	local := cx.localFacts(c, kit.GuardsOf(in))
	if ok, _ := cx.soundOne(local); ok || depth > 3 {
		return c36FactSets{local}
	}
	var sets c36FactSets
	switch {
	case c.result != nil:
		callee := kit.CalleeOf(c.result).Static
		if callee == nil {
			break
		}
		for _, ret := range kit.Returns(callee) {
			if ret.Block() == callee.Recover || c.resIdx >= len(ret.Results) {
				continue
			}
			v := kit.ReturnResult(ret, c.resIdx)
			k := cx.valClass[v]
			if k == nil {
				k = cx.valClass[ret.Results[c.resIdx]]
			}
			if k == nil {
				continue // this return yields something else (an error path constant)
			}
			for _, s := range cx.factsAt(k, ret, depth+1) {
				sets = append(sets, c36Merge(local, s))
			}
		}
	case c.param != nil || (c.obj != nil && c36IsParam(c.obj)):
		var prm *ssa.Parameter
		if c.param != nil {
			prm = c.param
		} else {
			prm = c.obj.(*ssa.Parameter)
		}
		idx := -1
		for i, q := range c.fn.Params {
			if q == prm {
				idx = i
			}
		}
		for _, site := range cx.p.StaticCallers(c.fn) {
			if idx < 0 || idx >= len(site.Common().Args) || !cx.inPkg[site.Parent()] {
				continue
			}
			a := site.Common().Args[idx]
			var k *c36Class
			if c.param != nil {
				k = cx.valClass[a]
			} else {
				obj := c36CanonObj(a)
				key := fmt.Sprintf("field:%p/%p/%s", site.Parent(), obj, c.field.Name())
				k = cx.classes[key]
				if k == nil {
					// the caller never reads the field itself: predicate guards can still speak about the object
					k = &c36Class{key: key, fn: site.Parent(), members: map[ssa.Value]bool{}, obj: obj, field: c.field}
				}
			}
			if k == nil {
				sets = append(sets, local)
				continue
			}
			for _, s := range cx.factsAt(k, site, depth+1) {
				sets = append(sets, c36Merge(local, s))
			}
		}
	}
	if len(sets) == 0 {
		return c36FactSets{local}
	}
	return sets
}

func c36IsParam(v ssa.Value) bool {
	_, ok := v.(*ssa.Parameter)
	return ok
}

// sortedClasses lists class keys deterministically (reports).
func (cx *c36Cx) sortedClasses() []string {
	var out []string
	for k := range cx.classes {
		out = append(out, k)
	}
	sort.Strings(out)
	return out
}
