package rules

// Bounded model checks of the route tables on top of the abstract interpreter (c08sx.go).
// Each check enumerates every small state and ordering scenario of one clause, interprets the
// table's exported operations on it and compares the final abstract table with the clause.

import (
	"fmt"
	"go/types"
	"sort"
	"strings"
	"time"

	"golang.org/x/tools/go/ssa"

	"mmverify/kit"
)

// c08MC is the outcome of one bounded check.
type c08MC struct {
	ok    bool   // every scenario agreed with the clause
	known bool   // false: the interpreter met something it does not model (no verdict)
	why   string // first disagreement / reason for "unknown"
	runs  int
}

func (r c08MC) proves() bool { return r.known && r.ok }

type c08Entry struct {
	origin, hop string
	metric, seq int64
	path        string
	last        int64
	obj         *c08vObj
}

type c08BucketSnap struct {
	field *types.Var
	key   string
	ents  []c08Entry
}

// c08World is one abstract table plus the scenario of the external world (networks).
type c08World struct {
	m    *c08Model
	x    *c08SX
	t    *c08Table
	tobj *c08vObj
	// per network tag
	contains map[string]bool
	ones     map[string]int64
	wild     bool // DomainTable: use wildcard patterns
}

func c08FieldIdx(st *types.Struct, name string) int {
	for i := 0; i < st.NumFields(); i++ {
		if st.Field(i).Name() == name {
			return i
		}
	}
	return -1
}

func c08VarIdx(st *types.Struct, f *types.Var) int {
	for i := 0; i < st.NumFields(); i++ {
		if st.Field(i) == f {
			return i
		}
	}
	return -1
}

const (
	c08Local = c08vAtom("LOCAL")
	c08IP    = c08vAtom("ip")
)

func (m *c08Model) newWorld(t *c08Table, wild bool) *c08World {
	x := c08NewSX(m.p)
	w := &c08World{m: m, x: x, t: t, contains: map[string]bool{}, ones: map[string]int64{}, wild: wild}
	w.tobj = x.newObj(t.named)
	st := t.named.Underlying().(*types.Struct)
	for _, bf := range t.buckets {
		w.tobj.f[c08VarIdx(st, bf)] = &c08vMap{id: x.id()}
	}
	if t.localID != nil {
		w.tobj.f[c08VarIdx(st, t.localID)] = c08Local
	}
	x.ext = func(cal kit.Callee, args []c08vVal) (c08vVal, bool) {
		if cal.Pkg != "net" {
			return nil, false
		}
		tagOf := func(v c08vVal, field string) (c08vVal, bool) {
			o, ok := v.(*c08vObj)
			if !ok || o == nil || o.st == nil {
				return nil, false
			}
			i := c08FieldIdx(o.st, field)
			if i < 0 {
				return nil, false
			}
			s, ok := o.f[i].(c08vSlice)
			if !ok || s.n == 0 {
				return nil, false
			}
			return s.a.e[s.off], true
		}
		switch {
		case cal.Recv == "IPNet" && cal.Name == "Contains":
			if tag, ok := tagOf(args[0], "IP"); ok {
				if a, ok := tag.(c08vAtom); ok {
					if sxIsNilVal(args[1]) {
						return c08vBool(false), true
					}
					return c08vBool(w.contains[string(a)]), true
				}
			}
		case cal.Recv == "IPNet" && cal.Name == "String":
			if tag, ok := tagOf(args[0], "IP"); ok {
				return c08vAtom("cidr:" + c08vName(tag)), true
			}
		case cal.Recv == "IPMask" && cal.Name == "Size":
			if s, ok := args[0].(c08vSlice); ok && s.n > 0 {
				return c08vTuple{s.a.e[s.off], c08vInt(32)}, true
			}
			return c08vTuple{c08vInt(0), c08vInt(0)}, true
		case cal.Recv == "IP" && (cal.Name == "To16" || cal.Name == "To4"):
			return args[0], true
		case cal.Recv == "IP" && cal.Name == "String":
			return c08vAtom("ipstr"), true
		case cal.Recv == "IP" && cal.Name == "Equal":
			eq, ok := c08vEqual(args[0], args[1])
			return c08vBool(eq), ok
		}
		return nil, false
	}
	return w
}

func sxIsNilVal(v c08vVal) bool { return c08vIsNil(v) }

// pattern gives the domain pattern / key string of bucket tag.
func (w *c08World) pattern(tag string) string {
	if w.t.rf["IsWildcard"] != nil {
		if w.wild {
			return "*." + tag + ".example.com"
		}
		return tag + ".example.com"
	}
	return tag
}

// netObj builds the abstract *net.IPNet of bucket tag.
func (w *c08World) netObj(tag string, typ types.Type) *c08vObj {
	o := w.x.newObj(typ)
	if i := c08FieldIdx(o.st, "IP"); i >= 0 {
		o.f[i] = w.x.mkSlice([]c08vVal{c08vAtom(tag)})
	}
	if i := c08FieldIdx(o.st, "Mask"); i >= 0 {
		o.f[i] = w.x.mkSlice([]c08vVal{c08vInt(w.ones[tag])})
	}
	return o
}

type c08RouteSpec struct {
	pattern     string // DomainTable: explicit pattern (overrides tag)
	tag         string // bucket
	origin, hop string
	metric, seq int64
	path        []string
}

func (w *c08World) route(s c08RouteSpec) *c08vObj {
	o := w.x.newObj(w.t.route)
	st := o.st
	set := func(name string, v c08vVal) {
		if i := c08FieldIdx(st, name); i >= 0 {
			o.f[i] = v
		}
	}
	set("OriginAgent", c08vAtom(s.origin))
	set("NextHop", c08vAtom(s.hop))
	set("Metric", c08vInt(s.metric))
	set("Sequence", c08vInt(s.seq))
	if len(s.path) > 0 {
		var vals []c08vVal
		for _, h := range s.path {
			vals = append(vals, c08vAtom(h))
		}
		set("Path", w.x.mkSlice(vals))
	}
	for i := 0; i < st.NumFields(); i++ {
		f := st.Field(i)
		switch f.Name() {
		case "Network":
			if pt, ok := f.Type().(*types.Pointer); ok {
				o.f[i] = w.netObj(s.tag, pt.Elem())
			}
		case "Key":
			o.f[i] = c08vAtom(w.pattern(s.tag))
		case "Target":
			o.f[i] = c08vAtom("target:9")
		case "AgentID":
			o.f[i] = c08vAtom(s.tag)
		case "Pattern":
			o.f[i] = c08vAtom(w.pattern(s.tag))
			if s.pattern != "" {
				o.f[i] = c08vAtom(s.pattern)
			}
		case "IsWildcard":
			o.f[i] = c08vBool(w.wild)
			if s.pattern != "" {
				o.f[i] = c08vBool(strings.HasPrefix(s.pattern, "*."))
			}
		case "BaseDomain":
			o.f[i] = c08vAtom(strings.TrimPrefix(w.pattern(s.tag), "*."))
			if s.pattern != "" {
				o.f[i] = c08vAtom(strings.TrimPrefix(s.pattern, "*."))
			}
		}
	}
	return o
}

func (w *c08World) method(name string) *ssa.Function {
	return w.m.p.Func(c08Pkg, w.t.name, name)
}

// keyArg builds the value passed for the "which bucket" parameter of RemoveRoute & co.
func (w *c08World) keyArg(tag string, typ types.Type) c08vVal {
	if pt, ok := typ.(*types.Pointer); ok {
		if _, isStruct := pt.Elem().Underlying().(*types.Struct); isStruct {
			return w.netObj(tag, pt.Elem())
		}
	}
	if b, ok := typ.Underlying().(*types.Basic); ok && b.Info()&types.IsString != 0 {
		return c08vAtom(w.pattern(tag))
	}
	return c08vAtom(tag)
}

func (w *c08World) add(s c08RouteSpec) c08vVal {
	fn := w.method("AddRoute")
	if fn == nil {
		w.x.fail("no AddRoute method on %s", w.t.name)
		return nil
	}
	return w.x.Call(fn, []c08vVal{w.tobj, w.route(s)}, nil)
}

func (w *c08World) remove(tag, origin string) {
	fn := w.method("RemoveRoute")
	if fn == nil || len(fn.Params) != 3 {
		w.x.fail("no RemoveRoute(key, origin) method on %s", w.t.name)
		return
	}
	w.x.Call(fn, []c08vVal{w.tobj, w.keyArg(tag, fn.Params[1].Type()), c08vAtom(origin)}, nil)
}

func (w *c08World) disconnect(peer string) {
	fn := w.method("RemoveRoutesFromPeer")
	if fn == nil || len(fn.Params) != 2 {
		w.x.fail("no RemoveRoutesFromPeer(peer) method on %s", w.t.name)
		return
	}
	w.x.Call(fn, []c08vVal{w.tobj, c08vAtom(peer)}, nil)
}

func (w *c08World) cleanup(maxAge int64) {
	fn := w.method("CleanupStaleRoutes")
	if fn == nil || len(fn.Params) != 2 {
		w.x.fail("no CleanupStaleRoutes(maxAge) method on %s", w.t.name)
		return
	}
	w.x.Call(fn, []c08vVal{w.tobj, c08vInt(maxAge)}, nil)
}

// snapshot lists the buckets of the abstract table.
func (w *c08World) snapshot() []c08BucketSnap {
	var out []c08BucketSnap
	st := w.t.named.Underlying().(*types.Struct)
	rst := w.t.route.Underlying().(*types.Struct)
	fi := func(n string) int { return c08FieldIdx(rst, n) }
	for _, bf := range w.t.buckets {
		mp, _ := w.tobj.f[c08VarIdx(st, bf)].(*c08vMap)
		if mp == nil {
			continue
		}
		for i, k := range mp.keys {
			b := c08BucketSnap{field: bf, key: c08vName(k)}
			s, _ := mp.vals[i].(c08vSlice)
			for _, e := range w.x.elems(s) {
				o, ok := e.(*c08vObj)
				if !ok || o == nil {
					b.ents = append(b.ents, c08Entry{origin: "<nil>"})
					continue
				}
				en := c08Entry{obj: o}
				if a, ok := o.f[fi("OriginAgent")].(c08vAtom); ok {
					en.origin = string(a)
				}
				if a, ok := o.f[fi("NextHop")].(c08vAtom); ok {
					en.hop = string(a)
				}
				if v, ok := o.f[fi("Metric")].(c08vInt); ok {
					en.metric = int64(v)
				}
				if v, ok := o.f[fi("Sequence")].(c08vInt); ok {
					en.seq = int64(v)
				}
				if v, ok := o.f[fi("LastUpdate")].(c08vInt); ok {
					en.last = int64(v)
				}
				if ps, ok := o.f[fi("Path")].(c08vSlice); ok {
					var hs []string
					for _, h := range w.x.elems(ps) {
						hs = append(hs, c08vName(h))
					}
					en.path = strings.Join(hs, ">")
				}
				b.ents = append(b.ents, en)
			}
			out = append(out, b)
		}
	}
	return out
}

func c08SnapString(bs []c08BucketSnap) string {
	var parts []string
	for _, b := range bs {
		var es []string
		for _, e := range b.ents {
			es = append(es, fmt.Sprintf("%s via %s m%d s%d [%s]", e.origin, e.hop, e.metric, e.seq, e.path))
		}
		parts = append(parts, b.field.Name()+"["+b.key+"]={"+strings.Join(es, "; ")+"}")
	}
	sort.Strings(parts)
	return strings.Join(parts, " ")
}

// c08Flat renders the multiset of stored entries (order inside buckets ignored).
func c08Flat(bs []c08BucketSnap) string {
	var es []string
	for _, b := range bs {
		for _, e := range b.ents {
			es = append(es, fmt.Sprintf("%s[%s]:%s via %s m%d s%d [%s]", b.field.Name(), b.key, e.origin, e.hop, e.metric, e.seq, e.path))
		}
	}
	sort.Strings(es)
	return strings.Join(es, " | ")
}

func c08Unsorted(bs []c08BucketSnap) string {
	for _, b := range bs {
		for i := range b.ents {
			if b.ents[i].origin == "<nil>" {
				return "bucket " + b.key + " holds a nil entry"
			}
			if i > 0 && b.ents[i-1].metric > b.ents[i].metric {
				var ms []string
				for _, e := range b.ents {
					ms = append(ms, fmt.Sprint(e.metric))
				}
				return "bucket " + b.key + " holds metrics [" + strings.Join(ms, " ") + "]"
			}
		}
	}
	return ""
}

// done folds the machine state into the running result; returns false to stop.
func (r *c08MC) absorb(w *c08World, scenario string) bool {
	r.runs++
	if w.x.err == "" {
		return true
	}
	if w.x.panic {
		r.ok, r.why = false, scenario+": the operation "+w.x.err
		return false
	}
	r.known, r.why = false, w.x.err
	return false
}

func c08Seqs(k int, vals []int64) [][]int64 {
	if k == 0 {
		return [][]int64{nil}
	}
	var out [][]int64
	for _, rest := range c08Seqs(k-1, vals) {
		for _, v := range vals {
			out = append(out, append(append([]int64{}, rest...), v))
		}
	}
	return out
}

// variants of a table: DomainTable is exercised with exact and with wildcard patterns.
func (m *c08Model) variants(t *c08Table) []bool {
	if t.rf["IsWildcard"] != nil {
		return []bool{false, true}
	}
	return []bool{false}
}

// ---------- M1: buckets stay sorted by metric under every operation ----------

func (m *c08Model) mcSorted(t *c08Table) c08MC {
	res := c08MC{ok: true, known: true}
	origins := []string{"A", "B", "C"}
	for _, wild := range m.variants(t) {
		for k := 1; k <= 3; k++ {
			for _, ms := range c08Seqs(k, []int64{1, 2, 3}) {
				// build returns a fresh table holding k routes of one bucket (hops / instants per entry)
				build := func(hops []string, times []int64) (*c08World, string) {
					w := m.newWorld(t, wild)
					w.ones["k1"] = 24
					for i := 0; i < k; i++ {
						hop := "Q"
						if hops != nil {
							hop = hops[i]
						}
						if times != nil {
							w.x.now = times[i]
						}
						w.add(c08RouteSpec{tag: "k1", origin: origins[i], hop: hop, metric: ms[i], seq: 1, path: []string{hop, origins[i]}})
						if w.x.err != "" {
							return w, ""
						}
						if u := c08Unsorted(w.snapshot()); u != "" {
							return w, fmt.Sprintf("after adding metrics %v one by one: %s", ms[:i+1], u)
						}
					}
					return w, ""
				}
				check := func(w *c08World, pre string, what string) bool {
					if !res.absorb(w, what) {
						return false
					}
					if pre != "" {
						res.ok, res.why = false, pre
						return false
					}
					if u := c08Unsorted(w.snapshot()); u != "" {
						res.ok, res.why = false, fmt.Sprintf("bucket built with metrics %v, then %s: %s", ms, what, u)
						return false
					}
					return true
				}
				// updates of a stored entry and insertion of a new origin
				for nm := int64(0); nm <= 4; nm++ {
					for i := 0; i < k; i++ {
						w, pre := build(nil, nil)
						if w.x.err == "" && pre == "" {
							w.add(c08RouteSpec{tag: "k1", origin: origins[i], hop: "Q", metric: nm, seq: 2, path: []string{"Q", origins[i]}})
						}
						if !check(w, pre, fmt.Sprintf("update of entry %d (newer sequence) to metric %d", i, nm)) {
							return res
						}
					}
					w, pre := build(nil, nil)
					if w.x.err == "" && pre == "" {
						w.add(c08RouteSpec{tag: "k1", origin: "N", hop: "Q", metric: nm, seq: 1, path: []string{"Q", "N"}})
					}
					if !check(w, pre, fmt.Sprintf("insertion of a new origin with metric %d", nm)) {
						return res
					}
				}
				// removal of one origin
				if m.p.Func(c08Pkg, t.name, "RemoveRoute") != nil {
					for i := 0; i < k; i++ {
						w, pre := build(nil, nil)
						if w.x.err == "" && pre == "" {
							w.remove("k1", origins[i])
						}
						if !check(w, pre, fmt.Sprintf("RemoveRoute of entry %d", i)) {
							return res
						}
					}
				}
				// disconnect / cleanup with every subset of affected entries
				for mask := 0; mask < 1<<k; mask++ {
					hops := make([]string, k)
					times := make([]int64, k)
					for i := 0; i < k; i++ {
						hops[i], times[i] = "Q", 900
						if mask&(1<<i) != 0 {
							hops[i], times[i] = "P", 100
						}
					}
					if m.p.Func(c08Pkg, t.name, "RemoveRoutesFromPeer") != nil {
						w, pre := build(hops, nil)
						if w.x.err == "" && pre == "" {
							w.disconnect("P")
						}
						if !check(w, pre, fmt.Sprintf("RemoveRoutesFromPeer with entries %03b learned from the peer", mask)) {
							return res
						}
					}
					if m.p.Func(c08Pkg, t.name, "CleanupStaleRoutes") != nil {
						w, pre := build(nil, times)
						if w.x.err == "" && pre == "" {
							w.x.now = 1000
							w.cleanup(500)
						}
						if !check(w, pre, fmt.Sprintf("CleanupStaleRoutes with entries %03b stale", mask)) {
							return res
						}
					}
				}
			}
		}
	}
	return res
}

// ---------- M3: update rule ----------

func (m *c08Model) mcUpdate(t *c08Table) c08MC {
	res := c08MC{ok: true, known: true}
	for _, wild := range m.variants(t) {
		// does the table keep one entry per (origin, next hop) or one per origin?
		w0 := m.newWorld(t, wild)
		w0.add(c08RouteSpec{tag: "k1", origin: "A", hop: "P", metric: 2, seq: 2, path: []string{"P", "A"}})
		w0.add(c08RouteSpec{tag: "k1", origin: "A", hop: "Q", metric: 2, seq: 2, path: []string{"Q", "A"}})
		if !res.absorb(w0, "two routes of one origin through different next hops") {
			return res
		}
		nA := 0
		for _, b := range w0.snapshot() {
			for _, e := range b.ents {
				if e.origin == "A" {
					nA++
				}
			}
		}
		perHop := nA == 2
		for pos := 0; pos < 3; pos++ { // the entry under test is the pos-th of three origins
			for _, nseq := range []int64{1, 2, 3} {
				for _, nmet := range []int64{1, 2, 3} {
					for _, nhop := range []string{"P", "Q"} {
						w := m.newWorld(t, wild)
						others := []string{"B", "C"}
						oi := 0
						for i := 0; i < 3; i++ {
							if i == pos {
								w.add(c08RouteSpec{tag: "k1", origin: "A", hop: "P", metric: 2, seq: 2, path: []string{"P", "A"}})
							} else {
								w.add(c08RouteSpec{tag: "k1", origin: others[oi], hop: "P", metric: int64(1 + 2*oi), seq: 2, path: []string{"P", others[oi]}})
								oi++
							}
						}
						before := c08Flat(w.snapshot())
						w.add(c08RouteSpec{tag: "k1", origin: "A", hop: nhop, metric: nmet, seq: nseq, path: []string{nhop, "X", "A"}})
						scen := fmt.Sprintf("stored (seq 2, metric 2) via P at position %d, offered (seq %d, metric %d) via %s", pos, nseq, nmet, nhop)
						if !res.absorb(w, scen) {
							return res
						}
						snap := w.snapshot()
						same := nhop == "P" || !perHop
						newer := nseq > 2 || (nseq == 2 && nmet < 2)
						var as []c08Entry
						untouched := true
						for _, b := range snap {
							for _, e := range b.ents {
								if e.origin == "A" {
									as = append(as, e)
								}
							}
						}
						// the other origins must be exactly as before
						strip := func(s string) string {
							var keep []string
							for _, part := range strings.Split(s, " | ") {
								if !strings.Contains(part, ":A via") {
									keep = append(keep, part)
								}
							}
							return strings.Join(keep, " | ")
						}
						if strip(before) != strip(c08Flat(snap)) {
							untouched = false
						}
						bad := ""
						switch {
						case !untouched:
							bad = "entries of other origins changed"
						case same && len(as) != 1:
							bad = fmt.Sprintf("%d entries of the origin are stored afterwards (a second entry for the same origin sorts first when its metric is lower)", len(as))
						case same && newer && !(as[0].seq == nseq && as[0].metric == nmet && as[0].hop == nhop && as[0].path == nhop+">X>A"):
							bad = fmt.Sprintf("the newer/better route did not replace the stored one completely (stored now: seq %d metric %d via %s path %s)", as[0].seq, as[0].metric, as[0].hop, as[0].path)
						case same && !newer && !(as[0].seq == 2 && as[0].metric == 2 && as[0].hop == "P" && as[0].path == "P>A"):
							bad = fmt.Sprintf("the stored route was overwritten by one that is neither newer nor equally new with a lower metric (stored now: seq %d metric %d via %s)", as[0].seq, as[0].metric, as[0].hop)
						case !same && len(as) != 2:
							bad = "a route of the same origin through another next hop did not get its own entry"
						}
						if bad != "" {
							res.ok, res.why = false, scen+": "+bad
							return res
						}
					}
				}
			}
		}
	}
	return res
}

// ---------- M4: loop rejection ----------

func (m *c08Model) mcLoop(t *c08Table) c08MC {
	res := c08MC{ok: true, known: true}
	for _, wild := range m.variants(t) {
		for _, existing := range []bool{false, true} {
			for at := 0; at < 3; at++ {
				w := m.newWorld(t, wild)
				if existing {
					w.add(c08RouteSpec{tag: "k1", origin: "A", hop: "P", metric: 2, seq: 2, path: []string{"P", "A"}})
				}
				before := c08Flat(w.snapshot())
				path := []string{"P", "X", "A"}
				path[at] = string(c08Local)
				w.add(c08RouteSpec{tag: "k1", origin: "A", hop: "P", metric: 1, seq: 3, path: path})
				scen := fmt.Sprintf("route whose path has the local id at hop %d (entry of that origin already stored: %v)", at, existing)
				if !res.absorb(w, scen) {
					return res
				}
				if after := c08Flat(w.snapshot()); after != before {
					res.ok, res.why = false, scen+" was stored: "+after
					return res
				}
			}
		}
		// and a loop-free path is not mistaken for a loop
		w := m.newWorld(t, wild)
		w.add(c08RouteSpec{tag: "k1", origin: "A", hop: "P", metric: 1, seq: 1, path: []string{"P", "X", "A"}})
		if !res.absorb(w, "loop-free route") {
			return res
		}
		if c08Flat(w.snapshot()) == "" {
			res.ok, res.why = false, "a route whose path does not contain the local id is rejected"
			return res
		}
	}
	return res
}

// ---------- M5: disconnect ----------

func (m *c08Model) mcDisconnect(t *c08Table) c08MC {
	res := c08MC{ok: true, known: true}
	if m.p.Func(c08Pkg, t.name, "RemoveRoutesFromPeer") == nil {
		return c08MC{known: false, why: "no RemoveRoutesFromPeer"}
	}
	origins := []string{"A", "B", "P"} // the peer itself also originates a route learned elsewhere
	for mask := 0; mask < 1<<6; mask++ {
		w := m.newWorld(t, false)
		wilds := m.variants(t)
		var want []string
		n := 0
		for bi, tag := range []string{"k1", "k2"} {
			for oi, o := range origins {
				hop := "Q"
				if mask&(1<<n) != 0 {
					hop = "P"
				}
				n++
				w.wild = wilds[(bi+oi)%len(wilds)]
				w.add(c08RouteSpec{tag: tag, origin: o, hop: hop, metric: int64(1 + oi), seq: 1, path: []string{hop, o}})
				_ = hop
			}
		}
		all := w.snapshot()
		for _, b := range all {
			for _, e := range b.ents {
				if e.hop != "P" {
					want = append(want, fmt.Sprintf("%s[%s]:%s via %s", b.field.Name(), b.key, e.origin, e.hop))
				}
			}
		}
		w.disconnect("P")
		scen := fmt.Sprintf("six routes in two buckets, those with bits %06b learned from the disconnected peer", mask)
		if !res.absorb(w, scen) {
			return res
		}
		var got []string
		snap := w.snapshot()
		for _, b := range snap {
			for _, e := range b.ents {
				got = append(got, fmt.Sprintf("%s[%s]:%s via %s", b.field.Name(), b.key, e.origin, e.hop))
			}
		}
		sort.Strings(want)
		sort.Strings(got)
		if strings.Join(want, " ") != strings.Join(got, " ") {
			res.ok, res.why = false, scen+": remaining routes {"+strings.Join(got, ", ")+"}, expected exactly those not learned from the peer {"+strings.Join(want, ", ")+"}"
			return res
		}
	}
	return res
}

// ---------- M6: cleanup ----------

func (m *c08Model) mcCleanup(t *c08Table) c08MC {
	res := c08MC{ok: true, known: true}
	if m.p.Func(c08Pkg, t.name, "CleanupStaleRoutes") == nil {
		return c08MC{known: false, why: "no CleanupStaleRoutes"}
	}
	origins := []string{string(c08Local), "A", "B"}
	for mask := 0; mask < 1<<6; mask++ {
		w := m.newWorld(t, false)
		wilds := m.variants(t)
		var want []string
		n := 0
		for bi, tag := range []string{"k1", "k2"} {
			for oi, o := range origins {
				stale := mask&(1<<n) != 0
				n++
				w.x.now = 900
				if stale {
					w.x.now = 100
				}
				w.wild = wilds[(bi+oi)%len(wilds)]
				// the exemption is by origin: the own-origin route of the first bucket is stored with a
				// foreign next hop, and a foreign route of the second bucket with the own id as next hop
				hop := "Q"
				if (o == string(c08Local)) == (bi == 1) {
					hop = string(c08Local)
				}
				w.add(c08RouteSpec{tag: tag, origin: o, hop: hop, metric: int64(1 + oi), seq: 1})
				if !stale || o == string(c08Local) {
					want = append(want, fmt.Sprintf("%s:%s", w.pattern(tag), o))
				}
			}
		}
		w.x.now = 1000
		w.cleanup(500)
		scen := fmt.Sprintf("six routes (own id, A, B in two buckets), those with bits %06b last updated 900 ago, the others 100 ago, maxAge 500", mask)
		if !res.absorb(w, scen) {
			return res
		}
		var got []string
		for _, b := range w.snapshot() {
			for _, e := range b.ents {
				got = append(got, fmt.Sprintf("%s:%s", c08KeyTail(b.key), e.origin))
			}
		}
		for i := range want {
			want[i] = c08KeyTail(want[i])
		}
		sort.Strings(want)
		sort.Strings(got)
		if strings.Join(want, " ") != strings.Join(got, " ") {
			res.ok, res.why = false, scen+": remaining {"+strings.Join(got, ", ")+"}, expected own-origin routes and the fresh foreign ones {"+strings.Join(want, ", ")+"}"
			return res
		}
	}
	return res
}

// c08KeyTail normalises a bucket key / pattern to its tag (k1, k2) for comparison.
func c08KeyTail(s string) string {
	for _, tag := range []string{"k1", "k2", "k3"} {
		if i := strings.Index(s, tag); i >= 0 {
			rest := s[i+len(tag):]
			if j := strings.LastIndex(rest, ":"); j >= 0 {
				return tag + rest[j:]
			}
			return tag
		}
	}
	return s
}

func c08NonDecr(k int, vals []int64) [][]int64 {
	var out [][]int64
	for _, s := range c08Seqs(k, vals) {
		ok := true
		for i := 1; i < k; i++ {
			if s[i-1] > s[i] {
				ok = false
			}
		}
		if ok {
			out = append(out, s)
		}
	}
	return out
}

func c08Perms(k int) [][]int {
	if k == 0 {
		return [][]int{nil}
	}
	var out [][]int
	for _, p := range c08Perms(k - 1) {
		for pos := 0; pos <= len(p); pos++ {
			q := append(append(append([]int{}, p[:pos]...), k-1), p[pos:]...)
			out = append(out, q)
		}
	}
	return out
}

// ---------- M2: longest prefix, lowest metric ----------

func (m *c08Model) mcLookup(t *c08Table) c08MC {
	res := c08MC{ok: true, known: true}
	fn := m.p.Func(c08Pkg, t.name, "Lookup")
	if fn == nil || len(fn.Params) != 2 {
		return c08MC{known: false, why: "no Lookup(ip) method"}
	}
	tags := []string{"k1", "k2", "k3"}
	for k := 1; k <= 3; k++ {
		for _, lc := range c08NonDecr(k, []int64{0, 24, 32, 48}) {
			for cm := 0; cm < 1<<k; cm++ {
				for _, mets := range c08Seqs(k, []int64{1, 2}) {
					for _, pm := range c08Perms(k) {
						w := m.newWorld(t, false)
						for i := 0; i < k; i++ {
							w.ones[tags[i]] = lc[i]
							w.contains[tags[i]] = cm&(1<<i) != 0
						}
						for _, i := range pm {
							// head with the bucket's metric, and a worse second entry inserted first
							w.add(c08RouteSpec{tag: tags[i], origin: "W" + tags[i], hop: "Q", metric: mets[i] + 2, seq: 1, path: []string{"Q"}})
							w.add(c08RouteSpec{tag: tags[i], origin: "H" + tags[i], hop: "Q", metric: mets[i], seq: 1, path: []string{"Q"}})
						}
						got := w.x.Call(fn, []c08vVal{w.tobj, c08IP}, nil)
						scen := fmt.Sprintf("buckets with prefix lengths %v, containing the address: %0*b, head metrics %v, visited in order %v", lc[:k], k, cm, mets, pm)
						if !res.absorb(w, scen) {
							return res
						}
						// expected
						bestLen, bestMet := int64(-1), int64(0)
						for i := 0; i < k; i++ {
							if cm&(1<<i) == 0 {
								continue
							}
							if lc[i] > bestLen || (lc[i] == bestLen && mets[i] < bestMet) {
								bestLen, bestMet = lc[i], mets[i]
							}
						}
						o, isObj := got.(*c08vObj)
						if bestLen < 0 {
							if !c08vIsNil(got) {
								res.ok, res.why = false, scen+": a route is returned although no stored network contains the address"
								return res
							}
							continue
						}
						if !isObj || o == nil {
							res.ok, res.why = false, scen+": nothing is returned although a stored network contains the address"
							return res
						}
						rst := o.st
						gm, _ := o.f[c08FieldIdx(rst, "Metric")].(c08vInt)
						gl := int64(-1)
						gc := false
						if no, ok := o.f[c08FieldIdx(rst, "Network")].(*c08vObj); ok && no != nil {
							if ms, ok := no.f[c08FieldIdx(no.st, "Mask")].(c08vSlice); ok && ms.n > 0 {
								if v, ok := ms.a.e[ms.off].(c08vInt); ok {
									gl = int64(v)
								}
							}
							if is, ok := no.f[c08FieldIdx(no.st, "IP")].(c08vSlice); ok && is.n > 0 {
								gc = w.contains[c08vName(is.a.e[is.off])]
							}
						}
						if !gc || gl != bestLen || int64(gm) != bestMet {
							res.ok, res.why = false, fmt.Sprintf("%s: returned a route with prefix length %d, metric %d (network contains the address: %v); expected prefix length %d, metric %d", scen, gl, gm, gc, bestLen, bestMet)
							return res
						}
					}
				}
			}
		}
	}
	return res
}

// ---------- domain and keyed lookups ----------

// mcDomain: exact before wildcard, single-label wildcards, case-insensitive keys, lowest metric.
func (m *c08Model) mcDomain(t *c08Table) c08MC {
	res := c08MC{ok: true, known: true}
	fn := m.p.Func(c08Pkg, t.name, "Lookup")
	if fn == nil || len(fn.Params) != 2 {
		return c08MC{known: false, why: "no Lookup(name) method"}
	}
	type stored struct {
		pattern, origin string
		metric          int64
	}
	type probe struct {
		name        string
		wantPattern string // "" = nothing
		wantMetric  int64
	}
	cases := []struct {
		what   string
		routes []stored
		probes []probe
	}{
		{"exact pattern and a wildcard that also matches", []stored{{"*.Example.com", "A", 1}, {"Api.Example.com", "B", 5}}, []probe{
			{"API.example.COM", "Api.Example.com", 5}, {"www.example.com", "*.Example.com", 1}}},
		{"wildcard only", []stored{{"*.Example.COM", "A", 2}}, []probe{
			{"www.example.com", "*.Example.COM", 2}, {"WWW.EXAMPLE.com", "*.Example.COM", 2},
			{"a.www.example.com", "", 0}, {"a.b.c.example.com", "", 0}, {"example.com", "", 0}, {"com", "", 0}, {"other.org", "", 0}}},
		{"mixed-case exact pattern", []stored{{"MiXed.Example.com", "A", 2}}, []probe{
			{"mixed.example.COM", "MiXed.Example.com", 2}, {"x.mixed.example.com", "", 0}}},
		{"mixed-case wildcard pattern", []stored{{"*.MiXed.example.com", "A", 2}}, []probe{
			{"x.mixed.EXAMPLE.com", "*.MiXed.example.com", 2}, {"mixed.example.com", "", 0}}},
		{"two origins for one pattern", []stored{{"api.example.com", "A", 3}, {"api.example.com", "B", 1}, {"*.example.com", "A", 4}, {"*.example.com", "B", 2}}, []probe{
			{"api.example.com", "api.example.com", 1}, {"web.example.com", "*.example.com", 2}}},
		{"wildcard whose base is a single label", []stored{{"*.localdomain", "A", 1}}, []probe{
			{"host.localdomain", "*.localdomain", 1}, {"localdomain", "", 0}}},
		{"empty table", nil, []probe{{"api.example.com", "", 0}}},
	}
	for _, c := range cases {
		w := m.newWorld(t, false)
		for _, s := range c.routes {
			w.add(c08RouteSpec{pattern: s.pattern, tag: "k1", origin: s.origin, hop: "Q", metric: s.metric, seq: 1, path: []string{"Q", s.origin}})
		}
		for _, pr := range c.probes {
			got := w.x.Call(fn, []c08vVal{w.tobj, c08vAtom(pr.name)}, nil)
			scen := fmt.Sprintf("%s, lookup of %q", c.what, pr.name)
			if !res.absorb(w, scen) {
				return res
			}
			o, isObj := got.(*c08vObj)
			if pr.wantPattern == "" {
				if !c08vIsNil(got) {
					res.ok, res.why = false, scen+": a route is returned although no pattern matches (exact, or wildcard exactly one label up)"
					return res
				}
				continue
			}
			if !isObj || o == nil {
				res.ok, res.why = false, scen+": nothing is returned, expected the route of pattern "+pr.wantPattern
				return res
			}
			gp, _ := o.f[c08FieldIdx(o.st, "Pattern")].(c08vAtom)
			gm, _ := o.f[c08FieldIdx(o.st, "Metric")].(c08vInt)
			if string(gp) != pr.wantPattern || int64(gm) != pr.wantMetric {
				res.ok, res.why = false, fmt.Sprintf("%s: returned pattern %s metric %d, expected pattern %s metric %d", scen, gp, gm, pr.wantPattern, pr.wantMetric)
				return res
			}
		}
	}
	return res
}

// mcKeyed: Lookup(key) returns the lowest metric of exactly that key, nil otherwise.
func (m *c08Model) mcKeyed(t *c08Table) c08MC {
	res := c08MC{ok: true, known: true}
	fn := m.p.Func(c08Pkg, t.name, "Lookup")
	if fn == nil || len(fn.Params) != 2 {
		return c08MC{known: false, why: "no Lookup(key) method"}
	}
	for _, order := range [][]int64{{3, 1, 2}, {1, 2, 3}, {2, 3, 1}} {
		w := m.newWorld(t, false)
		for i, met := range order {
			w.add(c08RouteSpec{tag: "k1", origin: []string{"A", "B", "C"}[i], hop: "Q", metric: met, seq: 1, path: []string{"Q"}})
		}
		w.add(c08RouteSpec{tag: "k2", origin: "A", hop: "Q", metric: 0, seq: 1, path: []string{"Q"}})
		for _, pr := range []struct {
			tag  string
			want int64
		}{{"k1", 1}, {"k2", 0}, {"k3", -1}} {
			got := w.x.Call(fn, []c08vVal{w.tobj, w.keyArg(pr.tag, fn.Params[1].Type())}, nil)
			scen := fmt.Sprintf("key k1 with metrics %v, key k2 with metric 0, lookup of %s", order, pr.tag)
			if !res.absorb(w, scen) {
				return res
			}
			o, isObj := got.(*c08vObj)
			if pr.want < 0 {
				if !c08vIsNil(got) {
					res.ok, res.why = false, scen+": a route is returned for a key that has none"
					return res
				}
				continue
			}
			if !isObj || o == nil {
				res.ok, res.why = false, scen+": nothing is returned"
				return res
			}
			gm, _ := o.f[c08FieldIdx(o.st, "Metric")].(c08vInt)
			if int64(gm) != pr.want {
				res.ok, res.why = false, fmt.Sprintf("%s: returned metric %d, expected the lowest metric of that key, %d", scen, gm, pr.want)
				return res
			}
		}
	}
	return res
}

// ---------- glue: bounded checks as obligations, and as second opinion ----------

// c08Sem caches the bounded checks of one run.
type c08Sem struct {
	m      *c08Model
	cache  map[string]*c08MC
	keyTbl map[string]*c08Table // rule|key -> table the obligation is about
	keyFn  map[string]*ssa.Function
	ms     int
}

func (m *c08Model) sem() *c08Sem {
	if m.semc == nil {
		m.semc = &c08Sem{m: m, cache: map[string]*c08MC{}, keyTbl: map[string]*c08Table{}, keyFn: map[string]*ssa.Function{}}
	}
	return m.semc
}

// note remembers which table an obligation key belongs to.
func (m *c08Model) note(rule, key string, t *c08Table) { m.sem().keyTbl[rule+"|"+key] = t }

// noteFn additionally remembers the function the obligation is about: the bounded model may
// only speak for code that is reached exclusively through the operations it exercises.
func (m *c08Model) noteFn(rule, key string, t *c08Table, fn *ssa.Function) {
	m.sem().keyTbl[rule+"|"+key] = t
	m.sem().keyFn[rule+"|"+key] = fn
}

var c08Exercised = map[string]bool{"AddRoute": true, "RemoveRoute": true, "RemoveRoutesFromPeer": true, "CleanupStaleRoutes": true, "Lookup": true}

// coveredFn: every exported method of a table type (or exported function of the package) from
// which fn can be reached is one of the operations the bounded model exercises. A bucket write
// that is also reachable through another entry point (a second writer) is not covered.
func (m *c08Model) coveredFn(fn *ssa.Function) bool {
	if fn == nil {
		return true
	}
	target := kit.TopLevel(fn)
	for _, e := range m.funcs {
		if e.Parent() != nil || e.Object() == nil || !e.Object().Exported() {
			continue
		}
		isTableMethod := false
		if e.Signature.Recv() != nil {
			if n, ok := c08DerefNamed(e.Signature.Recv().Type()); ok && m.byType[n] != nil {
				isTableMethod = true
			}
		}
		if e.Signature.Recv() != nil && !isTableMethod {
			continue // methods of the manager etc. go through the tables' exported methods
		}
		if isTableMethod && c08Exercised[e.Name()] {
			continue
		}
		// does e reach target?
		seen := map[*ssa.Function]bool{e: true}
		work := []*ssa.Function{e}
		for len(work) > 0 {
			f := work[len(work)-1]
			work = work[:len(work)-1]
			if f == target {
				return false
			}
			for _, ff := range kit.WithClosures(f) {
				for _, c := range kit.Calls(ff) {
					if g := kit.CalleeOf(c).Static; g != nil && !seen[g] && kit.FuncPkgPath(g) == kit.PkgPath(c08Pkg) {
						seen[g] = true
						work = append(work, g)
					}
				}
			}
		}
	}
	return true
}

func (s *c08Sem) get(kind string, t *c08Table) *c08MC {
	k := kind + "|" + t.name
	if r, ok := s.cache[k]; ok {
		return r
	}
	var res c08MC
	start := time.Now()
	defer func() { s.ms += int(time.Since(start).Milliseconds()) }()
	func() {
		defer func() {
			if e := recover(); e != nil {
				res = c08MC{known: false, why: fmt.Sprintf("interpreter fault: %v", e)}
			}
		}()
		switch kind {
		case "sorted":
			res = s.m.mcSorted(t)
		case "lookup":
			res = s.m.mcLookup(t)
		case "update":
			res = s.m.mcUpdate(t)
		case "loop":
			res = s.m.mcLoop(t)
		case "disconnect":
			res = s.m.mcDisconnect(t)
		case "cleanup":
			res = s.m.mcCleanup(t)
		case "domain":
			res = s.m.mcDomain(t)
		case "keyed":
			res = s.m.mcKeyed(t)
		}
	}()
	s.cache[k] = &res
	return &res
}

// report emits the bounded check itself as an obligation (violation only on a definite
// disagreement; "not modelled" is informational).
func (s *c08Sem) report(r *kit.Report, rule, kind, title string, t *c08Table, consequence string) {
	res := s.get(kind, t)
	key := "bounded model: " + t.name + " " + title
	pos := s.m.p.Pos(t.named.Obj().Pos())
	r.Count("bounded_model_runs", res.runs)
	r.Counters["bounded_model_ms"] = s.ms
	switch {
	case res.proves():
		r.OK(rule, key, pos, "holds in all %d abstract executions of the table's operations", res.runs)
	case res.known:
		r.Violation(rule, key, pos, "%s — %s", res.why, consequence)
	default:
		r.Infof(rule, key, pos, "not decided by the bounded model (%s); the structural rules decide", res.why)
	}
}

// override turns violations of the structural rules into discharged obligations when the
// bounded model proves the same clause: the structural rule merely did not recognise the shape
// of the code. pick returns the kind of bounded check that covers an obligation ("" = none).
func (s *c08Sem) override(r *kit.Report, pick func(rule, key, detail string) string, floorPick func(floor string) (string, *c08Table)) {
	for i := range r.Obs {
		o := &r.Obs[i]
		if o.Status != kit.Violated || strings.HasPrefix(o.Key, "bounded model:") {
			continue
		}
		kind := pick(o.Rule, o.Key, o.Detail)
		t := s.keyTbl[o.Rule+"|"+o.Key]
		if kind == "" || t == nil || !s.m.coveredFn(s.keyFn[o.Rule+"|"+o.Key]) {
			continue
		}
		res := s.get(kind, t)
		if res.proves() {
			o.Status = kit.Discharged
			o.Detail = fmt.Sprintf("clause established by the bounded model of %s (%d abstract executions); the structural rule did not recognise this code shape (%s)", t.name, res.runs, c08Short(o.Detail))
		} else if res.known {
			o.Detail += " [bounded model: " + res.why + "]"
		}
	}
	var keep []string
	for _, f := range r.Floors {
		kind, t := floorPick(f)
		if kind != "" && t != nil && s.get(kind, t).proves() {
			r.Note("floor waived, clause established by the bounded model of %s: %s", t.name, f)
			continue
		}
		keep = append(keep, f)
	}
	r.Floors = keep
}

func c08Short(s string) string {
	if len(s) > 160 {
		return s[:160] + "…"
	}
	return s
}

// tableNamed finds the table whose type name occurs in s (the longest name wins, since
// "Table" is a suffix of the other names).
func (m *c08Model) tableNamed(s string) *c08Table {
	var best *c08Table
	for _, t := range m.tables {
		if strings.Contains(s, t.name) && (best == nil || len(t.name) > len(best.name)) {
			best = t
		}
	}
	return best
}
