package rules

import (
	"fmt"
	"go/token"
	"go/types"
	"sort"
	"strings"

	"golang.org/x/tools/go/ssa"

	"mmverify/kit"
)

func init() {
	register(&Check{
		ID: "C15", Level: "other", Patterns: []string{"./internal/agent"},
		Technique: "forward value flow of the configuration field, finite evaluation of branch conditions, CFG reachability",
		Explain: "Decides that the configured hop limit (config.RoutingConfig.MaxHops) flows by assignments, conversions and call arguments into code of internal/flood, and that in the entry point that receives route advertisements no route store and no forward is reachable when the branch conditions comparing a hop count of the announcement (length of its path or of its seen-by list) with that limit are evaluated for an announcement that is over the limit (hops = limit+1, +2, +1000; limit >= 1 as validated). " +
			"Whether the hop count used is the true distance is not decided; withdrawals and node-info frames are outside the property.",
		Run: runC15,
		SelfTests: []SelfTest{
			{Name: "limit no longer handed to the flooder", ExpectRule: "C15.R1", Edits: []Edit{
				{File: "internal/agent/agent.go", Old: "\tfloodCfg.MaxHops = a.cfg.Routing.MaxHops\n", New: ""},
			}},
			{Name: "hop-limit comparison deleted", ExpectRule: "C15.R2", Edits: []Edit{
				{File: "internal/flood/flood.go", Old: "\tif f.cfg.MaxHops > 0 && hops > f.cfg.MaxHops {\n\t\treturn false\n\t}\n", New: "\t_ = hops\n"},
			}},
			{Name: "limit off by one", ExpectRule: "C15.R2", Edits: []Edit{
				{File: "internal/flood/flood.go", Old: "\tif f.cfg.MaxHops > 0 && hops > f.cfg.MaxHops {", New: "\tif f.cfg.MaxHops > 0 && hops > f.cfg.MaxHops+1 {"},
			}},
			{Name: "limit doubled", ExpectRule: "C15.R2", Edits: []Edit{
				{File: "internal/flood/flood.go", Old: "\tif f.cfg.MaxHops > 0 && hops > f.cfg.MaxHops {", New: "\tif f.cfg.MaxHops > 0 && hops > f.cfg.MaxHops*2 {"},
			}},
			{Name: "comparison inverted", ExpectRule: "C15.R2", Edits: []Edit{
				{File: "internal/flood/flood.go", Old: "\tif f.cfg.MaxHops > 0 && hops > f.cfg.MaxHops {", New: "\tif f.cfg.MaxHops > 0 && hops < f.cfg.MaxHops {"},
			}},
			{Name: "limit only logged, announcement still processed", ExpectRule: "C15.R2", Edits: []Edit{
				{File: "internal/flood/flood.go", Old: "\tif f.cfg.MaxHops > 0 && hops > f.cfg.MaxHops {\n\t\treturn false\n\t}\n", New: "\tif f.cfg.MaxHops > 0 && hops > f.cfg.MaxHops {\n\t\tf.logger.Debug(\"over hop limit\")\n\t}\n"},
			}},
			{Name: "limit applied to forwarding only", ExpectRule: "C15.R2", ExpectKey: "store", Edits: []Edit{
				{File: "internal/flood/flood.go", Old: "\tif f.cfg.MaxHops > 0 && hops > f.cfg.MaxHops {\n\t\treturn false\n\t}\n", New: ""},
				{File: "internal/flood/flood.go", Old: "\tnewSeenBy := append(seenBy, f.localID)\n\tf.floodAdvertisementEncrypted(", New: "\tif f.cfg.MaxHops > 0 && hops > f.cfg.MaxHops {\n\t\treturn false\n\t}\n\tnewSeenBy := append(seenBy, f.localID)\n\tf.floodAdvertisementEncrypted("},
			}},
			{Name: "rewrite: hop count with the max builtin, stores moved to a helper", Edits: []Edit{
				{File: "internal/flood/flood.go", Old: "\thops := len(path)\n\tif len(seenBy) > hops {\n\t\thops = len(seenBy)\n\t}\n", New: "\thops := max(len(path), len(seenBy))\n"},
				{File: "internal/flood/flood.go", Old: "\tif len(cidrEntries) > 0 {\n\t\tf.routeMgr.ProcessRouteAdvertise(fromPeer, originAgent, sequence, cidrEntries, path, encPath)\n\t}\n", New: "\tf.storeCIDR(fromPeer, originAgent, sequence, cidrEntries, path, encPath)\n"},
				{File: "internal/flood/flood.go", Old: "// HandleRouteWithdraw processes an incoming ROUTE_WITHDRAW frame.", New: "func (f *Flooder) storeCIDR(from, origin identity.AgentID, seq uint64, entries []routing.RouteEntry, path []identity.AgentID, enc *protocol.EncryptedData) {\n\tif len(entries) > 0 {\n\t\tf.routeMgr.ProcessRouteAdvertise(from, origin, seq, entries, path, enc)\n\t}\n}\n\n// HandleRouteWithdraw processes an incoming ROUTE_WITHDRAW frame."},
			}},
			{Name: "hop count taken from the seen-by list, path only as fallback (seed C15-a)", ExpectRule: "C15.R2", Edits: []Edit{
				{File: "internal/flood/flood.go", Old: "\thops := len(path)\n\tif len(seenBy) > hops {\n\t\thops = len(seenBy)\n\t}\n", New: "\thops := len(seenBy)\n\tif hops == 0 {\n\t\thops = len(path)\n\t}\n"},
			}},
			{Name: "hop count is the smaller of path and seen-by length", ExpectRule: "C15.R2", Edits: []Edit{
				{File: "internal/flood/flood.go", Old: "\thops := len(path)\n\tif len(seenBy) > hops {\n\t\thops = len(seenBy)\n\t}\n", New: "\thops := min(len(path), len(seenBy))\n"},
			}},
			{Name: "hop count is the seen-by length only", ExpectRule: "C15.R2", Edits: []Edit{
				{File: "internal/flood/flood.go", Old: "\thops := len(path)\n\tif len(seenBy) > hops {\n\t\thops = len(seenBy)\n\t}\n", New: "\thops := len(seenBy)\n\t_ = path\n"},
			}},
			{Name: "limit enforced only for announcements that were not replayed", ExpectRule: "C15.R2", Edits: []Edit{
				{File: "internal/flood/flood.go", Old: "\tif f.cfg.MaxHops > 0 && hops > f.cfg.MaxHops {", New: "\tif f.cfg.MaxHops > 0 && len(seenBy) > 1 && hops > f.cfg.MaxHops {"},
			}},
			{Name: "CIDR entry refreshed in place keeps a stale shorter path (seed C15-b)", ExpectRule: "C15.R3", ExpectKey: "(*routing.Table).AddRoute", Edits: []Edit{
				{File: "internal/routing/table.go", Old: "\t\t\t\tcloned := route.Clone()\n\t\t\t\tcloned.LastUpdate = now\n\t\t\t\tt.routes[key][i] = cloned\n", New: "\t\t\t\tif r.NextHop == route.NextHop {\n\t\t\t\t\tr.Metric = route.Metric\n\t\t\t\t\tr.Sequence = route.Sequence\n\t\t\t\t\tr.LastUpdate = now\n\t\t\t\t} else {\n\t\t\t\t\tcloned := route.Clone()\n\t\t\t\t\tcloned.LastUpdate = now\n\t\t\t\t\tt.routes[key][i] = cloned\n\t\t\t\t}\n"},
			}},
			{Name: "path length alone as hop count (sealed paths do not grow)", ExpectRule: "C15.R2", Edits: []Edit{
				{File: "internal/flood/flood.go", Old: "\thops := len(path)\n\tif len(seenBy) > hops {\n\t\thops = len(seenBy)\n\t}\n", New: "\thops := len(path)\n"},
			}},
			{Name: "seen-by length only as fallback for a missing path (seed C15-e)", ExpectRule: "C15.R2", Edits: []Edit{
				{File: "internal/flood/flood.go", Old: "\thops := len(path)\n\tif len(seenBy) > hops {\n\t\thops = len(seenBy)\n\t}\n", New: "\thops := len(path)\n\tif hops == 0 {\n\t\thops = len(seenBy)\n\t}\n"},
			}},
			{Name: "rewrite: swapped operands, negated, stricter boundary", Edits: []Edit{
				{File: "internal/flood/flood.go", Old: "\tif f.cfg.MaxHops > 0 && hops > f.cfg.MaxHops {", New: "\tif limit := f.cfg.MaxHops; !(limit <= 0) && !(limit >= hops) {"},
			}},
			{Name: "rewrite: limit copied into a Flooder field by the constructor, test in a helper", Edits: []Edit{
				{File: "internal/flood/flood.go", Old: "\tif f.cfg.MaxHops > 0 && hops > f.cfg.MaxHops {", New: "\tif f.tooFar(hops) {"},
				{File: "internal/flood/flood.go", Old: "// HandleRouteWithdraw processes an incoming ROUTE_WITHDRAW frame.", New: "func (f *Flooder) tooFar(n int) bool {\n\tif f.hopLimit == 0 {\n\t\treturn false\n\t}\n\treturn n > int(f.hopLimit)\n}\n\n// HandleRouteWithdraw processes an incoming ROUTE_WITHDRAW frame."},
				{File: "internal/flood/flood.go", Old: "\tlocalID            identity.AgentID\n", New: "\tlocalID            identity.AgentID\n\thopLimit           uint8\n"},
				{File: "internal/flood/flood.go", Old: "\t\tlocalID:           localID,\n", New: "\t\tlocalID:           localID,\n\t\thopLimit:          uint8(cfg.MaxHops),\n"},
			}},
		},
	})
}

// c15Taint is the forward value-flow closure of the configuration knob.
type c15Taint struct {
	vals   map[ssa.Value]bool
	fields map[*types.Var]bool
}

// c15Forward computes every SSA value that carries the knob's value unchanged or through
// conversions, following stores into struct fields (and all loads of those fields), local
// variables, phis and static call arguments. Arithmetic is not followed: limit+k is handled by
// c15Lin at the comparison, anything else makes the comparison undecidable (= not a limit test).
func c15Forward(p *kit.Program, knob *types.Var) *c15Taint {
	t := &c15Taint{vals: map[ssa.Value]bool{}, fields: map[*types.Var]bool{}}
	var work []ssa.Value
	add := func(v ssa.Value) {
		if v != nil && !t.vals[v] {
			t.vals[v] = true
			work = append(work, v)
		}
	}
	addField := func(f *types.Var) {
		if f == nil || t.fields[f] {
			return
		}
		t.fields[f] = true
		for _, acc := range p.FieldAccessesOfKind(f, kit.FieldLoad) {
			if v, ok := acc.Instr.(ssa.Value); ok {
				add(v)
			}
		}
	}
	addField(knob)
	for len(work) > 0 {
		v := work[len(work)-1]
		work = work[:len(work)-1]
		if v.Referrers() == nil {
			continue
		}
		for _, ref := range *v.Referrers() {
			switch x := ref.(type) {
			case *ssa.Store:
				if x.Val != v {
					continue
				}
				switch a := x.Addr.(type) {
				case *ssa.FieldAddr:
					addField(kit.FieldOfAddr(a))
				case *ssa.Alloc:
					if a.Referrers() != nil {
						for _, r2 := range *a.Referrers() {
							if u, ok := r2.(*ssa.UnOp); ok && u.Op == token.MUL {
								add(u)
							}
						}
					}
				}
			case *ssa.Convert:
				add(x)
			case *ssa.ChangeType:
				add(x)
			case *ssa.Phi:
				add(x)
			case ssa.CallInstruction:
				cal := kit.CalleeOf(x)
				if cal.Static == nil || cal.Static.Blocks == nil {
					if cal.Built == "min" || cal.Built == "max" {
						if cv, ok := x.(ssa.Value); ok {
							add(cv)
						}
					}
					continue
				}
				for i, a := range x.Common().Args {
					if a == v && i < len(cal.Static.Params) {
						add(cal.Static.Params[i])
					}
				}
			}
		}
	}
	return t
}

// c15Lin normalises an integer expression to base + off through conversions and +/- constants.
func c15Lin(v ssa.Value) (ssa.Value, int64) {
	off := int64(0)
	for i := 0; i < 12; i++ {
		switch x := v.(type) {
		case *ssa.Convert:
			v = x.X
			continue
		case *ssa.ChangeType:
			v = x.X
			continue
		case *ssa.BinOp:
			if x.Op == token.ADD || x.Op == token.SUB {
				if k, ok := kit.ConstInt(x.Y); ok {
					if x.Op == token.ADD {
						off += k
					} else {
						off -= k
					}
					v = x.X
					continue
				}
				if k, ok := kit.ConstInt(x.X); ok && x.Op == token.ADD {
					off += k
					v = x.Y
					continue
				}
			}
		}
		break
	}
	return v, off
}

type c15Eval struct {
	cx    *c11Flood
	taint *c15Taint
	delta int64 // the announcement is delta hops over the limit
	memo  map[*ssa.Function]int
	usedK map[*ssa.If]bool // hop-vs-limit comparisons that were evaluated
}

// isHops: base is a hop count of the announcement: len(x) of an agent-id list, or a phi / min /
// max of such.
func (e *c15Eval) isHops(v ssa.Value, depth int) bool {
	if depth > 4 {
		return false
	}
	switch x := v.(type) {
	case *ssa.Call:
		cal := kit.CalleeOf(x)
		if cal.Built == "len" && len(x.Call.Args) == 1 {
			return c11IsAgentList(e.cx, x.Call.Args[0].Type())
		}
		if cal.Built == "max" || cal.Built == "min" {
			for _, a := range x.Call.Args {
				b, off := c15Lin(a)
				if off != 0 || !e.isHops(b, depth+1) {
					return false
				}
			}
			return len(x.Call.Args) > 0
		}
	case *ssa.Phi:
		for _, ed := range x.Edges {
			b, off := c15Lin(ed)
			if off != 0 || !e.isHops(b, depth+1) {
				return false
			}
		}
		return len(x.Edges) > 0
	case *ssa.Parameter:
		// an int parameter fed with a hop count at every static call site
		sites := e.cx.p.StaticCallers(x.Parent())
		if len(sites) == 0 {
			return false
		}
		idx := c11ParamIndex(x)
		for _, s := range sites {
			if idx >= len(s.Common().Args) {
				return false
			}
			b, off := c15Lin(s.Common().Args[idx])
			if off != 0 || !e.isHops(b, depth+1) {
				return false
			}
		}
		return true
	}
	return false
}

// atom evaluates a branch condition for an over-limit announcement (hops = limit + delta,
// limit >= 1). known=false: the condition does not depend on these two quantities alone.
func (e *c15Eval) atom(cond ssa.Value) (val, known bool) {
	c, pol := c11Norm(cond, true)
	switch x := c.(type) {
	case *ssa.BinOp:
		switch x.Op {
		case token.LSS, token.LEQ, token.GTR, token.GEQ, token.EQL, token.NEQ:
		default:
			return false, false
		}
		lb, lo := c15Lin(x.X)
		rb, ro := c15Lin(x.Y)
		lLim, rLim := e.taint.vals[lb], e.taint.vals[rb]
		lHop, rHop := e.isHops(lb, 0), e.isHops(rb, 0)
		var res bool
		switch {
		case lHop && rLim: // (limit+delta+lo) OP (limit+ro)
			res = c15Cmp(x.Op, e.delta+lo, ro)
		case lLim && rHop:
			res = c15Cmp(x.Op, lo, e.delta+ro)
		case lLim && !rHop && !rLim:
			k, ok := kit.ConstInt(rb)
			if !ok {
				return false, false
			}
			// limit+lo OP k+ro with limit >= 1: decide when the result is the same for limit=1 and limit=255
			k += ro
			if !c15Monotone(x.Op) {
				if k-lo >= 1 && k-lo <= 255 {
					return false, false
				}
				res = x.Op == token.NEQ
				break
			}
			a, b := c15Cmp(x.Op, 1+lo, k), c15Cmp(x.Op, 255+lo, k)
			if a != b {
				return false, false
			}
			res = a
		case rLim && !lHop && !lLim:
			k, ok := kit.ConstInt(lb)
			if !ok {
				return false, false
			}
			k += lo
			if !c15Monotone(x.Op) {
				if k-ro >= 1 && k-ro <= 255 {
					return false, false
				}
				res = x.Op == token.NEQ
				break
			}
			a, b := c15Cmp(x.Op, k, 1+ro), c15Cmp(x.Op, k, 255+ro)
			if a != b {
				return false, false
			}
			res = a
		default:
			return false, false
		}
		return res == pol, true
	case *ssa.Call:
		cal := kit.CalleeOf(x)
		if cal.Static == nil || cal.Static.Blocks == nil || !kit.IsRepoPkg(cal.Pkg) {
			return false, false
		}
		if rs := cal.Static.Signature.Results(); rs.Len() != 1 || !types.Identical(rs.At(0).Type().Underlying(), types.Typ[types.Bool]) {
			return false, false
		}
		switch e.summary(cal.Static) {
		case 1:
			return pol, true
		case 0:
			return !pol, true
		}
	}
	return false, false
}

func c15Monotone(op token.Token) bool { return op != token.EQL && op != token.NEQ }

func c15Cmp(op token.Token, a, b int64) bool {
	switch op {
	case token.LSS:
		return a < b
	case token.LEQ:
		return a <= b
	case token.GTR:
		return a > b
	case token.GEQ:
		return a >= b
	case token.EQL:
		return a == b
	case token.NEQ:
		return a != b
	}
	return false
}

// reach returns the blocks reachable from the entry of fn for the over-limit announcement.
func (e *c15Eval) reach(fn *ssa.Function) map[*ssa.BasicBlock]bool {
	seen := map[*ssa.BasicBlock]bool{}
	if len(fn.Blocks) == 0 {
		return seen
	}
	work := []*ssa.BasicBlock{fn.Blocks[0]}
	for len(work) > 0 {
		b := work[len(work)-1]
		work = work[:len(work)-1]
		if seen[b] {
			continue
		}
		seen[b] = true
		if n := len(b.Instrs); n > 0 {
			if ifi, ok := b.Instrs[n-1].(*ssa.If); ok {
				if v, known := e.atom(ifi.Cond); known {
					if e.usedK != nil {
						e.usedK[ifi] = true
					}
					if v {
						work = append(work, b.Succs[0])
					} else {
						work = append(work, b.Succs[1])
					}
					continue
				}
			}
		}
		work = append(work, b.Succs...)
	}
	return seen
}

// summary: 1 = the bool function returns true for every over-limit announcement, 0 = false, -1 = depends.
func (e *c15Eval) summary(fn *ssa.Function) int {
	if v, ok := e.memo[fn]; ok {
		return v
	}
	e.memo[fn] = -1
	blocks := e.reach(fn)
	res := -2
	for _, ret := range kit.Returns(fn) {
		if !blocks[ret.Block()] || ret.Block() == fn.Recover {
			continue
		}
		v := kit.ReturnResult(ret, 0)
		var this int
		if b, ok := kit.ConstBool(v); ok {
			this = map[bool]int{true: 1, false: 0}[b]
		} else if b, known := e.atom(v); known {
			this = map[bool]int{true: 1, false: 0}[b]
		} else if ph, ok := v.(*ssa.Phi); ok {
			this = -2
			for i, ed := range ph.Edges {
				if !blocks[ph.Block().Preds[i]] {
					continue
				}
				var ev int
				if b, ok := kit.ConstBool(ed); ok {
					ev = map[bool]int{true: 1, false: 0}[b]
				} else if b, known := e.atom(ed); known {
					ev = map[bool]int{true: 1, false: 0}[b]
				} else {
					ev = -1
				}
				if this == -2 {
					this = ev
				} else if this != ev {
					this = -1
				}
			}
		} else {
			this = -1
		}
		if res == -2 {
			res = this
		} else if res != this {
			res = -1
		}
	}
	if res == -2 {
		res = -1
	}
	e.memo[fn] = res
	return res
}

// ---------------------------------------------------------------- concrete evaluation (round 2)

// c15Val is a known integer or boolean.
type c15Val struct {
	i int64
	b bool
	k int // 0 unknown, 1 int, 2 bool
}

// c15Conc executes the entry point abstractly for one concrete announcement: path length P,
// seen-by length S, configured limit L. Branch conditions over these three numbers (through
// locals, phis, conversions, arithmetic with constants, min/max and repository helpers) are
// evaluated; every other condition forks. It is path-sensitive for the phis it can evaluate, so
// `hops := len(seenBy); if hops == 0 { hops = len(path) }` and `max(len(path), len(seenBy))`
// are told apart.
type c15Conc struct {
	cx      *c11Flood
	taint   *c15Taint
	handler *ssa.Function
	L, P, S int64
	depth   int
}

type c15Frame struct {
	fn    *ssa.Function
	ints  map[*ssa.Parameter]int64
	lists map[*ssa.Parameter]int // 1 = path-like, 2 = received seen-by list
}

func (e *c15Conc) listClass(v ssa.Value, fr *c15Frame) int {
	for i := 0; i < 6; i++ {
		switch x := v.(type) {
		case *ssa.ChangeType:
			v = x.X
			continue
		case *ssa.Parameter:
			if c, ok := fr.lists[x]; ok {
				return c
			}
		}
		break
	}
	if !c11IsAgentList(e.cx, v.Type()) {
		return 0
	}
	if fr.fn == e.handler && c11RecvList(e.cx, v, e.handler) {
		return 2
	}
	return 1
}

func (e *c15Conc) evalInt(v ssa.Value, fr *c15Frame, env map[*ssa.Phi]c15Val) (int64, bool) {
	if e.taint.vals[v] {
		return e.L, true
	}
	switch x := v.(type) {
	case *ssa.Const:
		return kit.ConstInt(x)
	case *ssa.Convert:
		return e.evalInt(x.X, fr, env)
	case *ssa.ChangeType:
		return e.evalInt(x.X, fr, env)
	case *ssa.Parameter:
		if k, ok := fr.ints[x]; ok {
			return k, true
		}
	case *ssa.Phi:
		if val, ok := env[x]; ok && val.k == 1 {
			return val.i, true
		}
	case *ssa.BinOp:
		a, ok1 := e.evalInt(x.X, fr, env)
		b, ok2 := e.evalInt(x.Y, fr, env)
		if !ok1 || !ok2 {
			return 0, false
		}
		switch x.Op {
		case token.ADD:
			return a + b, true
		case token.SUB:
			return a - b, true
		case token.MUL:
			return a * b, true
		case token.QUO:
			if b != 0 {
				return a / b, true
			}
		}
	case *ssa.Call:
		cal := kit.CalleeOf(x)
		switch cal.Built {
		case "len":
			switch e.listClass(x.Call.Args[0], fr) {
			case 1:
				return e.P, true
			case 2:
				return e.S, true
			}
		case "":
			// a repository helper returning one integer (hop count of a path / seen-by list)
			if cal.Static != nil && cal.Static.Blocks != nil && kit.IsRepoPkg(cal.Pkg) && e.depth < 3 && !x.Call.IsInvoke() &&
				cal.Static.Signature.Results().Len() == 1 {
				if b, isB := cal.Static.Signature.Results().At(0).Type().Underlying().(*types.Basic); isB && b.Info()&types.IsInteger != 0 {
					nf := e.bindFrame(cal.Static, x, fr, env)
					e.depth++
					_, _, ints, unknown := e.runAll(nf)
					e.depth--
					if !unknown && len(ints) == 1 {
						for k := range ints {
							return k, true
						}
					}
				}
			}
		case "max", "min":
			var res int64
			for i, a := range x.Call.Args {
				k, ok := e.evalInt(a, fr, env)
				if !ok {
					return 0, false
				}
				if i == 0 || (cal.Built == "max" && k > res) || (cal.Built == "min" && k < res) {
					res = k
				}
			}
			return res, len(x.Call.Args) > 0
		}
	}
	return 0, false
}

func (e *c15Conc) evalBool(v ssa.Value, fr *c15Frame, env map[*ssa.Phi]c15Val) (bool, bool) {
	c, pol := c11Norm(v, true)
	switch x := c.(type) {
	case *ssa.Const:
		if b, ok := kit.ConstBool(x); ok {
			return b == pol, true
		}
	case *ssa.Phi:
		if val, ok := env[x]; ok && val.k == 2 {
			return val.b == pol, true
		}
	case *ssa.BinOp:
		switch x.Op {
		case token.LSS, token.LEQ, token.GTR, token.GEQ, token.EQL, token.NEQ:
			a, ok1 := e.evalInt(x.X, fr, env)
			b, ok2 := e.evalInt(x.Y, fr, env)
			if ok1 && ok2 {
				return c15Cmp(x.Op, a, b) == pol, true
			}
		}
	case *ssa.Call:
		cal := kit.CalleeOf(x)
		if cal.Static == nil || cal.Static.Blocks == nil || !kit.IsRepoPkg(cal.Pkg) || e.depth >= 3 {
			return false, false
		}
		rs := cal.Static.Signature.Results()
		if rs.Len() != 1 || !types.Identical(rs.At(0).Type().Underlying(), types.Typ[types.Bool]) {
			return false, false
		}
		nf := e.bindFrame(cal.Static, x, fr, env)
		e.depth++
		_, rets := e.run(nf)
		e.depth--
		if len(rets) == 1 {
			for b := range rets {
				return b == pol, true
			}
		}
	}
	return false, false
}

// bindFrame binds the callee's parameters to what the call's arguments evaluate to.
func (e *c15Conc) bindFrame(callee *ssa.Function, x *ssa.Call, fr *c15Frame, env map[*ssa.Phi]c15Val) *c15Frame {
	nf := &c15Frame{fn: callee, ints: map[*ssa.Parameter]int64{}, lists: map[*ssa.Parameter]int{}}
	for i, prm := range callee.Params {
		if i >= len(x.Call.Args) {
			break
		}
		a := x.Call.Args[i]
		if b, isB := a.Type().Underlying().(*types.Basic); isB && b.Info()&types.IsInteger != 0 {
			if k, ok := e.evalInt(a, fr, env); ok {
				nf.ints[prm] = k
			}
		} else if cl := e.listClass(a, fr); cl != 0 {
			nf.lists[prm] = cl
		}
	}
	return nf
}

// run explores fn from its entry; returns the reachable blocks and, for bool functions, the set
// of values it can return (an undecidable return value contributes both).
func (e *c15Conc) run(fr *c15Frame) (map[*ssa.BasicBlock]bool, map[bool]bool) {
	reached, rets, _, _ := e.runAll(fr)
	return reached, rets
}

// runAll is run that also collects the integer values a single-result int function can return
// (intUnknown: some reachable return could not be evaluated).
func (e *c15Conc) runAll(fr *c15Frame) (map[*ssa.BasicBlock]bool, map[bool]bool, map[int64]bool, bool) {
	reached := map[*ssa.BasicBlock]bool{}
	rets := map[bool]bool{}
	intRets := map[int64]bool{}
	intUnknown := false
	fn := fr.fn
	if len(fn.Blocks) == 0 {
		return reached, rets, intRets, true
	}
	type state struct {
		b   *ssa.BasicBlock
		env map[*ssa.Phi]c15Val
	}
	keyOf := func(st state) string {
		var parts []string
		for ph, v := range st.env {
			parts = append(parts, fmt.Sprintf("%s=%d/%v/%d", ph.Name(), v.i, v.b, v.k))
		}
		sort.Strings(parts)
		return fmt.Sprintf("%d|%s", st.b.Index, strings.Join(parts, ","))
	}
	seen := map[string]bool{}
	work := []state{{fn.Blocks[0], map[*ssa.Phi]c15Val{}}}
	steps := 0
	for len(work) > 0 && steps < 20000 {
		steps++
		st := work[len(work)-1]
		work = work[:len(work)-1]
		k := keyOf(st)
		if seen[k] {
			continue
		}
		seen[k] = true
		reached[st.b] = true
		n := len(st.b.Instrs)
		if n == 0 {
			continue
		}
		enter := func(succ *ssa.BasicBlock) {
			env := map[*ssa.Phi]c15Val{}
			for ph, v := range st.env {
				env[ph] = v
			}
			idx := -1
			for i, pr := range succ.Preds {
				if pr == st.b {
					idx = i
				}
			}
			// evaluate the phis of succ simultaneously from the old environment
			upd := map[*ssa.Phi]c15Val{}
			for _, in := range succ.Instrs {
				ph, ok := in.(*ssa.Phi)
				if !ok {
					break
				}
				if idx < 0 || idx >= len(ph.Edges) {
					continue
				}
				ed := ph.Edges[idx]
				if b, ok := ph.Type().Underlying().(*types.Basic); ok && b.Kind() == types.Bool {
					if v, known := e.evalBool(ed, fr, st.env); known {
						upd[ph] = c15Val{b: v, k: 2}
						continue
					}
				} else if v, known := e.evalInt(ed, fr, st.env); known && c15HopRelated(e, ed, fr) {
					upd[ph] = c15Val{i: v, k: 1}
					continue
				}
				upd[ph] = c15Val{}
			}
			for ph, v := range upd {
				if v.k == 0 {
					delete(env, ph)
				} else {
					env[ph] = v
				}
			}
			work = append(work, state{succ, env})
		}
		switch last := st.b.Instrs[n-1].(type) {
		case *ssa.If:
			if v, known := e.evalBool(last.Cond, fr, st.env); known {
				if v {
					enter(st.b.Succs[0])
				} else {
					enter(st.b.Succs[1])
				}
			} else {
				enter(st.b.Succs[0])
				enter(st.b.Succs[1])
			}
		case *ssa.Return:
			if st.b != fn.Recover && len(last.Results) == 1 {
				rv := kit.ReturnResult(last, 0)
				if b, isB := rv.Type().Underlying().(*types.Basic); isB && b.Info()&types.IsInteger != 0 {
					if k, known := e.evalInt(rv, fr, st.env); known {
						intRets[k] = true
					} else {
						intUnknown = true
					}
				} else if v, known := e.evalBool(rv, fr, st.env); known {
					rets[v] = true
				} else {
					rets[true], rets[false] = true, true
				}
			}
		default:
			for _, sc := range st.b.Succs {
				enter(sc)
			}
		}
	}
	return reached, rets, intRets, intUnknown
}

// c15HopRelated: the expression involves a list length or the limit (loop counters and other
// integers are not tracked, which keeps the exploration finite).
func c15HopRelated(e *c15Conc, v ssa.Value, fr *c15Frame) bool {
	hit := false
	g4Operands(v, func(x ssa.Value) {
		if e.taint.vals[x] {
			hit = true
		}
		if c, ok := x.(*ssa.Call); ok && kit.CalleeOf(c).Built == "len" && len(c.Call.Args) == 1 && e.listClass(c.Call.Args[0], fr) != 0 {
			hit = true
		}
		if prm, ok := x.(*ssa.Parameter); ok {
			if _, bound := fr.ints[prm]; bound {
				hit = true
			}
		}
	}, nil)
	return hit
}

func runC15(p *kit.Program, r *kit.Report) {
	r.Rule("C15.R1", "the configured hop limit config.RoutingConfig.MaxHops flows (assignments, conversions, struct fields, call arguments) into code of internal/flood")
	r.Rule("C15.R3", "the stored path that replays carry (the hop count across a full-table sync) is never left behind by an in-place refresh of a stored route record")
	r.Rule("C15.R2", "in the receive entry point for route advertisements, no route store and no forward call is reachable when the comparisons of the announcement's hop count with the configured limit are evaluated for an over-limit announcement")
	cx := newC11Flood(p, r)
	if cx == nil {
		return
	}
	knob := p.Field("internal/config", "RoutingConfig", "MaxHops")
	if !r.Require(knob != nil, "anchor-unresolved: field internal/config.RoutingConfig.MaxHops") {
		return
	}
	taint := c15Forward(p, knob)
	r.Count("values_carrying_the_limit", len(taint.vals))
	r.Count("fields_carrying_the_limit", len(taint.fields))
	// R1
	inFlood := 0
	var where ssa.Value
	for v := range taint.vals {
		in, ok := v.(ssa.Instruction)
		var fn *ssa.Function
		if ok {
			fn = in.Parent()
		} else if prm, ok := v.(*ssa.Parameter); ok {
			fn = prm.Parent()
		}
		if fn != nil && kit.FuncPkgPath(fn) == kit.PkgPath(c11FloodPkg) {
			inFlood++
			if where == nil || v.Pos() < where.Pos() {
				where = v
			}
		}
	}
	r.Count("limit_values_inside_flood", inFlood)
	pos := "-"
	if where != nil {
		pos = p.Pos(where.Pos())
	}
	r.Decide(inFlood > 0, "C15.R1", "config.RoutingConfig.MaxHops reaches internal/flood", pos,
		fmt.Sprintf("the limit is carried by %d field(s) and read by flood code", len(taint.fields)),
		"routing.max_hops is validated but its value never reaches the flooder: announcements travel any number of hops whatever the configuration says")

	// R2: the handler whose forwarded literal is a RouteAdvertise
	var handler *ssa.Function
	for _, h := range cx.handlers {
		hit := false
		for _, la := range c11ForwardedLits(cx, h) {
			if la.lit.typ.Obj().Name() == "RouteAdvertise" {
				hit = true
			}
		}
		if hit {
			if handler != nil {
				r.Floor("anchor-unresolved: more than one receive entry point forwards RouteAdvertise (%s, %s)", kit.FuncName(handler), kit.FuncName(h))
				return
			}
			handler = h
		}
	}
	if !r.Require(handler != nil, "anchor-unresolved: receive entry point that forwards protocol.RouteAdvertise") {
		return
	}
	hn := kit.FuncName(handler)
	var sinks []c11Sink
	for _, s := range c11Sinks(cx, handler) {
		if s.kind != "result" {
			sinks = append(sinks, s)
		}
	}
	r.Count("effects_checked", len(sinks))
	if !r.Require(len(sinks) >= 2, "floor: %d store/forward effects found in %s, expected at least 2", len(sinks), hn) {
		return
	}
	bad := map[string]int64{}
	used := map[*ssa.If]bool{}
	for _, delta := range []int64{1, 2, 1000} {
		ev := &c15Eval{cx: cx, taint: taint, delta: delta, memo: map[*ssa.Function]int{}, usedK: used}
		blocks := ev.reach(handler)
		for _, s := range sinks {
			if blocks[s.in.Block()] {
				if _, dup := bad[s.name]; !dup {
					bad[s.name] = delta
				}
			}
		}
	}
	r.Count("hop_limit_branches_evaluated", len(used))
	// concrete scenarios: a flooded copy (path and seen-by list both limit+d long) and a copy that
	// went through a full-table replay (path limit+d long, seen-by list restarted at one entry)
	badWhy := map[string]string{}
	nScen := 0
	// scenario 2 exists when the forwarder can hand the received path data on unchanged (the
	// branch for encrypted legacy paths): then the path does not grow per hop, only seen-by does
	scenarios := []int{0, 1}
	for _, la := range c11ForwardedLits(cx, handler) {
		if la.lit.typ.Obj().Name() != "RouteAdvertise" {
			continue
		}
		if ep := la.lit.vals["EncPath"]; ep != nil {
			for _, a := range c12Alts(ep, nil) {
				if c12IsReceivedEnc(cx, a.v) && len(scenarios) == 2 {
					scenarios = append(scenarios, 2)
				}
			}
		}
	}
	r.Count("path_forwarded_unchanged_branch", len(scenarios)-2)
	for _, L := range []int64{1, 16, 255} {
		for _, delta := range []int64{1, 2, 1000} {
			for _, scen := range scenarios {
				replay := scen == 1
				nScen++
				ce := &c15Conc{cx: cx, taint: taint, handler: handler, L: L, P: L + delta, S: L + delta}
				what := fmt.Sprintf("a flooded announcement with a path and a seen-by list of limit+%d entries (limit %d)", delta, L)
				if replay {
					ce.S = 1
					what = fmt.Sprintf("an announcement relayed by a full-table replay: path of limit+%d entries, seen-by list restarted at 1 entry (limit %d)", delta, L)
				}
				if scen == 2 {
					ce.P = 1
					what = fmt.Sprintf("an announcement whose path is forwarded unchanged at every hop (legacy sealed path: it stays [origin], length 1) with a seen-by list of limit+%d entries (limit %d)", delta, L)
				}
				blocks, _ := ce.run(&c15Frame{fn: handler, ints: map[*ssa.Parameter]int64{}, lists: map[*ssa.Parameter]int{}})
				for _, s := range sinks {
					if blocks[s.in.Block()] {
						if _, dup := badWhy[s.name]; !dup {
							badWhy[s.name] = what
						}
					}
				}
			}
		}
	}
	r.Count("concrete_scenarios_evaluated", nScen)
	for _, s := range sinks {
		// the verdict is the concrete evaluation's (it covers the flooded scenario the symbolic pass
		// of round 1 evaluated, and follows helpers, locals, min/max and swapped operands exactly);
		// the symbolic pass is kept as a measured counter only
		_ = bad
		why, isBad2 := badWhy[s.name]
		msg := "reachable for " + why + ": routes are stored / forwarded beyond routing.max_hops (the hop count compared with the limit must not be smaller than the path length, which is what survives a replay)"
		r.Decide(!isBad2, "C15.R2", hn+" "+s.name+" within hop limit", p.Pos(s.in.Pos()),
			"unreachable for an announcement that is over the configured hop limit (flooded or replayed)", msg)
	}

	// ---------------- R3
	g4ReportInPlace(p, r, "C15.R3", "the stored path is what SendFullTable prepends the local id to; a path kept from an older, shorter advertisement understates the distance, so agents beyond routing.max_hops accept, store and forward the replayed routes")
}
