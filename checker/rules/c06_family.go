package rules

import (
	"fmt"
	"go/token"
	"go/types"

	"golang.org/x/tools/go/ssa"

	"mmverify/kit"
)

// C06.R6: a wire Route built from a *net.IPNet takes its address family from the same representation
// as its prefix length. When PrefixLength comes from Mask.Size(), the family must be decided by the
// mask's width (the bits result of Mask.Size(), or len(Mask)); a family decided by the IP's form
// (IP.To4(), len(IP)) can disagree with the mask for IPv4-mapped IPv6 networks.

func c06isMaskSizeCall(v ssa.Value) (*ssa.Call, bool) {
	c, ok := v.(*ssa.Call)
	if !ok {
		return nil, false
	}
	cal := kit.CalleeOf(c)
	return c, cal.Pkg == "net" && cal.Recv == "IPMask" && cal.Name == "Size"
}

func c06netField(v ssa.Value, name string) bool {
	f, _ := kit.LoadedField(v)
	return f != nil && f.Name() == name && f.Pkg() != nil && f.Pkg().Path() == "net"
}

// c06deps reports whether v depends on the mask width (bits result of Mask.Size / len(Mask)), on the
// mask's ones count, and on the IP field of a net.IPNet.
func c06deps(v ssa.Value) (maskBits, maskOnes, ip bool) {
	seen := map[ssa.Value]bool{}
	var rec func(x ssa.Value, d int)
	rec = func(x ssa.Value, d int) {
		if x == nil || seen[x] || d > 12 {
			return
		}
		seen[x] = true
		if c06netField(x, "IP") {
			ip = true
			return
		}
		switch t := x.(type) {
		case *ssa.Extract:
			if _, ok := c06isMaskSizeCall(t.Tuple); ok {
				if t.Index == 1 {
					maskBits = true
				} else {
					maskOnes = true
				}
				return
			}
			rec(t.Tuple, d+1)
		case *ssa.Call:
			if kit.CalleeOf(t).Built == "len" && len(t.Call.Args) == 1 && c06netField(t.Call.Args[0], "Mask") {
				maskBits = true
				return
			}
			for _, a := range t.Call.Args {
				rec(a, d+1)
			}
			if t.Call.IsInvoke() {
				rec(t.Call.Value, d+1)
			}
		case *ssa.BinOp:
			rec(t.X, d+1)
			rec(t.Y, d+1)
		case *ssa.UnOp:
			rec(t.X, d+1)
		case *ssa.Convert:
			rec(t.X, d+1)
		case *ssa.ChangeType:
			rec(t.X, d+1)
		case *ssa.Slice:
			rec(t.X, d+1)
		case *ssa.Phi:
			for _, e := range t.Edges {
				rec(e, d+1)
			}
		case *ssa.TypeAssert:
			rec(t.X, d+1)
		case *ssa.MakeInterface:
			rec(t.X, d+1)
		}
	}
	rec(v, 0)
	return
}

// c06deciders collects the branch conditions that select among the alternatives of value v (phi
// merges, or the guarded returns of a repository helper).
func c06deciders(v ssa.Value, depth int) []ssa.Value {
	var out []ssa.Value
	switch t := v.(type) {
	case *ssa.Phi:
		common := map[*ssa.If]bool{}
		for _, g := range kit.Guards(t.Block()) {
			common[g.If] = true
		}
		for i, e := range t.Edges {
			pred := t.Block().Preds[i]
			for _, g := range kit.Guards(pred) {
				if !common[g.If] {
					out = append(out, g.Cond)
				}
			}
			if ifi, ok := pred.Instrs[len(pred.Instrs)-1].(*ssa.If); ok {
				out = append(out, ifi.Cond)
			}
			if depth < 3 {
				out = append(out, c06deciders(e, depth+1)...)
			}
		}
	case *ssa.Convert:
		return c06deciders(t.X, depth)
	case *ssa.Call:
		if st := kit.CalleeOf(t).Static; st != nil && st.Blocks != nil && kit.IsRepoPkg(kit.FuncPkgPath(st)) && depth < 2 {
			for _, ret := range kit.Returns(st) {
				for _, g := range kit.GuardsOf(ret) {
					out = append(out, g.Cond)
				}
				if len(ret.Results) > 0 {
					out = append(out, c06deciders(kit.ReturnResult(ret, 0), depth+1)...)
				}
			}
		}
	}
	return out
}

func c06family(p *kit.Program, r *kit.Report) {
	r.Rule("C06.R6", "a wire Route whose PrefixLength is the ones count of an IPNet mask takes its AddressFamily from the width of that mask (bits of Mask.Size() or len(Mask)), not from the form of the IP (To4 / len(IP)): the two disagree for IPv4-mapped IPv6 networks")
	plen := p.Field("internal/protocol", "Route", "PrefixLength")
	fam := p.Field("internal/protocol", "Route", "AddressFamily")
	if plen == nil || fam == nil {
		return
	}
	n := 0
	ord := map[string]int{}
	for _, acc := range p.FieldAccessesOfKind(plen, kit.FieldStore) {
		if kit.FuncPkgPath(acc.Fn) == kit.PkgPath("internal/protocol") {
			continue
		}
		_, ones, _ := c06deps(acc.Val)
		if !ones {
			continue // prefix length not taken from a mask: not a converter from net.IPNet
		}
		st, ok := acc.Instr.(*ssa.Store)
		if !ok {
			continue
		}
		fa, ok := st.Addr.(*ssa.FieldAddr)
		if !ok || fa.X.Referrers() == nil {
			continue
		}
		// the AddressFamily stored into the same Route value
		var famVal ssa.Value
		for _, ref := range *fa.X.Referrers() {
			if fa2, ok := ref.(*ssa.FieldAddr); ok && kit.FieldOfAddr(fa2) == fam && fa2.Referrers() != nil {
				for _, r2 := range *fa2.Referrers() {
					if s2, ok := r2.(*ssa.Store); ok && s2.Addr == fa2 {
						famVal = s2.Val
					}
				}
			}
		}
		if famVal == nil {
			continue
		}
		n++
		fname := kit.FuncName(acc.Fn)
		ord[fname]++
		key := fmt.Sprintf("%s Route from IPNet #%d family", fname, ord[fname])
		conds := c06deciders(famVal, 0)
		byIP, byMask := "", false
		for _, c := range conds {
			mb, _, ip := c06deps(c)
			if mb {
				byMask = true
			}
			if ip && !mb {
				byIP = p.Pos(c.Pos())
			}
		}
		// the family value itself may be computed from the IP (e.g. a helper on network.IP)
		if _, _, ip := c06deps(famVal); ip && !byMask && byIP == "" {
			byIP = p.Pos(st.Pos())
		}
		switch {
		case byIP != "":
			r.Violation("C06.R6", key, p.Pos(st.Pos()),
				"PrefixLength is the ones count of the mask but AddressFamily is decided by the form of the IP (condition at %s): for an IPv4-mapped IPv6 network (::ffff:a.b.c.d/112) the route goes on the wire as IPv4 with a prefix length above 32 and neighbours decode a different, invalid route", byIP)
		case byMask || len(conds) == 0:
			r.OK("C06.R6", key, p.Pos(st.Pos()), "family and prefix length are both derived from the mask")
		default:
			r.Infof("C06.R6", key, p.Pos(st.Pos()), "the address family is decided by conditions that are neither on the mask width nor on the IP; not judged")
		}
	}
	r.Count("routes_built_from_ipnet", n)
	_ = token.ADD
	_ = types.Typ
}
