package rules

import (
	"fmt"
	"go/token"
	"go/types"
	"strconv"

	"golang.org/x/tools/go/ssa"

	"mmverify/kit"
)

func init() {
	const fwh = "internal/forward/handler.go"
	const agt = "internal/agent/agent.go"
	register(&Check{
		ID: "C20", Level: "other", Patterns: []string{"./internal/agent"},
		Technique: "inter-procedural origin tracing of the dial address, CFG liveness on the lookup-miss edge, map write-set, call-site argument shape",
		Explain: "Decides on the SSA of internal/forward and internal/agent: (R1) the address of every net dial in package forward originates, through local variables and direct parameter passing only, in a lookup of Handler.targets whose key is the requested key parameter unchanged, and the dial is unreachable when that lookup misses; (R2) on the miss edge every path sends a stream-open error with code ErrForwardNotFound before returning, and the agent answers ErrForwardNotFound when it has no forward handler; (R3) Handler.targets is assigned only in the constructor from a map filled with Endpoint.Key -> Endpoint.Target of one and the same configured endpoint, and is never inserted into, deleted from or cleared afterwards; (R4) the key the agent hands to the forward handler is the requested address with exactly the constant forward prefix removed. " +
			"Not decided: what the configured target string resolves to at dial time.",
		Run: runC20,
		SelfTests: []SelfTest{
			{Name: "lookup result used without its ok flag", ExpectRule: "C20.R1", ExpectKey: "guard", Edits: []Edit{
				{File: fwh, Old: "\ttarget, ok := h.targets[key]\n\tif !ok {\n\t\th.sendOpenErr(remoteID, streamID, requestID, protocol.ErrForwardNotFound, \"forward key not found\")\n\t\treturn fmt.Errorf(\"forward key not found: %s\", key)\n\t}\n", New: "\ttarget, ok := h.targets[key]\n\tif !ok {\n\t\th.sendOpenErr(remoteID, streamID, requestID, protocol.ErrForwardNotFound, \"forward key not found\")\n\t}\n"},
			}},
			{Name: "unknown key falls back to dialling the key itself", ExpectRule: "C20.R1", ExpectKey: "address", Edits: []Edit{
				{File: fwh, Old: "\ttarget, ok := h.targets[key]\n\tif !ok {\n\t\th.sendOpenErr(remoteID, streamID, requestID, protocol.ErrForwardNotFound, \"forward key not found\")\n\t\treturn fmt.Errorf(\"forward key not found: %s\", key)\n\t}\n", New: "\ttarget, ok := h.targets[key]\n\tif !ok {\n\t\ttarget = key\n\t}\n"},
			}},
			{Name: "key is case-folded before the lookup", ExpectRule: "C20.R1", ExpectKey: "key", Edits: []Edit{
				{File: fwh, Old: "\ttarget, ok := h.targets[key]\n\tif !ok {", New: "\ttarget, ok := h.targets[strings.ToLower(key)]\n\tif !ok {"},
			}},
			{Name: "prefix match instead of exact key", ExpectRule: "C20.R1", ExpectKey: "address", Edits: []Edit{
				{File: fwh, Old: "\ttarget, ok := h.targets[key]\n\tif !ok {", New: "\ttarget, ok := h.targets[key]\n\tif !ok {\n\t\tfor k, t := range h.targets {\n\t\t\tif strings.HasPrefix(key, k) {\n\t\t\t\ttarget, ok = t, true\n\t\t\t}\n\t\t}\n\t}\n\tif !ok {"},
			}},
			{Name: "dial the key instead of the target", ExpectRule: "C20.R1", ExpectKey: "address", Edits: []Edit{
				{File: fwh, Old: "\tconn, err := dialer.DialContext(ctx, \"tcp\", target)", New: "\tconn, err := dialer.DialContext(ctx, \"tcp\", key)"},
			}},
			{Name: "miss answered with a general failure", ExpectRule: "C20.R2", ExpectKey: "miss", Edits: []Edit{
				{File: fwh, Old: "\t\th.sendOpenErr(remoteID, streamID, requestID, protocol.ErrForwardNotFound, \"forward key not found\")", New: "\t\th.sendOpenErr(remoteID, streamID, requestID, protocol.ErrGeneralFailure, \"forward key not found\")"},
			}},
			{Name: "miss not answered at all", ExpectRule: "C20.R2", ExpectKey: "miss", Edits: []Edit{
				{File: fwh, Old: "\t\th.sendOpenErr(remoteID, streamID, requestID, protocol.ErrForwardNotFound, \"forward key not found\")\n\t\treturn fmt.Errorf(\"forward key not found: %s\", key)", New: "\t\treturn fmt.Errorf(\"forward key not found: %s\", key)"},
			}},
			{Name: "agent without forward handler answers host-unreachable", ExpectRule: "C20.R2", ExpectKey: "no forward handler", Edits: []Edit{
				{File: agt, Old: "\t\t\t\t\t\tErrorCode: protocol.ErrForwardNotFound,\n\t\t\t\t\t\tMessage:   \"forward key not configured\",", New: "\t\t\t\t\t\tErrorCode: protocol.ErrHostUnreachable,\n\t\t\t\t\t\tMessage:   \"forward key not configured\","},
			}},
			{Name: "targets map built target -> key", ExpectRule: "C20.R3", ExpectKey: "constructor", Edits: []Edit{
				{File: fwh, Old: "\t\ttargets[ep.Key] = ep.Target\n", New: "\t\ttargets[ep.Target] = ep.Key\n"},
			}},
			{Name: "targets learned at run time", ExpectRule: "C20.R3", ExpectKey: "SetTarget", Edits: []Edit{
				{File: fwh, Old: "// GetKeys returns all configured routing keys.", New: "// SetTarget overrides a target.\nfunc (h *Handler) SetTarget(key, target string) {\n\th.targets[key] = target\n}\n\n// GetKeys returns all configured routing keys."},
			}},
			{Name: "agent lower-cases the key", ExpectRule: "C20.R4", Edits: []Edit{
				{File: agt, Old: "\t\t\t\tkey := strings.TrimPrefix(destAddr, protocol.ForwardStreamPrefix)\n", New: "\t\t\t\tkey := strings.ToLower(strings.TrimPrefix(destAddr, protocol.ForwardStreamPrefix))\n"},
			}},
			{Name: "agent trims a different prefix", ExpectRule: "C20.R4", Edits: []Edit{
				{File: agt, Old: "\t\t\t\tkey := strings.TrimPrefix(destAddr, protocol.ForwardStreamPrefix)\n", New: "\t\t\t\tkey := strings.TrimPrefix(destAddr, \"forward\")\n"},
			}},
			{Name: "target carried to the dial through a table keyed by the stream id", ExpectRule: "C20.R1", ExpectKey: "address", Edits: []Edit{
				{File: fwh, Old: "\ttargets map[string]string // routing key -> target\n", New: "\ttargets map[string]string // routing key -> target\n\tpendingTargets map[uint64]string\n"},
				{File: fwh, Old: "\t\ttargets:     targets,\n", New: "\t\ttargets:     targets,\n\t\tpendingTargets: make(map[uint64]string),\n"},
				{File: fwh, Old: "\tgo h.handleStreamOpenAsync(ctx, streamID, requestID, remoteID, key, target, remoteEphemeralPub)\n", New: "\th.mu.Lock()\n\th.pendingTargets[streamID] = target\n\th.mu.Unlock()\n\tgo h.handleStreamOpenAsync(ctx, streamID, requestID, remoteID, key, target, remoteEphemeralPub)\n"},
				{File: fwh, Old: "\t// Connect to target\n\tdialer := &net.Dialer{Timeout: h.cfg.ConnectTimeout}\n", New: "\th.mu.RLock()\n\ttarget = h.pendingTargets[streamID]\n\th.mu.RUnlock()\n\t// Connect to target\n\tdialer := &net.Dialer{Timeout: h.cfg.ConnectTimeout}\n"},
			}},
			{Name: "a resolver callback is consulted instead of the configured table", ExpectRule: "C20.R1", ExpectKey: "address", Edits: []Edit{
				{File: fwh, Old: "\tLogger *slog.Logger\n}", New: "\tLogger *slog.Logger\n\n\tResolve func(key string) (string, bool)\n}"},
				{File: fwh, Old: "func (h *Handler) GetTarget(key string) (string, bool) {\n", New: "func (h *Handler) GetTarget(key string) (string, bool) {\n\tif h.cfg.Resolve != nil {\n\t\treturn h.cfg.Resolve(key)\n\t}\n"},
				{File: fwh, Old: "\ttarget, ok := h.targets[key]\n\tif !ok {", New: "\ttarget, ok := h.GetTarget(key)\n\tif !ok {"},
			}},
			{Name: "unknown key falls back to a default endpoint", ExpectRule: "C20.R1", ExpectKey: "lookup key", Edits: []Edit{
				{File: fwh, Old: "\ttarget, ok := h.targets[key]\n\tif !ok {", New: "\ttarget, ok := h.targets[key]\n\tif !ok {\n\t\ttarget, ok = h.targets[\"default\"]\n\t}\n\tif !ok {"},
			}},
			{Name: "target rewritten after the lookup", ExpectRule: "C20.R1", ExpectKey: "address", Edits: []Edit{
				{File: fwh, Old: "\tconn, err := dialer.DialContext(ctx, \"tcp\", target)", New: "\tconn, err := dialer.DialContext(ctx, \"tcp\", strings.Replace(target, \"{key}\", key, 1))"},
			}},
			{Name: "agent takes the key after the last occurrence of the prefix", ExpectRule: "C20.R4", Edits: []Edit{
				{File: agt, Old: "\t\t\t\tkey := strings.TrimPrefix(destAddr, protocol.ForwardStreamPrefix)\n", New: "\t\t\t\tkey := destAddr[strings.LastIndex(destAddr, protocol.ForwardStreamPrefix)+len(protocol.ForwardStreamPrefix):]\n"},
			}},
			{Name: "agent answers through WriteStreamOpenErr with the wrong code", ExpectRule: "C20.R2", ExpectKey: "no forward handler", Edits: []Edit{
				{File: agt, Old: "\t\t\t\tif a.forwardHandler != nil {\n\t\t\t\t\tctx := context.Background()\n\t\t\t\t\ta.forwardHandler.HandleStreamOpen(ctx, frame.StreamID, open.RequestID, peerID, key, open.EphemeralPubKey)\n\t\t\t\t} else {\n\t\t\t\t\t// No forward handler - send error\n\t\t\t\t\terrPayload := &protocol.StreamOpenErr{\n\t\t\t\t\t\tRequestID: open.RequestID,\n\t\t\t\t\t\tErrorCode: protocol.ErrForwardNotFound,\n\t\t\t\t\t\tMessage:   \"forward key not configured\",\n\t\t\t\t\t}\n\t\t\t\t\terrFrame := &protocol.Frame{\n\t\t\t\t\t\tType:     protocol.FrameStreamOpenErr,\n\t\t\t\t\t\tStreamID: frame.StreamID,\n\t\t\t\t\t\tPayload:  errPayload.Encode(),\n\t\t\t\t\t}\n\t\t\t\t\ta.peerMgr.SendToPeer(peerID, errFrame)\n\t\t\t\t}\n\t\t\t\treturn\n", New: "\t\t\t\tif a.forwardHandler == nil {\n\t\t\t\t\ta.WriteStreamOpenErr(peerID, frame.StreamID, open.RequestID, protocol.ErrGeneralFailure, \"forward key not configured\")\n\t\t\t\t\treturn\n\t\t\t\t}\n\t\t\t\ta.forwardHandler.HandleStreamOpen(context.Background(), frame.StreamID, open.RequestID, peerID, key, open.EphemeralPubKey)\n\t\t\t\treturn\n"},
			}},
			{Name: "constructor helper indexes the endpoints target -> key", ExpectRule: "C20.R3", ExpectKey: "constructor", Edits: []Edit{
				{File: fwh, Old: "\ttargets := make(map[string]string)\n\tfor _, ep := range cfg.Endpoints {\n\t\ttargets[ep.Key] = ep.Target\n\t}\n", New: "\ttargets := indexEndpoints(cfg.Endpoints)\n"},
				{File: fwh, Old: "// GetKeys returns all configured routing keys.", New: "func indexEndpoints(endpoints []Endpoint) map[string]string {\n\tbyKey := make(map[string]string)\n\tfor i := range endpoints {\n\t\tbyKey[endpoints[i].Target] = endpoints[i].Key\n\t}\n\treturn byKey\n}\n\n// GetKeys returns all configured routing keys."},
			}},
			{Name: "lookup helper is handed a table other than the configured one", ExpectRule: "C20.R1", ExpectKey: "address", Edits: []Edit{
				{File: fwh, Old: "\ttarget, ok := h.targets[key]\n\tif !ok {", New: "\ttarget, ok := lookupIn(map[string]string{key: key}, key)\n\tif !ok {"},
				{File: fwh, Old: "// GetKeys returns all configured routing keys.", New: "func lookupIn(t map[string]string, key string) (string, bool) {\n\ttarget, ok := t[key]\n\treturn target, ok\n}\n\n// GetKeys returns all configured routing keys."},
			}},
			// rewrites
			{Name: "rewrite: positive ok test", Edits: []Edit{
				{File: fwh, Old: "\ttarget, ok := h.targets[key]\n\tif !ok {\n\t\th.sendOpenErr(remoteID, streamID, requestID, protocol.ErrForwardNotFound, \"forward key not found\")\n\t\treturn fmt.Errorf(\"forward key not found: %s\", key)\n\t}\n\n\t// Perform the rest asynchronously to avoid blocking the frame processing loop.\n\tgo h.handleStreamOpenAsync(ctx, streamID, requestID, remoteID, key, target, remoteEphemeralPub)\n\n\treturn nil\n", New: "\tif target, ok := h.targets[key]; ok {\n\t\tgo h.handleStreamOpenAsync(ctx, streamID, requestID, remoteID, key, target, remoteEphemeralPub)\n\t\treturn nil\n\t}\n\th.sendOpenErr(remoteID, streamID, requestID, protocol.ErrForwardNotFound, \"forward key not found\")\n\treturn fmt.Errorf(\"forward key not found: %s\", key)\n"},
			}},
			{Name: "rewrite: asynchronous step wrapped in a closure", Edits: []Edit{
				{File: fwh, Old: "\tgo h.handleStreamOpenAsync(ctx, streamID, requestID, remoteID, key, target, remoteEphemeralPub)\n", New: "\tgo func() {\n\t\th.handleStreamOpenAsync(ctx, streamID, requestID, remoteID, key, target, remoteEphemeralPub)\n\t}()\n"},
			}},
			{Name: "rewrite: agent slices the prefix off", Edits: []Edit{
				{File: agt, Old: "\t\t\t\tkey := strings.TrimPrefix(destAddr, protocol.ForwardStreamPrefix)\n", New: "\t\t\t\tkey := destAddr[len(protocol.ForwardStreamPrefix):]\n"},
			}},
			{Name: "rewrite: constructor indexes the endpoints", Edits: []Edit{
				{File: fwh, Old: "\tfor _, ep := range cfg.Endpoints {\n\t\ttargets[ep.Key] = ep.Target\n\t}\n", New: "\tfor i := range cfg.Endpoints {\n\t\ttargets[cfg.Endpoints[i].Key] = cfg.Endpoints[i].Target\n\t}\n"},
			}},
			{Name: "rewrite: lookup through the exported GetTarget", Edits: []Edit{
				{File: fwh, Old: "\ttarget, ok := h.targets[key]\n\tif !ok {", New: "\ttarget, ok := h.GetTarget(key)\n\tif !ok {"},
			}},
			{Name: "rewrite: key -> target map built by a constructor helper with an index loop", Edits: []Edit{
				{File: fwh, Old: "\ttargets := make(map[string]string)\n\tfor _, ep := range cfg.Endpoints {\n\t\ttargets[ep.Key] = ep.Target\n\t}\n", New: "\ttargets := indexEndpoints(cfg.Endpoints)\n"},
				{File: fwh, Old: "// GetKeys returns all configured routing keys.", New: "func indexEndpoints(endpoints []Endpoint) map[string]string {\n\tbyKey := make(map[string]string)\n\tfor i := range endpoints {\n\t\tbyKey[endpoints[i].Key] = endpoints[i].Target\n\t}\n\treturn byKey\n}\n\n// GetKeys returns all configured routing keys."},
			}},
			{Name: "rewrite: lookup through a helper that is handed the table", Edits: []Edit{
				{File: fwh, Old: "\ttarget, ok := h.targets[key]\n\tif !ok {", New: "\ttarget, ok := lookupIn(h.targets, key)\n\tif !ok {"},
				{File: fwh, Old: "// GetKeys returns all configured routing keys.", New: "func lookupIn(t map[string]string, key string) (string, bool) {\n\ttarget, ok := t[key]\n\treturn target, ok\n}\n\n// GetKeys returns all configured routing keys."},
			}},
			{Name: "rewrite: agent answers through WriteStreamOpenErr, nil test first", Edits: []Edit{
				{File: agt, Old: "\t\t\t\tif a.forwardHandler != nil {\n\t\t\t\t\tctx := context.Background()\n\t\t\t\t\ta.forwardHandler.HandleStreamOpen(ctx, frame.StreamID, open.RequestID, peerID, key, open.EphemeralPubKey)\n\t\t\t\t} else {\n\t\t\t\t\t// No forward handler - send error\n\t\t\t\t\terrPayload := &protocol.StreamOpenErr{\n\t\t\t\t\t\tRequestID: open.RequestID,\n\t\t\t\t\t\tErrorCode: protocol.ErrForwardNotFound,\n\t\t\t\t\t\tMessage:   \"forward key not configured\",\n\t\t\t\t\t}\n\t\t\t\t\terrFrame := &protocol.Frame{\n\t\t\t\t\t\tType:     protocol.FrameStreamOpenErr,\n\t\t\t\t\t\tStreamID: frame.StreamID,\n\t\t\t\t\t\tPayload:  errPayload.Encode(),\n\t\t\t\t\t}\n\t\t\t\t\ta.peerMgr.SendToPeer(peerID, errFrame)\n\t\t\t\t}\n\t\t\t\treturn\n", New: "\t\t\t\tif a.forwardHandler == nil {\n\t\t\t\t\ta.WriteStreamOpenErr(peerID, frame.StreamID, open.RequestID, protocol.ErrForwardNotFound, \"forward key not configured\")\n\t\t\t\t\treturn\n\t\t\t\t}\n\t\t\t\ta.forwardHandler.HandleStreamOpen(context.Background(), frame.StreamID, open.RequestID, peerID, key, open.EphemeralPubKey)\n\t\t\t\treturn\n"},
			}},
			{Name: "rewrite: forward dispatch through a helper that receives the trimmed key", Edits: []Edit{
				{File: agt, Old: "\t\t\t\tkey := strings.TrimPrefix(destAddr, protocol.ForwardStreamPrefix)\n\t\t\t\tif a.forwardHandler != nil {\n\t\t\t\t\tctx := context.Background()\n\t\t\t\t\ta.forwardHandler.HandleStreamOpen(ctx, frame.StreamID, open.RequestID, peerID, key, open.EphemeralPubKey)\n\t\t\t\t} else {", New: "\t\t\t\tif a.forwardHandler != nil {\n\t\t\t\t\ta.openForwardKey(peerID, frame.StreamID, open, strings.TrimPrefix(destAddr, protocol.ForwardStreamPrefix))\n\t\t\t\t} else {"},
				{File: agt, Old: "// addressToString converts address bytes to a string representation.", New: "func (a *Agent) openForwardKey(peerID identity.AgentID, streamID uint64, open *protocol.StreamOpen, key string) {\n\tif a.forwardHandler == nil {\n\t\ta.WriteStreamOpenErr(peerID, streamID, open.RequestID, protocol.ErrForwardNotFound, \"forward key not configured\")\n\t\treturn\n\t}\n\ta.forwardHandler.HandleStreamOpen(context.Background(), streamID, open.RequestID, peerID, key, open.EphemeralPubKey)\n}\n\n// addressToString converts address bytes to a string representation."},
			}},
		},
	})
}

type c20Ctx struct {
	p *kit.Program
	r *kit.Report

	fTargets  *types.Var
	handlerT  *types.Named
	notFound  int64
	prefix    string
	helpers   map[*ssa.Function]c20Helper
	lks       map[ssa.Instruction]*c20Lk
	openErrFn map[*ssa.Function]int // function -> index (in Common().Args layout) of the error-code operand it forwards to WriteStreamOpenErr
}

func newC20Ctx(p *kit.Program, r *kit.Report) *c20Ctx {
	cx := &c20Ctx{p: p, r: r, openErrFn: map[*ssa.Function]int{}, helpers: map[*ssa.Function]c20Helper{}, lks: map[ssa.Instruction]*c20Lk{}}
	cx.handlerT = p.NamedType("internal/forward", "Handler")
	if !r.Require(cx.handlerT != nil, "anchor-unresolved: type internal/forward.Handler") {
		return nil
	}
	// the key -> target table: the map[string]string field of Handler
	for _, f := range kit.StructFields(cx.handlerT) {
		if m, ok := f.Type().Underlying().(*types.Map); ok && kit.IsStringType(m.Key()) && kit.IsStringType(m.Elem()) {
			if cx.fTargets != nil {
				r.Floor("anchor-unresolved: forward.Handler has more than one map[string]string field")
				return nil
			}
			cx.fTargets = f
		}
	}
	if !r.Require(cx.fTargets != nil, "anchor-unresolved: map[string]string field of forward.Handler (key -> target)") {
		return nil
	}
	s, ok := p.ConstValue("internal/protocol", "ErrForwardNotFound")
	v, err := strconv.ParseInt(s, 0, 64)
	if !r.Require(ok && err == nil, "anchor-unresolved: constant protocol.ErrForwardNotFound") {
		return nil
	}
	cx.notFound = v
	ps, ok := p.ConstValue("internal/protocol", "ForwardStreamPrefix")
	if ok {
		cx.prefix, err = strconv.Unquote(ps)
	}
	if !r.Require(ok && err == nil && cx.prefix != "", "anchor-unresolved: constant protocol.ForwardStreamPrefix") {
		return nil
	}
	// helpers of package forward that forward an error-code parameter to StreamWriter.WriteStreamOpenErr
	for _, f := range p.FuncsInPkg("internal/forward") {
		for _, c := range kit.Calls(f) {
			if !cx.isWriteOpenErr(c) {
				continue
			}
			code := cx.openErrCode(c)
			if q, ok := kit.Unwrap(code).(*ssa.Parameter); ok && q.Parent() == f {
				for i, fp := range f.Params {
					if fp == q {
						cx.openErrFn[f] = i
					}
				}
			}
		}
	}
	return cx
}

func (cx *c20Ctx) isWriteOpenErr(c ssa.CallInstruction) bool {
	cal := kit.CalleeOf(c)
	return cal.Name == "WriteStreamOpenErr"
}

// openErrCode returns the error-code operand (the uint16 one) of a WriteStreamOpenErr call.
func (cx *c20Ctx) openErrCode(c ssa.CallInstruction) ssa.Value {
	for i := 0; ; i++ {
		a := kit.Arg(c, i)
		if a == nil {
			return nil
		}
		if b, ok := a.Type().Underlying().(*types.Basic); ok && b.Kind() == types.Uint16 {
			return a
		}
	}
}

// sendsNotFound: call c reports ErrForwardNotFound to the requester (directly or through a
// one-level helper that forwards its code parameter).
func (cx *c20Ctx) sendsCode(c ssa.CallInstruction) (code int64, sends bool, known bool) {
	if cx.isWriteOpenErr(c) {
		k, ok := kit.ConstInt(cx.openErrCode(c))
		return k, true, ok
	}
	if s := kit.CalleeOf(c).Static; s != nil {
		if idx, ok := cx.openErrFn[s]; ok && idx < len(c.Common().Args) {
			k, isc := kit.ConstInt(c.Common().Args[idx])
			return k, true, isc
		}
	}
	return 0, false, false
}

func runC20(p *kit.Program, r *kit.Report) {
	r.Rule("C20.R1", "the address of every dial in package forward originates only in a lookup of Handler.targets keyed by the requested key parameter unchanged, and the dial is unreachable when that lookup misses")
	r.Rule("C20.R2", "when the lookup misses, every path reports ErrForwardNotFound to the requester before returning; the agent reports ErrForwardNotFound when it has no forward handler")
	r.Rule("C20.R3", "Handler.targets is assigned only in the constructor, from a map filled with Endpoint.Key -> Endpoint.Target of the same configured endpoint, and never modified afterwards")
	r.Rule("C20.R4", "the key handed to forward.Handler.HandleStreamOpen is the requested address minus exactly the constant forward prefix")
	cx := newC20Ctx(p, r)
	if cx == nil {
		return
	}
	lookups := cx.ruleR1()
	cx.ruleR2(lookups)
	cx.ruleR3()
	cx.ruleR4()
}

// ---------- R1 ----------

// c20Origin is where a dial address comes from, with the chain of call sites leading from the
// function that holds the origin down to the dial.
type c20Origin struct {
	val   ssa.Value             // origin value (Extract of a Lookup, a Lookup, or something else)
	fn    *ssa.Function         // function holding val
	first ssa.Instruction       // instruction in fn through which the value travels towards the dial (call site or the dial)
	chain []ssa.CallInstruction // call sites passed
}

// trace follows v backwards through Origins and, for parameters, through every static call site.
func (cx *c20Ctx) trace(v ssa.Value, fn *ssa.Function, first ssa.Instruction, chain []ssa.CallInstruction, depth int, out *[]c20Origin) {
	for _, o := range kit.Origins(v) {
		if cv, ok := o.(*ssa.Convert); ok && kit.IsStringType(cv.X.Type()) {
			cx.trace(cv.X, fn, first, chain, depth, out)
			continue
		}
		q, isPar := o.(*ssa.Parameter)
		if !isPar {
			// a free variable that Origins could not resolve stays as it is
			*out = append(*out, c20Origin{o, fn, first, chain})
			continue
		}
		owner := q.Parent()
		idx := -1
		for i, x := range owner.Params {
			if x == q {
				idx = i
			}
		}
		callers := cx.p.StaticCallers(owner)
		if depth >= 4 || idx < 0 || len(callers) == 0 {
			*out = append(*out, c20Origin{o, owner, first, chain})
			continue
		}
		for _, cs := range callers {
			if idx >= len(cs.Common().Args) {
				continue
			}
			nc := append(append([]ssa.CallInstruction{}, chain...), cs)
			cx.trace(cs.Common().Args[idx], cs.Parent(), cs, nc, depth+1, out)
		}
	}
}

// c20Lk is one consultation of the key -> target table: a map lookup on Handler.targets, or a call
// of a helper of package forward that returns the result of such a lookup for its key parameter
// (GetTarget-style).
type c20Lk struct {
	at            ssa.Instruction // the Lookup, or the helper call
	tuple         ssa.Value       // the value whose extracts carry (target, ok); the target itself when valIdx < 0
	key           ssa.Value       // key operand
	valIdx, okIdx int             // tuple indexes; -1 = not a tuple / no ok flag
	// mapPar != nil: the table consulted is this map-typed parameter of the enclosing function (a
	// method of a table type, or a helper that is handed the table); it is the targets table only if
	// the caller passes Handler.targets for it.
	mapPar *ssa.Parameter
}

type c20Helper struct {
	valIdx, okIdx, keyArg int // result indexes and the index of the key in Common().Args
	mapArg                int // index of the table argument, -1 when the helper reads Handler.targets itself
}

// tableOperand classifies the map operand of a lookup: Handler.targets itself, or a parameter of
// the enclosing function that has the table's type.
func (cx *c20Ctx) tableOperand(v ssa.Value) (isField bool, par *ssa.Parameter) {
	if f, _ := kit.LoadedField(v); f == cx.fTargets {
		return true, nil
	}
	if os := kit.Origins(v); len(os) == 1 {
		if q, ok := os[0].(*ssa.Parameter); ok && types.Identical(q.Type().Underlying(), cx.fTargets.Type().Underlying()) {
			return false, q
		}
	}
	return false, nil
}

func (cx *c20Ctx) rawLookup(v ssa.Value) (*ssa.Lookup, *ssa.Parameter) {
	var lk *ssa.Lookup
	switch x := v.(type) {
	case *ssa.Extract:
		if l, ok := x.Tuple.(*ssa.Lookup); ok && x.Index == 0 {
			lk = l
		}
	case *ssa.Lookup:
		if !x.CommaOk {
			lk = x
		}
	}
	if lk == nil {
		return nil, nil
	}
	isField, par := cx.tableOperand(lk.X)
	if !isField && par == nil {
		return nil, nil
	}
	return lk, par
}

// helperSummary recognises helpers (functions or methods of package forward) whose string result is
// always the result of a table lookup keyed by one of their parameters unchanged — directly or
// through another such helper — and whose bool result, if any, is that lookup's ok flag.
func (cx *c20Ctx) helperSummary(h *ssa.Function) (c20Helper, bool) {
	if s, ok := cx.helpers[h]; ok {
		return s, s.valIdx >= 0
	}
	sum := c20Helper{-1, -1, -1, -1}
	cx.helpers[h] = sum
	if h == nil || h.Blocks == nil || kit.FuncPkgPath(h) != kit.PkgPath("internal/forward") {
		return sum, false
	}
	parIdx := func(v ssa.Value) int {
		os := kit.Origins(v)
		if len(os) != 1 {
			return -1
		}
		q, ok := os[0].(*ssa.Parameter)
		if !ok || q.Parent() != h {
			return -1
		}
		for i, fp := range h.Params {
			if fp == q {
				return i
			}
		}
		return -1
	}
	res := h.Signature.Results()
	rets := kit.Returns(h)
	var lks []*c20Lk
	for i := 0; i < res.Len(); i++ {
		if !kit.IsStringType(res.At(i).Type()) {
			continue
		}
		all, keyArg, mapArg, first := len(rets) > 0, -1, -1, true
		var found []*c20Lk
		for _, ret := range rets {
			if ret.Block() == h.Recover {
				continue
			}
			os := kit.Origins(kit.ReturnResult(ret, i))
			if len(os) == 0 {
				all = false
			}
			for _, o := range os {
				lk := cx.lookupOf(o)
				if lk == nil {
					all = false
					continue
				}
				ki := parIdx(lk.key)
				mi := -1
				if lk.mapPar != nil {
					mi = parIdx(lk.mapPar)
					if mi < 0 {
						all = false
					}
				}
				if ki < 0 || (!first && (ki != keyArg || mi != mapArg)) {
					all = false
					continue
				}
				keyArg, mapArg, first = ki, mi, false
				found = append(found, lk)
			}
		}
		if all && keyArg >= 0 {
			sum.valIdx, sum.keyArg, sum.mapArg = i, keyArg, mapArg
			lks = found
		}
	}
	if sum.valIdx >= 0 {
		for j := 0; j < res.Len(); j++ {
			b, isB := res.At(j).Type().Underlying().(*types.Basic)
			if !isB || b.Kind() != types.Bool {
				continue
			}
			all := true
			for _, ret := range rets {
				if ret.Block() == h.Recover {
					continue
				}
				for _, o := range kit.Origins(kit.ReturnResult(ret, j)) {
					e, ok := o.(*ssa.Extract)
					match := false
					for _, lk := range lks {
						if ok && lk.okIdx >= 0 && e.Tuple == lk.tuple && e.Index == lk.okIdx {
							match = true
						}
					}
					if !match {
						all = false
					}
				}
			}
			if all {
				sum.okIdx = j
			}
		}
	}
	cx.helpers[h] = sum
	return sum, sum.valIdx >= 0
}

// lookupOf: v is the target value of a consultation of the table; returns its (canonical) record.
func (cx *c20Ctx) lookupOf(v ssa.Value) *c20Lk {
	mk := func(at ssa.Instruction, rec c20Lk) *c20Lk {
		if old, ok := cx.lks[at]; ok {
			return old
		}
		rec.at = at
		cx.lks[at] = &rec
		return &rec
	}
	if lk, par := cx.rawLookup(v); lk != nil {
		if lk.CommaOk {
			return mk(lk, c20Lk{tuple: lk, key: lk.Index, valIdx: 0, okIdx: 1, mapPar: par})
		}
		return mk(lk, c20Lk{tuple: lk, key: lk.Index, valIdx: -1, okIdx: -1, mapPar: par})
	}
	var call *ssa.Call
	idx := -1
	switch x := v.(type) {
	case *ssa.Extract:
		call, _ = x.Tuple.(*ssa.Call)
		idx = x.Index
	case *ssa.Call:
		call, idx = x, 0
	}
	if call == nil {
		return nil
	}
	sum, ok := cx.helperSummary(kit.CalleeOf(call).Static)
	if !ok || sum.valIdx != idx || sum.keyArg >= len(call.Call.Args) || sum.mapArg >= len(call.Call.Args) {
		return nil
	}
	rec := c20Lk{tuple: call, key: call.Call.Args[sum.keyArg], valIdx: sum.valIdx, okIdx: sum.okIdx}
	if sum.mapArg >= 0 {
		isField, par := cx.tableOperand(call.Call.Args[sum.mapArg])
		if !isField && par == nil {
			return nil
		}
		rec.mapPar = par
	}
	if call.Call.Signature().Results().Len() == 1 {
		rec.valIdx = -1
	}
	return mk(call, rec)
}

// missAtom: the lookup lk missed (ok == false, value == "").
func (cx *c20Ctx) missAtom(lk *c20Lk) kit.AtomEval {
	isVal := func(v ssa.Value) bool {
		os := kit.Origins(v)
		for _, o := range os {
			if l2 := cx.lookupOf(o); l2 == nil || l2.at != lk.at {
				return false
			}
		}
		return len(os) > 0
	}
	isOK := func(v ssa.Value) bool {
		os := kit.Origins(v)
		for _, o := range os {
			e, ok := o.(*ssa.Extract)
			if !ok || lk.okIdx < 0 || e.Tuple != lk.tuple || e.Index != lk.okIdx {
				return false
			}
		}
		return len(os) > 0
	}
	return func(cond ssa.Value) (bool, bool) {
		if isOK(cond) {
			return false, true // ok flag is false
		}
		if b, ok := cond.(*ssa.BinOp); ok && (b.Op == token.EQL || b.Op == token.NEQ) {
			for _, side := range [][2]ssa.Value{{b.X, b.Y}, {b.Y, b.X}} {
				if s, isc := kit.ConstString(side[1]); isc && s == "" && isVal(side[0]) {
					return b.Op == token.EQL, true
				}
			}
		}
		// len(target) == 0 / != 0 / > 0
		if b, ok := cond.(*ssa.BinOp); ok {
			for i, side := range [][2]ssa.Value{{b.X, b.Y}, {b.Y, b.X}} {
				c, isCall := side[0].(*ssa.Call)
				if !isCall || kit.CalleeOf(c).Built != "len" || !isVal(c.Call.Args[0]) {
					continue
				}
				k, isc := kit.ConstInt(side[1])
				if !isc {
					continue
				}
				op := b.Op
				if i == 1 {
					op = flipCmp(op)
				}
				ord := 0
				if 0 < k {
					ord = -1
				} else if 0 > k {
					ord = 1
				}
				switch op {
				case token.EQL, token.NEQ, token.LSS, token.LEQ, token.GTR, token.GEQ:
					return cmpHolds(op, ord), true
				}
			}
		}
		return false, false
	}
}

func (cx *c20Ctx) ruleR1() map[ssa.Instruction]*c20Lk {
	p, r := cx.p, cx.r
	lookups := map[ssa.Instruction]*c20Lk{}
	nDial := 0
	ord := map[string]int{}
	for _, f := range p.FuncsInPkg("internal/forward") {
		for _, c := range kit.Calls(f) {
			_, addr, ok := c19DialArgsC20(c)
			if !ok {
				continue
			}
			nDial++
			base := kit.FuncName(f) + " dial"
			ord[base]++
			key := fmt.Sprintf("%s #%d", base, ord[base])
			var origins []c20Origin
			cx.trace(addr, f, c, nil, 0, &origins)
			okAddr, okKey, okGuard := len(origins) > 0, true, true
			whyAddr, whyKey, whyGuard := "", "", ""
			for _, o := range origins {
				lk := cx.lookupOf(o.val)
				if lk != nil && lk.mapPar != nil {
					lk = nil // a lookup in some table handed in, not shown to be Handler.targets
				}
				if lk == nil {
					okAddr = false
					whyAddr = fmt.Sprintf("%s in %s", c20Describe(o.val), kit.FuncName(o.fn))
					continue
				}
				lookups[lk.at] = lk
				// the key is the requested key parameter (string parameter of the function), unchanged
				kq, isPar := lk.key.(*ssa.Parameter)
				if !isPar {
					if os := kit.Origins(lk.key); len(os) == 1 {
						kq, isPar = os[0].(*ssa.Parameter)
					}
				}
				if !isPar || !kit.IsStringType(kq.Type()) {
					okKey = false
					whyKey = fmt.Sprintf("%s at %s", c20Describe(lk.key), p.Pos(lk.at.Pos()))
				}
				// the path towards the dial is dead when the lookup misses. When the value travels
				// into a closure, the step judged is the creation of that closure in the lookup's function.
				first, lf := o.first, lk.at.Parent()
				if o.fn != lf {
					first = nil
					child := o.fn
					for child != nil && child.Parent() != lf {
						child = child.Parent()
					}
					if child != nil {
						kit.Instrs(lf, func(in ssa.Instruction) {
							if mc, ok := in.(*ssa.MakeClosure); ok && mc.Fn == ssa.Value(child) {
								first = in
							}
						})
					}
				}
				l := kit.LiveUnder(lf, cx.missAtom(lk))
				if first == nil || l.CanReach(lk.at, first, nil) {
					okGuard = false
					whyGuard = p.Pos(o.first.Pos())
				}
			}
			r.Decide(okAddr, "C20.R1", key+" address", p.Pos(c.Pos()),
				"every origin of the dialled address is the value of a Handler.targets lookup",
				"the dialled address can be "+whyAddr+", not the configured target of the requested key: a tunnel request makes the endpoint connect to a destination the configuration does not name")
			r.Decide(okKey, "C20.R1", key+" lookup key", p.Pos(c.Pos()),
				"the lookup key is the requested key parameter, unchanged",
				"the targets lookup is keyed by "+whyKey+" instead of the requested key itself: near-miss keys (case variants, padded or prefixed strings) reach a configured target")
			r.Decide(okGuard, "C20.R1", key+" guard", p.Pos(c.Pos()),
				"the dial is unreachable when the lookup misses",
				"the step towards the dial at "+whyGuard+" stays reachable when the key is not configured: a connection is attempted for an unknown key")
		}
	}
	r.Count("r1_dial_sites", nDial)
	r.Count("r1_target_lookups_feeding_dials", len(lookups))
	r.Require(nDial >= 1, "floor: no net dial found in internal/forward")
	return lookups
}

func c20Describe(v ssa.Value) string {
	switch x := v.(type) {
	case *ssa.Parameter:
		return "parameter " + x.Name()
	case *ssa.Const:
		return "constant " + x.String()
	case *ssa.Call:
		return "the result of " + kit.CalleeOf(x).String()
	case *ssa.Extract:
		if _, ok := x.Tuple.(*ssa.Next); ok {
			return "an element found by ranging over a map"
		}
	case *ssa.BinOp:
		return "a computed string"
	}
	if f, _ := kit.LoadedField(v); f != nil {
		return "field " + f.Name()
	}
	return "a value that is not a targets lookup (" + v.Name() + ")"
}

// c19DialArgsC20 is c20's own copy of the dial operand resolver (files stay self-contained).
func c19DialArgsC20(c ssa.CallInstruction) (network, addr ssa.Value, ok bool) {
	cal := kit.CalleeOf(c)
	if cal.Pkg != "net" {
		return nil, nil, false
	}
	switch cal.Name {
	case "Dial", "DialContext", "DialTimeout", "DialTCP", "DialIP", "DialUDP", "DialUnix":
	default:
		return nil, nil, false
	}
	var strs []ssa.Value
	var last ssa.Value
	for i := 0; ; i++ {
		a := kit.Arg(c, i)
		if a == nil {
			break
		}
		if kit.IsStringType(a.Type()) {
			strs = append(strs, a)
		}
		last = a
	}
	switch {
	case len(strs) >= 2:
		return strs[0], strs[1], true
	case len(strs) == 1 && last != nil:
		return strs[0], last, true
	}
	return nil, nil, false
}

// ---------- R2 ----------

func (cx *c20Ctx) ruleR2(lookups map[ssa.Instruction]*c20Lk) {
	p, r := cx.p, cx.r
	i := 0
	for _, f := range p.FuncsInPkg("internal/forward") {
		kit.Instrs(f, func(in ssa.Instruction) {
			lk := lookups[in]
			if lk == nil {
				return
			}
			i++
			l := kit.LiveUnder(f, cx.missAtom(lk))
			avoid := map[ssa.Instruction]bool{}
			wrong := ""
			for _, c := range kit.Calls(f) {
				code, sends, known := cx.sendsCode(c)
				if !sends || !l.CanReach(lk.at, c, nil) {
					continue
				}
				if known && code == cx.notFound {
					avoid[c] = true
				} else {
					wrong = p.Pos(c.Pos())
				}
			}
			bad := ""
			for _, ret := range l.LiveReturns() {
				if l.CanReach(lk.at, ret, avoid) {
					bad = p.Pos(ret.Pos())
				}
			}
			msg := "on a lookup miss the function can return (at " + bad + ") without reporting ErrForwardNotFound"
			if wrong != "" {
				msg += " (the error sent at " + wrong + " carries a different code)"
			}
			r.Decide(bad == "", "C20.R2", fmt.Sprintf("%s miss #%d", kit.FuncName(f), i), p.Pos(lk.at.Pos()),
				"every path after a lookup miss reports ErrForwardNotFound before returning",
				msg+": a request for an unknown key is not refused with the not-found error (the requester waits for a timeout or sees a misleading failure)")
		})
	}
	r.Count("r2_miss_edges", i)
	// agent side: no forward handler -> ErrForwardNotFound
	open := p.Func("internal/forward", "Handler", "HandleStreamOpen")
	if !r.Require(open != nil, "anchor-unresolved: forward.Handler.HandleStreamOpen") {
		return
	}
	errCodeFld := p.Field("internal/protocol", "StreamOpenErr", "ErrorCode")
	if !r.Require(errCodeFld != nil, "anchor-unresolved: protocol.StreamOpenErr.ErrorCode") {
		return
	}
	senders := cx.agentOpenErrSenders(errCodeFld)
	r.Count("r2_agent_open_error_senders", len(senders))
	n := 0
	for _, cs := range p.StaticCallers(open) {
		g := cs.Parent()
		if kit.FuncPkgPath(g) != kit.PkgPath("internal/agent") {
			continue
		}
		n++
		// assignment: the agent has no forward handler
		l := kit.LiveUnder(g, func(cond ssa.Value) (bool, bool) {
			b, ok := cond.(*ssa.BinOp)
			if !ok || (b.Op != token.EQL && b.Op != token.NEQ) {
				return false, false
			}
			var other ssa.Value
			switch {
			case kit.IsNilConst(b.Y):
				other = b.X
			case kit.IsNilConst(b.X):
				other = b.Y
			default:
				return false, false
			}
			if pt, ok := other.Type().(*types.Pointer); ok {
				if nt, ok := pt.Elem().(*types.Named); ok && nt == cx.handlerT {
					return b.Op == token.EQL, true
				}
			}
			return false, false
		})
		okDead := !l.CanReachFromEntry(cs, nil)
		// a store of ErrForwardNotFound into a StreamOpenErr that is live, followed by a send to the peer
		answered := false
		kit.Instrs(g, func(in ssa.Instruction) {
			st, ok := in.(*ssa.Store)
			if !ok || !l.InstrLive(in) {
				return
			}
			fa, ok := st.Addr.(*ssa.FieldAddr)
			if !ok || kit.FieldOfAddr(fa) != errCodeFld {
				return
			}
			k, isc := kit.ConstInt(st.Val)
			if !isc || k != cx.notFound {
				return
			}
			for _, c := range kit.Calls(g) {
				if kit.CalleeOf(c).Name == "SendToPeer" && l.CanReach(st, c, nil) {
					// the frame sent carries the payload built from this error value
					for v := range kit.FlowSet(kit.Arg(c, 1), nil) {
						if v == fa.X {
							answered = true
						}
					}
				}
			}
		})
		// ... or a call of an agent function that sends a StreamOpenErr carrying the code it is given
		// (WriteStreamOpenErr and helpers like it), with the constant ErrForwardNotFound
		for _, c := range kit.Calls(g) {
			s := kit.CalleeOf(c).Static
			if s == nil {
				continue
			}
			idx, isSender := senders[s]
			if !isSender || idx >= len(c.Common().Args) || !l.CanReachFromEntry(c, nil) {
				continue
			}
			if k, isc := kit.ConstInt(c.Common().Args[idx]); isc && k == cx.notFound {
				answered = true
			}
		}
		r.Decide(okDead && answered, "C20.R2", fmt.Sprintf("%s no forward handler #%d", kit.FuncName(g), n), p.Pos(cs.Pos()),
			"without a forward handler the request is answered with ErrForwardNotFound",
			"when the agent has no forward handler a forward request is not answered with a StreamOpenErr carrying ErrForwardNotFound: an unknown key is not refused with the not-found error")
	}
	r.Count("r2_agent_dispatch_sites", n)
	r.Require(n >= 1, "floor: no call of forward.Handler.HandleStreamOpen in internal/agent")
}

// agentOpenErrSenders finds the functions of package agent that put one of their uint16 parameters
// into StreamOpenErr.ErrorCode of an error they send to a peer (directly, or by handing the parameter
// to another such function). The map gives the parameter's index in the Common().Args layout.
func (cx *c20Ctx) agentOpenErrSenders(errCodeFld *types.Var) map[*ssa.Function]int {
	out := map[*ssa.Function]int{}
	fns := cx.p.FuncsInPkg("internal/agent")
	parIdx := func(f *ssa.Function, v ssa.Value) int {
		os := kit.Origins(v)
		if len(os) != 1 {
			return -1
		}
		q, ok := os[0].(*ssa.Parameter)
		if !ok || q.Parent() != f {
			return -1
		}
		for i, fp := range f.Params {
			if fp == q {
				return i
			}
		}
		return -1
	}
	for _, f := range fns {
		kit.Instrs(f, func(in ssa.Instruction) {
			st, ok := in.(*ssa.Store)
			if !ok {
				return
			}
			fa, ok := st.Addr.(*ssa.FieldAddr)
			if !ok || kit.FieldOfAddr(fa) != errCodeFld {
				return
			}
			idx := parIdx(f, st.Val)
			if idx < 0 {
				return
			}
			for _, c := range kit.Calls(f) {
				if kit.CalleeOf(c).Name != "SendToPeer" {
					continue
				}
				for v := range kit.FlowSet(kit.Arg(c, 1), nil) {
					if v == fa.X {
						out[f] = idx
					}
				}
			}
		})
	}
	for changed := true; changed; {
		changed = false
		for _, f := range fns {
			if _, done := out[f]; done {
				continue
			}
			for _, c := range kit.Calls(f) {
				s := kit.CalleeOf(c).Static
				if s == nil {
					continue
				}
				si, ok := out[s]
				if !ok || si >= len(c.Common().Args) {
					continue
				}
				if idx := parIdx(f, c.Common().Args[si]); idx >= 0 {
					out[f] = idx
					changed = true
				}
			}
		}
	}
	return out
}

// ---------- R3 ----------

func (cx *c20Ctx) ruleR3() {
	p, r := cx.p, cx.r
	nStore := 0
	ord := map[string]int{}
	for _, acc := range p.FieldAccessesOfKind(cx.fTargets, kit.FieldStore, kit.MapInsert, kit.MapDelete, kit.FieldClear, kit.FieldAddrUse) {
		fname := kit.FuncName(acc.Fn)
		ord[fname]++
		if acc.Kind != kit.FieldStore {
			r.Violation("C20.R3", fmt.Sprintf("%s modifies targets #%d", fname, ord[fname]), p.Pos(acc.Instr.Pos()),
				"the key -> target table is modified after construction: a key can come to denote a target the configuration does not name")
			continue
		}
		nStore++
		key := fmt.Sprintf("%s constructor store #%d", fname, ord[fname])
		// base must be the handler under construction
		fresh := false
		if a, ok := acc.Base.(*ssa.Alloc); ok && a.Heap {
			fresh = true
		}
		if !fresh {
			r.Violation("C20.R3", key, p.Pos(acc.Instr.Pos()), "targets is re-assigned on an existing handler: the configured key -> target mapping is replaced at run time")
			continue
		}
		// the stored map: every insertion is Endpoint.Key -> Endpoint.Target of the same endpoint
		okAll, why, nIns := true, "", 0
		// the stored map, followed through constructor helpers of the package (indexEndpoints,
		// newTargetTable ...) and maps.Clone
		var maps []ssa.Value
		var expand func(v ssa.Value, depth int)
		expand = func(v ssa.Value, depth int) {
			for _, o := range kit.Origins(v) {
				if c, ok := o.(*ssa.Call); ok && depth < 3 {
					cal := kit.CalleeOf(c)
					if cal.Pkg == "maps" && cal.Name == "Clone" && len(c.Call.Args) == 1 {
						expand(c.Call.Args[0], depth+1)
						continue
					}
					if h := cal.Static; h != nil && h.Blocks != nil && kit.FuncPkgPath(h) == kit.PkgPath("internal/forward") {
						n := 0
						for _, ret := range kit.Returns(h) {
							if ret.Block() == h.Recover || len(ret.Results) == 0 {
								continue
							}
							n++
							expand(kit.ReturnResult(ret, 0), depth+1)
						}
						if n > 0 {
							continue
						}
					}
				}
				maps = append(maps, o)
			}
		}
		expand(acc.Val, 0)
		for _, m := range maps {
			mm, isMake := m.(*ssa.MakeMap)
			if !isMake || mm.Referrers() == nil {
				okAll, why = false, "the stored map is not built locally"
				continue
			}
			for _, ref := range *mm.Referrers() {
				switch u := ref.(type) {
				case *ssa.MapUpdate:
					nIns++
					kf, kb := c20FieldOfElem(u.Key)
					vf, vb := c20FieldOfElem(u.Value)
					switch {
					case kf == nil || vf == nil || kf.Name() != "Key" || vf.Name() != "Target":
						okAll, why = false, "an entry is not Endpoint.Key -> Endpoint.Target"
					case !c20SameElem(kb, vb):
						okAll, why = false, "key and target of an entry come from different endpoints"
					}
				case ssa.CallInstruction:
					cal := kit.CalleeOf(u)
					if cal.Built == "len" {
						continue
					}
					okAll, why = false, "the map under construction is handed to "+cal.String()
				}
			}
		}
		if nIns == 0 && okAll {
			okAll, why = false, "the stored map is never filled from the configured endpoints"
		}
		r.Decide(okAll, "C20.R3", key, p.Pos(acc.Instr.Pos()),
			"targets is the map of Endpoint.Key -> Endpoint.Target of the configured endpoints",
			why+": a requested key is connected to a target other than the one configured for it")
	}
	r.Count("r3_targets_constructor_stores", nStore)
	r.Require(nStore >= 1, "floor: no constructor store of forward.Handler.targets found")
}

// c20FieldOfElem: v is x.F for an Endpoint x; returns F and the identity of x.
func c20FieldOfElem(v ssa.Value) (*types.Var, ssa.Value) {
	f, base := kit.LoadedField(v)
	if f == nil {
		return nil, nil
	}
	return f, base
}

// c20SameElem: two bases denote the same endpoint (same local copy, same struct value, or the same
// element address expression).
func c20SameElem(a, b ssa.Value) bool {
	if a == b {
		return true
	}
	ia, ok1 := a.(*ssa.IndexAddr)
	ib, ok2 := b.(*ssa.IndexAddr)
	if ok1 && ok2 && ia.Index == ib.Index {
		if ia.X == ib.X {
			return true // the same slice value (a parameter, a local)
		}
		fa, _ := kit.LoadedField(ia.X)
		fb, _ := kit.LoadedField(ib.X)
		return fa != nil && fa == fb
	}
	return false
}

// ---------- R4 ----------

func (cx *c20Ctx) ruleR4() {
	p, r := cx.p, cx.r
	open := p.Func("internal/forward", "Handler", "HandleStreamOpen")
	if open == nil {
		return
	}
	// index of the key parameter: the string parameter
	kidx := -1
	for i, q := range open.Params {
		if kit.IsStringType(q.Type()) {
			kidx = i
		}
	}
	if !r.Require(kidx >= 0, "anchor-unresolved: string key parameter of forward.Handler.HandleStreamOpen") {
		return
	}
	n := 0
	for _, cs := range p.StaticCallers(open) {
		g := cs.Parent()
		if kit.FuncPkgPath(g) != kit.PkgPath("internal/agent") || kidx >= len(cs.Common().Args) {
			continue
		}
		n++
		ok, why := true, ""
		// the key may be handed down through parameters of dispatch helpers: judge it where it is made
		var judge func(v ssa.Value, depth int)
		judge = func(v ssa.Value, depth int) {
			os := kit.Origins(v)
			if len(os) == 0 {
				ok, why = false, "no origin"
			}
			for _, o := range os {
				if q, isPar := o.(*ssa.Parameter); isPar && depth < 4 {
					owner := q.Parent()
					idx := -1
					for i, fp := range owner.Params {
						if fp == q {
							idx = i
						}
					}
					callers := p.StaticCallers(owner)
					if idx >= 0 && len(callers) > 0 {
						for _, c2 := range callers {
							if idx < len(c2.Common().Args) {
								judge(c2.Common().Args[idx], depth+1)
							}
						}
						continue
					}
				}
				if good, w := cx.prefixRemoved(o); !good {
					ok, why = false, w
				}
			}
		}
		judge(cs.Common().Args[kidx], 0)
		r.Decide(ok, "C20.R4", fmt.Sprintf("%s key argument #%d", kit.FuncName(g), n), p.Pos(cs.Pos()),
			"the key is the requested address with the constant forward prefix removed",
			"the key handed to the forward handler is "+why+", not the requested address minus the forward prefix: the endpoint resolves a different key than the one requested")
	}
	r.Count("r4_agent_key_arguments", n)
}

// prefixRemoved: v is TrimPrefix/CutPrefix(x, ForwardStreamPrefix) or x[len(prefix):].
func (cx *c20Ctx) prefixRemoved(v ssa.Value) (bool, string) {
	isPrefix := func(a ssa.Value) bool {
		s, ok := kit.ConstString(a)
		return ok && s == cx.prefix
	}
	switch x := v.(type) {
	case *ssa.Call:
		cal := kit.CalleeOf(x)
		if cal.Pkg == "strings" && cal.Name == "TrimPrefix" && len(x.Call.Args) == 2 {
			if isPrefix(x.Call.Args[1]) {
				return true, ""
			}
			return false, "trimmed by something other than the forward prefix constant"
		}
		return false, "the result of " + cal.String()
	case *ssa.Extract:
		if c, ok := x.Tuple.(*ssa.Call); ok {
			cal := kit.CalleeOf(c)
			if cal.Pkg == "strings" && cal.Name == "CutPrefix" && x.Index == 0 && len(c.Call.Args) == 2 && isPrefix(c.Call.Args[1]) {
				return true, ""
			}
		}
	case *ssa.Slice:
		if x.High == nil && x.Max == nil && x.Low != nil && kit.IsStringType(x.X.Type()) {
			if k, ok := kit.ConstInt(x.Low); ok && k == int64(len(cx.prefix)) {
				return true, ""
			}
		}
		return false, "a slice of the address that does not start right after the prefix"
	}
	return false, c20Describe(v)
}
