package rules

import (
	"fmt"
	"go/token"
	"go/types"
	"sort"
	"strings"

	"golang.org/x/tools/go/ssa"

	"mmverify/kit"
)

// ---------- C19.R2 (round 2): a pattern match must be anchored at the end of the name ----------

// unanchoredAtom is the assignment "the pattern's base occurs somewhere in the requested name, but
// no end-anchored relation holds": equalities and suffix tests (HasSuffix, CutSuffix, EqualFold,
// TrimSuffix(x,s) != x, anything compared with len(name)) are false, while every unanchored search
// of a pattern-derived needle in the name (Contains, Cut, Index*, HasPrefix, Count) succeeds.
// A `true` answer that is still possible is decided by an occurrence in the middle of the name:
// `db.corp.example.attacker.test` would match `*.corp.example`.
func (cx *c19Ctx) unanchoredAtom(m *ssa.Function, cls map[*ssa.Parameter]string, depth int, busy map[*ssa.Function]bool) kit.AtomEval {
	return cx.roleAtom("unanchored", m, cls, depth, busy)
}

// roleAtom builds the assignment for mode over function m, whose parameters play the roles cls.
//
//	"unanchored": see unanchoredAtom.
//	"label":      the name ends with the pattern's base, the character in front of the base is NOT a
//	              dot, and what is in front of the base is a non-empty string without any dot
//	              (evilcorp.example against *.corp.example). A true answer under this assignment
//	              accepts a different registrable domain: the label boundary is lost.
func (cx *c19Ctx) roleAtom(mode string, m *ssa.Function, cls map[*ssa.Parameter]string, depth int, busy map[*ssa.Function]bool) kit.AtomEval {
	// parameter roles: in the predicate itself every string parameter is the requested name; in a
	// helper the roles come from the arguments at the call being evaluated
	if cls == nil {
		cls = map[*ssa.Parameter]string{}
		for _, q := range m.Params {
			if kit.IsStringType(q.Type()) {
				cls[q] = "name"
			}
		}
	}
	var patT types.Type
	if sl, ok := cx.fDomains.Type().Underlying().(*types.Slice); ok {
		patT = sl.Elem()
	}
	isPatternValue := func(x ssa.Value) bool {
		if f, _ := kit.LoadedField(x); f == cx.fDomains {
			return true
		}
		t := x.Type()
		if pt, ok := t.(*types.Pointer); ok {
			t = pt.Elem()
		}
		if patT != nil && types.Identical(t, patT) {
			return true
		}
		if q, ok := x.(*ssa.Parameter); ok && cls[q] == "pattern" {
			return true
		}
		return false
	}
	memoN, memoP := map[ssa.Value]bool{}, map[ssa.Value]bool{}
	fromName := func(v ssa.Value) bool {
		if r, ok := memoN[v]; ok {
			return r
		}
		r := false
		for x := range kit.FlowSet(v, nil) {
			if q, ok := x.(*ssa.Parameter); ok && cls[q] == "name" {
				r = true
			}
		}
		memoN[v] = r
		return r
	}
	fromPattern := func(v ssa.Value) bool {
		if r, ok := memoP[v]; ok {
			return r
		}
		r := false
		for x := range kit.FlowSet(v, nil) {
			if isPatternValue(x) {
				r = true
			}
		}
		memoP[v] = r
		return r
	}
	// a call of a bool helper of package exit: the same assignment, with the helper's parameters
	// classified by what they are given here
	helper := func(cond ssa.Value) (bool, bool) {
		c, h := c19BoolHelper(cond)
		if h == nil || depth >= 3 || busy[h] {
			return false, false
		}
		hc := map[*ssa.Parameter]string{}
		for i, q := range h.Params {
			if i >= len(c.Call.Args) {
				continue
			}
			a := c.Call.Args[i]
			switch {
			case fromPattern(a) && !fromName(a):
				hc[q] = "pattern"
			case fromName(a) && kit.IsStringType(q.Type()):
				hc[q] = "name"
			}
		}
		busy[h] = true
		res := c19EvalBoolFunc(h, cx.roleAtom(mode, h, hc, depth+1, busy))
		delete(busy, h)
		switch res {
		case kit.TriTrue:
			return true, true
		case kit.TriFalse:
			return false, true
		}
		return false, false
	}
	lenOfName := func(v ssa.Value) bool {
		for x := range kit.FlowSet(v, func(y ssa.Value) bool {
			c, ok := y.(*ssa.Call)
			return ok && kit.CalleeOf(c).Built != "len"
		}) {
			if c, ok := x.(*ssa.Call); ok && kit.CalleeOf(c).Built == "len" && len(c.Call.Args) == 1 && fromName(c.Call.Args[0]) {
				return true
			}
		}
		return false
	}
	search := func(c *ssa.Call) bool { // unanchored search of a pattern-derived needle in the name
		return c != nil && len(c.Call.Args) >= 2 && fromName(c.Call.Args[0]) && fromPattern(c.Call.Args[1])
	}
	if mode == "label" {
		return cx.labelAtom(helper, fromName, fromPattern)
	}
	return func(cond ssa.Value) (bool, bool) {
		if v, ok := helper(cond); ok {
			return v, true
		}
		switch x := cond.(type) {
		case *ssa.BinOp:
			if x.Op == token.EQL || x.Op == token.NEQ {
				if kit.IsStringType(x.X.Type()) {
					// TrimSuffix(y, s) compared with y: "y ends with s" -> it does not
					for _, side := range [][2]ssa.Value{{x.X, x.Y}, {x.Y, x.X}} {
						if name, c := c19StringsCall(side[0]); c != nil && name == "TrimSuffix" && len(c.Call.Args) == 2 && c.Call.Args[0] == side[1] {
							return x.Op == token.EQL, true
						}
					}
					return x.Op == token.NEQ, true // no equality holds
				}
				if lenOfName(x.X) || lenOfName(x.Y) {
					return x.Op == token.NEQ, true // nothing lines up with the end of the name
				}
			}
			// position / count of an unanchored search compared with a constant: found
			for _, side := range []struct {
				v, other ssa.Value
				flip     bool
			}{{x.X, x.Y, false}, {x.Y, x.X, true}} {
				name, c := c19StringsCall(side.v)
				if c == nil || !search(c) {
					continue
				}
				k, isc := kit.ConstInt(side.other)
				if !isc {
					continue
				}
				op := x.Op
				if side.flip {
					op = flipCmp(op)
				}
				ord := func(v int64) int {
					switch {
					case v < k:
						return -1
					case v > k:
						return 1
					}
					return 0
				}
				lo, hi := int64(0), int64(1)
				if name == "Count" {
					lo, hi = 1, 2
				} else if !strings.HasPrefix(name, "Index") && !strings.HasPrefix(name, "LastIndex") {
					continue
				}
				switch op {
				case token.EQL, token.NEQ, token.LSS, token.LEQ, token.GTR, token.GEQ:
					if cmpHolds(op, ord(lo)) == cmpHolds(op, ord(hi)) {
						return cmpHolds(op, ord(lo)), true
					}
				}
			}
		case *ssa.Call:
			name, c := c19StringsCall(x)
			if c == nil || !c19IsBool(c.Type()) {
				return false, false
			}
			switch name {
			case "HasSuffix", "EqualFold":
				return false, true
			case "Contains", "HasPrefix", "ContainsAny":
				if search(c) {
					return true, true
				}
			}
		case *ssa.Extract:
			name, c := c19StringsCall(x.Tuple)
			if c == nil || !c19IsBool(x.Type()) {
				return false, false
			}
			switch name {
			case "CutSuffix":
				return false, true
			case "Cut", "CutPrefix":
				if search(c) {
					return true, true
				}
			}
		}
		return false, false
	}
}

// ---------- C19.R4 (round 2): one identity relation for networks on both sides of ManageRoute ----------

// routeKeyFunc finds how routing.Manager identifies a dynamic route: the function applied to the
// *net.IPNet parameter to obtain the key of its route maps in AddDynamicRoute / RemoveDynamicRoute.
func (cx *c19Ctx) routeKeyFunc() (string, bool) {
	p := cx.p
	keys := map[string]bool{}
	for _, name := range []string{"AddDynamicRoute", "RemoveDynamicRoute"} {
		fn := p.Func("internal/routing", "Manager", name)
		if fn == nil {
			return "", false
		}
		netPar := c19NetParam(fn)
		if netPar == nil {
			return "", false
		}
		kit.Instrs(fn, func(in ssa.Instruction) {
			var key ssa.Value
			switch x := in.(type) {
			case *ssa.MapUpdate:
				key = x.Key
			case *ssa.Lookup:
				if _, ok := x.X.Type().Underlying().(*types.Map); ok {
					key = x.Index
				}
			case ssa.CallInstruction:
				if kit.CalleeOf(x).Built == "delete" && len(x.Common().Args) == 2 {
					key = x.Common().Args[1]
				}
			}
			if key == nil || !kit.IsStringType(key.Type()) {
				return
			}
			for _, o := range kit.Origins(key) {
				c, ok := o.(*ssa.Call)
				if !ok {
					keys["?"] = true
					continue
				}
				if !kit.FlowSet(c, nil)[netPar] {
					continue
				}
				keys[kit.CalleeOf(c).String()] = true
			}
		})
	}
	if len(keys) != 1 || keys["?"] {
		return "", false
	}
	for k := range keys {
		return k, true
	}
	return "", false
}

// networksIn lists the *net.IPNet-typed values v is computed from.
func c19NetworksIn(v ssa.Value) map[ssa.Value]bool {
	out := map[ssa.Value]bool{}
	for x := range kit.FlowSet(v, nil) {
		if pt, ok := x.Type().(*types.Pointer); ok {
			if n, ok := pt.Elem().(*types.Named); ok && n.Obj().Name() == "IPNet" && n.Obj().Pkg() != nil && n.Obj().Pkg().Path() == "net" {
				if _, isAlloc := x.(*ssa.Alloc); !isAlloc {
					out[x] = true
				}
			}
		}
	}
	return out
}

func c19Disjointish(a, b map[ssa.Value]bool) bool {
	if len(a) == 0 || len(b) == 0 {
		return false
	}
	// two operands that talk about (at least partly) different networks
	for k := range a {
		if !b[k] {
			return true
		}
	}
	for k := range b {
		if !a[k] {
			return true
		}
	}
	return false
}

func (cx *c19Ctx) ruleIdentity() {
	p, r := cx.p, cx.r
	keyFn, ok := cx.routeKeyFunc()
	if !ok {
		r.Infof("C19.R4", "route identity", p.Pos(cx.add.Pos()), "the key function of the dynamic-route table could not be resolved to one call; identity relation not decided")
		return
	}
	inExit := func(f *ssa.Function) bool { return c19InExit(f) }
	scope := map[*ssa.Function]bool{}
	for _, root := range []*ssa.Function{cx.add, cx.remove} {
		for f := range kit.StaticCallClosure(root, inExit) {
			scope[f] = true
		}
	}
	var fns []*ssa.Function
	for f := range scope {
		fns = append(fns, f)
	}
	sort.Slice(fns, func(i, j int) bool { return fns[i].Pos() < fns[j].Pos() })
	isKeyCall := func(v ssa.Value) bool {
		os := kit.Origins(v)
		if len(os) == 0 {
			return false
		}
		for _, o := range os {
			c, ok := o.(*ssa.Call)
			if !ok || kit.CalleeOf(c).String() != keyFn {
				return false
			}
		}
		return true
	}
	n := 0
	for _, f := range fns {
		fname := kit.FuncName(f)
		k := 0
		kit.Instrs(f, func(in ssa.Instruction) {
			var a, b ssa.Value
			what := ""
			good := false
			switch x := in.(type) {
			case *ssa.BinOp:
				if x.Op != token.EQL && x.Op != token.NEQ {
					return
				}
				a, b = x.X, x.Y
				good = kit.IsStringType(a.Type()) && isKeyCall(a) && isKeyCall(b)
				what = "a comparison of values that are not both " + keyFn + "(network)"
			case *ssa.Call:
				cal := kit.CalleeOf(x)
				switch {
				case cal.Name == "Equal" || cal.Name == "Compare" || cal.Name == "DeepEqual" || cal.Name == "EqualFold":
				default:
					return
				}
				if cal.Static != nil && scope[cal.Static] {
					return // a helper of the handler itself: judged inside
				}
				args := x.Call.Args
				if len(args) != 2 {
					return
				}
				a, b = args[0], args[1]
				what = cal.String()
			default:
				return
			}
			na, nb := c19NetworksIn(a), c19NetworksIn(b)
			if !c19Disjointish(na, nb) {
				return
			}
			n++
			k++
			r.Decide(good, "C19.R4", fmt.Sprintf("%s network identity #%d", fname, k), p.Pos(in.Pos()),
				"two networks are the same entry exactly when "+keyFn+" agrees, as in the dynamic-route table",
				"allowed networks are identified by "+what+" while routing.Manager identifies dynamic routes by "+keyFn+": two spellings of one network (10.0.0.0/8 and ::ffff:10.0.0.0/104) are one dynamic route but two allow-list entries, so after add/remove in mixed spellings the destination stays permitted")
		})
	}
	r.Count("r4_network_identity_comparisons", n)
}

// labelAtom: see roleAtom, mode "label".
func (cx *c19Ctx) labelAtom(helper func(ssa.Value) (bool, bool), fromName, fromPattern func(ssa.Value) bool) kit.AtomEval {
	// needle = "." + pattern-derived: carries the label separator in front of the base
	dotPrefixed := func(v ssa.Value) bool {
		for x := range kit.FlowSet(v, nil) {
			b, ok := x.(*ssa.BinOp)
			if !ok || b.Op != token.ADD || !kit.IsStringType(b.Type()) {
				continue
			}
			if s, isc := kit.ConstString(b.X); isc && strings.HasSuffix(s, ".") && fromPattern(b.Y) {
				return true
			}
		}
		return false
	}
	// a value that is (computed from) the part of the name in front of the base
	var isPrefix func(v ssa.Value) bool
	isPrefix = func(v ssa.Value) bool {
		for x := range kit.FlowSet(v, nil) {
			switch t := x.(type) {
			case *ssa.Slice:
				if kit.IsStringType(t.X.Type()) && fromName(t.X) && t.High != nil && t.Low == nil {
					for y := range kit.FlowSet(t.High, nil) {
						if c, ok := y.(*ssa.Call); ok && kit.CalleeOf(c).Built == "len" && len(c.Call.Args) == 1 && fromPattern(c.Call.Args[0]) {
							return true
						}
					}
				}
			case *ssa.Extract:
				if name, c := c19StringsCall(t.Tuple); c != nil && name == "CutSuffix" && t.Index == 0 && len(c.Call.Args) == 2 && fromName(c.Call.Args[0]) && fromPattern(c.Call.Args[1]) {
					return true
				}
			case *ssa.Call:
				if name, c := c19StringsCall(t); c != nil && name == "TrimSuffix" && len(c.Call.Args) == 2 && fromName(c.Call.Args[0]) && fromPattern(c.Call.Args[1]) {
					return true
				}
			}
		}
		return false
	}
	endsWith := func(hay, needle ssa.Value) (bool, bool) { // does hay end with needle under the assumption
		switch {
		case fromName(hay) && !isPrefix(hay) && fromPattern(needle):
			return !dotPrefixed(needle), true
		case isPrefix(hay) && c19IsDot(needle):
			return false, true
		}
		return false, false
	}
	cmpAt := func(op token.Token, val, k int64) bool {
		ord := 0
		if val < k {
			ord = -1
		} else if val > k {
			ord = 1
		}
		return cmpHolds(op, ord)
	}
	return func(cond ssa.Value) (bool, bool) {
		if v, ok := helper(cond); ok {
			return v, true
		}
		switch x := cond.(type) {
		case *ssa.BinOp:
			if (x.Op == token.EQL || x.Op == token.NEQ) && kit.IsStringType(x.X.Type()) {
				for _, side := range [][2]ssa.Value{{x.X, x.Y}, {x.Y, x.X}} {
					if name, c := c19StringsCall(side[0]); c != nil && name == "TrimSuffix" && len(c.Call.Args) == 2 && c.Call.Args[0] == side[1] {
						if ends, ok := endsWith(c.Call.Args[0], c.Call.Args[1]); ok {
							return (x.Op == token.EQL) == !ends, true // unchanged iff it does not end with it
						}
					}
				}
				return x.Op == token.NEQ, true // the name is longer than the base; the prefix is non-empty
			}
			// the character in front of the base is not the separator
			if x.Op == token.EQL || x.Op == token.NEQ {
				for _, side := range [][2]ssa.Value{{x.X, x.Y}, {x.Y, x.X}} {
					var str ssa.Value
					switch e := side[0].(type) {
					case *ssa.Lookup:
						str = e.X
					case *ssa.Index:
						str = e.X
					}
					if str != nil && kit.IsStringType(str.Type()) && fromName(str) {
						if k, isc := kit.ConstInt(side[1]); isc && k == '.' {
							return x.Op == token.NEQ, true
						}
					}
				}
			}
			for _, side := range []struct {
				v, other ssa.Value
				flip     bool
			}{{x.X, x.Y, false}, {x.Y, x.X, true}} {
				k, isc := kit.ConstInt(side.other)
				if !isc {
					continue
				}
				op := x.Op
				if side.flip {
					op = flipCmp(op)
				}
				switch op {
				case token.EQL, token.NEQ, token.LSS, token.LEQ, token.GTR, token.GEQ:
				default:
					continue
				}
				// len(prefix): some positive length
				if c, ok := side.v.(*ssa.Call); ok && kit.CalleeOf(c).Built == "len" && len(c.Call.Args) == 1 && isPrefix(c.Call.Args[0]) {
					if cmpAt(op, 1, k) == cmpAt(op, 4, k) {
						return cmpAt(op, 1, k), true
					}
				}
				name, c := c19StringsCall(side.v)
				if c == nil || len(c.Call.Args) < 2 {
					continue
				}
				notFound := (fromName(c.Call.Args[0]) && !isPrefix(c.Call.Args[0]) && fromPattern(c.Call.Args[1]) && dotPrefixed(c.Call.Args[1])) ||
					(isPrefix(c.Call.Args[0]) && c19IsDot(c.Call.Args[1]))
				if !notFound {
					continue
				}
				switch {
				case name == "Count":
					return cmpAt(op, 0, k), true
				case strings.HasPrefix(name, "Index") || strings.HasPrefix(name, "LastIndex"):
					return cmpAt(op, -1, k), true
				}
			}
		case *ssa.Call:
			name, c := c19StringsCall(x)
			if c == nil || !c19IsBool(c.Type()) || len(c.Call.Args) < 2 {
				return false, false
			}
			hay, needle := c.Call.Args[0], c.Call.Args[1]
			switch name {
			case "HasSuffix":
				return endsWith(hay, needle)
			case "EqualFold":
				return false, true
			case "Contains", "ContainsRune", "ContainsAny":
				if isPrefix(hay) && c19IsDot(needle) {
					return false, true
				}
				if fromName(hay) && !isPrefix(hay) && fromPattern(needle) && dotPrefixed(needle) {
					return false, true
				}
			}
		case *ssa.Extract:
			name, c := c19StringsCall(x.Tuple)
			if c == nil || !c19IsBool(x.Type()) || len(c.Call.Args) < 2 {
				return false, false
			}
			hay, needle := c.Call.Args[0], c.Call.Args[1]
			switch name {
			case "CutSuffix":
				return endsWith(hay, needle)
			case "Cut":
				if fromName(hay) && !isPrefix(hay) && fromPattern(needle) && dotPrefixed(needle) {
					return false, true
				}
				if isPrefix(hay) && c19IsDot(needle) {
					return false, true
				}
			}
		}
		return false, false
	}
}
