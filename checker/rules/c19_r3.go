package rules

import (
	"go/token"
	"go/types"

	"golang.org/x/tools/go/ssa"

	"mmverify/kit"
)

// ---------- helper evaluation: a bool function of package exit is what its returns say ----------

// c19EvalBoolFunc evaluates a one-result bool function under atom: the common value of all live
// returns, or unknown.
func c19EvalBoolFunc(h *ssa.Function, atom kit.AtomEval) kit.Tri {
	l := kit.LiveUnder(h, atom)
	res := kit.TriBottom
	for _, ret := range l.LiveReturns() {
		if len(ret.Results) != 1 {
			return kit.TriUnknown
		}
		v := l.Eval(kit.ReturnResult(ret, 0))
		switch {
		case v != kit.TriTrue && v != kit.TriFalse:
			return kit.TriUnknown
		case res == kit.TriBottom:
			res = v
		case res != v:
			return kit.TriUnknown
		}
	}
	if res == kit.TriBottom {
		return kit.TriUnknown
	}
	return res
}

func c19BoolHelper(cond ssa.Value) (*ssa.Call, *ssa.Function) {
	c, ok := cond.(*ssa.Call)
	if !ok {
		return nil, nil
	}
	h := kit.CalleeOf(c).Static
	if h == nil || h.Blocks == nil || !c19InExit(h) {
		return nil, nil
	}
	res := h.Signature.Results()
	if res.Len() != 1 || !c19IsBool(res.At(0).Type()) {
		return nil, nil
	}
	return c, h
}

// deepAtom wraps a context-free atom (the same assignment applies inside helpers) so that calls of
// bool helpers of package exit are evaluated by running the assignment inside them.
func (cx *c19Ctx) deepAtom(base kit.AtomEval, depth int, busy map[*ssa.Function]bool) kit.AtomEval {
	return func(cond ssa.Value) (bool, bool) {
		if v, ok := base(cond); ok {
			return v, true
		}
		if _, h := c19BoolHelper(cond); h != nil && depth < 3 && !busy[h] {
			busy[h] = true
			res := c19EvalBoolFunc(h, cx.deepAtom(base, depth+1, busy))
			delete(busy, h)
			switch res {
			case kit.TriTrue:
				return true, true
			case kit.TriFalse:
				return false, true
			}
		}
		return false, false
	}
}

// ---------- flow through helper parameters ----------

// flowDeep is FlowSet extended through the parameters of helper functions of package exit: a
// parameter of a helper stands for the arguments at its static call sites (two levels).
func (cx *c19Ctx) flowDeep(v ssa.Value, root *ssa.Function) map[ssa.Value]bool {
	out := map[ssa.Value]bool{}
	var rec func(v ssa.Value, depth int)
	rec = func(v ssa.Value, depth int) {
		for x := range kit.FlowSet(v, nil) {
			if out[x] {
				continue
			}
			out[x] = true
			q, ok := x.(*ssa.Parameter)
			if !ok || depth >= 2 || q.Parent() == root || !c19InExit(q.Parent()) {
				continue
			}
			owner := q.Parent()
			idx := -1
			for i, fp := range owner.Params {
				if fp == q {
					idx = i
				}
			}
			for _, cs := range cx.p.StaticCallers(owner) {
				if idx >= 0 && idx < len(cs.Common().Args) {
					rec(cs.Common().Args[idx], depth+1)
				}
			}
		}
	}
	rec(v, 0)
	return out
}

// ---------- admission helpers: (ip, rejection) style ----------

// c19Admit summarises a function of package exit that performs the allow check for its caller and
// reports the outcome through a result: a pointer/error result that is non-nil whenever neither
// predicate allows, or a bool result that is false then.
type c19Admit struct {
	sigIdx   int
	nonNil   bool // true: non-nil result means "denied"; false: bool result, false means "denied"
	ipIdx    int  // result carrying the checked IP, -1 if none
	boolArgs bool
}

func c19CertainlyNonNil(v ssa.Value, ret *ssa.Return) bool {
	for _, leaf := range kit.PhiLeaves(v) {
		switch x := leaf.(type) {
		case *ssa.Alloc, *ssa.MakeInterface:
			continue
		case *ssa.Call:
			cal := kit.CalleeOf(x)
			if (cal.Pkg == "fmt" && cal.Name == "Errorf") || (cal.Pkg == "errors" && cal.Name == "New") {
				continue
			}
		}
		if kit.IsNilConst(leaf) {
			return false
		}
		// established non-nil by a dominating test
		ok := false
		for _, g := range kit.GuardsOf(ret) {
			if x, trueMeansNil, isNil := kit.IsErrNilCheck(g.Cond); isNil && x == leaf && trueMeansNil != g.Polarity {
				ok = true
			}
		}
		if !ok {
			return false
		}
	}
	return true
}

func (cx *c19Ctx) computeAdmission() {
	cx.admit = map[*ssa.Function]c19Admit{}
	for _, f := range cx.p.FuncsInPkg("internal/exit") {
		if f.Parent() != nil || cx.cidr[f] || cx.domain[f] || cx.derived[f] {
			continue
		}
		res := f.Signature.Results()
		if res.Len() == 0 || (res.Len() == 1 && c19IsBool(res.At(0).Type())) {
			continue
		}
		var ipVals []ssa.Value
		for _, c := range kit.Calls(f) {
			if s := kit.CalleeOf(c).Static; s != nil && (cx.cidr[s] || cx.derived[s]) {
				for _, a := range c.Common().Args {
					if c19IsNetIP(a.Type()) {
						ipVals = append(ipVals, a)
					}
				}
			}
		}
		if len(ipVals) == 0 {
			continue
		}
		boolPars := map[*ssa.Parameter]bool{}
		for _, q := range f.Params {
			if c19IsBool(q.Type()) {
				boolPars[q] = true
			}
		}
		l := kit.LiveUnder(f, cx.allowAtom(boolPars))
		rets := l.LiveReturns()
		if len(rets) == 0 {
			continue
		}
		sum := c19Admit{sigIdx: -1, ipIdx: -1}
		for j := 0; j < res.Len(); j++ {
			t := res.At(j).Type()
			_, isPtr := t.Underlying().(*types.Pointer)
			_, isIface := t.Underlying().(*types.Interface)
			switch {
			case c19IsBool(t):
				all := true
				for _, ret := range rets {
					if l.Eval(kit.ReturnResult(ret, j)) != kit.TriFalse {
						all = false
					}
				}
				if all {
					sum.sigIdx, sum.nonNil = j, false
				}
			case isPtr || isIface:
				all := true
				for _, ret := range rets {
					if !c19CertainlyNonNil(kit.ReturnResult(ret, j), ret) {
						all = false
					}
				}
				if all {
					sum.sigIdx, sum.nonNil = j, true
				}
			}
			if c19IsNetIP(t) {
				// every IP handed back is the one that was checked (or nil)
				okIP := true
				for _, ret := range kit.Returns(f) {
					if ret.Block() == f.Recover {
						continue
					}
					for _, o := range kit.Origins(kit.ReturnResult(ret, j)) {
						if kit.IsNilConst(o) {
							continue
						}
						same := false
						for _, iv := range ipVals {
							if o == iv {
								same = true
							}
						}
						if !same {
							okIP = false
						}
					}
				}
				if okIP {
					sum.ipIdx = j
				}
			}
		}
		if sum.sigIdx >= 0 {
			cx.admit[f] = sum
		}
	}
}

// admitSignal: v is the outcome result of a call of an admission helper whose bool arguments are
// all false under base; returns the summary.
func (cx *c19Ctx) admitSignal(v ssa.Value, base func(ssa.Value) (bool, bool)) (c19Admit, bool) {
	os := kit.Origins(v)
	if len(os) == 0 {
		return c19Admit{}, false
	}
	var sum c19Admit
	for _, o := range os {
		e, ok := o.(*ssa.Extract)
		if !ok {
			return c19Admit{}, false
		}
		c, ok := e.Tuple.(*ssa.Call)
		if !ok {
			return c19Admit{}, false
		}
		s := kit.CalleeOf(c).Static
		a, ok := cx.admit[s]
		if !ok || a.sigIdx != e.Index {
			return c19Admit{}, false
		}
		for _, arg := range c.Call.Args {
			if !c19IsBool(arg.Type()) {
				continue
			}
			known := false
			for _, ao := range kit.Origins(arg) {
				bv, ok := base(ao)
				if !ok || bv {
					return c19Admit{}, false
				}
				known = true
			}
			if !known {
				return c19Admit{}, false
			}
		}
		sum = a
	}
	return sum, true
}

// admitCond evaluates a condition on an admission outcome under "nothing allows".
func (cx *c19Ctx) admitCond(cond ssa.Value, base func(ssa.Value) (bool, bool)) (bool, bool) {
	if a, ok := cx.admitSignal(cond, base); ok && !a.nonNil {
		return false, true // the bool outcome is false
	}
	b, ok := cond.(*ssa.BinOp)
	if !ok || (b.Op != token.EQL && b.Op != token.NEQ) {
		return false, false
	}
	var other ssa.Value
	switch {
	case kit.IsNilConst(b.Y):
		other = b.X
	case kit.IsNilConst(b.X):
		other = b.Y
	default:
		return false, false
	}
	if a, ok := cx.admitSignal(other, base); ok && a.nonNil {
		return b.Op == token.NEQ, true // the rejection is non-nil
	}
	return false, false
}
