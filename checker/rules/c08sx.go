package rules

// Bounded symbolic execution of the route-table operations (shared by C08, C09, C10; g3).
//
// The functions of internal/routing are *interpreted over an abstract domain*, never compiled
// or run: scalars are small ranks (metrics, sequences, instants) or opaque atoms (agent ids,
// keys, networks), the heap holds a handful of route objects, and everything outside the
// package (net, time, sort, slices, sync, strings) is replaced by a model of its documented
// behaviour. The drivers in c08mc.go enumerate every small state / ordering scenario of a
// clause and compare the final abstract state with the clause's table. The result is
// independent of how the code is written (helpers, generics, closures, loops vs. slices.*),
// which is what the syntactic rules cannot offer. Anything the interpreter does not model
// aborts the run with "unknown" (never with a verdict).

import (
	"fmt"
	"go/constant"
	"go/token"
	"go/types"
	"strings"

	"golang.org/x/tools/go/ssa"

	"mmverify/kit"
)

type c08vVal interface{}

type c08vInt int64
type c08vBool bool
type c08vAtom string
type c08vNilT struct{}

var c08vNil = c08vNilT{}

// c08vObj is the storage of one struct; a pointer to the struct is the *c08vObj itself.
type c08vObj struct {
	st    *types.Struct
	named types.Type
	f     []c08vVal
	id    int
}
type c08vCell struct{ v c08vVal }
type c08vArr struct {
	e  []c08vVal
	id int
}
type c08vSlice struct {
	a         *c08vArr
	off, n, c int
}
type c08vFieldRef struct {
	o *c08vObj
	i int
}
type c08vElemRef struct {
	a *c08vArr
	i int
}
type c08vMap struct {
	keys []c08vVal
	vals []c08vVal
	id   int
}
type c08vFunc struct {
	fn   *ssa.Function
	bind []c08vVal
}
type c08vTuple []c08vVal
type c08vIface struct {
	v c08vVal
	t types.Type
}
type c08vIter struct {
	m    *c08vMap
	keys []c08vVal
	pos  int
}
type c08vOpaque struct{ what string }

// c08SX is one abstract machine.
type c08SX struct {
	p      *kit.Program
	steps  int
	max    int
	err    string // non-empty: the run was aborted (not modelled / abstract panic)
	panic  bool   // the abort is a run-time panic of the interpreted code (nil deref, index)
	now    int64
	nextID int
	depth  int
	// ext models calls that depend on the scenario (net.IPNet.Contains, ...). Return ok=false to
	// fall back to the generic models.
	ext func(cal kit.Callee, args []c08vVal) (c08vVal, bool)
	// lock bookkeeping: number of write/read acquisitions currently held per mutex object
	pkgPath string
}

func c08NewSX(p *kit.Program) *c08SX {
	return &c08SX{p: p, max: 200000, pkgPath: kit.PkgPath(c08Pkg), now: 1000}
}

func (x *c08SX) fail(format string, a ...any) {
	if x.err == "" {
		x.err = fmt.Sprintf(format, a...)
	}
}

func (x *c08SX) crash(format string, a ...any) {
	if x.err == "" {
		x.err = "panic: " + fmt.Sprintf(format, a...)
		x.panic = true
	}
}

func (x *c08SX) id() int { x.nextID++; return x.nextID }

// ---------- types and zero values ----------

func c08vIsScalarStruct(t types.Type) (kind string) {
	n, ok := t.(*types.Named)
	if !ok || n.Obj().Pkg() == nil {
		return ""
	}
	switch n.Obj().Pkg().Path() {
	case "time":
		return "time"
	case "sync", "sync/atomic":
		return "sync"
	}
	return ""
}

func (x *c08SX) zero(t types.Type) c08vVal {
	if k := c08vIsScalarStruct(t); k == "time" {
		return c08vInt(0)
	} else if k == "sync" {
		return c08vOpaque{"sync"}
	}
	switch u := t.Underlying().(type) {
	case *types.Basic:
		switch {
		case u.Info()&types.IsBoolean != 0:
			return c08vBool(false)
		case u.Info()&types.IsString != 0:
			return c08vAtom("")
		case u.Info()&types.IsNumeric != 0:
			return c08vInt(0)
		}
		return c08vNil
	case *types.Struct:
		return x.newObj(t)
	case *types.Array:
		if _, basic := u.Elem().Underlying().(*types.Basic); basic {
			return c08vAtom("zero")
		}
		a := &c08vArr{id: x.id()}
		for i := int64(0); i < u.Len(); i++ {
			a.e = append(a.e, x.zero(u.Elem()))
		}
		return a
	case *types.Slice:
		return c08vSlice{}
	case *types.Map:
		return (*c08vMap)(nil)
	}
	return c08vNil
}

func (x *c08SX) newObj(t types.Type) *c08vObj {
	st, _ := t.Underlying().(*types.Struct)
	o := &c08vObj{st: st, named: t, id: x.id()}
	if st != nil {
		for i := 0; i < st.NumFields(); i++ {
			o.f = append(o.f, x.zero(st.Field(i).Type()))
		}
	}
	return o
}

func (x *c08SX) copyObj(o *c08vObj) *c08vObj {
	c := &c08vObj{st: o.st, named: o.named, id: x.id()}
	for _, v := range o.f {
		if so, ok := v.(*c08vObj); ok && so != nil {
			v = x.copyObj(so) // nested struct value
		}
		c.f = append(c.f, v)
	}
	return c
}

func c08vIsNil(v c08vVal) bool {
	switch t := v.(type) {
	case nil:
		return true
	case c08vNilT:
		return true
	case c08vSlice:
		return t.a == nil
	case *c08vMap:
		return t == nil
	case *c08vObj:
		return t == nil
	case *c08vCell:
		return t == nil
	case *c08vArr:
		return t == nil
	case c08vIface:
		return false
	}
	return false
}

func c08vEqual(a, b c08vVal) (bool, bool) {
	if c08vIsNil(a) || c08vIsNil(b) {
		return c08vIsNil(a) && c08vIsNil(b), true
	}
	switch ta := a.(type) {
	case c08vInt:
		tb, ok := b.(c08vInt)
		return ok && ta == tb, ok
	case c08vBool:
		tb, ok := b.(c08vBool)
		return ok && ta == tb, ok
	case c08vAtom:
		tb, ok := b.(c08vAtom)
		return ok && ta == tb, ok
	case *c08vObj:
		tb, ok := b.(*c08vObj)
		return ok && ta == tb, ok
	case *c08vCell:
		tb, ok := b.(*c08vCell)
		return ok && ta == tb, ok
	case c08vIface:
		if tb, ok := b.(c08vIface); ok {
			return c08vEqual(ta.v, tb.v)
		}
	}
	return false, false
}

// ---------- frames ----------

type c08vFrame struct {
	fn     *ssa.Function
	env    map[ssa.Value]c08vVal
	bind   []c08vVal
	defers []func()
	result c08vVal
}

func (x *c08SX) constVal(c *ssa.Const) c08vVal {
	if c.Value == nil {
		return x.zero(c.Type())
	}
	switch c.Value.Kind() {
	case constant.Bool:
		return c08vBool(constant.BoolVal(c.Value))
	case constant.String:
		return c08vAtom(constant.StringVal(c.Value))
	case constant.Int:
		if i, ok := constant.Int64Val(c.Value); ok {
			return c08vInt(i)
		}
		if u, ok := constant.Uint64Val(c.Value); ok {
			return c08vInt(int64(u))
		}
	case constant.Float:
		f, _ := constant.Float64Val(c.Value)
		return c08vInt(int64(f))
	}
	x.fail("constant %s not modelled", c)
	return c08vNil
}

func (x *c08SX) get(fr *c08vFrame, v ssa.Value) c08vVal {
	switch t := v.(type) {
	case *ssa.Const:
		return x.constVal(t)
	case *ssa.Function:
		return c08vFunc{fn: t}
	case *ssa.FreeVar:
		for i, fv := range fr.fn.FreeVars {
			if fv == t && i < len(fr.bind) {
				return fr.bind[i]
			}
		}
		x.fail("free variable %s unbound", t.Name())
		return c08vNil
	case *ssa.Global:
		x.fail("package variable %s not modelled", t.Name())
		return c08vNil
	case *ssa.Builtin:
		return c08vOpaque{"builtin " + t.Name()}
	}
	if val, ok := fr.env[v]; ok {
		return val
	}
	x.fail("value %s of %s used before it was computed", v.Name(), fr.fn.Name())
	return c08vNil
}

// Call interprets fn on args (receiver first) and returns its result (c08vTuple for several).
func (x *c08SX) Call(fn *ssa.Function, args []c08vVal, bind []c08vVal) c08vVal {
	if x.err != "" {
		return c08vNil
	}
	if len(fn.Blocks) == 0 {
		x.fail("function %s has no body", fn.Name())
		return c08vNil
	}
	x.depth++
	defer func() { x.depth-- }()
	if x.depth > 40 {
		x.fail("call depth exceeded at %s", fn.Name())
		return c08vNil
	}
	fr := &c08vFrame{fn: fn, env: map[ssa.Value]c08vVal{}, bind: bind}
	for i, prm := range fn.Params {
		if i < len(args) {
			fr.env[prm] = args[i]
		} else {
			fr.env[prm] = x.zero(prm.Type())
		}
	}
	var prev *ssa.BasicBlock
	b := fn.Blocks[0]
	for x.err == "" {
		next, done := x.block(fr, b, prev)
		if done {
			break
		}
		prev, b = b, next
	}
	return fr.result
}

func (x *c08SX) runDefers(fr *c08vFrame) {
	for i := len(fr.defers) - 1; i >= 0; i-- {
		fr.defers[i]()
	}
	fr.defers = nil
}

func (x *c08SX) block(fr *c08vFrame, b, prev *ssa.BasicBlock) (*ssa.BasicBlock, bool) {
	// phis first, simultaneously
	var phiVals []c08vVal
	var phis []*ssa.Phi
	for _, in := range b.Instrs {
		ph, ok := in.(*ssa.Phi)
		if !ok {
			break
		}
		idx := -1
		for i, p := range b.Preds {
			if p == prev {
				idx = i
			}
		}
		if idx < 0 {
			x.fail("phi without incoming edge in %s", fr.fn.Name())
			return nil, true
		}
		phis = append(phis, ph)
		phiVals = append(phiVals, x.get(fr, ph.Edges[idx]))
	}
	for i, ph := range phis {
		fr.env[ph] = phiVals[i]
	}
	for _, in := range b.Instrs[len(phis):] {
		x.steps++
		if x.steps > x.max {
			x.fail("step budget exhausted (loop?) in %s", fr.fn.Name())
			return nil, true
		}
		if x.err != "" {
			return nil, true
		}
		switch t := in.(type) {
		case *ssa.If:
			c, ok := x.get(fr, t.Cond).(c08vBool)
			if !ok {
				x.fail("branch on a non-boolean abstract value in %s", fr.fn.Name())
				return nil, true
			}
			if c {
				return b.Succs[0], false
			}
			return b.Succs[1], false
		case *ssa.Jump:
			return b.Succs[0], false
		case *ssa.Return:
			switch len(t.Results) {
			case 0:
				fr.result = c08vNil
			case 1:
				fr.result = x.get(fr, t.Results[0])
			default:
				var tu c08vTuple
				for _, r := range t.Results {
					tu = append(tu, x.get(fr, r))
				}
				fr.result = tu
			}
			return nil, true
		case *ssa.Panic:
			x.crash("explicit panic in %s", fr.fn.Name())
			return nil, true
		case *ssa.RunDefers:
			x.runDefers(fr)
		case *ssa.Defer:
			cc := t.Call
			args := x.args(fr, &cc)
			fnv := x.calleeVal(fr, &cc)
			fr.defers = append(fr.defers, func() { x.invoke(&cc, fnv, args) })
		case *ssa.Go:
			x.fail("go statement not modelled")
			return nil, true
		case *ssa.Store:
			x.store(x.get(fr, t.Addr), x.get(fr, t.Val))
		case *ssa.MapUpdate:
			m, ok := x.get(fr, t.Map).(*c08vMap)
			if !ok || m == nil {
				x.crash("assignment to entry in nil map")
				return nil, true
			}
			x.mapSet(m, x.get(fr, t.Key), x.get(fr, t.Value))
		case *ssa.DebugRef:
		case ssa.Value:
			fr.env[t] = x.eval(fr, t)
		default:
			x.fail("instruction %T not modelled", in)
			return nil, true
		}
	}
	return nil, true
}

// ---------- memory ----------

func (x *c08SX) load(p c08vVal) c08vVal {
	switch t := p.(type) {
	case *c08vCell:
		if t == nil {
			break
		}
		return t.v
	case c08vFieldRef:
		return t.o.f[t.i]
	case c08vElemRef:
		if t.i < 0 || t.i >= len(t.a.e) {
			x.crash("index out of range")
			return c08vNil
		}
		return t.a.e[t.i]
	case *c08vObj:
		if t == nil {
			break
		}
		return x.copyObj(t) // struct value copy
	case *c08vArr:
		if t != nil {
			return t
		}
	}
	x.crash("nil pointer dereference")
	return c08vNil
}

func (x *c08SX) store(p, v c08vVal) {
	switch t := p.(type) {
	case *c08vCell:
		if t != nil {
			t.v = v
			return
		}
	case c08vFieldRef:
		t.o.f[t.i] = v
		return
	case c08vElemRef:
		if t.i < 0 || t.i >= len(t.a.e) {
			x.crash("index out of range")
			return
		}
		t.a.e[t.i] = v
		return
	case *c08vObj:
		if t != nil {
			if src, ok := v.(*c08vObj); ok && src != nil {
				copy(t.f, x.copyObj(src).f)
				return
			}
		}
	}
	x.crash("store through nil pointer")
}

func (x *c08SX) mapGet(m *c08vMap, k c08vVal) (c08vVal, bool) {
	if m == nil {
		return nil, false
	}
	for i, kk := range m.keys {
		if eq, ok := c08vEqual(kk, k); ok && eq {
			return m.vals[i], true
		}
	}
	return nil, false
}

func (x *c08SX) mapSet(m *c08vMap, k, v c08vVal) {
	for i, kk := range m.keys {
		if eq, ok := c08vEqual(kk, k); ok && eq {
			m.vals[i] = v
			return
		}
	}
	m.keys = append(m.keys, k)
	m.vals = append(m.vals, v)
}

func (x *c08SX) mapDel(m *c08vMap, k c08vVal) {
	if m == nil {
		return
	}
	for i, kk := range m.keys {
		if eq, ok := c08vEqual(kk, k); ok && eq {
			m.keys = append(m.keys[:i:i], m.keys[i+1:]...)
			m.vals = append(m.vals[:i:i], m.vals[i+1:]...)
			return
		}
	}
}

func (x *c08SX) elems(s c08vSlice) []c08vVal {
	if s.a == nil {
		return nil
	}
	return s.a.e[s.off : s.off+s.n]
}

func (x *c08SX) mkSlice(vals []c08vVal) c08vSlice {
	a := &c08vArr{e: append([]c08vVal{}, vals...), id: x.id()}
	return c08vSlice{a: a, n: len(vals), c: len(vals)}
}

func (x *c08SX) appendVals(s c08vSlice, vals []c08vVal) c08vSlice {
	if len(vals) == 0 {
		return s
	}
	if s.a != nil && s.n+len(vals) <= s.c {
		for i, v := range vals {
			s.a.e[s.off+s.n+i] = v
		}
		s.n += len(vals)
		return s
	}
	nc := 2*s.c + len(vals)
	a := &c08vArr{id: x.id(), e: make([]c08vVal, nc)}
	copy(a.e, x.elems(s))
	copy(a.e[s.n:], vals)
	for i := s.n + len(vals); i < nc; i++ {
		a.e[i] = c08vNil
	}
	return c08vSlice{a: a, n: s.n + len(vals), c: nc}
}

// ---------- expressions ----------

func (x *c08SX) eval(fr *c08vFrame, v ssa.Value) c08vVal {
	switch t := v.(type) {
	case *ssa.Alloc:
		et := t.Type().Underlying().(*types.Pointer).Elem()
		z := x.zero(et)
		switch zz := z.(type) {
		case *c08vObj:
			return zz
		case *c08vArr:
			return zz
		}
		return &c08vCell{v: z}
	case *ssa.BinOp:
		return x.binop(t.Op, x.get(fr, t.X), x.get(fr, t.Y))
	case *ssa.UnOp:
		a := x.get(fr, t.X)
		switch t.Op {
		case token.MUL:
			return x.load(a)
		case token.NOT:
			if b, ok := a.(c08vBool); ok {
				return !b
			}
		case token.SUB:
			if i, ok := a.(c08vInt); ok {
				return -i
			}
		}
		x.fail("unary %s not modelled", t.Op)
		return c08vNil
	case *ssa.Call:
		cc := t.Call
		return x.invoke(&cc, x.calleeVal(fr, &cc), x.args(fr, &cc))
	case *ssa.ChangeType:
		return x.get(fr, t.X)
	case *ssa.Convert:
		return x.get(fr, t.X)
	case *ssa.ChangeInterface:
		return x.get(fr, t.X)
	case *ssa.MakeInterface:
		return c08vIface{v: x.get(fr, t.X), t: t.X.Type()}
	case *ssa.TypeAssert:
		if ifc, ok := x.get(fr, t.X).(c08vIface); ok && types.Identical(ifc.t, t.AssertedType) {
			if t.CommaOk {
				return c08vTuple{ifc.v, c08vBool(true)}
			}
			return ifc.v
		}
		x.fail("type assertion not modelled")
		return c08vNil
	case *ssa.MakeClosure:
		f := c08vFunc{fn: t.Fn.(*ssa.Function)}
		for _, b := range t.Bindings {
			f.bind = append(f.bind, x.get(fr, b))
		}
		return f
	case *ssa.MakeMap:
		return &c08vMap{id: x.id()}
	case *ssa.MakeSlice:
		n, ok1 := x.get(fr, t.Len).(c08vInt)
		c, ok2 := x.get(fr, t.Cap).(c08vInt)
		if !ok1 || !ok2 || n < 0 || c < n {
			x.fail("make([]T) with abstract length")
			return c08vNil
		}
		et := t.Type().Underlying().(*types.Slice).Elem()
		a := &c08vArr{id: x.id()}
		for i := 0; i < int(c); i++ {
			a.e = append(a.e, x.zero(et))
		}
		return c08vSlice{a: a, n: int(n), c: int(c)}
	case *ssa.FieldAddr:
		o, ok := x.get(fr, t.X).(*c08vObj)
		if !ok || o == nil {
			x.crash("nil pointer dereference (field %d)", t.Field)
			return c08vNil
		}
		if t.Field >= len(o.f) {
			x.fail("field index out of the modelled struct")
			return c08vNil
		}
		// a nested struct field is addressed as the nested object itself
		if so, ok := o.f[t.Field].(*c08vObj); ok && so != nil && c08vIsScalarStruct(o.st.Field(t.Field).Type()) == "" {
			if _, isStruct := o.st.Field(t.Field).Type().Underlying().(*types.Struct); isStruct {
				return so
			}
		}
		return c08vFieldRef{o, t.Field}
	case *ssa.Field:
		o, ok := x.get(fr, t.X).(*c08vObj)
		if !ok || o == nil || t.Field >= len(o.f) {
			x.fail("field of a non-struct abstract value")
			return c08vNil
		}
		return o.f[t.Field]
	case *ssa.IndexAddr:
		i, ok := x.get(fr, t.Index).(c08vInt)
		if !ok {
			x.fail("abstract index")
			return c08vNil
		}
		switch s := x.get(fr, t.X).(type) {
		case c08vSlice:
			if i < 0 || int(i) >= s.n {
				x.crash("index %d out of range [0,%d)", i, s.n)
				return c08vNil
			}
			return c08vElemRef{s.a, s.off + int(i)}
		case *c08vArr:
			if s == nil || i < 0 || int(i) >= len(s.e) {
				x.crash("array index out of range")
				return c08vNil
			}
			return c08vElemRef{s, int(i)}
		}
		x.fail("indexing a value that is neither slice nor array pointer")
		return c08vNil
	case *ssa.Index:
		i, ok := x.get(fr, t.Index).(c08vInt)
		if a, isArr := x.get(fr, t.X).(*c08vArr); ok && isArr && a != nil && int(i) < len(a.e) && i >= 0 {
			return a.e[i]
		}
		x.fail("index expression not modelled")
		return c08vNil
	case *ssa.Slice:
		return x.sliceOp(fr, t)
	case *ssa.Lookup:
		k := x.get(fr, t.Index)
		switch m := x.get(fr, t.X).(type) {
		case *c08vMap:
			val, ok := x.mapGet(m, k)
			if !ok {
				val = x.zero(t.X.Type().Underlying().(*types.Map).Elem())
			}
			if t.CommaOk {
				return c08vTuple{val, c08vBool(ok)}
			}
			return val
		case c08vAtom: // string index
			if i, ok := k.(c08vInt); ok && i >= 0 && int(i) < len(m) {
				return c08vInt(m[i])
			}
			x.crash("string index out of range")
			return c08vNil
		}
		x.fail("lookup on a value that is not a map")
		return c08vNil
	case *ssa.Range:
		switch m := x.get(fr, t.X).(type) {
		case *c08vMap:
			it := &c08vIter{m: m}
			if m != nil {
				it.keys = append(it.keys, m.keys...)
			}
			return it
		}
		x.fail("range over a non-map value not modelled")
		return c08vNil
	case *ssa.Next:
		it, ok := x.get(fr, t.Iter).(*c08vIter)
		if !ok {
			x.fail("next on unknown iterator")
			return c08vNil
		}
		for it.pos < len(it.keys) {
			k := it.keys[it.pos]
			it.pos++
			if val, present := x.mapGet(it.m, k); present {
				return c08vTuple{c08vBool(true), k, val}
			}
		}
		return c08vTuple{c08vBool(false), c08vNil, c08vNil}
	case *ssa.Extract:
		tu, ok := x.get(fr, t.Tuple).(c08vTuple)
		if !ok || t.Index >= len(tu) {
			x.fail("extract from a non-tuple")
			return c08vNil
		}
		return tu[t.Index]
	case *ssa.Phi:
		return fr.env[t]
	}
	x.fail("value %T not modelled", v)
	return c08vNil
}

func (x *c08SX) sliceOp(fr *c08vFrame, t *ssa.Slice) c08vVal {
	idx := func(v ssa.Value, def int) (int, bool) {
		if v == nil {
			return def, true
		}
		i, ok := x.get(fr, v).(c08vInt)
		return int(i), ok
	}
	switch s := x.get(fr, t.X).(type) {
	case c08vSlice:
		lo, ok1 := idx(t.Low, 0)
		hi, ok2 := idx(t.High, s.n)
		mx, ok3 := idx(t.Max, s.c)
		if !ok1 || !ok2 || !ok3 {
			x.fail("abstract slice bound")
			return c08vNil
		}
		if lo < 0 || hi < lo || hi > s.c || mx > s.c || mx < hi {
			x.crash("slice bounds out of range [%d:%d] with capacity %d", lo, hi, s.c)
			return c08vNil
		}
		if s.a == nil {
			return c08vSlice{}
		}
		return c08vSlice{a: s.a, off: s.off + lo, n: hi - lo, c: mx - lo}
	case *c08vArr:
		if s == nil {
			x.crash("slice of nil array pointer")
			return c08vNil
		}
		lo, ok1 := idx(t.Low, 0)
		hi, ok2 := idx(t.High, len(s.e))
		if !ok1 || !ok2 || lo < 0 || hi < lo || hi > len(s.e) {
			x.crash("slice bounds out of range")
			return c08vNil
		}
		return c08vSlice{a: s, off: lo, n: hi - lo, c: len(s.e) - lo}
	case c08vAtom:
		lo, ok1 := idx(t.Low, 0)
		hi, ok2 := idx(t.High, len(s))
		if !ok1 || !ok2 || lo < 0 || hi < lo || hi > len(s) {
			x.crash("string slice bounds out of range")
			return c08vNil
		}
		return s[lo:hi]
	}
	x.fail("slice of an unmodelled value")
	return c08vNil
}

func (x *c08SX) binop(op token.Token, a, b c08vVal) c08vVal {
	switch op {
	case token.EQL, token.NEQ:
		eq, ok := c08vEqual(a, b)
		if !ok {
			x.fail("comparison of unmodelled values (%T, %T)", a, b)
			return c08vNil
		}
		return c08vBool(eq == (op == token.EQL))
	}
	if ia, ok := a.(c08vInt); ok {
		if ib, ok := b.(c08vInt); ok {
			switch op {
			case token.ADD:
				return ia + ib
			case token.SUB:
				return ia - ib
			case token.MUL:
				return ia * ib
			case token.QUO:
				if ib == 0 {
					x.crash("division by zero")
					return c08vNil
				}
				return ia / ib
			case token.REM:
				if ib == 0 {
					x.crash("division by zero")
					return c08vNil
				}
				return ia % ib
			case token.LSS:
				return c08vBool(ia < ib)
			case token.LEQ:
				return c08vBool(ia <= ib)
			case token.GTR:
				return c08vBool(ia > ib)
			case token.GEQ:
				return c08vBool(ia >= ib)
			case token.AND:
				return ia & ib
			case token.OR:
				return ia | ib
			case token.SHL:
				return ia << uint(ib)
			case token.SHR:
				return ia >> uint(ib)
			}
		}
	}
	if sa, ok := a.(c08vAtom); ok {
		if sb, ok := b.(c08vAtom); ok {
			switch op {
			case token.ADD:
				return sa + sb
			case token.LSS:
				return c08vBool(sa < sb)
			case token.GTR:
				return c08vBool(sa > sb)
			case token.LEQ:
				return c08vBool(sa <= sb)
			case token.GEQ:
				return c08vBool(sa >= sb)
			}
		}
	}
	if ba, ok := a.(c08vBool); ok {
		if bb, ok := b.(c08vBool); ok {
			switch op {
			case token.AND:
				return ba && bb
			case token.OR:
				return ba || bb
			}
		}
	}
	x.fail("operator %s on (%T, %T) not modelled", op, a, b)
	return c08vNil
}

// ---------- calls ----------

func (x *c08SX) args(fr *c08vFrame, cc *ssa.CallCommon) []c08vVal {
	var out []c08vVal
	for _, a := range cc.Args {
		out = append(out, x.get(fr, a))
	}
	return out
}

func (x *c08SX) calleeVal(fr *c08vFrame, cc *ssa.CallCommon) c08vVal {
	if cc.IsInvoke() {
		return c08vNil
	}
	switch cc.Value.(type) {
	case *ssa.Builtin, *ssa.Function:
		return c08vNil
	}
	return x.get(fr, cc.Value)
}

func (x *c08SX) callFunc(f c08vVal, args ...c08vVal) c08vVal {
	fv, ok := f.(c08vFunc)
	if !ok {
		x.crash("call of a nil or unmodelled function value")
		return c08vNil
	}
	if len(fv.fn.Blocks) == 0 {
		x.fail("function value %s without body", fv.fn.Name())
		return c08vNil
	}
	return x.Call(fv.fn, args, fv.bind)
}

func (x *c08SX) invoke(cc *ssa.CallCommon, fnv c08vVal, args []c08vVal) c08vVal {
	if x.err != "" {
		return c08vNil
	}
	if cc.IsInvoke() {
		x.fail("interface method call %s not modelled", cc.Method.Name())
		return c08vNil
	}
	switch callee := cc.Value.(type) {
	case *ssa.Builtin:
		return x.builtin(callee.Name(), cc, args)
	case *ssa.Function:
		cal := c08vCalleeOf(callee)
		if kit.FuncPkgPath(callee) == x.pkgPath && len(callee.Blocks) > 0 {
			return x.Call(callee, args, nil)
		}
		return x.model(cal, cc, args)
	}
	if fv, ok := fnv.(c08vFunc); ok {
		if len(fv.fn.Blocks) > 0 && (kit.FuncPkgPath(fv.fn) == x.pkgPath || fv.fn.Synthetic != "") {
			return x.Call(fv.fn, args, fv.bind)
		}
		// a std function used as a value (e.g. strings.ToLower passed around)
		return x.model(kit.Callee{Pkg: kit.FuncPkgPath(fv.fn), Name: fv.fn.Name(), Static: fv.fn}, cc, args)
	}
	x.crash("call of a nil function value")
	return c08vNil
}

// c08vCalleeOf describes a statically called function like kit.CalleeOf does for a call site.
func c08vCalleeOf(f *ssa.Function) kit.Callee {
	c := kit.Callee{Name: f.Name(), Static: f, Pkg: kit.FuncPkgPath(f)}
	if org := f.Origin(); org != nil && org != f {
		c.Name = org.Name()
	}
	if f.Signature != nil && f.Signature.Recv() != nil {
		t := f.Signature.Recv().Type()
		if pt, ok := t.(*types.Pointer); ok {
			t = pt.Elem()
		}
		switch tt := t.(type) {
		case *types.Named:
			c.Recv = tt.Obj().Name()
		case *types.Alias:
			c.Recv = tt.Obj().Name()
		}
	}
	return c
}

func (x *c08SX) builtin(name string, cc *ssa.CallCommon, args []c08vVal) c08vVal {
	switch name {
	case "len":
		switch s := args[0].(type) {
		case c08vSlice:
			return c08vInt(s.n)
		case *c08vMap:
			if s == nil {
				return c08vInt(0)
			}
			return c08vInt(len(s.keys))
		case c08vAtom:
			return c08vInt(len(s))
		case *c08vArr:
			return c08vInt(len(s.e))
		}
	case "cap":
		if s, ok := args[0].(c08vSlice); ok {
			return c08vInt(s.c)
		}
	case "append":
		s, ok1 := args[0].(c08vSlice)
		if c08vIsNil(args[0]) {
			s, ok1 = c08vSlice{}, true
		}
		if len(args) == 1 {
			return s
		}
		t, ok2 := args[1].(c08vSlice)
		if c08vIsNil(args[1]) {
			t, ok2 = c08vSlice{}, true
		}
		if ok1 && ok2 {
			return x.appendVals(s, append([]c08vVal{}, x.elems(t)...))
		}
	case "copy":
		d, ok1 := args[0].(c08vSlice)
		s, ok2 := args[1].(c08vSlice)
		if ok1 && ok2 {
			src := append([]c08vVal{}, x.elems(s)...)
			n := len(src)
			if d.n < n {
				n = d.n
			}
			for i := 0; i < n; i++ {
				d.a.e[d.off+i] = src[i]
			}
			return c08vInt(n)
		}
		if c08vIsNil(args[0]) || c08vIsNil(args[1]) {
			return c08vInt(0)
		}
	case "delete":
		if m, ok := args[0].(*c08vMap); ok {
			x.mapDel(m, args[1])
			return c08vNil
		}
	case "clear":
		switch s := args[0].(type) {
		case *c08vMap:
			if s != nil {
				s.keys, s.vals = nil, nil
			}
			return c08vNil
		case c08vSlice:
			et := cc.Args[0].Type().Underlying().(*types.Slice).Elem()
			for i := range x.elems(s) {
				s.a.e[s.off+i] = x.zero(et)
			}
			return c08vNil
		}
	case "min", "max":
		best, ok := args[0].(c08vInt)
		for _, a := range args[1:] {
			v, ok2 := a.(c08vInt)
			ok = ok && ok2
			if (name == "min" && v < best) || (name == "max" && v > best) {
				best = v
			}
		}
		if ok {
			return best
		}
	case "panic":
		x.crash("explicit panic")
		return c08vNil
	}
	x.fail("builtin %s on these abstract values not modelled", name)
	return c08vNil
}

// model replaces a function outside internal/routing by its documented behaviour.
func (x *c08SX) model(cal kit.Callee, cc *ssa.CallCommon, args []c08vVal) c08vVal {
	if x.ext != nil {
		if v, ok := x.ext(cal, args); ok {
			return v
		}
	}
	asInt := func(i int) (int64, bool) {
		if i < len(args) {
			if v, ok := args[i].(c08vInt); ok {
				return int64(v), true
			}
		}
		return 0, false
	}
	asStr := func(i int) (string, bool) {
		if i < len(args) {
			if v, ok := args[i].(c08vAtom); ok {
				return string(v), true
			}
		}
		return "", false
	}
	asSlice := func(i int) (c08vSlice, bool) {
		if i < len(args) {
			if c08vIsNil(args[i]) {
				return c08vSlice{}, true
			}
			if v, ok := args[i].(c08vSlice); ok {
				return v, true
			}
			if ifc, ok := args[i].(c08vIface); ok {
				if v, ok := ifc.v.(c08vSlice); ok {
					return v, true
				}
			}
		}
		return c08vSlice{}, false
	}
	truth := func(v c08vVal) bool {
		b, ok := v.(c08vBool)
		if !ok {
			x.fail("predicate returned a non-boolean abstract value")
		}
		return bool(b)
	}
	swap := func(s c08vSlice, i, j int) {
		s.a.e[s.off+i], s.a.e[s.off+j] = s.a.e[s.off+j], s.a.e[s.off+i]
	}
	switch cal.Pkg {
	case "sync", "sync/atomic":
		switch cal.Name {
		case "TryLock", "TryRLock":
			return c08vBool(true)
		}
		return c08vNil
	case "time":
		switch {
		case cal.Recv == "" && cal.Name == "Now":
			return c08vInt(x.now)
		case cal.Recv == "" && cal.Name == "Since":
			if t, ok := asInt(0); ok {
				return c08vInt(x.now - t)
			}
		case cal.Recv == "" && cal.Name == "Until":
			if t, ok := asInt(0); ok {
				return c08vInt(t - x.now)
			}
		case cal.Recv == "Time":
			a, ok1 := asInt(0)
			b, ok2 := asInt(1)
			switch cal.Name {
			case "Sub":
				if ok1 && ok2 {
					return c08vInt(a - b)
				}
			case "Add":
				if ok1 && ok2 {
					return c08vInt(a + b)
				}
			case "Before":
				if ok1 && ok2 {
					return c08vBool(a < b)
				}
			case "After":
				if ok1 && ok2 {
					return c08vBool(a > b)
				}
			case "Equal":
				if ok1 && ok2 {
					return c08vBool(a == b)
				}
			case "Compare":
				if ok1 && ok2 {
					return c08vInt(c08Sign(a - b))
				}
			case "IsZero":
				if ok1 {
					return c08vBool(a == 0)
				}
			case "Unix", "UnixNano", "UnixMilli":
				if ok1 {
					return c08vInt(a)
				}
			}
		case cal.Recv == "Duration":
			if a, ok := asInt(0); ok {
				return c08vInt(a)
			}
		}
	case "cmp":
		a, ok1 := asInt(0)
		b, ok2 := asInt(1)
		if ok1 && ok2 {
			switch cal.Name {
			case "Compare":
				return c08vInt(c08Sign(a - b))
			case "Less":
				return c08vBool(a < b)
			}
		}
	case "sort":
		if cal.Name == "Slice" || cal.Name == "SliceStable" {
			s, ok := asSlice(0)
			if !ok {
				break
			}
			for i := 1; i < s.n && x.err == ""; i++ {
				for j := i; j > 0 && x.err == "" && truth(x.callFunc(args[1], c08vInt(j), c08vInt(j-1))); j-- {
					swap(s, j, j-1)
				}
			}
			return c08vNil
		}
	case "slices":
		s, ok := asSlice(0)
		if !ok {
			break
		}
		el := x.elems(s)
		switch cal.Name {
		case "SortFunc", "SortStableFunc":
			for i := 1; i < s.n && x.err == ""; i++ {
				for j := i; j > 0 && x.err == ""; j-- {
					c, ok := x.callFunc(args[1], s.a.e[s.off+j], s.a.e[s.off+j-1]).(c08vInt)
					if !ok || c >= 0 {
						if !ok {
							x.fail("comparator returned a non-integer abstract value")
						}
						break
					}
					swap(s, j, j-1)
				}
			}
			return c08vNil
		case "IndexFunc", "ContainsFunc":
			at := -1
			for i, e := range el {
				if truth(x.callFunc(args[1], e)) {
					at = i
					break
				}
				if x.err != "" {
					break
				}
			}
			if cal.Name == "ContainsFunc" {
				return c08vBool(at >= 0)
			}
			return c08vInt(at)
		case "Index", "Contains":
			at := -1
			for i, e := range el {
				eq, ok := c08vEqual(e, args[1])
				if !ok {
					x.fail("slices.%s on values whose equality is not modelled", cal.Name)
					return c08vNil
				}
				if eq {
					at = i
					break
				}
			}
			if cal.Name == "Contains" {
				return c08vBool(at >= 0)
			}
			return c08vInt(at)
		case "Delete":
			i, ok1 := asInt(1)
			j, ok2 := asInt(2)
			if !ok1 || !ok2 || i < 0 || j < i || int(j) > s.n {
				x.crash("slices.Delete bounds")
				return c08vNil
			}
			keep := append([]c08vVal{}, el[j:]...)
			for k, v := range keep {
				s.a.e[s.off+int(i)+k] = v
			}
			newN := s.n - int(j-i)
			for k := newN; k < s.n; k++ {
				s.a.e[s.off+k] = c08vNil
			}
			return c08vSlice{a: s.a, off: s.off, n: newN, c: s.c}
		case "DeleteFunc":
			w := 0
			old := append([]c08vVal{}, el...)
			for _, e := range old {
				if truth(x.callFunc(args[1], e)) {
					continue
				}
				if x.err != "" {
					return c08vNil
				}
				s.a.e[s.off+w] = e
				w++
			}
			for k := w; k < s.n; k++ {
				s.a.e[s.off+k] = c08vNil
			}
			if s.a == nil {
				return c08vSlice{}
			}
			return c08vSlice{a: s.a, off: s.off, n: w, c: s.c}
		case "Clone":
			if s.a == nil {
				return c08vSlice{}
			}
			return x.mkSlice(el)
		case "Insert":
			i, ok1 := asInt(1)
			if !ok1 || i < 0 || int(i) > s.n {
				x.crash("slices.Insert bounds")
				return c08vNil
			}
			vals := append([]c08vVal{}, el[:i]...)
			vals = append(vals, args[2:]...)
			vals = append(vals, el[i:]...)
			return x.mkSlice(vals)
		case "Reverse":
			for i, j := 0, s.n-1; i < j; i, j = i+1, j-1 {
				swap(s, i, j)
			}
			return c08vNil
		}
	case "strings":
		a, ok1 := asStr(0)
		b, ok2 := asStr(1)
		switch cal.Name {
		case "ToLower":
			if ok1 {
				return c08vAtom(strings.ToLower(a))
			}
		case "ToUpper":
			if ok1 {
				return c08vAtom(strings.ToUpper(a))
			}
		case "TrimSpace":
			if ok1 {
				return c08vAtom(strings.TrimSpace(a))
			}
		case "HasPrefix":
			if ok1 && ok2 {
				return c08vBool(strings.HasPrefix(a, b))
			}
		case "HasSuffix":
			if ok1 && ok2 {
				return c08vBool(strings.HasSuffix(a, b))
			}
		case "Contains":
			if ok1 && ok2 {
				return c08vBool(strings.Contains(a, b))
			}
		case "Index":
			if ok1 && ok2 {
				return c08vInt(strings.Index(a, b))
			}
		case "LastIndex":
			if ok1 && ok2 {
				return c08vInt(strings.LastIndex(a, b))
			}
		case "IndexByte":
			if c, ok := asInt(1); ok1 && ok {
				return c08vInt(strings.IndexByte(a, byte(c)))
			}
		case "TrimPrefix":
			if ok1 && ok2 {
				return c08vAtom(strings.TrimPrefix(a, b))
			}
		case "TrimSuffix":
			if ok1 && ok2 {
				return c08vAtom(strings.TrimSuffix(a, b))
			}
		case "EqualFold":
			if ok1 && ok2 {
				return c08vBool(strings.EqualFold(a, b))
			}
		case "CutPrefix":
			if ok1 && ok2 {
				r, f := strings.CutPrefix(a, b)
				return c08vTuple{c08vAtom(r), c08vBool(f)}
			}
		case "CutSuffix":
			if ok1 && ok2 {
				r, f := strings.CutSuffix(a, b)
				return c08vTuple{c08vAtom(r), c08vBool(f)}
			}
		case "Cut":
			if ok1 && ok2 {
				bf, af, f := strings.Cut(a, b)
				return c08vTuple{c08vAtom(bf), c08vAtom(af), c08vBool(f)}
			}
		case "SplitN":
			if n, ok := asInt(2); ok1 && ok2 && ok {
				var vals []c08vVal
				for _, p := range strings.SplitN(a, b, int(n)) {
					vals = append(vals, c08vAtom(p))
				}
				return x.mkSlice(vals)
			}
		}
	case "fmt", "errors":
		return c08vAtom("text")
	}
	// uninterpreted: results that are never inspected (strings for logging, ...)
	if sig := cc.Signature(); sig != nil {
		switch sig.Results().Len() {
		case 0:
			return c08vNil
		case 1:
			if b, ok := sig.Results().At(0).Type().Underlying().(*types.Basic); ok && b.Info()&types.IsString != 0 {
				name := cal.String() + "("
				for i, a := range args {
					if i > 0 {
						name += ","
					}
					name += c08vName(a)
				}
				return c08vAtom(name + ")")
			}
		}
	}
	x.fail("call of %s not modelled", cal.String())
	return c08vNil
}

func c08vName(v c08vVal) string {
	switch t := v.(type) {
	case c08vAtom:
		return string(t)
	case c08vInt:
		return fmt.Sprint(int64(t))
	case *c08vObj:
		if t != nil {
			return fmt.Sprintf("obj%d", t.id)
		}
	case c08vSlice:
		if t.a != nil && t.n > 0 {
			return c08vName(t.a.e[t.off])
		}
	}
	return "?"
}
