package rules

import (
	"mmverify/kit"
)

// C13.R5 — "an equally specific route through a nearer exit is preferred over one through a
// farther exit". The metric a table stores is the hop count (R1-R4); that it is also what the
// CIDR lookup prefers is exactly what the C08 rule set decides for the CIDR table: buckets stay
// ordered by metric after every write (C08.R1), the comparator orders by metric (C08.R2) and the
// scan returns the head of the longest containing prefix, lower metric first at equal length
// (C08.R3). Rather than duplicating those rules, C13 runs them on a private report and carries
// their obligations as C13.R5 (the way C26.R9 carries C27's rules for the extraction that an
// upload performs). Floors of the embedded analysis are notes here: C08 itself reports them.
func c13Preference(p *kit.Program, r *kit.Report) {
	r.Rule("C13.R5", "nearer exit preferred: the CIDR table keeps every bucket ordered by the stored metric after every write, orders by metric alone, and the lookup hands out the head of the longest containing prefix (obligations of C08.R1-R3, decided by the C08 rule set on the same program)")
	sub := kit.NewReport("C08", "embedded")
	runC08(p, sub)
	n := 0
	for _, o := range sub.Obs {
		switch o.Rule {
		case "C08.R1", "C08.R2", "C08.R3":
		default:
			continue
		}
		key := o.Rule + " " + o.Key
		switch o.Status {
		case kit.Discharged:
			n++
			r.OK("C13.R5", key, o.Pos, "%s", o.Detail)
		case kit.Violated:
			n++
			r.Violation("C13.R5", key, o.Pos, "%s; the route handed out for an address is then not the lowest-metric one of its prefix although every stored metric is the hop count: a farther exit is preferred over a nearer one", o.Detail)
		case kit.Undecided:
			r.Undecided("C13.R5", key, o.Pos, "%s", o.Detail)
		}
	}
	for _, f := range sub.Floors {
		r.Note("R5 (embedded C08 analysis): %s", f)
	}
	r.Count("preference_obligations_from_c08", n)
}
