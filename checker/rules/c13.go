package rules

import (
	"fmt"
	"go/token"
	"go/types"
	"strings"

	"golang.org/x/tools/go/ssa"

	"mmverify/kit"
)

func init() {
	register(&Check{
		ID: "C13", Level: "other", Patterns: []string{"./internal/flood"},
		Technique: "value provenance of the Metric field over go/ssa (literals, parameters resolved to call sites, backward slices)",
		Explain: "Decides, for every route record built by routing.Manager from a received announcement, that its Metric is the received metric plus a positive constant (or the path length); that the routes placed in a forwarded RouteAdvertise carry a metric that was incremented for the hop just taken (forwarding the received slice unchanged is the violation); and that full-table replays and origin announcements send the stored metric unmodified (presence routes: 0). " +
			"The preference clause (nearer exit first at equal prefix) is carried as C13.R5 = the C08 ordering/lookup obligations for the CIDR table. Saturation at 65535 and the choice of the configured base metric of local routes are not covered.",
		Run: runC13,
		SelfTests: []SelfTest{
			{Name: "CIDR bucket not re-sorted after an update with a higher metric (seed C13-d class)", ExpectRule: "C13.R5", ExpectKey: "AddRoute bucket replace", Edits: []Edit{
				{File: "internal/routing/table.go", Old: "\t\t\t\tt.routes[key][i] = cloned\n\t\t\t\tt.sortRoutes(key)\n", New: "\t\t\t\tt.routes[key][i] = cloned\n"},
			}},
			{Name: "CIDR bucket not re-sorted after an insertion", ExpectRule: "C13.R5", ExpectKey: "AddRoute bucket insert", Edits: []Edit{
				{File: "internal/routing/table.go", Old: "\tt.routes[key] = append(t.routes[key], cloned)\n\tt.sortRoutes(key)\n", New: "\tt.routes[key] = append(t.routes[key], cloned)\n"},
			}},
			{Name: "increment removed on receipt (CIDR)", ExpectRule: "C13.R1", ExpectKey: "ProcessRouteAdvertise", Edits: []Edit{
				{File: "internal/routing/manager.go", Old: "\t\t\tMetric:      entry.Metric + 1, // Increment metric\n\t\t\tPath:        path,\n\t\t\tEncPath:     encPath,\n\t\t\tSequence:    sequence,\n\t\t}\n\n\t\tif m.table.AddRoute(route) {", New: "\t\t\tMetric:      entry.Metric,\n\t\t\tPath:        path,\n\t\t\tEncPath:     encPath,\n\t\t\tSequence:    sequence,\n\t\t}\n\n\t\tif m.table.AddRoute(route) {"},
			}},
			{Name: "increment removed at the presence-route call site", ExpectRule: "C13.R1", ExpectKey: "ProcessAgentRouteAdvertise", Edits: []Edit{
				{File: "internal/flood/flood.go", Old: "agentID, path, encPath, r.Metric+1)", New: "agentID, path, encPath, r.Metric)"},
			}},
			{Name: "forwarded routes are the received slice again", ExpectRule: "C13.R2", Edits: []Edit{
				{File: "internal/flood/flood.go", Old: "\t\tRoutes:            fwdRoutes,\n", New: "\t\tRoutes:            routes,\n"},
				{File: "internal/flood/flood.go", Old: "\t\tfwdRoutes[i] = r\n\t}\n", New: "\t\tfwdRoutes[i] = r\n\t}\n\t_ = fwdRoutes\n"},
			}},
			{Name: "forwarded routes copied without the increment", ExpectRule: "C13.R2", Edits: []Edit{
				{File: "internal/flood/flood.go", Old: "\t\tr.Metric++\n\t\tfwdRoutes[i] = r\n", New: "\t\tfwdRoutes[i] = r\n"},
			}},
			{Name: "replay adds a hop of its own", ExpectRule: "C13.R3", ExpectKey: "SendFullTable", Edits: []Edit{
				{File: "internal/flood/flood.go", Old: "\t\t\t\tPrefix:        protocol.EncodeForwardKeyWithTarget(r.Key, r.Target),\n\t\t\t\tMetric:        r.Metric,", New: "\t\t\t\tPrefix:        protocol.EncodeForwardKeyWithTarget(r.Key, r.Target),\n\t\t\t\tMetric:        r.Metric + 1,"},
			}},
			{Name: "origin announces its presence at distance one", ExpectRule: "C13.R3", ExpectKey: "AnnounceLocalRoutes", Edits: []Edit{
				{File: "internal/flood/flood.go", Old: "\t\tPrefix:        protocol.EncodeAgentPrefix(f.localID),\n\t\tMetric:        0,", New: "\t\tPrefix:        protocol.EncodeAgentPrefix(f.localID),\n\t\tMetric:        1,"},
			}},
			{Name: "forwarded metric taken from a best-route lookup (seed C13-a)", ExpectRule: "C13.R2", ExpectKey: "forwarded Metric write", Edits: []Edit{
				{File: "internal/flood/flood.go", Old: "\t\tr.Metric++\n\t\tfwdRoutes[i] = r\n", New: "\t\tr.Metric = f.recordedMetric(r)\n\t\tfwdRoutes[i] = r\n"},
				{File: "internal/flood/flood.go", Old: "// floodWithdrawal sends a route withdrawal to all peers except the source.", New: "func (f *Flooder) recordedMetric(r protocol.Route) uint16 {\n\tif r.AddressFamily == protocol.AddrFamilyAgent {\n\t\tif ar := f.routeMgr.LookupAgent(protocol.DecodeAgentPrefix(r.Prefix)); ar != nil {\n\t\t\treturn ar.Metric\n\t\t}\n\t}\n\treturn r.Metric + 1\n}\n\n// floodWithdrawal sends a route withdrawal to all peers except the source."},
			}},
			{Name: "forwarded metric reset to one for presence routes", ExpectRule: "C13.R2", ExpectKey: "forwarded Metric write", Edits: []Edit{
				{File: "internal/flood/flood.go", Old: "\t\tr.Metric++\n\t\tfwdRoutes[i] = r\n", New: "\t\tr.Metric++\n\t\tif r.AddressFamily == protocol.AddrFamilyAgent {\n\t\t\tr.Metric = 1\n\t\t}\n\t\tfwdRoutes[i] = r\n"},
			}},
			{Name: "forwarded metric derived from the number of routes", ExpectRule: "C13.R2", ExpectKey: "forwarded Metric write", Edits: []Edit{
				{File: "internal/flood/flood.go", Old: "\t\tr.Metric++\n\t\tfwdRoutes[i] = r\n", New: "\t\tr.Metric = uint16(len(routes))\n\t\tfwdRoutes[i] = r\n"},
			}},
			{Name: "CIDR entry refreshed in place through the same next hop keeps its path (seeds C13-b, C15-b)", ExpectRule: "C13.R4", ExpectKey: "(*routing.Table).AddRoute", Edits: []Edit{
				{File: "internal/routing/table.go", Old: "\t\t\t\tcloned := route.Clone()\n\t\t\t\tcloned.LastUpdate = now\n\t\t\t\tt.routes[key][i] = cloned\n", New: "\t\t\t\tif r.NextHop == route.NextHop {\n\t\t\t\t\tr.Sequence = route.Sequence\n\t\t\t\t\tr.Metric = route.Metric\n\t\t\t\t\tr.LastUpdate = now\n\t\t\t\t} else {\n\t\t\t\t\tcloned := route.Clone()\n\t\t\t\t\tcloned.LastUpdate = now\n\t\t\t\t\tt.routes[key][i] = cloned\n\t\t\t\t}\n"},
			}},
			{Name: "forward entry: better metric adopted in place, path and next hop kept", ExpectRule: "C13.R4", ExpectKey: "(*routing.ForwardTable).AddRoute", Edits: []Edit{
				{File: "internal/routing/forward.go", Old: "\t\t\t\tcloned := route.Clone()\n\t\t\t\tcloned.LastUpdate = time.Now()\n\t\t\t\tt.routes[key][i] = cloned\n", New: "\t\t\t\t_ = i\n\t\t\t\tr.Metric = route.Metric\n"},
			}},
			{Name: "rewrite: +1 on receipt in a helper, forwarded bump by copy + index loop", Edits: []Edit{
				{File: "internal/routing/manager.go", Old: "\t\t\tMetric:      entry.Metric + 1, // Increment metric\n\t\t\tPath:        path,\n\t\t\tEncPath:     encPath,\n\t\t\tSequence:    sequence,\n\t\t}\n\n\t\tif m.table.AddRoute(route) {", New: "\t\t\tMetric:      metricViaPeer(entry.Metric),\n\t\t\tPath:        path,\n\t\t\tEncPath:     encPath,\n\t\t\tSequence:    sequence,\n\t\t}\n\n\t\tif m.table.AddRoute(route) {"},
				{File: "internal/routing/manager.go", Old: "// RouteEntry is a simplified route for advertisements.", New: "func metricViaPeer(advertised uint16) uint16 {\n\treturn advertised + 1\n}\n\n// RouteEntry is a simplified route for advertisements."},
				{File: "internal/flood/flood.go", Old: "\tfor i, r := range routes {\n\t\tr.Metric++\n\t\tfwdRoutes[i] = r\n\t}\n", New: "\tcopy(fwdRoutes, routes)\n\tfor i := range fwdRoutes {\n\t\tfwdRoutes[i].Metric++\n\t}\n"},
			}},
			{Name: "receipt helper returns the advertised metric unchanged", ExpectRule: "C13.R1", ExpectKey: "ProcessRouteAdvertise", Edits: []Edit{
				{File: "internal/routing/manager.go", Old: "\t\t\tMetric:      entry.Metric + 1, // Increment metric\n\t\t\tPath:        path,\n\t\t\tEncPath:     encPath,\n\t\t\tSequence:    sequence,\n\t\t}\n\n\t\tif m.table.AddRoute(route) {", New: "\t\t\tMetric:      metricViaPeer(entry.Metric),\n\t\t\tPath:        path,\n\t\t\tEncPath:     encPath,\n\t\t\tSequence:    sequence,\n\t\t}\n\n\t\tif m.table.AddRoute(route) {"},
				{File: "internal/routing/manager.go", Old: "// RouteEntry is a simplified route for advertisements.", New: "func metricViaPeer(advertised uint16) uint16 {\n\treturn advertised\n}\n\n// RouteEntry is a simplified route for advertisements."},
			}},
			{Name: "rewrite: learned record copied from a per-advertisement template", Edits: []Edit{
				{File: "internal/routing/manager.go", Old: "\tfor _, entry := range routes {\n\t\troute := &Route{\n\t\t\tNetwork:     entry.Network,\n\t\t\tNextHop:     fromPeer,\n\t\t\tOriginAgent: originAgent,\n\t\t\tMetric:      entry.Metric + 1, // Increment metric\n\t\t\tPath:        path,\n\t\t\tEncPath:     encPath,\n\t\t\tSequence:    sequence,\n\t\t}\n", New: "\ttemplate := Route{NextHop: fromPeer, OriginAgent: originAgent, Path: path, EncPath: encPath, Sequence: sequence}\n\tfor _, entry := range routes {\n\t\tlearned := template\n\t\tlearned.Network = entry.Network\n\t\tlearned.Metric = entry.Metric + 1\n\t\troute := &learned\n"},
			}},
			{Name: "template copy takes the advertised metric as it is", ExpectRule: "C13.R1", ExpectKey: "ProcessRouteAdvertise", Edits: []Edit{
				{File: "internal/routing/manager.go", Old: "\tfor _, entry := range routes {\n\t\troute := &Route{\n\t\t\tNetwork:     entry.Network,\n\t\t\tNextHop:     fromPeer,\n\t\t\tOriginAgent: originAgent,\n\t\t\tMetric:      entry.Metric + 1, // Increment metric\n\t\t\tPath:        path,\n\t\t\tEncPath:     encPath,\n\t\t\tSequence:    sequence,\n\t\t}\n", New: "\ttemplate := Route{NextHop: fromPeer, OriginAgent: originAgent, Path: path, EncPath: encPath, Sequence: sequence}\n\tfor _, entry := range routes {\n\t\tlearned := template\n\t\tlearned.Network = entry.Network\n\t\tlearned.Metric = entry.Metric\n\t\troute := &learned\n"},
			}},
			{Name: "rewrite: forwarded routes built with append and an explicit +1", Edits: []Edit{
				{File: "internal/flood/flood.go", Old: "\tfwdRoutes := make([]protocol.Route, len(routes))\n\tfor i, r := range routes {\n\t\tr.Metric++\n\t\tfwdRoutes[i] = r\n\t}\n", New: "\tvar fwdRoutes []protocol.Route\n\tfor _, r := range routes {\n\t\tfwdRoutes = append(fwdRoutes, protocol.Route{AddressFamily: r.AddressFamily, PrefixLength: r.PrefixLength, Prefix: r.Prefix, Metric: 1 + r.Metric})\n\t}\n"},
			}},
			{Name: "rewrite: increment done by a helper that returns the copy", Edits: []Edit{
				{File: "internal/flood/flood.go", Old: "\tfwdRoutes := make([]protocol.Route, len(routes))\n\tfor i, r := range routes {\n\t\tr.Metric++\n\t\tfwdRoutes[i] = r\n\t}\n", New: "\tfwdRoutes := oneHopFarther(routes)\n"},
				{File: "internal/flood/flood.go", Old: "// floodWithdrawal sends a route withdrawal to all peers except the source.", New: "func oneHopFarther(in []protocol.Route) []protocol.Route {\n\tout := make([]protocol.Route, 0, len(in))\n\tfor _, r := range in {\n\t\tr.Metric = r.Metric + 1\n\t\tout = append(out, r)\n\t}\n\treturn out\n}\n\n// floodWithdrawal sends a route withdrawal to all peers except the source."},
			}},
			{Name: "rewrite: receivers count hops from the path", Edits: []Edit{
				{File: "internal/routing/manager.go", Old: "\t\t\tMetric:      entry.Metric + 1, // Increment metric\n\t\t\tPath:        path,\n\t\t\tEncPath:     encPath,\n\t\t\tSequence:    sequence,\n\t\t}\n\n\t\tif m.table.AddRoute(route) {", New: "\t\t\tMetric:      uint16(len(path)),\n\t\t\tPath:        path,\n\t\t\tEncPath:     encPath,\n\t\t\tSequence:    sequence,\n\t\t}\n\n\t\tif m.table.AddRoute(route) {"},
			}},
		},
	})
}

// c13Lit is a literal of a routing route record (a struct of internal/routing with NextHop, Metric
// and Path fields).
type c13Lit struct {
	fn   *ssa.Function
	typ  *types.Named
	vals map[string]ssa.Value
	pos  token.Pos
	ord  int
}

func (l *c13Lit) key() string {
	return fmt.Sprintf("%s %s literal #%d", kit.FuncName(l.fn), l.typ.Obj().Name(), l.ord)
}

// c13RouteLits lists the route-record literals built inside package internal/routing.
func c13RouteLits(p *kit.Program) []*c13Lit {
	var out []*c13Lit
	ords := map[string]int{}
	for _, fn := range p.FuncsInPkg("internal/routing") {
		// struct copies: `learned := template` stores the loaded template into the new record;
		// the copy starts with the template's fields, and a record that is only a template (its
		// address is used for nothing but initialisation and being copied) is not a record itself
		copiedFrom := map[*ssa.Alloc]*ssa.Alloc{}
		isTemplate := map[*ssa.Alloc]bool{}
		kit.Instrs(fn, func(in ssa.Instruction) {
			st, ok := in.(*ssa.Store)
			if !ok {
				return
			}
			dst, ok1 := st.Addr.(*ssa.Alloc)
			ld, ok2 := st.Val.(*ssa.UnOp)
			if !ok1 || !ok2 || ld.Op != token.MUL {
				return
			}
			if src, ok := ld.X.(*ssa.Alloc); ok && src != dst {
				copiedFrom[dst] = src
				isTemplate[src] = true
			}
		})
		for src := range isTemplate {
			if src.Referrers() == nil {
				continue
			}
			for _, ref := range *src.Referrers() {
				switch x := ref.(type) {
				case *ssa.FieldAddr:
				case *ssa.UnOp:
					// loads are fine when they only feed whole-struct copies
					if x.Referrers() != nil {
						for _, r2 := range *x.Referrers() {
							if st, ok := r2.(*ssa.Store); !ok || st.Val != ssa.Value(x) {
								isTemplate[src] = false
							} else if _, toAlloc := st.Addr.(*ssa.Alloc); !toAlloc {
								isTemplate[src] = false
							}
						}
					}
				case *ssa.Store:
					if x.Addr != ssa.Value(src) {
						isTemplate[src] = false // the pointer itself is stored somewhere
					}
				case *ssa.DebugRef:
				default:
					isTemplate[src] = false // passed on, returned, …
				}
			}
		}
		kit.Instrs(fn, func(in ssa.Instruction) {
			a, ok := in.(*ssa.Alloc)
			if !ok {
				return
			}
			n := c11NamedIn(a.Type(), "internal/routing")
			if n == nil || c11HasField(n, "NextHop") == nil || c11HasField(n, "Metric") == nil || c11HasField(n, "Path") == nil {
				return
			}
			if isTemplate[a] {
				return
			}
			vals, _ := c11FieldStores(a)
			if src := copiedFrom[a]; src != nil && isTemplate[src] {
				base, _ := c11FieldStores(src)
				for k, v := range base {
					if _, own := vals[k]; !own {
						vals[k] = v
					}
				}
			}
			if len(vals) == 0 {
				return // Clone() targets etc. are filled field by field from another record; literals have stores too, filter below
			}
			k := kit.FuncName(fn) + "|" + n.Obj().Name()
			ords[k]++
			out = append(out, &c13Lit{fn: fn, typ: n, vals: vals, pos: a.Pos(), ord: ords[k]})
		})
	}
	return out
}

// c13FieldNamed: v is a load of a struct field with the given name (any struct).
func c13FieldNamed(v ssa.Value, name string) bool {
	f, _ := kit.LoadedField(v)
	return f != nil && f.Name() == name
}

// c13Strip removes conversions.
func c13Strip(v ssa.Value) ssa.Value {
	for {
		switch x := v.(type) {
		case *ssa.Convert:
			v = x.X
		case *ssa.ChangeType:
			v = x.X
		default:
			return v
		}
	}
}

// c13Bound is a value inside a helper together with the binding of the helper's parameters to
// the arguments of the call that was followed to reach it.
type c13Bound struct {
	v    ssa.Value
	bind map[*ssa.Parameter]ssa.Value
}

// c13Unbind strips conversions and replaces bound parameters by their arguments.
func c13Unbind(v ssa.Value, bind map[*ssa.Parameter]ssa.Value) ssa.Value {
	for i := 0; i < 8; i++ {
		v = c13Strip(v)
		prm, ok := v.(*ssa.Parameter)
		if !ok {
			return v
		}
		a, ok := bind[prm]
		if !ok {
			return v
		}
		v = a
	}
	return v
}

// c13IncB: b is <a loaded Metric field> + k, k >= 1 constant; wire: the field must be the Metric
// of a protocol.Route (the received wire metric).
func c13IncB(b c13Bound, wire bool) bool {
	bo, ok := c13Unbind(b.v, b.bind).(*ssa.BinOp)
	if !ok || bo.Op != token.ADD {
		return false
	}
	isMetric := func(x ssa.Value) bool {
		f, base := kit.LoadedField(c13Unbind(x, b.bind))
		if f == nil || f.Name() != "Metric" {
			return false
		}
		if !wire {
			return true
		}
		n := c11NamedIn(base.Type(), "internal/protocol")
		return n != nil && n.Obj().Name() == "Route"
	}
	if k, isc := kit.ConstInt(bo.Y); isc && k >= 1 && isMetric(bo.X) {
		return true
	}
	if k, isc := kit.ConstInt(bo.X); isc && k >= 1 && isMetric(bo.Y) {
		return true
	}
	return false
}

// c13IsIncrement: v is metric+k (k >= 1 constant) of a loaded Metric field.
func c13IsIncrement(v ssa.Value) bool { return c13IncB(c13Bound{v: v}, false) }

// c13IsWireIncrement: v is <Metric of a protocol.Route> + k, k >= 1 constant.
func c13IsWireIncrement(v ssa.Value) bool { return c13IncB(c13Bound{v: v}, true) }

// c13Describe renders a value for a diagnosis: field loads as Type.Field.
func c13Describe(v ssa.Value) string {
	if f, base := kit.LoadedField(c13Strip(v)); f != nil {
		if n := c11NamedOf(base.Type()); n != nil {
			return "the " + f.Name() + " of a " + n.Obj().Pkg().Name() + "." + n.Obj().Name()
		}
	}
	return c12Short(v)
}

// c13AltsB expands a value through phis and through the returns of single-result helpers of the
// repository (parameters bound to the call's arguments).
func c13AltsB(b c13Bound, depth int) []c13Bound {
	if depth > 5 {
		return []c13Bound{b}
	}
	switch x := c13Unbind(b.v, b.bind).(type) {
	case *ssa.Phi:
		var out []c13Bound
		for _, e := range x.Edges {
			if e == ssa.Value(x) {
				continue
			}
			out = append(out, c13AltsB(c13Bound{e, b.bind}, depth+1)...)
		}
		return out
	case *ssa.Call:
		cal := kit.CalleeOf(x)
		if cal.Static != nil && cal.Static.Blocks != nil && kit.IsRepoPkg(kit.FuncPkgPath(cal.Static)) && cal.Static.Signature.Results().Len() == 1 && !x.Call.IsInvoke() {
			nb := map[*ssa.Parameter]ssa.Value{}
			for i, prm := range cal.Static.Params {
				if i < len(x.Call.Args) {
					nb[prm] = c13Unbind(x.Call.Args[i], b.bind)
				}
			}
			var out []c13Bound
			for _, ret := range kit.Returns(cal.Static) {
				if ret.Block() != cal.Static.Recover {
					out = append(out, c13AltsB(c13Bound{kit.ReturnResult(ret, 0), nb}, depth+1)...)
				}
			}
			return out
		}
	}
	return []c13Bound{{c13Unbind(b.v, b.bind), b.bind}}
}

// c13Alts is c13AltsB without the bindings.
func c13Alts(v ssa.Value, depth int) []ssa.Value {
	var out []ssa.Value
	for _, b := range c13AltsB(c13Bound{v: v}, depth) {
		out = append(out, b.v)
	}
	return out
}

// c13IsPathLen: v is len(x) of an agent-id list.
func c13IsPathLen(cx *c11Flood, v ssa.Value) bool {
	c, ok := c13Strip(v).(*ssa.Call)
	return ok && kit.CalleeOf(c).Built == "len" && len(c.Call.Args) == 1 && c11IsAgentList(cx, c.Call.Args[0].Type())
}

func runC13(p *kit.Program, r *kit.Report) {
	r.Rule("C13.R1", "every route record built from a received announcement stores the received metric plus a constant k>=1 (or the path length)")
	r.Rule("C13.R2", "the routes of a forwarded RouteAdvertise carry a Metric that was incremented by a constant k>=1 for the hop just taken (unless receivers derive the metric from the path length)")
	r.Rule("C13.R4", "a stored route record is never refreshed in place with the Metric of a newer advertisement while Path/EncPath keep the older one (Metric, Sequence, Path, EncPath, NextHop change together)")
	r.Rule("C13.R3", "full-table replays and origin announcements send the stored Metric field unmodified (constant 0 for the origin's own presence)")
	c13Preference(p, r)
	cx := newC11Flood(p, r)
	if cx == nil {
		return
	}

	// ---------------- R1
	lits := c13RouteLits(p)
	learned, byLen := 0, 0
	for _, l := range lits {
		nh := l.vals["NextHop"]
		if nh == nil {
			continue
		}
		if _, isParam := nh.(*ssa.Parameter); !isParam {
			continue // locally originated record (NextHop = own id) or a copy
		}
		learned++
		mv := l.vals["Metric"]
		pos := p.Pos(l.pos)
		if mv == nil {
			r.Violation("C13.R1", l.key()+" Metric", pos, "the learned route record is built without a metric: it is stored with metric 0 whatever its distance")
			continue
		}
		var alts []c13Bound
		for _, res := range c11Resolve(p, mv) {
			alts = append(alts, c13AltsB(c13Bound{v: res}, 0)...) // "+1" may live in a small helper
		}
		ok := len(alts) > 0
		allLen := len(alts) > 0
		for _, a := range alts {
			inc, pl := c13IncB(a, false), c13IsPathLen(cx, a.v)
			if !inc && !pl {
				ok = false
			}
			if !pl {
				allLen = false
			}
		}
		if ok && allLen {
			byLen++
		}
		r.Decide(ok, "C13.R1", l.key()+" Metric", pos,
			fmt.Sprintf("metric is received metric + k (k>=1) or the path length at all %d source(s)", len(alts)),
			"the metric stored for a learned route is not the received metric plus one hop: the recorded metric no longer equals the hop count and a farther exit can win the lowest-metric choice")
	}
	r.Count("route_record_literals", len(lits))
	r.Count("learned_route_records", learned)
	r.Require(learned >= 4, "floor: %d learned route records found in internal/routing, expected at least 4 (CIDR, domain, forward, agent)", learned)

	// ---------------- R2
	nFwd := 0
	for _, l := range cx.lits {
		if !cx.reach[l.fn] || l.typ.Obj().Name() != "RouteAdvertise" {
			continue
		}
		nFwd++
		pos := p.Pos(l.alloc.Pos())
		rv := l.vals["Routes"]
		if rv == nil {
			r.Violation("C13.R2", l.key()+" Routes", pos, "the forwarded advertisement carries no routes")
			continue
		}
		incremented := false
		kit.Slice(rv, kit.SliceOpts{Prog: p, FollowParams: true, ParamDepth: 3, FollowCall: func(c ssa.CallInstruction) bool {
			cal := kit.CalleeOf(c)
			return cal.Static != nil && kit.FuncPkgPath(cal.Static) == kit.PkgPath(c11FloodPkg)
		}, Visit: func(v ssa.Value) {
			if c13IsIncrement(v) {
				incremented = true
			}
		}})
		ok := incremented || (learned > 0 && byLen == learned)
		r.Decide(ok, "C13.R2", l.key()+" Routes", pos,
			"the forwarded routes carry metric+k for the hop just taken (or receivers use the path length)",
			"the forwarded routes carry the metric exactly as received: an agent n hops from the origin records metric 1 instead of n, so equally specific routes through nearer and farther exits tie")
	}
	r.Count("forwarded_route_advertise_literals", nFwd)
	r.Require(nFwd >= 1, "floor: no forwarded RouteAdvertise literal found")

	// R2 (provenance): every Metric written into a protocol.Route on the forwarding chain is the
	// received (wire) metric plus a constant — at every alternative (phi edges, returns of helpers)
	fwdScope := map[*ssa.Function]bool{}
	var fwork []*ssa.Function
	for _, h := range cx.handlers {
		for _, la := range c11ForwardedLits(cx, h) {
			if la.lit.typ.Obj().Name() == "RouteAdvertise" && !fwdScope[la.lit.fn] {
				fwdScope[la.lit.fn] = true
				fwork = append(fwork, la.lit.fn)
			}
		}
	}
	for len(fwork) > 0 {
		fn := fwork[len(fwork)-1]
		fwork = fwork[:len(fwork)-1]
		for _, c := range kit.Calls(fn) {
			cal := kit.CalleeOf(c)
			if cal.Static != nil && cal.Static.Blocks != nil && !fwdScope[cal.Static] && kit.FuncPkgPath(cal.Static) == kit.PkgPath(c11FloodPkg) {
				fwdScope[cal.Static] = true
				fwork = append(fwork, cal.Static)
			}
		}
	}
	nMW := 0
	for _, fn := range cx.fns {
		if !fwdScope[fn] {
			continue
		}
		ord := 0
		kit.Instrs(fn, func(in ssa.Instruction) {
			st, ok := in.(*ssa.Store)
			if !ok {
				return
			}
			fa, ok := st.Addr.(*ssa.FieldAddr)
			if !ok {
				return
			}
			f := kit.FieldOfAddr(fa)
			n := c11NamedIn(fa.X.Type(), "internal/protocol")
			if f == nil || f.Name() != "Metric" || n == nil || n.Obj().Name() != "Route" {
				return
			}
			ord++
			nMW++
			var bad []string
			for _, alt := range c13AltsB(c13Bound{v: st.Val}, 0) {
				if !c13IncB(alt, true) && !c13IsPathLen(cx, alt.v) {
					bad = append(bad, c13Describe(alt.v))
				}
			}
			bad = c12Uniq(bad)
			r.Decide(len(bad) == 0, "C13.R2", fmt.Sprintf("%s forwarded Metric write #%d", kit.FuncName(fn), ord), p.Pos(st.Pos()),
				"the forwarded metric is the received metric plus a constant at every source",
				"a forwarded route's metric can also be "+strings.Join(bad, " / ")+", which is not the received metric of this advertisement plus one hop (e.g. the metric of whatever entry a table lookup returns): the path forwarded is this advertisement's path, so downstream agents record a metric that is not the hop count of the recorded path")
		})
	}
	r.Count("forwarded_metric_writes", nMW)

	// ---------------- R3: protocol.Route literals outside the forwarding path
	nOrig := 0
	ords := map[string]int{}
	// scope: the functions that build an announcement outside the forwarding chain (origin
	// announcements, withdrawals, replays) and the flood helpers they call
	scope := map[*ssa.Function]bool{}
	var work []*ssa.Function
	for _, l := range cx.lits {
		if c11HasField(l.typ, "Routes") != nil && !cx.reach[l.fn] && !c12FromHandler(cx, l) && !scope[l.fn] {
			scope[l.fn] = true
			work = append(work, l.fn)
		}
	}
	for len(work) > 0 {
		fn := work[len(work)-1]
		work = work[:len(work)-1]
		for _, c := range kit.Calls(fn) {
			cal := kit.CalleeOf(c)
			if cal.Static != nil && !scope[cal.Static] && !cx.reach[cal.Static] && kit.FuncPkgPath(cal.Static) == kit.PkgPath(c11FloodPkg) {
				scope[cal.Static] = true
				work = append(work, cal.Static)
			}
		}
	}
	r.Count("announce_and_replay_functions", len(scope))
	for _, fn := range cx.fns {
		if !scope[fn] {
			continue
		}
		kit.Instrs(fn, func(in ssa.Instruction) {
			a, ok := in.(*ssa.Alloc)
			if !ok {
				return
			}
			n := c11NamedIn(a.Type(), "internal/protocol")
			if n == nil || n.Obj().Name() != "Route" {
				return
			}
			vals, _ := c11FieldStores(a)
			mv, has := vals["Metric"]
			if !has {
				if len(vals) == 0 {
					return // a local copy (range variable), not a literal
				}
			}
			ords[kit.FuncName(fn)]++
			key := fmt.Sprintf("%s Route literal #%d Metric", kit.FuncName(fn), ords[kit.FuncName(fn)])
			nOrig++
			if !has {
				r.OK("C13.R3", key, p.Pos(a.Pos()), "metric left at 0")
				return
			}
			alts := c11Resolve(p, mv)
			ok2 := len(alts) > 0
			for _, alt := range alts {
				alt = c13Strip(alt)
				if k, isc := kit.ConstInt(alt); isc && k == 0 {
					continue
				}
				if c13FieldNamed(alt, "Metric") {
					continue
				}
				ok2 = false
			}
			r.Decide(ok2, "C13.R3", key, p.Pos(a.Pos()),
				"the advertised metric is the stored Metric field (or 0 for the own presence)",
				"the metric sent by a replay / origin announcement is not the stored metric: receivers add their hop to a value that is already off, so metric and hop count diverge")
		})
	}
	r.Count("origin_or_replay_route_literals", nOrig)
	r.Require(nOrig >= 3, "floor: %d protocol.Route literals found in announce/replay code, expected at least 3", nOrig)

	// ---------------- R4
	g4ReportInPlace(p, r, "C13.R4", "the entry then carries the new advertisement's metric with the old advertisement's path, so the recorded metric is no longer the hop count along the recorded path (and replays send that mismatch on)")
}
